#!/usr/bin/env python3
"""Regenerates MANIFEST.json from targets.py (run after editing targets.py)."""
import json
import os
import sys

ROOT = os.path.dirname(os.path.abspath(__file__))
sys.path.insert(0, ROOT)
import targets as T  # noqa: E402

ALL = ["C%02d" % i for i in range(1, 21)]

checks = []
for pid in ALL:
    if pid not in T.PROPS:
        continue
    P = T.PROPS[pid]
    kinds = sorted({T.TARGETS[x["t"]].get("kind", "rc") for x in P["targets"]})
    engine = " + ".join({"rc": "rapidcheck", "fuzz": "libFuzzer"}[k] for k in kinds)
    checks.append({
        "property_id": pid,
        "quick_cmd": "./check %s --tier quick" % pid,
        "thorough_cmd": "./check %s --tier thorough" % pid,
        "evidence_file": "/verif/evidence/%s.json" % pid,
        "replay_cmd_template": "./check %s --replay {path}" % pid,
        "engine": engine,
        "level_claimed": {
            "category": "exploration",
            "text": P.get("level_text", "generated-input search against an explicit oracle; no absence claim"),
            "design_ref": "DESIGN.md section 5 / %s" % pid,
        },
        "level_note": P.get("level_note", "; ".join(P.get("assumptions", []))),
        "technique": P.get("technique", "property-based testing (rapidcheck), model-based oracle"),
    })

na = []
for pid in ALL:
    if pid not in T.PROPS:
        na.append({"property_id": pid, "reason": T.NOT_APPLICABLE.get(pid, "check not built yet (work in progress); no claim is made")})

m = {
    "version": 1,
    "setup_cmd": "./check --build",
    "hooks": {
        "guard": "AWS_C_COMMON_VERIF",
        "enable": "no source hooks are needed: schedule points come from a force-included header (engine/detsched/atomics_hook.h) "
                  "and link-time --wrap interposition, variants from symbol renaming, observation from public vtables",
        "baseline_off_cmd": "cmake --build /repo/_build && ctest --test-dir /repo/_build -j8 --timeout 900",
        "source_commits": [],
        "add_only": True,
    },
    "engines": [
        {"name": "pbt", "path": "engine/pbt.hpp", "serves_properties": [c["property_id"] for c in checks],
         "kind_free_text": "rapidcheck glue: generic case (cfg + op list), generators, shrinking, journal, fork isolation, replay, evidence counters"},
        {"name": "build", "path": "engine/build.py", "serves_properties": [c["property_id"] for c in checks],
         "kind_free_text": "content-hashed build of sanitizer flavours of the library from /repo's working tree"},
        {"name": "galloc", "path": "engine/galloc.hpp", "serves_properties": [c["property_id"] for c in checks],
         "kind_free_text": "guarded counting aws_allocator (canaries, live table, release observer)"},
        {"name": "detsched", "path": "engine/detsched/detsched.cpp", "serves_properties": ["C03", "C08", "C14", "C15", "C17", "C20"],
         "kind_free_text": "controlled scheduler: real pthreads run one at a time, decision points at lock / condition variable / create / join / "
                           "atomic / clock operations (link-time --wrap + a force-included atomics header), generated schedules, virtual clock, "
                           "deadlock / hang verdicts"},
        {"name": "race", "path": "engine/build.py", "serves_properties": ["C03", "C08", "C14", "C15", "C17", "C20"],
         "kind_free_text": "tsan flavour: the *_race harnesses run generated programs on free-running threads under ThreadSanitizer; "
                           "race_oracle targets are not shrunk and are reported when 2 of up to 12 replays show the report"},
        {"name": "fuzz", "path": "engine/fuzz.hpp", "serves_properties": ["C04", "C05"],
         "kind_free_text": "libFuzzer targets with the oracle inside the target (views inside the input, error raised on failure, exact heap copies), "
                           "dictionaries and coverage-grown seed corpora under corpus/"},
    ] + T.EXTRA_ENGINES,
    "checks": checks,
    "not_applicable": na,
    "notes": "All checks are generated-input searches (rapidcheck / libFuzzer) with the oracle inside the target; see DESIGN.md. "
             "Genuine defects found are listed in known_findings.json.",
}
with open(os.path.join(ROOT, "MANIFEST.json"), "w") as f:
    json.dump(m, f, indent=1)
    f.write("\n")
print("MANIFEST.json: %d checks, %d not_applicable" % (len(checks), len(na)))

#!/usr/bin/env python3
"""Builds library object sets ("flavours") and harness binaries from /repo's
current working tree.  Everything is cached under /verif/.build by content
hash, so a check rebuilds exactly what an edit under /repo invalidates.

Usage (also importable):
    build.py flavour <name>
    build.py target <name>
    build.py all
"""
import concurrent.futures as cf
import threading
import glob
import hashlib
import os
import subprocess
import sys
import time

REPO = os.environ.get("VERIF_REPO", "/repo")
ROOT = os.path.dirname(os.path.dirname(os.path.abspath(__file__)))
BUILD = os.path.join(ROOT, ".build")
CC = "clang"
CXX = "clang++"
JOBS = int(os.environ.get("VERIF_JOBS", "16"))

DEFINES = [
    "-DAWS_AFFINITY_METHOD=AWS_AFFINITY_METHOD_PTHREAD_ATTR",
    "-DAWS_PTHREAD_GETNAME_TAKES_3ARGS",
    "-DAWS_PTHREAD_SETNAME_TAKES_2ARGS",
    "-DCJSON_HIDE_SYMBOLS",
    "-DHAVE_SYSCONF",
    "-DINTEL_NO_ITTNOTIFY_API",
    "-DUSE_SIMD_ENCODING",
    "-D_POSIX_C_SOURCE=200809L",
    "-D_XOPEN_SOURCE=500",
]
CONFIG_ON = [
    "AWS_HAVE_GCC_OVERFLOW_MATH_EXTENSIONS", "AWS_HAVE_GCC_INLINE_ASM",
    "AWS_HAVE_POSIX_LARGE_FILE_SUPPORT", "AWS_HAVE_EXECINFO",
    "AWS_HAVE_LINUX_IF_LINK_H", "AWS_HAVE_AVX2_INTRINSICS",
    "AWS_HAVE_AVX512_INTRINSICS", "AWS_HAVE_MM256_EXTRACT_EPI64",
    "AWS_HAVE_CLMUL", "AWS_ARCH_INTEL", "AWS_ARCH_INTEL_X64",
    "AWS_USE_CPU_EXTENSIONS",
]

UBSAN_C = "bounds,null,unreachable,vla-bound"
UBSAN_CXX = "bounds,null,unreachable,return,vla-bound"
BASE = ["-g", "-O1", "-fno-omit-frame-pointer", "-fPIC"]

# The atomics hook is force-included into the library objects of the "sched"
# flavour; see engine/detsched/atomics_hook.h.
HOOK = os.path.join(ROOT, "engine", "detsched", "atomics_hook.h")

FLAVOURS = {
    # name: (C flags for library objects, C++ flags for harness TU, link flags)
    "asan": dict(
        c=BASE + ["-DNDEBUG", "-fsanitize=address," + UBSAN_C, "-fno-sanitize-recover=all"],
        cxx=BASE + ["-fsanitize=address," + UBSAN_CXX, "-fno-sanitize-recover=all"],
        ld=["-fsanitize=address," + UBSAN_CXX]),
    "asan-dbg": dict(
        c=BASE + ["-UNDEBUG", "-DDEBUG_BUILD", "-fsanitize=address," + UBSAN_C, "-fno-sanitize-recover=all"],
        cxx=BASE + ["-DDEBUG_BUILD", "-fsanitize=address," + UBSAN_CXX, "-fno-sanitize-recover=all"],
        ld=["-fsanitize=address," + UBSAN_CXX]),
    "asan-fco": dict(  # + float-cast-overflow (C10)
        c=BASE + ["-DNDEBUG", "-fsanitize=address,float-cast-overflow," + UBSAN_C, "-fno-sanitize-recover=all"],
        cxx=BASE + ["-fsanitize=address,float-cast-overflow," + UBSAN_CXX, "-fno-sanitize-recover=all"],
        ld=["-fsanitize=address,float-cast-overflow," + UBSAN_CXX]),
    "fuzz": dict(
        c=BASE + ["-DNDEBUG", "-fsanitize=fuzzer-no-link,address," + UBSAN_C, "-fno-sanitize-recover=all"],
        cxx=BASE + ["-fsanitize=fuzzer-no-link,address," + UBSAN_CXX, "-fno-sanitize-recover=all"],
        ld=["-fsanitize=fuzzer,address," + UBSAN_CXX]),
    # the library and the harness as gcc / g++ -O2 build them (the project's own compiler): what gcc's optimiser makes of the
    # sources differs from clang's in places that matter (DESIGN 9.2: dead stores before free(), operands sharing a register)
    "gcc-asan": dict(
        cc="gcc", cxx_compiler="g++",
        c=["-g", "-O2", "-fno-omit-frame-pointer", "-fPIC", "-DNDEBUG", "-fsanitize=address,bounds,null,unreachable,vla-bound",
           "-fno-sanitize-recover=all"],
        cxx=["-g", "-O2", "-fno-omit-frame-pointer", "-fPIC", "-fsanitize=address,bounds,null,unreachable,return,vla-bound",
             "-fno-sanitize-recover=all"],
        ld=["-fsanitize=address,bounds,null,unreachable,return,vla-bound"]),
    # free-running real threads under ThreadSanitizer: data races the controlled scheduler cannot see because a plain
    # (non-atomic, unlocked) access offers it no decision point (DESIGN 4.4 / 9.5)
    "tsan": dict(
        c=BASE + ["-DNDEBUG", "-fsanitize=thread"],
        cxx=BASE + ["-fsanitize=thread"],
        ld=["-fsanitize=thread"]),
    # development aid (tools/coverage.sh): source-based coverage of the library under the harnesses, no sanitizers
    "cov": dict(
        c=BASE + ["-DNDEBUG", "-fprofile-instr-generate", "-fcoverage-mapping"],
        cxx=BASE + ["-fprofile-instr-generate", "-fcoverage-mapping"],
        ld=["-fprofile-instr-generate"]),
    "cov-sched": dict(  # same, for the targets that run under the controlled scheduler
        c=BASE + ["-DNDEBUG", "-fprofile-instr-generate", "-fcoverage-mapping", "-include", HOOK],
        cxx=BASE + ["-fprofile-instr-generate", "-fcoverage-mapping", "-DVERIF_SCHED=1"],
        ld=["-fprofile-instr-generate"]),
    "sched": dict(
        c=BASE + ["-DNDEBUG", "-fsanitize=address," + UBSAN_C, "-fno-sanitize-recover=all",
                  "-include", HOOK],
        cxx=BASE + ["-fsanitize=address," + UBSAN_CXX, "-fno-sanitize-recover=all", "-DVERIF_SCHED=1"],
        ld=["-fsanitize=address," + UBSAN_CXX]),
}

WRAP_SYMS = [
    "pthread_mutex_lock", "pthread_mutex_trylock", "pthread_mutex_unlock",
    "pthread_cond_wait", "pthread_cond_timedwait", "pthread_cond_signal", "pthread_cond_broadcast",
    "pthread_create", "pthread_join", "pthread_detach",
    "pthread_rwlock_rdlock", "pthread_rwlock_wrlock", "pthread_rwlock_unlock",
    "pthread_rwlock_tryrdlock", "pthread_rwlock_trywrlock",
    "clock_gettime", "nanosleep", "sched_yield",
]


def sh(cmd, **kw):
    r = subprocess.run(cmd, stdout=subprocess.PIPE, stderr=subprocess.STDOUT, text=True, **kw)
    return r.returncode, r.stdout


def sha(*parts):
    h = hashlib.sha256()
    for p in parts:
        if isinstance(p, str):
            p = p.encode()
        h.update(p)
        h.update(b"\0")
    return h.hexdigest()[:24]


def file_digest(path):
    with open(path, "rb") as f:
        return hashlib.sha256(f.read()).hexdigest()


_hdr_digest = None


def header_digest():
    """One digest over every header / inline file a library object may include."""
    global _hdr_digest
    if _hdr_digest is None:
        files = []
        for pat in ("include/**/*.h", "include/**/*.inl", "include/**/*.in", "source/**/*.h", "source/**/*.inl"):
            files += glob.glob(os.path.join(REPO, pat), recursive=True)
        files = sorted(set(files))
        h = hashlib.sha256()
        for f in files:
            h.update(f.encode())
            h.update(file_digest(f).encode())
        _hdr_digest = h.hexdigest()
    return _hdr_digest


def library_sources():
    pats = ["source/*.c", "source/posix/*.c", "source/linux/*.c", "source/arch/intel/cpuid.c",
            "source/arch/intel/asm/*.c", "source/external/*.c", "source/external/libcbor/*.c",
            "source/external/libcbor/cbor/*.c", "source/external/libcbor/cbor/internal/*.c",
            "source/arch/intel/encoding_avx2.c"]
    out = []
    for p in pats:
        out += sorted(glob.glob(os.path.join(REPO, p)))
    return out


def gen_config():
    """Render config.h from the repository's own config.h.in (feature set of the pinned x86-64/Linux baseline)."""
    src = open(os.path.join(REPO, "include/aws/common/config.h.in")).read()
    lines = []
    for ln in src.splitlines():
        if ln.startswith("#cmakedefine"):
            name = ln.split()[1]
            lines.append("#define " + name if name in CONFIG_ON else "/* #undef " + name + " */")
        else:
            lines.append(ln)
    text = "\n".join(lines) + "\n"
    d = os.path.join(BUILD, "gen", "aws", "common")
    os.makedirs(d, exist_ok=True)
    p = os.path.join(d, "config.h")
    if not os.path.exists(p) or open(p).read() != text:
        with open(p, "w") as f:
            f.write(text)
    return os.path.join(BUILD, "gen")


def includes():
    return ["-I" + os.path.join(REPO, "source/external/libcbor"), "-I" + os.path.join(REPO, "include"),
            "-I" + gen_config()]


def _compile_one(args):
    cmd, out = args
    tmp = out + ".tmp%d.%d" % (os.getpid(), threading.get_ident())
    rc, o = sh(cmd + ["-o", tmp])
    if rc != 0:
        return rc, " ".join(cmd) + "\n" + o
    os.replace(tmp, out)
    return 0, o


def _touch(p):
    try:
        os.utime(p, None)
    except OSError:
        pass


def gc(max_age_h=12.0):
    """Nothing is deleted while building (concurrent checks on different trees share the cache);
    files that no build has used for max_age_h hours are pruned here, on request."""
    cutoff = time.time() - max_age_h * 3600
    n = 0
    for pat in ("obj/*/*.o", "obj/*.o", "lib/*.a", "bin/*"):
        for f in glob.glob(os.path.join(BUILD, pat)):
            try:
                if os.path.getmtime(f) < cutoff:
                    os.unlink(f)
                    n += 1
            except OSError:
                pass
    return n


def build_flavour(name, log=sys.stderr):
    """Returns the path of a static archive holding all library objects of this flavour."""
    fl = FLAVOURS[name]
    hd = header_digest()
    if name in ("sched", "cov-sched"):
        hd = sha(hd, file_digest(HOOK))
    inc = includes()
    objdir = os.path.join(BUILD, "obj", name)
    os.makedirs(objdir, exist_ok=True)
    jobs, objs = [], []
    for src in library_sources():
        flags = list(fl["c"]) + ["-std=gnu99", "-w"] + DEFINES
        if src.endswith("encoding_avx2.c"):
            flags += ["-mavx", "-mavx2"]
        key = sha(" ".join(flags), file_digest(src), hd, src)
        obj = os.path.join(objdir, os.path.basename(src)[:-2] + "-" + key + ".o")
        objs.append(obj)
        if os.path.exists(obj):
            _touch(obj)
        else:
            jobs.append(([fl.get("cc", CC)] + flags + inc + ["-c", src], obj))
    t0 = time.time()
    if jobs:
        with cf.ThreadPoolExecutor(JOBS) as ex:
            for rc, o in ex.map(_compile_one, jobs):
                if rc != 0:
                    log.write(o)
                    raise SystemExit("BUILD-ERROR: library flavour %s failed to compile" % name)
    akey = sha(*objs)
    ar = os.path.join(BUILD, "lib", "%s-%s.a" % (name, akey))
    if os.path.exists(ar):
        _touch(ar)
    else:
        os.makedirs(os.path.dirname(ar), exist_ok=True)
        tmp = ar + ".tmp%d.%d" % (os.getpid(), threading.get_ident())
        rc, o = sh(["ar", "rcs", tmp] + objs)
        if rc != 0:
            log.write(o)
            raise SystemExit("BUILD-ERROR: ar failed")
        os.replace(tmp, ar)
    if jobs:
        log.write("[build] flavour %s: %d objects compiled in %.1fs\n" % (name, len(jobs), time.time() - t0))
    return ar


def build_portable_encoding(log=sys.stderr, flavour="asan"):
    """encoding.c without USE_SIMD_ENCODING, exported symbols renamed pt_*, so that the portable
    base64 code links next to the SIMD build (C05 code-path independence)."""
    src = os.path.join(REPO, "source/encoding.c")
    ren = ["aws_hex_compute_encoded_len", "aws_hex_encode", "aws_hex_encode_append_dynamic",
           "aws_hex_compute_decoded_len", "aws_hex_decode", "aws_base64_compute_encoded_len",
           "aws_base64_compute_decoded_len", "aws_base64_encode", "aws_base64_decode",
           "aws_utf8_skip_bom", "aws_utf8_decoder_new", "aws_utf8_decoder_destroy", "aws_utf8_decoder_reset",
           "aws_utf8_decoder_update", "aws_utf8_decoder_finalize", "aws_decode_utf8",
           "aws_text_detect_encoding", "aws_text_is_utf8", "aws_text_is_valid_utf8", "aws_common_private_base64_decode_sse41"]
    fl = FLAVOURS[flavour if flavour == "gcc-asan" else "asan"]
    flags = list(fl["c"]) + ["-std=gnu99", "-w"] + [d for d in DEFINES if d != "-DUSE_SIMD_ENCODING"]
    flags += ["-D%s=pt_%s" % (s, s) for s in ren]
    cc = fl.get("cc", CC)
    key = sha(cc + " " + " ".join(flags), file_digest(src), header_digest())
    obj = os.path.join(BUILD, "obj", "enc-portable-%s.o" % key)
    if not os.path.exists(obj):
        os.makedirs(os.path.dirname(obj), exist_ok=True)
        rc, o = _compile_one(([cc] + flags + includes() + ["-c", src], obj))
        if rc != 0:
            log.write(o)
            raise SystemExit("BUILD-ERROR: portable encoding.c failed to compile")
    return obj


def build_gcc_harness_object(rel, log=sys.stderr):
    """A C file of the harness (relative to /verif) compiled by gcc -O2 against /repo's headers."""
    src = os.path.join(ROOT, rel)
    flags = ["-g", "-O2", "-fPIC", "-DNDEBUG", "-std=gnu99", "-w"] + DEFINES
    key = sha("gcc-h " + " ".join(flags), file_digest(src), header_digest())
    obj = os.path.join(BUILD, "obj", "gcch-%s-%s.o" % (os.path.basename(rel).replace(".c", ""), key))
    if not os.path.exists(obj):
        os.makedirs(os.path.dirname(obj), exist_ok=True)
        rc, o = _compile_one((["gcc"] + flags + includes() + ["-c", src], obj))
        if rc != 0:
            log.write(o)
            raise SystemExit("BUILD-ERROR: gcc build of %s failed" % rel)
    else:
        _touch(obj)
    return obj


def build_gcc_object(rel, log=sys.stderr):
    """One library source compiled by gcc -O2 (no sanitizer), to be linked in front of the clang-built archive.

    Some behaviour depends on what the optimiser makes of the source: gcc removes the stores that erase a small-block
    page's tags right before free() as dead stores, clang 14 keeps them (DESIGN 9.2, sba-freed-page-keeps-tags).  The
    project itself is built with gcc, so a target can ask for the file as gcc builds it."""
    src = os.path.join(REPO, rel)
    flags = ["-g", "-O2", "-fPIC", "-fno-omit-frame-pointer", "-DNDEBUG", "-std=gnu99", "-w"] + DEFINES
    if rel.endswith("encoding_avx2.c"):
        flags += ["-mavx", "-mavx2"]
    key = sha("gcc " + " ".join(flags), file_digest(src), header_digest())
    obj = os.path.join(BUILD, "obj", "gcc-%s-%s.o" % (os.path.basename(rel).replace(".c", ""), key))
    if not os.path.exists(obj):
        os.makedirs(os.path.dirname(obj), exist_ok=True)
        rc, o = _compile_one((["gcc"] + flags + includes() + ["-c", src], obj))
        if rc != 0:
            log.write(o)
            raise SystemExit("BUILD-ERROR: gcc build of %s failed" % rel)
    else:
        _touch(obj)
    return obj


def engine_digest(with_sched=False):
    h = hashlib.sha256()
    for pat in ("engine/*.hpp", "engine/*.h", "engine/refs/*") + (("engine/detsched/*",) if with_sched else ()):
        for f in sorted(glob.glob(os.path.join(ROOT, pat))):
            if os.path.isfile(f):
                h.update(f.encode())
                h.update(file_digest(f).encode())
    return h.hexdigest()


def build_target(t, log=sys.stderr):
    """t: dict(name, src, flavour, kind['rc'|'fuzz'|'plain'], extra_objs=[...], wrap=bool, cxxflags=[...])
    Returns path of the binary."""
    fl = FLAVOURS[t["flavour"]]
    ar = build_flavour(t["flavour"], log)
    src = os.path.join(ROOT, t["src"])
    extra = []
    if t.get("portable_encoding"):
        extra.append(build_portable_encoding(log, t["flavour"]))
    for rel in t.get("gcc_objects", []):
        extra.append(build_gcc_object(rel, log))
    for rel in t.get("gcc_harness_objects", []):
        extra.append(build_gcc_harness_object(rel, log))
    flags = [fl.get("cxx_compiler", CXX), "-std=gnu++17", "-w"] + fl["cxx"] + t.get("cxxflags", []) + DEFINES + includes() + \
            ["-I" + os.path.join(ROOT, "engine"), "-I" + REPO]
    ld = list(fl["ld"])
    if t.get("wrap"):
        ld += ["-Wl,--wrap=" + s for s in WRAP_SYMS]
    libs = []
    if t.get("kind", "rc") == "rc":
        libs.append("-lrapidcheck")
    libs += ["-lpthread", "-ldl", "-lm"]
    scheds = []
    if t.get("wrap"):
        scheds.append(os.path.join(ROOT, "engine", "detsched", "detsched.cpp"))
    key = sha(" ".join(flags + ld + libs), file_digest(src), engine_digest(bool(t.get("wrap"))), header_digest(), ar, *extra)
    bindir = os.path.join(BUILD, "bin")
    os.makedirs(bindir, exist_ok=True)
    out = os.path.join(bindir, "%s-%s" % (t["name"], key))
    if os.path.exists(out):
        _touch(out)
        return out
    t0 = time.time()
    tmp = out + ".tmp%d.%d" % (os.getpid(), threading.get_ident())
    cmd = flags + [src] + scheds + extra + [ar] + ld + libs + ["-o", tmp]
    rc, o = sh(cmd)
    if rc != 0:
        log.write(" ".join(cmd) + "\n" + o)
        raise SystemExit("BUILD-ERROR: target %s failed to build" % t["name"])
    os.replace(tmp, out)
    log.write("[build] target %s built in %.1fs\n" % (t["name"], time.time() - t0))
    return out


if __name__ == "__main__":
    sys.path.insert(0, ROOT)
    import targets as T
    if len(sys.argv) >= 3 and sys.argv[1] == "flavour":
        print(build_flavour(sys.argv[2]))
    elif len(sys.argv) >= 3 and sys.argv[1] == "target":
        print(build_target(T.TARGETS[sys.argv[2]]))
    elif len(sys.argv) >= 2 and sys.argv[1] == "all":
        fls = sorted({t["flavour"] for t in T.TARGETS.values()})
        for f in fls:
            build_flavour(f)
        with cf.ThreadPoolExecutor(JOBS) as ex:
            list(ex.map(build_target, T.TARGETS.values()))
        print("built %d flavours, %d targets" % (len(fls), len(T.TARGETS)))
    else:
        print(__doc__)
        sys.exit(2)

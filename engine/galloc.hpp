// galloc.hpp — guarded counting aws_allocator used by the harnesses.
//
// every block = [64-byte front canary | payload]; the payload ends exactly at the end of the
// malloc block, so that AddressSanitizer's redzone follows it directly and a one-byte read or
// write past the payload is reported (a rear canary would hide small over-reads from ASan; all
// flavours are built with ASan).  Payload pre-filled with 0xA5; the front canary is verified on
// release / realloc / check_all();
// live-block table for balance checks; a release observer sees (payload,size)
// before the block is scribbled with 0xDD and freed.  Requests above a ceiling
// abort ("generator bug"): out-of-memory is fatal by design in aws-c-common, so
// it is never part of a property's domain.
#pragma once
#include <aws/common/allocator.h>

#include <cstdint>
#include <cstdio>
#include <cstdlib>
#include <cstring>
#include <functional>
#include <map>
#include <mutex>
#include <pthread.h>

#ifdef VERIF_SCHED
// under the controlled scheduler pthread_mutex_lock is interposed (it is a schedule point);
// the allocator's own lock must not be one
extern "C" int __real_pthread_mutex_lock(pthread_mutex_t *);
extern "C" int __real_pthread_mutex_unlock(pthread_mutex_t *);
#endif

namespace galloc {

struct RawMutex {
    pthread_mutex_t m = PTHREAD_MUTEX_INITIALIZER;
#ifdef VERIF_SCHED
    void lock() { __real_pthread_mutex_lock(&m); }
    void unlock() { __real_pthread_mutex_unlock(&m); }
#else
    void lock() { pthread_mutex_lock(&m); }
    void unlock() { pthread_mutex_unlock(&m); }
#endif
};

static const size_t CANARY = 64;  // front
static const size_t REAR = 0;     // see above
static const size_t CEILING = 256u << 20;

struct Block {
    size_t size;
    uint64_t serial;
};

struct State {
    std::map<uintptr_t, Block> live;
    uint64_t serial = 0;
    uint64_t acquires = 0, releases = 0, reallocs = 0;
    size_t live_bytes = 0;
    bool corrupt = false;
    char corrupt_msg[160] = {0};
    std::function<void(void *, size_t)> on_release;
    // real (process) mutex: under the controlled scheduler only one thread runs at a
    // time, and no schedule point lies inside these critical sections.
    RawMutex mu;
};

inline State &S() {
    static State *s = new State();
    return *s;
}

inline unsigned char front_byte(uintptr_t p, size_t i) { return (unsigned char)(0xC3 ^ (i * 7) ^ (p >> 4)); }

inline void set_canaries(unsigned char *raw, size_t size) {
    uintptr_t p = (uintptr_t)(raw + CANARY);
    for (size_t i = 0; i < CANARY; i++) raw[i] = front_byte(p, i);
    for (size_t i = 0; i < REAR; i++) raw[CANARY + size + i] = front_byte(p, i + 64);
}
inline bool check_canaries(const unsigned char *raw, size_t size) {
    uintptr_t p = (uintptr_t)(raw + CANARY);
    for (size_t i = 0; i < CANARY; i++)
        if (raw[i] != front_byte(p, i)) return false;
    for (size_t i = 0; i < REAR; i++)
        if (raw[CANARY + size + i] != front_byte(p, i + 64)) return false;
    return true;
}

inline void mark_corrupt(const char *what, void *p, size_t size) {
    State &s = S();
    if (!s.corrupt) {
        s.corrupt = true;
        snprintf(s.corrupt_msg, sizeof s.corrupt_msg, "galloc: %s (block %p size %zu)", what, p, size);
    }
}

inline void *g_acquire(struct aws_allocator *, size_t size) {
    if (size > CEILING) {
        fprintf(stderr, "galloc: request of %zu bytes above ceiling — generator bug (OOM is outside every domain)\n", size);
        abort();
    }
    unsigned char *raw = (unsigned char *)malloc(size + CANARY + REAR);
    if (!raw) abort();
    memset(raw + CANARY, 0xA5, size);
    set_canaries(raw, size);
    State &s = S();
    std::lock_guard<RawMutex> g(s.mu);
    s.live[(uintptr_t)(raw + CANARY)] = Block{size, ++s.serial};
    s.acquires++;
    s.live_bytes += size;
    return raw + CANARY;
}

inline void g_release(struct aws_allocator *, void *ptr) {
    if (!ptr) return;
    State &s = S();
    size_t size;
    {
        std::lock_guard<RawMutex> g(s.mu);
        auto it = s.live.find((uintptr_t)ptr);
        if (it == s.live.end()) {
            fprintf(stderr, "galloc: release of %p which is not a live block (double free / foreign pointer)\n", ptr);
            abort();
        }
        size = it->second.size;
        s.live.erase(it);
        s.releases++;
        s.live_bytes -= size;
    }
    unsigned char *raw = (unsigned char *)ptr - CANARY;
    if (!check_canaries(raw, size)) mark_corrupt("canary damaged, seen at release", ptr, size);
    if (s.on_release) s.on_release(ptr, size);
    memset(ptr, 0xDD, size);
    free(raw);
}

inline void *g_realloc(struct aws_allocator *a, void *old, size_t oldsize, size_t newsize) {
    State &s = S();
    {
        std::lock_guard<RawMutex> g(s.mu);
        s.reallocs++;
    }
    if (!old) return g_acquire(a, newsize);
    size_t real_old;
    {
        std::lock_guard<RawMutex> g(s.mu);
        auto it = s.live.find((uintptr_t)old);
        if (it == s.live.end()) {
            fprintf(stderr, "galloc: realloc of %p which is not a live block\n", old);
            abort();
        }
        real_old = it->second.size;
    }
    (void)oldsize;
    void *n = g_acquire(a, newsize);
    memcpy(n, old, real_old < newsize ? real_old : newsize);
    g_release(a, old);
    return n;
}

inline void *g_calloc(struct aws_allocator *a, size_t num, size_t size) {
    void *p = g_acquire(a, num * size);
    memset(p, 0, num * size);
    return p;
}

// allocator with all four entry points, and one with acquire/release only
inline struct aws_allocator *full() {
    static struct aws_allocator a = {g_acquire, g_release, g_realloc, g_calloc, nullptr};
    return &a;
}
inline struct aws_allocator *basic() {
    static struct aws_allocator a = {g_acquire, g_release, nullptr, nullptr, nullptr};
    return &a;
}

inline size_t live_blocks() {
    std::lock_guard<RawMutex> g(S().mu);
    return S().live.size();
}
inline size_t live_bytes() {
    std::lock_guard<RawMutex> g(S().mu);
    return S().live_bytes;
}
inline bool is_live(const void *p, size_t *size = nullptr) {
    std::lock_guard<RawMutex> g(S().mu);
    auto it = S().live.find((uintptr_t)p);
    if (it == S().live.end()) return false;
    if (size) *size = it->second.size;
    return true;
}
// block containing address p (payload range), if any
inline bool containing(const void *p, uintptr_t *base, size_t *size) {
    std::lock_guard<RawMutex> g(S().mu);
    auto &m = S().live;
    auto it = m.upper_bound((uintptr_t)p);
    if (it == m.begin()) return false;
    --it;
    if ((uintptr_t)p >= it->first && (uintptr_t)p <= it->first + it->second.size) {
        *base = it->first;
        *size = it->second.size;
        return true;
    }
    return false;
}
// verifies every live block's canaries; returns false (and a message) on damage
inline bool check_all(const char **msg = nullptr) {
    State &s = S();
    std::lock_guard<RawMutex> g(s.mu);
    for (auto &kv : s.live) {
        const unsigned char *raw = (const unsigned char *)kv.first - CANARY;
        if (!check_canaries(raw, kv.second.size)) mark_corrupt("canary damaged", (void *)kv.first, kv.second.size);
    }
    if (s.corrupt && msg) *msg = s.corrupt_msg;
    return !s.corrupt;
}
// start of a case: forget everything (blocks still live from a failed earlier case are abandoned)
inline void reset() {
    State &s = S();
    std::lock_guard<RawMutex> g(s.mu);
    s.live.clear();
    s.live_bytes = 0;
    s.corrupt = false;
    s.corrupt_msg[0] = 0;
    s.on_release = nullptr;
    s.acquires = s.releases = s.reallocs = 0;
}

} // namespace galloc

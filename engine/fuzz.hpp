// fuzz.hpp — shared glue for the libFuzzer targets in /verif/fuzz (property C04 and the decode side
// of C05/C10-C13).  The semantic oracle lives inside each target; this header provides
//   * counters written to $VERIF_FUZZ_STATS (evaluations, distinct non-trivial inputs, classes, samples),
//   * FZ_FAIL(...) — print the verdict, flush counters, trap (libFuzzer then saves the input),
//   * the failure-channel check (AWS_OP_ERR => a registered error code was raised),
//   * in-bounds checks for views handed back into the input.
#pragma once
#include <aws/common/common.h>
#include <aws/common/error.h>

#include <cstdarg>
#include <cstdint>
#include <cstdio>
#include <cstdlib>
#include <cstring>
#include <map>
#include <string>
#include <unordered_set>
#include <vector>

#include "galloc.hpp"

namespace fz {

struct Stats {
    uint64_t evaluations = 0;
    std::unordered_set<uint64_t> nt;
    std::map<std::string, uint64_t> tags;
    std::vector<std::string> samples;
    const char *target = "";
    const char *property = "";
    const char *rule = "";
};
inline Stats &S() {
    static Stats s;
    return s;
}
inline uint64_t fnv(const uint8_t *d, size_t n) {
    uint64_t h = 1469598103934665603ull;
    for (size_t i = 0; i < n; i++) {
        h ^= d[i];
        h *= 1099511628211ull;
    }
    return h;
}
inline std::string hexs(const uint8_t *d, size_t n) {
    static const char *x = "0123456789abcdef";
    std::string o;
    for (size_t i = 0; i < n && i < 200; i++) {
        o.push_back(x[d[i] >> 4]);
        o.push_back(x[d[i] & 15]);
    }
    if (n > 200) o += "...";
    return o;
}
inline void flush() {
    const char *p = getenv("VERIF_FUZZ_STATS");
    if (!p || !*p) return;
    std::string tmp = std::string(p) + ".tmp";
    FILE *f = fopen(tmp.c_str(), "w");
    if (!f) return;
    Stats &s = S();
    fprintf(f, "{\"property\":\"%s\",\"target\":\"%s\",\"evaluations\":%llu,\"distinct\":%zu,\"distinct_nontrivial\":%zu,\"rule\":\"%s\",\"tags\":{",
            s.property, s.target, (unsigned long long)s.evaluations, s.nt.size(), s.nt.size(), s.rule);
    bool first = true;
    for (auto &kv : s.tags) {
        fprintf(f, "%s\"%s\":%llu", first ? "" : ",", kv.first.c_str(), (unsigned long long)kv.second);
        first = false;
    }
    fprintf(f, "},\"nt_hashes\":[");
    first = true;
    size_t k = 0;
    for (auto h : s.nt) {
        if (k++ >= 100000) break;
        fprintf(f, "%s%llu", first ? "" : ",", (unsigned long long)h);
        first = false;
    }
    fprintf(f, "],\"samples\":[");
    first = true;
    for (auto &x : s.samples) {
        fprintf(f, "%s\"hex:%s\"", first ? "" : ",", x.c_str());
        first = false;
    }
    fprintf(f, "]}\n");
    fclose(f);
    rename(tmp.c_str(), p);
}
inline void setup(const char *property, const char *target, const char *rule) {
    S().property = property;
    S().target = target;
    S().rule = rule;
    atexit(flush);
}
// call once per input; nontrivial decided by the target
inline void count(const uint8_t *d, size_t n, bool nontrivial) {
    Stats &s = S();
    s.evaluations++;
    if (nontrivial) {
        if (s.nt.size() < 400000) s.nt.insert(fnv(d, n));
        if (s.samples.size() < 6 && (s.evaluations & (s.evaluations - 1)) == 0) s.samples.push_back(hexs(d, n));
    }
    if ((s.evaluations & 0x3fff) == 0) flush();
}
inline void tag(const char *t) { S().tags[t]++; }

[[noreturn]] inline void fail(const char *file, int line, const char *fmt_, ...) {
    char buf[1024];
    va_list ap;
    va_start(ap, fmt_);
    vsnprintf(buf, sizeof buf, fmt_, ap);
    va_end(ap);
    fprintf(stderr, "ORACLE-FAILURE %s/%s @%s:%d: %s\n", S().property, S().target, file, line, buf);
    flush();
    fflush(nullptr);
    __builtin_trap();
}
#define FZ_FAIL(...) ::fz::fail(__FILE__, __LINE__, __VA_ARGS__)
#define FZ_CHECK(cond, ...)                                                                                            \
    do {                                                                                                               \
        if (!(cond)) ::fz::fail(__FILE__, __LINE__, #cond " " __VA_ARGS__);                                            \
    } while (0)

// failure channel: an AWS_OP_ERR return must come with a registered error code
inline void check_error_raised(const char *what) {
    int e = aws_last_error();
    if (e == 0) fail(__FILE__, __LINE__, "%s returned an error without raising an error code", what);
    const char *nm = aws_error_name(e);
    if (!nm || strcmp(nm, "Unknown Error Code") == 0) fail(__FILE__, __LINE__, "%s raised unregistered error code %d", what, e);
}
// a view handed back into [base, base+n): {NULL,0} and empty one-past-the-end views are allowed
inline void check_view(const char *what, const uint8_t *ptr, size_t len, const uint8_t *base, size_t n) {
    if (ptr == nullptr) {
        if (len != 0) fail(__FILE__, __LINE__, "%s: NULL view with length %zu", what, len);
        return;
    }
    if (len == 0 && ptr >= base && ptr <= base + n) return;
    if (len == 0 && n == 0) return; // an empty view of an empty / NULL input has no bytes to be outside of (next_split hands back "")
    if (!(ptr >= base && ptr + len <= base + n && len <= n))
        fail(__FILE__, __LINE__, "%s: view [%p,+%zu) outside the input [%p,+%zu)", what, (const void *)ptr, len, (const void *)base, n);
}

// exact-size heap copy of the input so that one byte out of bounds is an ASan report
struct Exact {
    uint8_t *p;
    size_t n;
    Exact(const uint8_t *d, size_t n_) : n(n_) {
        p = (uint8_t *)malloc(n ? n : 1);
        if (n) memcpy(p, d, n);
    }
    ~Exact() { free(p); }
};

} // namespace fz

// pbt.hpp — rapidcheck glue shared by every harness in /verif/harness.
//
// A harness provides  (1) a rapidcheck generator for a generic `Case`
// (configuration integers + a list of operations with integer arguments and an
// optional byte string), and (2) a `run(case, ctx)` function that executes the
// case against the library and an explicit oracle.  This header provides main():
//
//   <bin> --stats S --fail F --journal J [--isolate]     generated search (RC_PARAMS from env)
//   <bin> --replay FILE [--isolate]                       re-execute one saved case, no rapidcheck
//
// Exit status: 0 = property held on everything explored, 1 = a case failed (the
// shrunk case is written to F / printed), other = crash (the journal J holds the
// case that was executing).
#pragma once
#include <rapidcheck.h>

#include <algorithm>
#include <cinttypes>
#include <cstdarg>
#include <cstdint>
#include <cstdio>
#include <cstdlib>
#include <cstring>
#include <fcntl.h>
#include <fstream>
#include <functional>
#include <iostream>
#include <map>
#include <set>
#include <sstream>
#include <string>
#include <sys/wait.h>
#include <unistd.h>
#include <unordered_set>
#include <vector>

namespace pbt {

struct Op {
    int kind = 0;
    std::vector<uint64_t> a;
    std::string b; // bytes
    uint64_t arg(size_t i, uint64_t dflt = 0) const { return i < a.size() ? a[i] : dflt; }
};
struct Case {
    std::vector<uint64_t> cfg;
    std::vector<Op> ops;
    uint64_t c(size_t i, uint64_t dflt = 0) const { return i < cfg.size() ? cfg[i] : dflt; }
};

inline std::string hex(const std::string &s) {
    static const char *d = "0123456789abcdef";
    std::string o;
    o.reserve(s.size() * 2);
    for (unsigned char ch : s) {
        o.push_back(d[ch >> 4]);
        o.push_back(d[ch & 15]);
    }
    return o;
}
inline std::string unhex(const std::string &s) {
    auto v = [](char c) -> int { return c <= '9' ? c - '0' : (c | 32) - 'a' + 10; };
    std::string o;
    for (size_t i = 0; i + 1 < s.size(); i += 2) o.push_back((char)(v(s[i]) * 16 + v(s[i + 1])));
    return o;
}

inline std::string serialize_body(const Case &c) {
    std::ostringstream o;
    o << "cfg";
    for (auto v : c.cfg) o << ' ' << v;
    o << '\n';
    for (auto &op : c.ops) {
        o << "op " << op.kind;
        for (auto v : op.a) o << ' ' << v;
        if (!op.b.empty()) o << " | " << hex(op.b);
        o << '\n';
    }
    return o.str();
}
inline uint64_t fnv(const std::string &s) {
    uint64_t h = 1469598103934665603ull;
    for (unsigned char ch : s) {
        h ^= ch;
        h *= 1099511628211ull;
    }
    return h;
}
inline bool parse_case(std::istream &in, Case &c, std::string *hdr = nullptr) {
    std::string line;
    bool any = false;
    while (std::getline(in, line)) {
        if (line.empty() || line[0] == '#') continue;
        if (line.compare(0, 9, "property=") == 0) {
            if (hdr) *hdr = line;
            continue;
        }
        std::istringstream ls(line);
        std::string w;
        ls >> w;
        if (w == "cfg") {
            uint64_t v;
            while (ls >> v) c.cfg.push_back(v);
            any = true;
        } else if (w == "op") {
            Op op;
            ls >> op.kind;
            std::string tok;
            while (ls >> tok) {
                if (tok == "|") {
                    std::string hx;
                    ls >> hx;
                    op.b = unhex(hx);
                    break;
                }
                op.a.push_back(strtoull(tok.c_str(), nullptr, 10));
            }
            c.ops.push_back(std::move(op));
            any = true;
        }
    }
    return any;
}

// ---- failure signalling -------------------------------------------------
struct Failure {
    std::string msg;
};

struct Ctx {
    bool failed = false;
    std::string msg;
    bool nontrivial = false;
    std::set<std::string> tags;
    bool replay = false; // verbose
    void tag(const std::string &t) { tags.insert(t); }
    // usable from inside C callbacks: records the first failure, does not throw
    void note_fail(const std::string &m) {
        if (!failed) {
            failed = true;
            msg = m;
        }
    }
};

inline std::string fmt(const char *f, ...) {
    char buf[2048];
    va_list ap;
    va_start(ap, f);
    vsnprintf(buf, sizeof buf, f, ap);
    va_end(ap);
    return buf;
}

#define PBT_CHECK(cond, ...)                                                                                           \
    do {                                                                                                               \
        if (!(cond))                                                                                                   \
            throw ::pbt::Failure{std::string(#cond " @" __FILE__ ":") + std::to_string(__LINE__) + " " +             \
                                 ::pbt::fmt("" __VA_ARGS__)};                                                        \
    } while (0)
#define PBT_NOTE(ctx, cond, ...)                                                                                       \
    do {                                                                                                               \
        if (!(cond))                                                                                                   \
            (ctx).note_fail(std::string(#cond " @" __FILE__ ":") + std::to_string(__LINE__) + " " +                   \
                            ::pbt::fmt("" __VA_ARGS__));                                                             \
    } while (0)

// ---- generator helpers --------------------------------------------------
// rapidcheck's inRange scales with the size parameter; choices that are not
// "how big is the case" are drawn at full size.
inline uint64_t pick(uint64_t lo, uint64_t hi /*inclusive*/) {
    if (hi <= lo) return lo;
    if (hi == UINT64_MAX) {
        if (lo == 0) return *rc::gen::resize(100, rc::gen::arbitrary<uint64_t>());
        return lo + *rc::gen::resize(100, rc::gen::inRange<uint64_t>(0, hi - lo)) ;
    }
    return *rc::gen::resize(100, rc::gen::inRange<uint64_t>(lo, hi + 1));
}
inline uint64_t sized(uint64_t lo, uint64_t hi) { // grows with rapidcheck's size
    if (hi <= lo) return lo;
    return *rc::gen::inRange<uint64_t>(lo, hi + 1);
}
inline uint64_t one_of(std::initializer_list<uint64_t> xs) {
    std::vector<uint64_t> v(xs);
    return v[pick(0, v.size() - 1)];
}
template <class T> inline const T &one_of_v(const std::vector<T> &v) { return v[pick(0, v.size() - 1)]; }
inline bool chance(unsigned pct) { return pick(0, 99) >= 100 - pct ? true : false; }
inline uint64_t any_u64() { return *rc::gen::resize(100, rc::gen::arbitrary<uint64_t>()); }
inline std::string bytes(size_t minlen, size_t maxlen, int lo = 0, int hi = 255) {
    size_t n = (size_t)pick(minlen, maxlen);
    std::string s;
    s.reserve(n);
    for (size_t i = 0; i < n; i++) s.push_back((char)pick(lo, hi));
    return s;
}
// weighted choice: returns index
inline size_t weighted(std::initializer_list<unsigned> ws) {
    unsigned tot = 0;
    for (auto w : ws) tot += w;
    uint64_t r = pick(0, tot - 1);
    size_t i = 0;
    for (auto w : ws) {
        if (r < w) return i;
        r -= w;
        i++;
    }
    return 0;
}
// A list of operations whose length grows with rapidcheck's size up to maxlen
// (at size 100); shrinks by dropping operations and shrinking their arguments.
inline std::vector<Op> op_list(size_t maxlen, const std::function<Op()> &genop) {
    auto g = rc::gen::scale(maxlen / 100.0,
                            rc::gen::container<std::vector<Op>>(rc::gen::exec([genop]() { return genop(); })));
    return *g;
}
inline Op mkop(int kind, std::initializer_list<uint64_t> a = {}, std::string b = std::string()) {
    Op o;
    o.kind = kind;
    o.a = a;
    o.b = std::move(b);
    return o;
}

} // namespace pbt

namespace rc {
template <> struct Arbitrary<pbt::Op> {
    static Gen<pbt::Op> arbitrary() { return gen::just(pbt::Op()); }
};
inline void showValue(const pbt::Op &op, std::ostream &os) {
    os << "op " << op.kind;
    for (auto v : op.a) os << ' ' << v;
    if (!op.b.empty()) os << " | " << pbt::hex(op.b);
}
inline void showValue(const pbt::Case &c, std::ostream &os) { os << pbt::serialize_body(c); }
} // namespace rc

namespace pbt {

struct Spec {
    const char *property;
    const char *target;
    std::function<Case()> gen;                     // called inside a rapidcheck generation context
    std::function<void(const Case &, Ctx &)> run;  // throws Failure / sets ctx.failed
    const char *rule;                              // non-trivial rule, for the evidence
    bool isolate = false;                          // always run each case in a forked child
};

struct Stats {
    uint64_t evaluations = 0, shrink_evals = 0;
    std::unordered_set<uint64_t> distinct, distinct_nt;
    std::map<std::string, uint64_t> tags;
    std::vector<std::string> samples;
    uint64_t inconclusive = 0;
};

struct Verdict {
    bool ok = true;
    std::string msg;
    bool nontrivial = false;
    std::set<std::string> tags;
};

// ---- abrupt end of a case from any thread (controlled scheduler: deadlock, decision bound) ----
inline int &child_fd() {
    static int fd = -1;
    return fd;
}
inline Ctx *&cur_ctx() {
    static Ctx *c = nullptr;
    return c;
}
inline std::string verdict_text(bool ok, bool nontrivial, const std::set<std::string> &tags, const std::string &msg) {
    std::ostringstream o;
    o << (ok ? "OK" : "FAIL") << '\n' << (nontrivial ? 1 : 0) << '\n';
    for (auto &t : tags) o << "T " << t << '\n';
    o << "M " << msg << '\n';
    return o.str();
}
// coverage builds only (tools/coverage.sh): a forked case leaves through _exit, so its counters are written by hand
extern "C" int __llvm_profile_write_file(void) __attribute__((weak));
inline void flush_coverage() {
    if (__llvm_profile_write_file) __llvm_profile_write_file();
}
// Ends the current case immediately.  In a forked child the verdict goes to the parent; otherwise
// (in-process replay) it is printed and the process exits with the verdict as status.
[[noreturn]] inline void exit_case_now(bool ok, const std::string &msg, const char *extra_tag = nullptr) {
    std::set<std::string> tags;
    if (cur_ctx()) tags = cur_ctx()->tags;
    if (extra_tag) tags.insert(extra_tag);
    if (child_fd() >= 0) {
        std::string s = verdict_text(ok, false, tags, msg);
        (void)!write(child_fd(), s.data(), s.size());
        flush_coverage();
        _exit(0);
    }
    printf("REPLAY (in-process) %s: %s\n", ok ? "PASS" : "FAIL", msg.c_str());
    fflush(nullptr);
    _exit(ok ? 0 : 1);
}

inline Verdict run_inproc(const Spec &sp, const Case &c, bool replay) {
    Ctx ctx;
    ctx.replay = replay;
    cur_ctx() = &ctx;
    Verdict v;
    try {
        sp.run(c, ctx);
    } catch (const Failure &f) {
        ctx.note_fail(f.msg);
    }
    cur_ctx() = nullptr;
    v.ok = !ctx.failed;
    v.msg = ctx.msg;
    v.nontrivial = ctx.nontrivial;
    v.tags = ctx.tags;
    return v;
}

inline Verdict run_forked(const Spec &sp, const Case &c, bool replay, const std::string &errfile) {
    int fd[2];
    if (pipe(fd) != 0) abort();
    fflush(nullptr);
    pid_t pid = fork();
    if (pid == 0) {
        close(fd[0]);
        if (!errfile.empty()) {
            int e = open(errfile.c_str(), O_WRONLY | O_CREAT | O_TRUNC, 0644);
            if (e >= 0) {
                dup2(e, 2);
                close(e);
            }
        }
        alarm(120);
        child_fd() = fd[1];
        Verdict v = run_inproc(sp, c, replay);
        std::string s = verdict_text(v.ok, v.nontrivial, v.tags, v.msg);
        (void)!write(fd[1], s.data(), s.size());
        flush_coverage();
        _exit(0);
    }
    close(fd[1]);
    std::string out;
    char buf[4096];
    ssize_t n;
    while ((n = read(fd[0], buf, sizeof buf)) > 0) out.append(buf, (size_t)n);
    close(fd[0]);
    int st = 0;
    waitpid(pid, &st, 0);
    Verdict v;
    std::istringstream in(out);
    std::string line;
    bool have = false;
    if (std::getline(in, line) && (line == "OK" || line == "FAIL")) {
        have = true;
        v.ok = line == "OK";
        if (std::getline(in, line)) v.nontrivial = line == "1";
        while (std::getline(in, line)) {
            if (line.compare(0, 2, "T ") == 0) v.tags.insert(line.substr(2));
            else if (line.compare(0, 2, "M ") == 0) {
                v.msg = line.substr(2);
                std::string rest;
                while (std::getline(in, rest)) v.msg += "\n" + rest;
            }
        }
    }
    if (!have || !WIFEXITED(st) || WEXITSTATUS(st) != 0) {
        v.ok = false;
        std::string why = WIFSIGNALED(st) ? fmt("killed by signal %d", WTERMSIG(st))
                                          : fmt("exit status %d", WIFEXITED(st) ? WEXITSTATUS(st) : -1);
        if (WIFSIGNALED(st) && WTERMSIG(st) == SIGALRM) why = "hang: case exceeded 120 s";
        std::string tail;
        if (!errfile.empty()) {
            std::ifstream ef(errfile);
            std::stringstream ss;
            ss << ef.rdbuf();
            tail = ss.str();
            // keep the head of the sanitizer report
            if (tail.size() > 1500) tail.resize(1500);
        }
        v.msg = "crash in case body (" + why + ")" + (tail.empty() ? "" : ": " + tail);
    }
    return v;
}

inline std::string json_escape(const std::string &s) {
    std::string o;
    for (unsigned char ch : s) {
        if (ch == '"' || ch == '\\') {
            o.push_back('\\');
            o.push_back((char)ch);
        } else if (ch == '\n') o += "\\n";
        else if (ch < 0x20 || ch >= 0x7f) o += fmt("\\u%04x", ch);
        else o.push_back((char)ch);
    }
    return o;
}

inline void write_stats(const std::string &path, const Spec &sp, const Stats &st, bool failed, const std::string &msg) {
    if (path.empty()) return;
    std::string tmp = path + ".tmp";
    {
        std::ofstream o(tmp);
        o << "{\"property\":\"" << sp.property << "\",\"target\":\"" << sp.target << "\",\"evaluations\":"
          << st.evaluations << ",\"shrink_evaluations\":" << st.shrink_evals << ",\"distinct\":" << st.distinct.size()
          << ",\"distinct_nontrivial\":" << st.distinct_nt.size() << ",\"inconclusive\":" << st.inconclusive
          << ",\"rule\":\"" << json_escape(sp.rule ? sp.rule : "") << "\",\"failed\":" << (failed ? "true" : "false")
          << ",\"message\":\"" << json_escape(msg) << "\",\"tags\":{";
        bool first = true;
        for (auto &kv : st.tags) {
            o << (first ? "" : ",") << "\"" << json_escape(kv.first) << "\":" << kv.second;
            first = false;
        }
        o << "},\"nt_hashes\":[";
        first = true;
        size_t k = 0;
        for (auto h : st.distinct_nt) {
            if (k++ >= 200000) break;
            o << (first ? "" : ",") << h;
            first = false;
        }
        o << "],\"samples\":[";
        first = true;
        for (auto &s : st.samples) {
            o << (first ? "" : ",") << "\"" << json_escape(s) << "\"";
            first = false;
        }
        o << "]}\n";
    }
    rename(tmp.c_str(), path.c_str());
}

inline int pbt_main(int argc, char **argv, const Spec &sp) {
    std::string stats_path, fail_path, journal_path, replay_path;
    bool isolate = sp.isolate;
    for (int i = 1; i < argc; i++) {
        std::string a = argv[i];
        auto next = [&]() -> std::string { return i + 1 < argc ? argv[++i] : ""; };
        if (a == "--stats") stats_path = next();
        else if (a == "--fail") fail_path = next();
        else if (a == "--journal") journal_path = next();
        else if (a == "--replay") replay_path = next();
        else if (a == "--isolate") isolate = true;
        else if (a == "--no-isolate") isolate = false;
    }
    // one harness source may be registered as several targets (e.g. the same checks under another TZ): the driver
    // passes the registry name so that a replay file finds its way back to the right target and environment
    const char *tname = getenv("VERIF_TARGET_NAME") && *getenv("VERIF_TARGET_NAME") ? getenv("VERIF_TARGET_NAME") : sp.target;
    std::string header = std::string("property=") + sp.property + " target=" + tname + " format=1\n";
    std::string errfile = journal_path.empty() ? std::string() : journal_path + ".stderr";

    if (!replay_path.empty()) {
        std::ifstream in(replay_path);
        Case c;
        if (!in || !parse_case(in, c)) {
            fprintf(stderr, "cannot parse replay file %s\n", replay_path.c_str());
            return 3;
        }
        Verdict v = isolate ? run_forked(sp, c, true, "") : run_inproc(sp, c, true);
        if (v.ok) {
            printf("REPLAY %s %s: PASS\n", sp.property, replay_path.c_str());
            return 0;
        }
        printf("REPLAY %s %s: FAIL: %s\n", sp.property, replay_path.c_str(), v.msg.c_str());
        return 1;
    }

    Stats st;
    Case last_fail;
    std::string last_msg;
    bool seen_fail = false;
    int jfd = -1;
    if (!journal_path.empty()) jfd = open(journal_path.c_str(), O_WRONLY | O_CREAT | O_TRUNC, 0644);
    uint64_t sample_every = 1;

    bool ok = rc::check(std::string(sp.property) + "/" + sp.target, [&]() {
        Case c = sp.gen();
        std::string body = serialize_body(c);
        if (jfd >= 0) {
            std::string j = header + body;
            (void)!ftruncate(jfd, 0);
            (void)!pwrite(jfd, j.data(), j.size(), 0);
        }
        Verdict v = isolate ? run_forked(sp, c, false, errfile) : run_inproc(sp, c, false);
        if (!seen_fail) {
            st.evaluations++;
            uint64_t h = fnv(body);
            st.distinct.insert(h);
            if (v.nontrivial) st.distinct_nt.insert(h);
            for (auto &t : v.tags) st.tags[t]++;
            if (v.tags.count("inconclusive")) st.inconclusive++;
            if (st.evaluations % sample_every == 0 && st.samples.size() < 6 && (v.nontrivial || st.evaluations > 50)) {
                std::string s = body;
                if (s.size() > 1500) s = s.substr(0, 1500) + "...";
                st.samples.push_back(s);
                sample_every = sample_every < 4096 ? sample_every * 8 : sample_every;
            }
            if (st.evaluations % 2000 == 0) write_stats(stats_path, sp, st, false, "");
        } else {
            st.shrink_evals++;
        }
        if (!v.ok) {
            seen_fail = true;
            last_fail = c;
            last_msg = v.msg;
            // keep the best failing case found so far on disk: if this worker is stopped while still shrinking,
            // the (partly shrunk) failure is not lost
            if (!fail_path.empty()) {
                std::string tmp = fail_path + ".tmp";
                {
                    std::ofstream o(tmp);
                    o << header << "# " << last_msg.substr(0, last_msg.find('\n')) << "\n" << serialize_body(last_fail);
                }
                rename(tmp.c_str(), fail_path.c_str());
            }
        }
        RC_ASSERT(v.ok);
    });

    if (!ok && seen_fail) {
        std::string body = header + "# " + last_msg.substr(0, last_msg.find('\n')) + "\n" + serialize_body(last_fail);
        if (!fail_path.empty()) {
            std::ofstream o(fail_path);
            o << body;
        }
        printf("FAILURE %s/%s: %s\n%s", sp.property, sp.target, last_msg.c_str(), body.c_str());
    }
    write_stats(stats_path, sp, st, !ok, last_msg);
    if (jfd >= 0) {
        close(jfd);
        if (ok) {
            unlink(journal_path.c_str());
            if (!errfile.empty()) unlink(errfile.c_str());
        }
    }
    return ok ? 0 : 1;
}

} // namespace pbt

// Glue between pbt.hpp cases and the controlled scheduler: schedules are generated data
// (one Op of kind SCHED_OP inside the case), fatal scheduler outcomes end the case.
#pragma once
#include "detsched/detsched.hpp"
#include "pbt.hpp"

namespace dsg {

static const int SCHED_OP = 900;

// a = [mode, ...]:
//   WALK:    [0, v0, v1, ...]
//   PREEMPT: [1, step0, pick0, step1, pick1, ...]
//   PCT:     [2, nprio, prio0.., cp0, cp1, ...]
inline pbt::Op gen_schedule(size_t approx_decisions) {
    using namespace pbt;
    Op o;
    o.kind = SCHED_OP;
    switch (weighted({5, 3, 2})) {
    case 0: {
        o.a.push_back(ds::WALK);
        unsigned pct = (unsigned)one_of({3, 10, 25, 50});
        size_t n = (size_t)sized(0, approx_decisions);
        for (size_t i = 0; i < n; i++) o.a.push_back(chance(pct) ? pick(1, 3) : 0);
        break;
    }
    case 1: {
        o.a.push_back(ds::PREEMPT);
        size_t k = (size_t)pick(0, 4);
        for (size_t i = 0; i < k; i++) {
            o.a.push_back(pick(0, approx_decisions));
            o.a.push_back(pick(1, 3));
        }
        break;
    }
    default: {
        o.a.push_back(ds::PCT);
        o.a.push_back(6);
        for (int i = 0; i < 6; i++) o.a.push_back(pick(0, 1000));
        size_t d = (size_t)pick(0, 3);
        for (size_t i = 0; i < d; i++) o.a.push_back(pick(0, approx_decisions));
        break;
    }
    }
    // spurious wake-ups of condition waits (bytes of the op: ordinals of the affected waits)
    if (chance(25)) {
        size_t k = (size_t)pick(1, 3);
        for (size_t i = 0; i < k; i++) o.b.push_back((char)pick(0, 30));
    }
    return o;
}

inline ds::Config to_config(const pbt::Op *o, uint64_t max_decisions = 50000) {
    ds::Config c;
    c.max_decisions = max_decisions;
    if (o)
        for (unsigned char ch : o->b) c.spurious_waits.push_back(ch);
    if (!o || o->a.empty()) return c;
    c.mode = (int)(o->a[0] % 3);
    if (c.mode == ds::WALK) {
        for (size_t i = 1; i < o->a.size(); i++) c.walk.push_back((uint32_t)o->a[i]);
    } else if (c.mode == ds::PREEMPT) {
        for (size_t i = 1; i + 1 < o->a.size(); i += 2) c.preempt[o->a[i]] = (uint32_t)o->a[i + 1];
    } else {
        size_t n = o->a.size() > 1 ? (size_t)(o->a[1] % 16) : 0;
        size_t i = 2;
        for (size_t k = 0; k < n && i < o->a.size(); k++, i++) c.prio.push_back((uint32_t)(o->a[i] % 100000));
        for (; i < o->a.size(); i++) c.change_points.push_back(o->a[i]);
        std::sort(c.change_points.begin(), c.change_points.end());
    }
    return c;
}

inline const pbt::Op *find_schedule(const pbt::Case &c) {
    for (auto &o : c.ops)
        if (o.kind == SCHED_OP) return &o;
    return nullptr;
}

inline void fatal_cb(int kind, const char *msg) {
    if (kind == 1) pbt::exit_case_now(true, std::string("inconclusive: ") + msg, "inconclusive");
    pbt::exit_case_now(false, std::string(kind == 0 ? "DEADLOCK: " : kind == 3 ? "HANG: " : "scheduler misuse: ") + msg);
}
inline void install() { ds::on_fatal = fatal_cb; }

} // namespace dsg

// detsched.cpp — see detsched.hpp.  Inside this file only __real_* may be used: the --wrap
// options apply to this object as well.
#include "detsched.hpp"

#include <cerrno>
#include <cstdio>
#include <cstdlib>
#include <cstring>
#include <pthread.h>
#include <sched.h>
#include <time.h>

extern "C" {
int __real_pthread_mutex_lock(pthread_mutex_t *);
int __real_pthread_mutex_trylock(pthread_mutex_t *);
int __real_pthread_mutex_unlock(pthread_mutex_t *);
int __real_pthread_cond_wait(pthread_cond_t *, pthread_mutex_t *);
int __real_pthread_cond_timedwait(pthread_cond_t *, pthread_mutex_t *, const struct timespec *);
int __real_pthread_cond_signal(pthread_cond_t *);
int __real_pthread_cond_broadcast(pthread_cond_t *);
int __real_pthread_create(pthread_t *, const pthread_attr_t *, void *(*)(void *), void *);
int __real_pthread_join(pthread_t, void **);
int __real_pthread_detach(pthread_t);
int __real_pthread_rwlock_rdlock(pthread_rwlock_t *);
int __real_pthread_rwlock_wrlock(pthread_rwlock_t *);
int __real_pthread_rwlock_unlock(pthread_rwlock_t *);
int __real_pthread_rwlock_tryrdlock(pthread_rwlock_t *);
int __real_pthread_rwlock_trywrlock(pthread_rwlock_t *);
int __real_clock_gettime(clockid_t, struct timespec *);
int __real_nanosleep(const struct timespec *, struct timespec *);
int __real_sched_yield(void);
}

namespace ds {

void (*on_fatal)(int, const char *) = nullptr;

namespace {

enum St { RUNNABLE, B_MUTEX, B_COND, B_JOIN, B_SLEEP, B_ALL, B_RW, DONE };
const char *st_name[] = {"runnable", "blocked-mutex", "blocked-cond", "blocked-join", "sleeping", "waiting-all", "blocked-rwlock", "done"};

struct Thread {
    int id = 0;
    pthread_t real{};
    St st = RUNNABLE;
    const void *wait_obj = nullptr;
    uint64_t deadline = 0; // 0 = none
    bool timed_out = false, signalled = false;
    bool detached = false;
    int joins = 0;
    pthread_cond_t cv;
    void *(*fn)(void *) = nullptr;
    void *arg = nullptr;
    unsigned consecutive = 0;
    unsigned alone_spins = 0;
    uint32_t prio = 0;
};

struct MutexSt {
    int owner = -1;
};
struct RwSt {
    int writer = -1;
    int readers = 0;
};

struct Global {
    pthread_mutex_t mu = PTHREAD_MUTEX_INITIALIZER;
    bool active = false;
    Config cfg;
    std::vector<Thread *> th;
    int current = -1;
    uint64_t clock_ns = 0;
    size_t walk_pos = 0;
    Stats stats;
    std::map<const void *, MutexSt> mutexes;
    std::map<const void *, RwSt> rwlocks;
    std::map<const void *, std::vector<int>> cond_waiters;
    size_t cp_pos = 0;
    uint32_t cond_waits = 0;
    uint32_t low_prio = 0;
};
Global G;
thread_local Thread *tl_self = nullptr;

void fatal(int kind, const std::string &msg) {
    std::string m = msg + "\n" + dump();
    if (on_fatal) on_fatal(kind, m.c_str());
    fprintf(stderr, "detsched fatal(%d): %s\n", kind, m.c_str());
    abort();
}

void wait_turn(Thread *t) {
    while (G.current != t->id) __real_pthread_cond_wait(&t->cv, &G.mu);
}
void switch_to(Thread *n) {
    G.current = n->id;
    __real_pthread_cond_signal(&n->cv);
}

// next value of the decision stream; n = number of alternatives (>1)
uint32_t next_choice(Thread *self, size_t n) {
    G.stats.choice_points++;
    uint64_t d = G.stats.decisions;
    switch (G.cfg.mode) {
    case WALK: {
        uint32_t v = G.walk_pos < G.cfg.walk.size() ? G.cfg.walk[G.walk_pos] : 0;
        G.walk_pos++;
        return v % n;
    }
    case PREEMPT: {
        auto it = G.cfg.preempt.find(d);
        return it == G.cfg.preempt.end() ? 0 : it->second % n;
    }
    default: return 0;
    }
}

void expire_deadlines() {
    for (auto *t : G.th)
        if (t->st != DONE && t->st != RUNNABLE && t->deadline && t->deadline <= G.clock_ns) {
            t->timed_out = true;
            t->deadline = 0;
            if (t->st == B_COND) {
                auto &w = G.cond_waiters[t->wait_obj];
                for (size_t i = 0; i < w.size(); i++)
                    if (w[i] == t->id) {
                        w.erase(w.begin() + (long)i);
                        break;
                    }
            }
            t->st = RUNNABLE;
        }
}

// Picks the thread that continues.  self may be runnable or not.
Thread *choose(Thread *self) {
    for (;;) {
        std::vector<Thread *> R;
        if (self && self->st == RUNNABLE) R.push_back(self);
        // others in round-robin order starting after self
        size_t n = G.th.size();
        size_t start = self ? (size_t)self->id + 1 : 0;
        for (size_t k = 0; k < n; k++) {
            Thread *t = G.th[(start + k) % n];
            if (t != self && t->st == RUNNABLE) R.push_back(t);
        }
        if (!R.empty()) {
            if (R.size() == 1) {
                R[0]->consecutive = 0; // alone: not a spin over other runnable threads
                // A thread that keeps taking decisions while everybody else sleeps or waits with a
                // timeout is polling (e.g. join_all_managed spins while one thread is left): real time
                // passes while it does, so after a while the earliest deadline expires.
                if (R[0] == self && ++self->alone_spins >= G.cfg.alone_spin_limit) {
                    self->alone_spins = 0;
                    uint64_t best = 0;
                    for (auto *t : G.th)
                        if (t->st != DONE && t->st != RUNNABLE && t->deadline && (!best || t->deadline < best)) best = t->deadline;
                    if (best) {
                        if (best > G.clock_ns) G.clock_ns = best;
                        G.stats.time_jumps++;
                        expire_deadlines();
                        continue;
                    }
                }
                return R[0];
            }
            if (self) self->alone_spins = 0;
            if (G.cfg.mode == PCT) {
                // priority change point: current thread drops to the lowest priority
                while (G.cp_pos < G.cfg.change_points.size() && G.cfg.change_points[G.cp_pos] <= G.stats.decisions) {
                    if (self) self->prio = G.low_prio > 0 ? --G.low_prio : 0;
                    G.cp_pos++;
                }
                Thread *best = R[0];
                for (auto *t : R)
                    if (t->prio > best->prio) best = t;
                // spin protection
                if (best == self && self->consecutive >= G.cfg.spin_limit) {
                    self->prio = G.low_prio > 0 ? --G.low_prio : 0;
                    best = R[1];
                    for (auto *t : R)
                        if (t != self && t->prio > best->prio) best = t;
                }
                return best;
            }
            uint32_t c = next_choice(self, R.size());
            Thread *pick = R[c];
            if (pick == self && self->consecutive >= G.cfg.spin_limit) {
                pick = R[1]; // livelock / spin loop: force a switch
                G.stats.preemptions++;
            }
            return pick;
        }
        // nobody runnable: advance virtual time to the earliest deadline
        uint64_t best = 0;
        for (auto *t : G.th)
            if (t->st != DONE && t->st != RUNNABLE && t->deadline && (!best || t->deadline < best)) best = t->deadline;
        if (!best) fatal(0, "deadlock: no runnable thread and no pending deadline");
        if (best > G.clock_ns) G.clock_ns = best;
        if (G.cfg.max_virtual_ns && G.clock_ns - 1000ull * 1000000000ull > G.cfg.max_virtual_ns)
            fatal(3, "virtual time limit exceeded: threads keep waking up on timeouts but the program never finishes");
        G.stats.time_jumps++;
        expire_deadlines();
    }
}

// called with G.mu held by the running thread `self`
void decide(Thread *self, int kind) {
    G.stats.decisions++;
    if (kind >= 0 && kind < 32) G.stats.by_kind[kind]++;
    if (G.stats.decisions > G.cfg.max_decisions) fatal(1, "decision bound exceeded");
    Thread *n = choose(self);
    if (n == self) {
        self->consecutive++;
        return;
    }
    self->consecutive = 0;
    n->consecutive = 0;
    G.stats.switches++;
    switch_to(n);
    wait_turn(self);
}

struct Locked {
    Locked() { __real_pthread_mutex_lock(&G.mu); }
    ~Locked() { __real_pthread_mutex_unlock(&G.mu); }
};

inline bool managed() { return G.active && tl_self != nullptr; }

void wake_waiters_of(const void *obj, St kind) {
    for (auto *t : G.th)
        if (t->st == kind && t->wait_obj == obj) {
            t->st = RUNNABLE;
            t->wait_obj = nullptr;
        }
}

uint64_t ts_to_ns(const struct timespec *ts) { return (uint64_t)ts->tv_sec * 1000000000ull + (uint64_t)ts->tv_nsec; }

void *trampoline(void *p) {
    Thread *t = (Thread *)p;
    tl_self = t;
    {
        Locked l;
        wait_turn(t);
    }
    void *ret = t->fn(t->arg);
    {
        Locked l;
        G.stats.decisions++;
        t->st = DONE;
        wake_waiters_of(t, B_JOIN);
        for (auto *o : G.th)
            if (o->st == B_ALL) o->st = RUNNABLE;
        bool any = false;
        for (auto *o : G.th)
            if (o->st != DONE) any = true;
        if (any) {
            Thread *n = choose(nullptr);
            G.stats.switches++;
            switch_to(n);
        }
        tl_self = nullptr;
    }
    return ret;
}

void lock_model(Thread *self, const void *m) {
    for (;;) {
        MutexSt &ms = G.mutexes[m];
        if (ms.owner < 0) {
            ms.owner = self->id;
            return;
        }
        if (ms.owner == self->id) fatal(2, "relock of a non-recursive mutex by its owner (self-deadlock)");
        self->st = B_MUTEX;
        self->wait_obj = m;
        decide(self, -1);
    }
}
void unlock_model(Thread *self, const void *m) {
    MutexSt &ms = G.mutexes[m];
    if (ms.owner >= 0 && ms.owner != self->id) fatal(2, "unlock of a mutex held by another thread");
    ms.owner = -1;
    wake_waiters_of(m, B_MUTEX);
}

} // namespace

bool active() { return G.active; }
int self() { return tl_self ? tl_self->id : -1; }
uint64_t now_ns() { return G.clock_ns; }
const Stats &stats() { return G.stats; }
std::vector<ThreadInfo> threads() {
    std::vector<ThreadInfo> v;
    for (auto *t : G.th) v.push_back(ThreadInfo{t->id, t->st == DONE, t->detached, t->joins});
    return v;
}
std::string dump() {
    std::string s = "threads:";
    char b[160];
    for (auto *t : G.th) {
        snprintf(b, sizeof b, " [t%d %s obj=%p deadline=%llu]", t->id, st_name[t->st], t->wait_obj, (unsigned long long)t->deadline);
        s += b;
    }
    snprintf(b, sizeof b, " clock=%llu decisions=%llu switches=%llu", (unsigned long long)G.clock_ns,
             (unsigned long long)G.stats.decisions, (unsigned long long)G.stats.switches);
    s += b;
    for (auto &kv : G.mutexes)
        if (kv.second.owner >= 0) {
            snprintf(b, sizeof b, " mutex %p held by t%d;", kv.first, kv.second.owner);
            s += b;
        }
    return s;
}
void point() {
    if (!managed()) return;
    Locked l;
    decide(tl_self, K_USER);
}

void run(const Config &cfg, const std::function<void()> &body) {
    for (auto *t : G.th) delete t;
    G.th.clear();
    G.cfg = cfg;
    G.stats = Stats();
    G.mutexes.clear();
    G.rwlocks.clear();
    G.cond_waiters.clear();
    G.walk_pos = 0;
    G.cp_pos = 0;
    G.cond_waits = 0;
    G.clock_ns = 1000ull * 1000000000ull;
    G.low_prio = 1000000;
    Thread *m = new Thread();
    m->id = 0;
    m->real = pthread_self();
    pthread_cond_init(&m->cv, nullptr);
    m->prio = cfg.prio.empty() ? 0 : 1000000 + cfg.prio[0];
    G.th.push_back(m);
    G.current = 0;
    tl_self = m;
    G.active = true;
    body();
    {
        Locked l;
        for (;;) {
            bool all = true;
            for (auto *t : G.th)
                if (t != m && t->st != DONE) all = false;
            if (all) break;
            m->st = B_ALL;
            decide(m, -1);
        }
        G.active = false;
    }
    tl_self = nullptr;
}

} // namespace ds

using namespace ds;

extern "C" {

void ds_yield_point(int kind) {
    if (!managed() || !G.cfg.atomics_are_points) return;
    Locked l;
    decide(tl_self, kind);
}

int __wrap_pthread_mutex_lock(pthread_mutex_t *m) {
    if (!managed()) return __real_pthread_mutex_lock(m);
    Locked l;
    decide(tl_self, K_LOCK);
    lock_model(tl_self, m);
    return 0;
}
int __wrap_pthread_mutex_trylock(pthread_mutex_t *m) {
    if (!managed()) return __real_pthread_mutex_trylock(m);
    Locked l;
    decide(tl_self, K_TRYLOCK);
    MutexSt &ms = G.mutexes[m];
    if (ms.owner >= 0) return EBUSY;
    ms.owner = tl_self->id;
    return 0;
}
int __wrap_pthread_mutex_unlock(pthread_mutex_t *m) {
    if (!managed()) return __real_pthread_mutex_unlock(m);
    Locked l;
    decide(tl_self, K_UNLOCK);
    unlock_model(tl_self, m);
    // a second decision right after the release: code that follows an unlock (a store that should have been inside
    // the critical section, a notify) races with whoever was waiting for the mutex
    decide(tl_self, K_UNLOCK);
    return 0;
}

static int cond_wait_common(pthread_cond_t *c, pthread_mutex_t *m, const struct timespec *abst) {
    Thread *s = tl_self;
    Locked l;
    decide(s, K_WAIT);
    uint64_t dl = abst ? ts_to_ns(abst) : 0;
    unlock_model(s, m);
    bool timed_out = false;
    uint32_t ordinal = G.cond_waits++;
    bool spurious = false;
    for (uint32_t o : G.cfg.spurious_waits) spurious |= o == ordinal;
    if (spurious) {
        // a spurious wake-up: the mutex was released and is re-acquired, nobody signalled, nothing timed out
        G.stats.by_kind[31]++;
        decide(s, -1);
    } else if (abst && dl <= G.clock_ns) {
        timed_out = true; // deadline already passed: still a release/re-acquire of the mutex
        decide(s, -1);
    } else {
        G.cond_waiters[c].push_back(s->id);
        s->st = B_COND;
        s->wait_obj = c;
        s->deadline = dl;
        s->timed_out = false;
        decide(s, -1);
        timed_out = s->timed_out;
        s->timed_out = false;
        s->deadline = 0;
    }
    lock_model(s, m);
    return timed_out ? ETIMEDOUT : 0;
}
int __wrap_pthread_cond_wait(pthread_cond_t *c, pthread_mutex_t *m) {
    if (!managed()) return __real_pthread_cond_wait(c, m);
    return cond_wait_common(c, m, nullptr);
}
int __wrap_pthread_cond_timedwait(pthread_cond_t *c, pthread_mutex_t *m, const struct timespec *abst) {
    if (!managed()) return __real_pthread_cond_timedwait(c, m, abst);
    return cond_wait_common(c, m, abst);
}
int __wrap_pthread_cond_signal(pthread_cond_t *c) {
    if (!managed()) return __real_pthread_cond_signal(c);
    Locked l;
    decide(tl_self, K_SIGNAL);
    auto &w = G.cond_waiters[c];
    if (!w.empty()) {
        size_t k = w.size() > 1 ? next_choice(tl_self, w.size()) : 0;
        Thread *t = G.th[(size_t)w[k]];
        w.erase(w.begin() + (long)k);
        t->st = RUNNABLE;
        t->wait_obj = nullptr;
        t->deadline = 0;
    }
    return 0;
}
int __wrap_pthread_cond_broadcast(pthread_cond_t *c) {
    if (!managed()) return __real_pthread_cond_broadcast(c);
    Locked l;
    decide(tl_self, K_BROADCAST);
    auto &w = G.cond_waiters[c];
    for (int id : w) {
        Thread *t = G.th[(size_t)id];
        t->st = RUNNABLE;
        t->wait_obj = nullptr;
        t->deadline = 0;
    }
    w.clear();
    return 0;
}

int __wrap_pthread_create(pthread_t *out, const pthread_attr_t *attr, void *(*fn)(void *), void *arg) {
    if (!managed()) return __real_pthread_create(out, attr, fn, arg);
    Locked l;
    decide(tl_self, K_CREATE);
    Thread *t = new Thread();
    t->id = (int)G.th.size();
    t->fn = fn;
    t->arg = arg;
    pthread_cond_init(&t->cv, nullptr);
    if (attr) {
        int ds_ = 0;
        if (pthread_attr_getdetachstate(attr, &ds_) == 0 && ds_ == PTHREAD_CREATE_DETACHED) t->detached = true;
    }
    t->prio = G.cfg.prio.empty() ? 0 : 1000000 + G.cfg.prio[(size_t)t->id % G.cfg.prio.size()];
    G.th.push_back(t);
    int rc = __real_pthread_create(&t->real, attr, trampoline, t);
    if (rc != 0) {
        // the thread never existed (e.g. EINVAL for an impossible cpu affinity): forget the record
        G.th.pop_back();
        pthread_cond_destroy(&t->cv);
        delete t;
        return rc;
    }
    *out = t->real;
    return 0;
}

static Thread *find_by_real(pthread_t r) {
    // pthread_t values are reused once a thread has been joined: the newest match that has not
    // been joined/detached yet is the live one
    for (size_t i = G.th.size(); i-- > 1;) {
        Thread *t = G.th[i];
        if (pthread_equal(t->real, r) && t->joins == 0 && !t->detached) return t;
    }
    return nullptr;
}

int __wrap_pthread_join(pthread_t th, void **ret) {
    if (!managed()) return __real_pthread_join(th, ret);
    Thread *t;
    {
        Locked l;
        decide(tl_self, K_JOIN);
        t = find_by_real(th);
        if (t) {
            if (t == tl_self) fatal(2, "thread joins itself");
            while (t->st != DONE) {
                tl_self->st = B_JOIN;
                tl_self->wait_obj = t;
                decide(tl_self, -1);
            }
            t->joins++;
        }
    }
    return __real_pthread_join(th, ret);
}
int __wrap_pthread_detach(pthread_t th) {
    if (!managed()) return __real_pthread_detach(th);
    {
        Locked l;
        decide(tl_self, K_DETACH);
        Thread *t = find_by_real(th);
        if (t) t->detached = true;
    }
    return __real_pthread_detach(th);
}

static int rw_lock(pthread_rwlock_t *rw, bool write, bool try_) {
    Thread *s = tl_self;
    Locked l;
    decide(s, K_RW);
    for (;;) {
        RwSt &st = G.rwlocks[rw];
        bool free_ = write ? (st.writer < 0 && st.readers == 0) : (st.writer < 0);
        if (free_) {
            if (write) st.writer = s->id;
            else st.readers++;
            return 0;
        }
        if (try_) return EBUSY;
        s->st = B_RW;
        s->wait_obj = rw;
        decide(s, -1);
    }
}
int __wrap_pthread_rwlock_rdlock(pthread_rwlock_t *rw) {
    if (!managed()) return __real_pthread_rwlock_rdlock(rw);
    return rw_lock(rw, false, false);
}
int __wrap_pthread_rwlock_wrlock(pthread_rwlock_t *rw) {
    if (!managed()) return __real_pthread_rwlock_wrlock(rw);
    return rw_lock(rw, true, false);
}
int __wrap_pthread_rwlock_tryrdlock(pthread_rwlock_t *rw) {
    if (!managed()) return __real_pthread_rwlock_tryrdlock(rw);
    return rw_lock(rw, false, true);
}
int __wrap_pthread_rwlock_trywrlock(pthread_rwlock_t *rw) {
    if (!managed()) return __real_pthread_rwlock_trywrlock(rw);
    return rw_lock(rw, true, true);
}
int __wrap_pthread_rwlock_unlock(pthread_rwlock_t *rw) {
    if (!managed()) return __real_pthread_rwlock_unlock(rw);
    Locked l;
    decide(tl_self, K_RW);
    RwSt &st = G.rwlocks[rw];
    if (st.writer == tl_self->id) st.writer = -1;
    else if (st.readers > 0) st.readers--;
    wake_waiters_of(rw, B_RW);
    return 0;
}

int __wrap_clock_gettime(clockid_t id, struct timespec *ts) {
    if (!managed()) return __real_clock_gettime(id, ts);
    Locked l;
    decide(tl_self, K_CLOCK);
    G.clock_ns += 100; // reading the clock takes time: loops that poll it make progress
    ts->tv_sec = (time_t)(G.clock_ns / 1000000000ull);
    ts->tv_nsec = (long)(G.clock_ns % 1000000000ull);
    return 0;
}
int __wrap_nanosleep(const struct timespec *req, struct timespec *rem) {
    if (!managed()) return __real_nanosleep(req, rem);
    Locked l;
    decide(tl_self, K_SLEEP);
    uint64_t d = ts_to_ns(req);
    if (d > 0) {
        tl_self->st = B_SLEEP;
        tl_self->deadline = G.clock_ns + d;
        tl_self->wait_obj = nullptr;
        decide(tl_self, -1);
        tl_self->timed_out = false;
    }
    if (rem) {
        rem->tv_sec = 0;
        rem->tv_nsec = 0;
    }
    return 0;
}
int __wrap_sched_yield(void) {
    if (!managed()) return __real_sched_yield();
    Locked l;
    decide(tl_self, K_YIELD);
    return 0;
}
}

/* Force-included (-include) into every library object of the "sched" flavour and into
 * harnesses that compile the header-only atomics themselves.  Each GNU atomic builtin that
 * atomics_gnu.inl uses becomes "schedule point, then the builtin" — a function-like macro is
 * not re-expanded inside its own expansion, so the builtin is still what gets called.
 * With no controlled scheduler active, ds_yield_point() returns immediately. */
#ifndef VERIF_ATOMICS_HOOK_H
#define VERIF_ATOMICS_HOOK_H
#ifdef __cplusplus
extern "C" {
#endif
void ds_yield_point(int kind);
#ifdef __cplusplus
}
#endif
#define __atomic_load_n(p, o) (ds_yield_point(1), __atomic_load_n(p, o))
#define __atomic_store_n(p, v, o) (ds_yield_point(2), __atomic_store_n(p, v, o))
#define __atomic_exchange_n(p, v, o) (ds_yield_point(3), __atomic_exchange_n(p, v, o))
#define __atomic_compare_exchange_n(p, e, d, w, s, f) (ds_yield_point(4), __atomic_compare_exchange_n(p, e, d, w, s, f))
#define __atomic_fetch_add(p, v, o) (ds_yield_point(5), __atomic_fetch_add(p, v, o))
#define __atomic_fetch_sub(p, v, o) (ds_yield_point(6), __atomic_fetch_sub(p, v, o))
#define __atomic_fetch_or(p, v, o) (ds_yield_point(7), __atomic_fetch_or(p, v, o))
#define __atomic_fetch_and(p, v, o) (ds_yield_point(8), __atomic_fetch_and(p, v, o))
#define __atomic_fetch_xor(p, v, o) (ds_yield_point(9), __atomic_fetch_xor(p, v, o))
#define __atomic_thread_fence(o) (ds_yield_point(10), __atomic_thread_fence(o))
#endif

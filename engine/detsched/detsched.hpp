// detsched — controlled scheduler: library code runs on real pthreads, but exactly one thread
// runs at a time and every lock / condition-variable / create / join / clock / sleep / atomic
// operation is a decision point at which a *generated schedule* chooses who continues.
// Time is virtual: it only advances when no thread is runnable.  See DESIGN.md section 4.
#pragma once
#include <cstdint>
#include <functional>
#include <map>
#include <string>
#include <vector>

namespace ds {

enum Mode { WALK = 0, PREEMPT = 1, PCT = 2 };

struct Config {
    int mode = WALK;
    // WALK: value i is consumed at the i-th decision that has more than one runnable thread;
    //       0 = keep running the current thread, k = the k-th other runnable thread.
    std::vector<uint32_t> walk;
    // PREEMPT: run without switching except at these decision numbers (-> pick)
    std::map<uint64_t, uint32_t> preempt;
    // PCT: initial priorities per thread id (mod size) and priority change points (decision numbers)
    std::vector<uint32_t> prio;
    std::vector<uint64_t> change_points;
    // ordinals (0-based, counted over all condition waits of the run) of waits that return spuriously, as POSIX allows
    std::vector<uint32_t> spurious_waits;
    uint64_t max_decisions = 50000;
    uint64_t max_virtual_ns = 0; // 0 = unlimited; exceeding it is reported as a hang (kind 3)
    unsigned spin_limit = 64; // consecutive decisions of one thread while others are runnable
    unsigned alone_spin_limit = 200; // decisions a lone runnable thread may take before the earliest timeout of the others expires
    bool atomics_are_points = true;
};

struct ThreadInfo {
    int id;
    bool done, detached;
    int joins; // number of real pthread_join()s performed on it
};

struct Stats {
    uint64_t decisions = 0, choice_points = 0, switches = 0, time_jumps = 0, preemptions = 0;
    uint64_t by_kind[32] = {0};
};

// Fatal outcomes are reported through this callback from whichever thread detects them; it must
// not return (the harness runs every case in a forked child and exits it).
//   kind 0: deadlock (no runnable thread, no deadline)      -> property failure
//   kind 1: decision bound exceeded                          -> inconclusive
//   kind 2: misuse detected by the scheduler (unlock of a mutex held by another thread, ...)
//   kind 3: virtual time ran past Config.max_virtual_ns (the program keeps waking up but never finishes) -> hang
extern void (*on_fatal)(int kind, const char *msg);

// Runs body as thread 0 under the scheduler on the calling thread; returns after every thread
// created inside has finished.  Not re-entrant.
void run(const Config &cfg, const std::function<void()> &body);

bool active();
int self();            // scheduler thread id of the caller, -1 if unmanaged
uint64_t now_ns();     // virtual clock
const Stats &stats();
std::vector<ThreadInfo> threads();
int switches_since(uint64_t mark); // helper for classification
std::string dump();

// decision kinds (also used for Stats.by_kind)
enum Kind { K_ATOMIC_LOAD = 1, K_ATOMIC_STORE, K_ATOMIC_XCHG, K_ATOMIC_CAS, K_ATOMIC_ADD, K_ATOMIC_SUB, K_ATOMIC_OR,
            K_ATOMIC_AND, K_ATOMIC_XOR, K_FENCE, K_LOCK = 16, K_UNLOCK, K_TRYLOCK, K_WAIT, K_SIGNAL, K_BROADCAST,
            K_CREATE, K_JOIN, K_DETACH, K_CLOCK, K_SLEEP, K_YIELD, K_RW, K_USER };
// explicit schedule point for harness code
void point();

} // namespace ds

// C04 / xml — arbitrary bytes + a callback program (descend / read body / skip / abort per node).
// Oracle: returns; AWS_OP_ERR comes with a registered error code unless our own callback aborted;
// every name / attribute / body view lies inside the document; allocator balance; no hang.
#include "fuzz.hpp"

#include <aws/common/xml_parser.h>
#include <fuzzer/FuzzedDataProvider.h>

struct UD {
    const uint8_t *base;
    size_t n;
    std::vector<uint8_t> prog;
    size_t idx = 0;
    int depth = 0, max_seen_depth = 0;
    bool aborted = false;
    size_t nodes = 0;
};

static int on_node(struct aws_xml_node *node, void *user) {
    UD *u = (UD *)user;
    u->nodes++;
    if (u->nodes > 100000) FZ_FAIL("more node callbacks (%zu) than bytes could justify: runaway traversal", u->nodes);
    struct aws_byte_cursor name = aws_xml_node_get_name(node);
    fz::check_view("node name", name.ptr, name.len, u->base, u->n);
    size_t na = aws_xml_node_get_num_attributes(node);
    if (na > 10) FZ_FAIL("%zu attributes reported, the documented limit is 10", na);
    for (size_t i = 0; i < na; i++) {
        struct aws_xml_attribute a = aws_xml_node_get_attribute(node, i);
        fz::check_view("attribute name", a.name.ptr, a.name.len, u->base, u->n);
        fz::check_view("attribute value", a.value.ptr, a.value.len, u->base, u->n);
    }
    uint8_t act = u->prog.empty() ? 0 : u->prog[u->idx++ % u->prog.size()] % 6;
    switch (act) {
    case 0:
    case 1:
    case 5: {
        u->depth++;
        if (u->depth > u->max_seen_depth) u->max_seen_depth = u->depth;
        aws_reset_error();
        int rc = aws_xml_node_traverse(node, on_node, u);
        u->depth--;
        if (rc != AWS_OP_SUCCESS && !u->aborted) fz::check_error_raised("aws_xml_node_traverse");
        return rc;
    }
    case 2: {
        struct aws_byte_cursor body = {0, nullptr};
        aws_reset_error();
        int rc = aws_xml_node_as_body(node, &body);
        if (rc == AWS_OP_SUCCESS) fz::check_view("body", body.ptr, body.len, u->base, u->n);
        else fz::check_error_raised("aws_xml_node_as_body");
        return rc;
    }
    case 3: return AWS_OP_SUCCESS; // skip
    default:
        u->aborted = true;
        return AWS_OP_ERR; // abort without raising (the harness' own failure)
    }
}

extern "C" int LLVMFuzzerInitialize(int *, char ***) {
    aws_common_library_init(aws_default_allocator());
    fz::setup("C04", "c04_xml",
              "bytes -> (max_depth, callback program, document); non-trivial = >=2 nodes seen, or rejected after >=1 node callback");
    return 0;
}

extern "C" int LLVMFuzzerTestOneInput(const uint8_t *data, size_t size) {
    FuzzedDataProvider fdp(data, size);
    size_t max_depth = fdp.ConsumeIntegralInRange<size_t>(0, 24);
    size_t plen = fdp.ConsumeIntegralInRange<size_t>(0, 16);
    UD u;
    u.prog = fdp.ConsumeBytes<uint8_t>(plen);
    bool null_empty = fdp.ConsumeBool();
    std::vector<uint8_t> doc = fdp.ConsumeRemainingBytes<uint8_t>();
    fz::Exact in(doc.data(), doc.size());
    u.base = in.p;
    u.n = in.n;
    galloc::reset();
    struct aws_xml_parser_options opt;
    AWS_ZERO_STRUCT(opt);
    opt.doc = aws_byte_cursor_from_array(in.n == 0 && null_empty ? nullptr : in.p, in.n);
    opt.max_depth = max_depth;
    opt.on_root_encountered = on_node;
    opt.user_data = &u;
    aws_reset_error();
    int rc = aws_xml_parse(galloc::full(), &opt);
    if (rc != AWS_OP_SUCCESS && !u.aborted) fz::check_error_raised("aws_xml_parse");
    if (rc != AWS_OP_SUCCESS && rc != AWS_OP_ERR) FZ_FAIL("aws_xml_parse returned %d", rc);
    const char *m = nullptr;
    if (!galloc::check_all(&m)) FZ_FAIL("%s", m);
    if (galloc::live_blocks() != 0) fz::tag("note_leak_after_parse");
    if (u.max_seen_depth >= 2) fz::tag("nested_ge_2");
    if (rc != AWS_OP_SUCCESS) fz::tag("rejected");
    fz::count(data, size, u.nodes >= 2 || (rc != AWS_OP_SUCCESS && u.nodes >= 1));
    return 0;
}

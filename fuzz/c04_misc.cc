// C04 / misc — UUID parsing, IPv4/IPv6 checks, unsigned-integer parsing, cursor splitting/searching.
// Oracle: returns; failure through the documented channel; views inside the input; iteration terminates.
#include "fuzz.hpp"

#include <aws/common/array_list.h>
#include <aws/common/byte_buf.h>
#include <aws/common/host_utils.h>
#include <aws/common/uuid.h>
#include <fuzzer/FuzzedDataProvider.h>

extern "C" int LLVMFuzzerInitialize(int *, char ***) {
    aws_common_library_init(aws_default_allocator());
    fz::setup("C04", "c04_misc", "bytes -> (split char, needle length, text); non-trivial = some parser accepted the text, or the text has >=2 split fields");
    return 0;
}

extern "C" int LLVMFuzzerTestOneInput(const uint8_t *data, size_t size) {
    FuzzedDataProvider fdp(data, size);
    char split_on = (char)fdp.ConsumeIntegral<uint8_t>();
    size_t needle_len = fdp.ConsumeIntegralInRange<size_t>(0, 6);
    uint8_t knob = fdp.ConsumeIntegral<uint8_t>();
    std::vector<uint8_t> needle = fdp.ConsumeBytes<uint8_t>(needle_len);
    std::vector<uint8_t> text = fdp.ConsumeRemainingBytes<uint8_t>();
    fz::Exact in(text.data(), text.size());
    struct aws_byte_cursor cur = aws_byte_cursor_from_array(in.n == 0 && (knob & 1) ? nullptr : in.p, in.n);
    bool accepted = false;

    // UUID
    {
        struct aws_uuid u;
        aws_reset_error();
        int rc = aws_uuid_init_from_str(&u, &cur);
        if (rc == AWS_OP_SUCCESS) {
            accepted = true;
            uint8_t ob[AWS_UUID_STR_LEN + 8];
            memset(ob, 0x7e, sizeof ob);
            struct aws_byte_buf out = aws_byte_buf_from_empty_array(ob, AWS_UUID_STR_LEN);
            FZ_CHECK(aws_uuid_to_str(&u, &out) == AWS_OP_SUCCESS, "uuid_to_str failed for a parsed uuid");
            FZ_CHECK(ob[AWS_UUID_STR_LEN] == 0x7e, "uuid_to_str wrote past its buffer");
        } else {
            FZ_CHECK(rc == AWS_OP_ERR, "uuid parser returned %d", rc);
            fz::check_error_raised("aws_uuid_init_from_str");
        }
    }
    // host checks (plain bools)
    accepted |= aws_host_utils_is_ipv4(cur);
    accepted |= aws_host_utils_is_ipv6(cur, false);
    accepted |= aws_host_utils_is_ipv6(cur, true);
    // numbers
    {
        uint64_t v = 0;
        aws_reset_error();
        int rc = aws_byte_cursor_utf8_parse_u64(cur, &v);
        if (rc != AWS_OP_SUCCESS) fz::check_error_raised("utf8_parse_u64");
        else accepted = true;
        aws_reset_error();
        rc = aws_byte_cursor_utf8_parse_u64_hex(cur, &v);
        if (rc != AWS_OP_SUCCESS) fz::check_error_raised("utf8_parse_u64_hex");
        else accepted = true;
    }
    // split iteration
    size_t fields = 0;
    {
        struct aws_byte_cursor sub;
        AWS_ZERO_STRUCT(sub);
        size_t total = 0;
        while (aws_byte_cursor_next_split(&cur, split_on, &sub)) {
            fz::check_view("split field", sub.ptr, sub.len, in.p, in.n);
            total += sub.len;
            FZ_CHECK(++fields <= in.n + 1, "next_split does not terminate");
        }
        FZ_CHECK(total <= in.n, "split fields cover %zu bytes of %zu", total, in.n);
        struct aws_byte_cursor slots[4];
        struct aws_array_list lst;
        aws_array_list_init_static(&lst, slots, 4, sizeof(struct aws_byte_cursor));
        aws_reset_error();
        int rc = aws_byte_cursor_split_on_char_n(&cur, split_on, (size_t)(knob >> 4), &lst);
        if (rc != AWS_OP_SUCCESS) fz::check_error_raised("split_on_char_n");
        for (size_t i = 0; i < aws_array_list_length(&lst); i++) fz::check_view("split_on_char_n field", slots[i].ptr, slots[i].len, in.p, in.n);
    }
    // search
    {
        fz::Exact nd(needle.data(), needle.size());
        struct aws_byte_cursor nc = aws_byte_cursor_from_array(nd.p, nd.n);
        struct aws_byte_cursor found;
        AWS_ZERO_STRUCT(found);
        aws_reset_error();
        int rc = aws_byte_cursor_find_exact(&cur, &nc, &found);
        if (rc == AWS_OP_SUCCESS) {
            fz::check_view("find_exact result", found.ptr, found.len, in.p, in.n);
            FZ_CHECK(found.len >= nd.n && (nd.n == 0 || memcmp(found.ptr, nd.p, nd.n) == 0), "find_exact result does not start with the needle");
        } else {
            fz::check_error_raised("find_exact");
        }
    }
    if (accepted) fz::tag("accepted");
    fz::count(data, size, accepted || fields >= 2);
    return 0;
}

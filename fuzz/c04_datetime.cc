// C04 / datetime — arbitrary bytes through the three explicit parsers and auto-detection, via the
// cursor and the byte_buf entry points, lengths up to 120 (across the documented 100-byte limit).
// Oracle: returns; AWS_OP_ERR => registered error; on success the instant can be formatted again.
#include "fuzz.hpp"

#include <aws/common/byte_buf.h>
#include <aws/common/date_time.h>

extern "C" int LLVMFuzzerInitialize(int *, char ***) {
    aws_common_library_init(aws_default_allocator());
    fz::setup("C04", "c04_datetime", "bytes -> date text for 4 formats x 2 entry points; non-trivial = accepted by some format, or rejected after >=1 digit and >=1 separator");
    return 0;
}

extern "C" int LLVMFuzzerTestOneInput(const uint8_t *data, size_t size) {
    fz::Exact in(data, size);
    bool any_ok = false;
    enum aws_date_format fmts[] = {AWS_DATE_FORMAT_RFC822, AWS_DATE_FORMAT_ISO_8601, AWS_DATE_FORMAT_ISO_8601_BASIC, AWS_DATE_FORMAT_AUTO_DETECT};
    for (int f = 0; f < 4; f++) {
        for (int entry = 0; entry < 2; entry++) {
            struct aws_date_time dt;
            AWS_ZERO_STRUCT(dt);
            aws_reset_error();
            int rc;
            if (entry == 0) {
                struct aws_byte_cursor c = aws_byte_cursor_from_array(in.p, in.n);
                rc = aws_date_time_init_from_str_cursor(&dt, &c, fmts[f]);
            } else {
                struct aws_byte_buf b = aws_byte_buf_from_array(in.p, in.n);
                rc = aws_date_time_init_from_str(&dt, &b, fmts[f]);
            }
            if (rc != AWS_OP_SUCCESS) {
                FZ_CHECK(rc == AWS_OP_ERR, "parser returned %d", rc);
                fz::check_error_raised("aws_date_time_init_from_str*");
                continue;
            }
            any_ok = true;
            // the accessors and formatters must cope with whatever instant was accepted
            (void)aws_date_time_as_epoch_secs(&dt);
            (void)aws_date_time_as_millis(&dt);
            (void)aws_date_time_year(&dt, false);
            (void)aws_date_time_month(&dt, false);
            (void)aws_date_time_month_day(&dt, false);
            (void)aws_date_time_day_of_week(&dt, false);
            (void)aws_date_time_hour(&dt, false);
            (void)aws_date_time_minute(&dt, false);
            (void)aws_date_time_second(&dt, false);
            for (int g = 0; g < 3; g++) {
                uint8_t outb[AWS_DATE_TIME_STR_MAX_LEN + 16];
                memset(outb, 0x7e, sizeof outb);
                struct aws_byte_buf out = aws_byte_buf_from_empty_array(outb, AWS_DATE_TIME_STR_MAX_LEN);
                aws_reset_error();
                int r2 = aws_date_time_to_utc_time_str(&dt, fmts[g], &out);
                if (r2 != AWS_OP_SUCCESS) fz::check_error_raised("aws_date_time_to_utc_time_str");
                FZ_CHECK(out.len <= AWS_DATE_TIME_STR_MAX_LEN, "formatted length %zu", out.len);
                for (size_t i = AWS_DATE_TIME_STR_MAX_LEN; i < sizeof outb; i++) FZ_CHECK(outb[i] == 0x7e, "formatter wrote past its buffer");
                struct aws_byte_buf out2 = aws_byte_buf_from_empty_array(outb, AWS_DATE_TIME_STR_MAX_LEN);
                if (aws_date_time_to_utc_time_short_str(&dt, fmts[g], &out2) != AWS_OP_SUCCESS) fz::check_error_raised("to_utc_time_short_str");
            }
        }
    }
    bool digit = false, sep = false;
    for (size_t i = 0; i < size; i++) {
        digit |= data[i] >= '0' && data[i] <= '9';
        sep |= data[i] == '-' || data[i] == ':' || data[i] == ' ' || data[i] == 'T' || data[i] == ',';
    }
    if (any_ok) fz::tag("accepted");
    fz::count(data, size, any_ok || (digit && sep));
    return 0;
}

// C04 / codec — arbitrary bytes through base64 / hex decoding (generated output capacity) and the
// UTF-8 validator (one-shot vs. chunked, with an aborting callback option).
// Oracle: returns; AWS_OP_ERR => registered error; output len <= capacity (exact-size heap blocks make
// one byte out of bounds an ASan report); one-shot and chunked UTF-8 verdicts agree.
#include "fuzz.hpp"

#include <aws/common/byte_buf.h>
#include <aws/common/encoding.h>
#include <fuzzer/FuzzedDataProvider.h>

extern "C" int LLVMFuzzerInitialize(int *, char ***) {
    aws_common_library_init(aws_default_allocator());
    fz::setup("C04", "c04_codec", "bytes -> (capacity knob, chunking, text); non-trivial = some decoder accepted >=4 bytes, or rejected after accepting a prefix of >=4 alphabet characters");
    return 0;
}

struct CpUD {
    std::vector<uint32_t> cps;
    size_t abort_at;
};
static int on_cp(uint32_t cp, void *ud) {
    CpUD *u = (CpUD *)ud;
    if (u->cps.size() == u->abort_at) return aws_raise_error(AWS_ERROR_INVALID_ARGUMENT);
    u->cps.push_back(cp);
    return AWS_OP_SUCCESS;
}

extern "C" int LLVMFuzzerTestOneInput(const uint8_t *data, size_t size) {
    FuzzedDataProvider fdp(data, size);
    uint8_t knob = fdp.ConsumeIntegral<uint8_t>();
    uint8_t chunk = fdp.ConsumeIntegral<uint8_t>();
    uint8_t abort_at = fdp.ConsumeIntegral<uint8_t>();
    std::vector<uint8_t> text = fdp.ConsumeRemainingBytes<uint8_t>();
    fz::Exact in(text.data(), text.size());
    struct aws_byte_cursor cur = aws_byte_cursor_from_array(in.p, in.n);
    galloc::reset();
    struct aws_allocator *alloc = galloc::full();
    bool accepted = false;

    for (int which = 0; which < 2; which++) {
        size_t need = 0;
        aws_reset_error();
        int rc = which == 0 ? aws_base64_compute_decoded_len(&cur, &need) : aws_hex_compute_decoded_len(in.n, &need);
        if (rc != AWS_OP_SUCCESS) {
            fz::check_error_raised("compute_decoded_len");
            continue;
        }
        FZ_CHECK(need <= in.n, "decoded length %zu predicted for %zu input bytes", need, in.n);
        size_t cap;
        switch (knob % 5) {
        case 0: cap = need; break;
        case 1: cap = need ? need - 1 : 0; break;
        case 2: cap = 0; break;
        case 3: cap = need + 1; break;
        default: cap = need + 40; break;
        }
        struct aws_byte_buf out;
        aws_byte_buf_init(&out, alloc, cap);
        aws_reset_error();
        rc = which == 0 ? aws_base64_decode(&cur, &out) : aws_hex_decode(&cur, &out);
        if (rc == AWS_OP_SUCCESS) {
            FZ_CHECK(out.len <= out.capacity, "decoder reported len %zu > capacity %zu", out.len, out.capacity);
            FZ_CHECK(out.len == need, "decoder produced %zu bytes, predicted %zu", out.len, need);
            FZ_CHECK(cap >= need, "decode succeeded into a buffer smaller than the predicted length");
            if (in.n >= 4) accepted = true;
        } else {
            FZ_CHECK(rc == AWS_OP_ERR, "decoder returned %d", rc);
            fz::check_error_raised(which == 0 ? "aws_base64_decode" : "aws_hex_decode");
            if (cap < need) FZ_CHECK(aws_last_error() == AWS_ERROR_SHORT_BUFFER, "short buffer reported as %s", aws_error_name(aws_last_error()));
        }
        aws_byte_buf_clean_up(&out);
    }

    // UTF-8: one shot vs chunked
    {
        CpUD a{{}, (size_t)(abort_at < 200 ? SIZE_MAX : abort_at - 200)}, b{{}, a.abort_at};
        struct aws_utf8_decoder_options oa = {on_cp, &a}, ob = {on_cp, &b};
        aws_reset_error();
        int r1 = aws_decode_utf8(cur, &oa);
        if (r1 != AWS_OP_SUCCESS) fz::check_error_raised("aws_decode_utf8");
        struct aws_utf8_decoder *dec = aws_utf8_decoder_new(alloc, &ob);
        FZ_CHECK(dec != nullptr, "utf8 decoder_new");
        int r2 = AWS_OP_SUCCESS;
        size_t step = 1 + chunk % 7, pos = 0;
        while (pos < in.n && r2 == AWS_OP_SUCCESS) {
            size_t k = step;
            if (pos + k > in.n) k = in.n - pos;
            r2 = aws_utf8_decoder_update(dec, aws_byte_cursor_from_array(in.p + pos, k));
            pos += k;
            step = 1 + (step * 5 + chunk) % 9;
            if ((chunk & 0x80) && r2 == AWS_OP_SUCCESS) r2 = aws_utf8_decoder_update(dec, aws_byte_cursor_from_array(in.p, 0)); // empty chunk
        }
        if (r2 == AWS_OP_SUCCESS) r2 = aws_utf8_decoder_finalize(dec);
        FZ_CHECK((r1 == AWS_OP_SUCCESS) == (r2 == AWS_OP_SUCCESS), "UTF-8 verdict depends on chunking: one-shot %d, chunked %d", r1, r2);
        size_t common = a.cps.size() < b.cps.size() ? a.cps.size() : b.cps.size();
        if (r1 == AWS_OP_SUCCESS) FZ_CHECK(a.cps == b.cps, "UTF-8 code points depend on chunking (%zu vs %zu)", a.cps.size(), b.cps.size());
        else
            for (size_t i = 0; i < common; i++) FZ_CHECK(a.cps[i] == b.cps[i], "UTF-8 code point %zu depends on chunking", i);
        if (r1 == AWS_OP_SUCCESS && a.cps.size() >= 2) accepted = true;
        aws_utf8_decoder_destroy(dec);
    }
    const char *m = nullptr;
    if (!galloc::check_all(&m)) FZ_FAIL("%s", m);
    FZ_CHECK(galloc::live_blocks() == 0, "%zu blocks leaked", galloc::live_blocks());
    size_t alpha = 0;
    while (alpha < in.n && ((in.p[alpha] | 32) >= 'a' && (in.p[alpha] | 32) <= 'z' || (in.p[alpha] >= '0' && in.p[alpha] <= '9'))) alpha++;
    if (accepted) fz::tag("accepted");
    fz::count(data, size, accepted || alpha >= 4);
    return 0;
}

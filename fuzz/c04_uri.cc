// C04 / uri — arbitrary bytes through the URI parser, the query-string iterators and the percent
// decoder/encoders.  Oracle: returns; AWS_OP_ERR => registered error; every component view lies inside
// the URI object's own copy of the text; iteration terminates; output buffers keep their prefix.
#include "fuzz.hpp"

#include <aws/common/array_list.h>
#include <aws/common/byte_buf.h>
#include <aws/common/uri.h>
#include <fuzzer/FuzzedDataProvider.h>

extern "C" int LLVMFuzzerInitialize(int *, char ***) {
    aws_common_library_init(aws_default_allocator());
    fz::setup("C04", "c04_uri", "bytes -> (knobs, text); non-trivial = parsed with >=3 non-empty components, or rejected after a ':' '/' '?' or '%' was seen");
    return 0;
}

static void view(const struct aws_uri *u, const char *what, const struct aws_byte_cursor *c) {
    fz::check_view(what, c->ptr, c->len, u->uri_str.buffer, u->uri_str.len);
}

extern "C" int LLVMFuzzerTestOneInput(const uint8_t *data, size_t size) {
    FuzzedDataProvider fdp(data, size);
    uint8_t knob = fdp.ConsumeIntegral<uint8_t>();
    size_t prior = fdp.ConsumeIntegralInRange<size_t>(0, 9);
    std::vector<uint8_t> text = fdp.ConsumeRemainingBytes<uint8_t>();
    fz::Exact in(text.data(), text.size());
    struct aws_byte_cursor cur = aws_byte_cursor_from_array(in.n == 0 && (knob & 1) ? nullptr : in.p, in.n);
    galloc::reset();
    struct aws_allocator *alloc = galloc::full();
    int comps = 0;
    bool parsed = false;

    struct aws_uri uri;
    aws_reset_error();
    int rc = aws_uri_init_parse(&uri, alloc, &cur);
    if (rc == AWS_OP_SUCCESS) {
        parsed = true;
        FZ_CHECK(uri.uri_str.len == in.n && (in.n == 0 || memcmp(uri.uri_str.buffer, in.p, in.n) == 0), "the URI's copy of the text differs from the input");
        const struct aws_byte_cursor *cs[] = {aws_uri_scheme(&uri), aws_uri_authority(&uri), aws_uri_host_name(&uri), aws_uri_path(&uri),
                                              aws_uri_query_string(&uri), aws_uri_path_and_query(&uri), &uri.userinfo, &uri.user, &uri.password};
        const char *names[] = {"scheme", "authority", "host_name", "path", "query_string", "path_and_query", "userinfo", "user", "password"};
        for (int i = 0; i < 9; i++) {
            view(&uri, names[i], cs[i]);
            if (cs[i]->len) comps++;
        }
        (void)aws_uri_port(&uri);
        // iterator form: terminates, views inside
        struct aws_uri_param p;
        AWS_ZERO_STRUCT(p);
        size_t it = 0;
        while (aws_uri_query_string_next_param(&uri, &p)) {
            view(&uri, "param key", &p.key);
            view(&uri, "param value", &p.value);
            FZ_CHECK(++it <= uri.query_string.len + 1, "query iteration does not terminate");
        }
        struct aws_array_list params;
        aws_array_list_init_dynamic(&params, alloc, 2, sizeof(struct aws_uri_param));
        aws_reset_error();
        if (aws_uri_query_string_params(&uri, &params) != AWS_OP_SUCCESS) fz::check_error_raised("aws_uri_query_string_params");
        FZ_CHECK(aws_array_list_length(&params) == it, "list form yields %zu params, iterator form %zu", aws_array_list_length(&params), it);
        aws_array_list_clean_up(&params);
        aws_uri_clean_up(&uri);
    } else {
        FZ_CHECK(rc == AWS_OP_ERR, "aws_uri_init_parse returned %d", rc);
        fz::check_error_raised("aws_uri_init_parse");
    }

    // stand-alone query iteration over the raw bytes
    {
        struct aws_uri_param p;
        AWS_ZERO_STRUCT(p);
        size_t it = 0;
        while (aws_query_string_next_param(cur, &p)) {
            fz::check_view("raw param key", p.key.ptr, p.key.len, in.p, in.n);
            fz::check_view("raw param value", p.value.ptr, p.value.len, in.p, in.n);
            FZ_CHECK(++it <= in.n + 1, "raw query iteration does not terminate");
        }
    }
    // percent-decoding / encoding into a buffer with prior content
    for (int mode = 0; mode < 3; mode++) {
        struct aws_byte_buf out;
        aws_byte_buf_init(&out, alloc, prior + ((knob >> 1) & 7));
        for (size_t i = 0; i < prior; i++) out.buffer[out.len++] = (uint8_t)('p' + i);
        aws_reset_error();
        int r = mode == 0   ? aws_byte_buf_append_decoding_uri(&out, &cur)
                : mode == 1 ? aws_byte_buf_append_encoding_uri_path(&out, &cur)
                            : aws_byte_buf_append_encoding_uri_param(&out, &cur);
        if (r != AWS_OP_SUCCESS) {
            FZ_CHECK(r == AWS_OP_ERR, "mode %d returned %d", mode, r);
            fz::check_error_raised(mode == 0 ? "append_decoding_uri" : "append_encoding_uri");
        }
        FZ_CHECK(out.len <= out.capacity, "len %zu > capacity %zu", out.len, out.capacity);
        FZ_CHECK(out.len >= prior, "output shrank below its prior content");
        for (size_t i = 0; i < prior; i++) FZ_CHECK(out.buffer[i] == (uint8_t)('p' + i), "prior content of the output buffer changed (mode %d)", mode);
        if (r == AWS_OP_SUCCESS && mode == 0) FZ_CHECK(out.len - prior <= in.n, "decoded output longer than its input");
        if (r == AWS_OP_SUCCESS && mode != 0) FZ_CHECK(out.len - prior >= in.n && out.len - prior <= 3 * in.n, "encoded length %zu for %zu input bytes", out.len - prior, in.n);
        aws_byte_buf_clean_up(&out);
    }
    const char *m = nullptr;
    if (!galloc::check_all(&m)) FZ_FAIL("%s", m);
    FZ_CHECK(galloc::live_blocks() == 0, "%zu blocks left (a failed parse must not keep its copy)", galloc::live_blocks());
    bool delim = false;
    for (size_t i = 0; i < in.n && !delim; i++) delim = in.p[i] == ':' || in.p[i] == '/' || in.p[i] == '?' || in.p[i] == '%';
    if (parsed) fz::tag("parsed");
    fz::count(data, size, (parsed && comps >= 3) || (!parsed && delim));
    return 0;
}

// C04 / json — arbitrary bytes through the JSON parser; on success the value is printed (compact and
// formatted), duplicated, compared and destroyed, and the printed text must parse again.
// Oracle: returns; failure = NULL result; no memory left behind by a failed parse or by destroy.
#include "fuzz.hpp"

#include <aws/common/byte_buf.h>
#include <aws/common/json.h>

static size_t g_base_blocks = 0;

extern "C" int LLVMFuzzerInitialize(int *, char ***) {
    // the JSON module allocates through the allocator given at library init: use galloc for balance checks
    aws_common_library_init(galloc::full());
    g_base_blocks = galloc::live_blocks();
    fz::setup("C04", "c04_json", "bytes -> JSON text; non-trivial = accepted with >=2 nested levels, or rejected after >=1 structural token");
    return 0;
}

static int nesting(const uint8_t *d, size_t n) {
    int cur = 0, mx = 0;
    for (size_t i = 0; i < n; i++) {
        if (d[i] == '[' || d[i] == '{') mx = ++cur > mx ? cur : mx;
        else if ((d[i] == ']' || d[i] == '}') && cur > 0) cur--;
    }
    return mx;
}

extern "C" int LLVMFuzzerTestOneInput(const uint8_t *data, size_t size) {
    bool null_empty = size > 0 && (data[0] & 1);
    fz::Exact in(data, size);
    struct aws_byte_cursor cur = aws_byte_cursor_from_array(in.n == 0 && null_empty ? nullptr : in.p, in.n);
    struct aws_allocator *alloc = galloc::full();
    aws_reset_error();
    struct aws_json_value *v = aws_json_value_new_from_string(alloc, cur);
    bool accepted = v != nullptr;
    if (v) {
        struct aws_byte_buf out, out2;
        aws_byte_buf_init(&out, alloc, 16);
        aws_byte_buf_init(&out2, alloc, 0);
        // prefix must survive an append
        const char *pre = "PFX";
        struct aws_byte_cursor pc = aws_byte_cursor_from_c_str(pre);
        aws_byte_buf_append_dynamic(&out, &pc);
        aws_reset_error();
        int rc1 = aws_byte_buf_append_json_string(v, &out);
        int rc2 = aws_byte_buf_append_json_string_formatted(v, &out2);
        if (rc1 != AWS_OP_SUCCESS || rc2 != AWS_OP_SUCCESS) {
            fz::check_error_raised("aws_byte_buf_append_json_string");
        } else {
            FZ_CHECK(out.len >= 3 && memcmp(out.buffer, pre, 3) == 0, "serialisation overwrote the existing buffer contents");
            FZ_CHECK(out.len <= out.capacity && out2.len <= out2.capacity, "len > capacity");
            struct aws_json_value *r = aws_json_value_new_from_string(alloc, aws_byte_cursor_from_array(out.buffer + 3, out.len - 3));
            FZ_CHECK(r != nullptr, "the serialiser's compact output does not parse");
            struct aws_json_value *r2 = aws_json_value_new_from_string(alloc, aws_byte_cursor_from_buf(&out2));
            FZ_CHECK(r2 != nullptr, "the serialiser's formatted output does not parse");
            aws_json_value_destroy(r);
            aws_json_value_destroy(r2);
        }
        struct aws_json_value *d = aws_json_value_duplicate(v);
        FZ_CHECK(d != nullptr, "duplicate failed");
        aws_json_value_destroy(v);
        // the duplicate survives its original
        struct aws_byte_buf out3;
        aws_byte_buf_init(&out3, alloc, 0);
        aws_byte_buf_append_json_string(d, &out3);
        aws_byte_buf_clean_up(&out3);
        aws_json_value_destroy(d);
        aws_byte_buf_clean_up(&out);
        aws_byte_buf_clean_up(&out2);
    }
    const char *m = nullptr;
    if (!galloc::check_all(&m)) FZ_FAIL("%s", m);
    if (galloc::live_blocks() != g_base_blocks)
        FZ_FAIL("%zu blocks left after %s parse + destroy", galloc::live_blocks() - g_base_blocks, accepted ? "a successful" : "a failed");
    int nest = nesting(data, size);
    bool structural = false;
    for (size_t i = 0; i < size && !structural; i++) structural = data[i] == '{' || data[i] == '[' || data[i] == '"';
    if (accepted) fz::tag("accepted");
    fz::count(data, size, (accepted && nest >= 2) || (!accepted && structural));
    return 0;
}

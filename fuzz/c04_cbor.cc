// C04 / cbor — arbitrary bytes + a program of decoder calls in any order.
// Oracle: returns; AWS_OP_ERR comes with a registered error; text/bytes views lie inside the input;
// the remaining length never grows and never exceeds the input.
#include "fuzz.hpp"

#include <aws/common/cbor.h>
#include <fuzzer/FuzzedDataProvider.h>

extern "C" int LLVMFuzzerInitialize(int *, char ***) {
    aws_common_library_init(aws_default_allocator());
    fz::setup("C04", "c04_cbor", "bytes -> (decoder call program, CBOR bytes); non-trivial = >=2 successful calls, or a failure after >=1 successful call");
    return 0;
}

extern "C" int LLVMFuzzerTestOneInput(const uint8_t *data, size_t size) {
    FuzzedDataProvider fdp(data, size);
    size_t plen = fdp.ConsumeIntegralInRange<size_t>(0, 24);
    std::vector<uint8_t> prog = fdp.ConsumeBytes<uint8_t>(plen);
    std::vector<uint8_t> doc = fdp.ConsumeRemainingBytes<uint8_t>();
    fz::Exact in(doc.data(), doc.size());
    galloc::reset();
    struct aws_cbor_decoder *dec = aws_cbor_decoder_new(galloc::full(), aws_byte_cursor_from_array(in.p, in.n));
    FZ_CHECK(dec != nullptr, "decoder_new returned NULL");
    size_t remaining = aws_cbor_decoder_get_remaining_length(dec);
    FZ_CHECK(remaining == in.n, "fresh decoder reports %zu remaining of %zu", remaining, in.n);
    size_t ok = 0, bad = 0;
    bool fail_after_ok = false;
    size_t steps = prog.empty() ? 8 : prog.size() * 2;
    for (size_t i = 0; i < steps; i++) {
        uint8_t op = prog.empty() ? (uint8_t)(i % 3 == 0 ? 13 : 0) : prog[i % prog.size()] % 15;
        int rc = AWS_OP_SUCCESS;
        uint64_t u = 0;
        double d = 0;
        bool b = false;
        struct aws_byte_cursor c = {0, nullptr};
        enum aws_cbor_type t = AWS_CBOR_TYPE_UNKNOWN;
        aws_reset_error();
        const char *what = "";
        switch (op) {
        case 0: what = "peek_type"; rc = aws_cbor_decoder_peek_type(dec, &t); break;
        case 1: what = "pop_uint"; rc = aws_cbor_decoder_pop_next_unsigned_int_val(dec, &u); break;
        case 2: what = "pop_negint"; rc = aws_cbor_decoder_pop_next_negative_int_val(dec, &u); break;
        case 3: what = "pop_float"; rc = aws_cbor_decoder_pop_next_float_val(dec, &d); break;
        case 4: what = "pop_bool"; rc = aws_cbor_decoder_pop_next_boolean_val(dec, &b); break;
        case 5:
            what = "pop_bytes";
            rc = aws_cbor_decoder_pop_next_bytes_val(dec, &c);
            if (rc == AWS_OP_SUCCESS) fz::check_view("bytes value", c.ptr, c.len, in.p, in.n);
            break;
        case 6:
            what = "pop_text";
            rc = aws_cbor_decoder_pop_next_text_val(dec, &c);
            if (rc == AWS_OP_SUCCESS) fz::check_view("text value", c.ptr, c.len, in.p, in.n);
            break;
        case 7: what = "pop_array_start"; rc = aws_cbor_decoder_pop_next_array_start(dec, &u); break;
        case 8: what = "pop_map_start"; rc = aws_cbor_decoder_pop_next_map_start(dec, &u); break;
        case 9: what = "pop_tag"; rc = aws_cbor_decoder_pop_next_tag_val(dec, &u); break;
        case 10:
        case 11: what = "consume_single"; rc = aws_cbor_decoder_consume_next_single_element(dec); break;
        default: what = "consume_whole"; rc = aws_cbor_decoder_consume_next_whole_data_item(dec); break;
        }
        if (rc == AWS_OP_SUCCESS) {
            ok++;
            if (op == 0) FZ_CHECK(t > AWS_CBOR_TYPE_UNKNOWN && t <= AWS_CBOR_TYPE_INDEF_MAP_START, "peek_type succeeded with type %d", (int)t);
        } else {
            FZ_CHECK(rc == AWS_OP_ERR, "%s returned %d", what, rc);
            fz::check_error_raised(what);
            bad++;
            if (ok) fail_after_ok = true;
        }
        size_t r2 = aws_cbor_decoder_get_remaining_length(dec);
        FZ_CHECK(r2 <= remaining, "%s: remaining length grew from %zu to %zu", what, remaining, r2);
        if (rc != AWS_OP_SUCCESS && op != 0) { /* a failed call may or may not have consumed a malformed head; only monotonicity is required */ }
        remaining = r2;
    }
    aws_cbor_decoder_destroy(dec);
    const char *m = nullptr;
    if (!galloc::check_all(&m)) FZ_FAIL("%s", m);
    FZ_CHECK(galloc::live_blocks() == 0, "decoder leaked %zu blocks", galloc::live_blocks());
    fz::count(data, size, ok >= 2 || fail_after_ok);
    return 0;
}

// C05 (decode side, coverage-guided) — arbitrary bytes through the vectorised and the portable base64 /
// hex code at once.  Oracle: both give the same verdict, error code, length and bytes; the verdict equals
// that of a strict RFC 4648 reference (canonical alphabet, '=' only as the last one or two characters,
// zero trailing bits); what was accepted re-encodes to the same text; encode(x) is accepted and gives x.
#include "fuzz.hpp"

#include <aws/common/byte_buf.h>
#include <aws/common/encoding.h>
#include <fuzzer/FuzzedDataProvider.h>

extern "C" {
int pt_aws_base64_compute_decoded_len(const struct aws_byte_cursor *to_decode, size_t *decoded_len);
int pt_aws_base64_decode(const struct aws_byte_cursor *to_decode, struct aws_byte_buf *output);
int pt_aws_base64_encode(const struct aws_byte_cursor *to_encode, struct aws_byte_buf *output);
int pt_aws_base64_compute_encoded_len(size_t to_encode_len, size_t *encoded_len);
int pt_aws_hex_decode(const struct aws_byte_cursor *to_decode, struct aws_byte_buf *output);
int pt_aws_hex_encode(const struct aws_byte_cursor *to_encode, struct aws_byte_buf *output);
}

static int b64val(uint8_t c) {
    if (c >= 'A' && c <= 'Z') return c - 'A';
    if (c >= 'a' && c <= 'z') return c - 'a' + 26;
    if (c >= '0' && c <= '9') return c - '0' + 52;
    if (c == '+') return 62;
    if (c == '/') return 63;
    return -1;
}
// strict reference: returns true and the bytes iff the text is canonical base64
static bool ref_b64(const uint8_t *t, size_t n, std::vector<uint8_t> &out) {
    out.clear();
    if (n % 4) return false;
    for (size_t i = 0; i < n; i += 4) {
        bool last = i + 4 == n;
        int v[4];
        int pads = 0;
        for (int k = 0; k < 4; k++) {
            if (t[i + k] == '=' && last && k >= 2) {
                v[k] = 0;
                pads++;
            } else {
                if (pads) return false; // data after padding
                v[k] = b64val(t[i + k]);
                if (v[k] < 0) return false;
            }
        }
        uint32_t w = (uint32_t)v[0] << 18 | (uint32_t)v[1] << 12 | (uint32_t)v[2] << 6 | (uint32_t)v[3];
        if (pads == 2 && (v[1] & 0x0f)) return false;
        if (pads == 1 && (v[2] & 0x03)) return false;
        out.push_back((uint8_t)(w >> 16));
        if (pads < 2) out.push_back((uint8_t)(w >> 8));
        if (pads < 1) out.push_back((uint8_t)w);
    }
    return true;
}

extern "C" int LLVMFuzzerInitialize(int *, char ***) {
    aws_common_library_init(aws_default_allocator());
    fz::setup("C05", "c05_codec_diff", "bytes -> text for both base64/hex decoders and data for both encoders; non-trivial = >=8 alphabet characters, or accepted with >=5 bytes");
    return 0;
}

struct Res {
    int rc, err;
    std::vector<uint8_t> bytes;
};
template <class F> static Res run_dec(F f, const struct aws_byte_cursor *cur, size_t cap) {
    struct aws_byte_buf out;
    aws_byte_buf_init(&out, galloc::full(), cap);
    aws_reset_error();
    Res r;
    r.rc = f(cur, &out);
    r.err = r.rc == AWS_OP_SUCCESS ? 0 : aws_last_error();
    if (r.rc == AWS_OP_SUCCESS) {
        FZ_CHECK(out.len <= out.capacity, "len %zu > capacity %zu", out.len, out.capacity);
        r.bytes.assign(out.buffer, out.buffer + out.len);
    }
    aws_byte_buf_clean_up(&out);
    return r;
}

extern "C" int LLVMFuzzerTestOneInput(const uint8_t *data, size_t size) {
    fz::Exact in(data, size);
    struct aws_byte_cursor cur = aws_byte_cursor_from_array(in.p, in.n);
    galloc::reset();
    bool nt = false;
    // ---- base64 decode, both paths ----
    size_t need_a = 0, need_b = 0;
    int la = aws_base64_compute_decoded_len(&cur, &need_a), lb = pt_aws_base64_compute_decoded_len(&cur, &need_b);
    FZ_CHECK((la == AWS_OP_SUCCESS) == (lb == AWS_OP_SUCCESS) && (la != AWS_OP_SUCCESS || need_a == need_b), "decoded-length prediction differs between the builds");
    std::vector<uint8_t> want;
    bool canon = ref_b64(in.p, in.n, want);
    if (la == AWS_OP_SUCCESS) {
        Res a = run_dec(aws_base64_decode, &cur, need_a), b = run_dec(pt_aws_base64_decode, &cur, need_a);
        FZ_CHECK(a.rc == b.rc, "base64 verdict depends on the code path: vectorised %d, portable %d", a.rc, b.rc);
        FZ_CHECK(a.err == b.err, "base64 error code depends on the code path: %d vs %d", a.err, b.err);
        FZ_CHECK(a.bytes == b.bytes, "base64 output depends on the code path");
        FZ_CHECK((a.rc == AWS_OP_SUCCESS) == canon, "base64 decoder %s a text that %s canonical RFC 4648", a.rc == AWS_OP_SUCCESS ? "accepted" : "rejected",
                 canon ? "is" : "is not");
        if (a.rc == AWS_OP_SUCCESS) {
            FZ_CHECK(a.bytes == want, "base64 decoder produced other bytes than the reference");
            FZ_CHECK(a.bytes.size() == need_a, "decoder produced %zu bytes, predicted %zu", a.bytes.size(), need_a);
            if (a.bytes.size() >= 5) nt = true;
        }
    } else {
        FZ_CHECK(!canon || in.n == 0, "length prediction rejected canonical text");
    }
    // ---- hex decode, both paths ----
    {
        size_t hn = (in.n + 1) / 2;
        Res a = run_dec(aws_hex_decode, &cur, hn), b = run_dec(pt_aws_hex_decode, &cur, hn);
        FZ_CHECK(a.rc == b.rc && a.err == b.err && a.bytes == b.bytes, "hex decoding depends on the build");
        bool allhex = true;
        for (size_t i = 0; i < in.n; i++) allhex &= (in.p[i] >= '0' && in.p[i] <= '9') || ((in.p[i] | 32) >= 'a' && (in.p[i] | 32) <= 'f');
        FZ_CHECK((a.rc == AWS_OP_SUCCESS) == allhex, "hex decoder verdict %d for text that %s all hex digits", a.rc, allhex ? "is" : "is not");
    }
    // ---- the same bytes as data: both encoders agree, are canonical, and decode back ----
    {
        size_t el = 0;
        FZ_CHECK(aws_base64_compute_encoded_len(in.n, &el) == AWS_OP_SUCCESS, "encoded len");
        struct aws_byte_buf ea, eb;
        aws_byte_buf_init(&ea, galloc::full(), el);
        aws_byte_buf_init(&eb, galloc::full(), el);
        FZ_CHECK(aws_base64_encode(&cur, &ea) == AWS_OP_SUCCESS && pt_aws_base64_encode(&cur, &eb) == AWS_OP_SUCCESS, "encode failed");
        FZ_CHECK(ea.len == eb.len && (ea.len == 0 || memcmp(ea.buffer, eb.buffer, ea.len) == 0), "base64 encoding depends on the code path");
        size_t txt = ea.len;
        while (txt && ea.buffer[txt - 1] == 0) txt--; // the encoders may count a terminator
        std::vector<uint8_t> back;
        FZ_CHECK(ref_b64(ea.buffer, txt, back) && back.size() == in.n && (in.n == 0 || memcmp(back.data(), in.p, in.n) == 0), "encoder output is not the canonical encoding of its input");
        aws_byte_buf_clean_up(&ea);
        aws_byte_buf_clean_up(&eb);
    }
    FZ_CHECK(galloc::live_blocks() == 0, "leak");
    size_t alpha = 0;
    for (size_t i = 0; i < in.n; i++) alpha += b64val(in.p[i]) >= 0;
    fz::count(data, size, nt || alpha >= 8);
    return 0;
}

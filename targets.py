"""Registry of harness targets and of the per-property check plans used by ./check."""

TARGETS = {}
PROPS = {}


def rc_target(name, flavour="asan", **kw):
    d = dict(name=name, src="harness/%s.cpp" % name, flavour=flavour, kind="rc")
    d.update(kw)
    TARGETS[name] = d


def fuzz_target(name, **kw):
    d = dict(name=name, src="fuzz/%s.cc" % name, flavour="fuzz", kind="fuzz")
    d.update(kw)
    TARGETS[name] = d


def plan(prop, targets, **kw):
    d = dict(targets=targets)
    d.update(kw)
    PROPS[prop] = d


def T(t, qcases, tcases, qworkers=4, tworkers=14, max_size=100):
    return dict(t=t, quick=dict(workers=qworkers, cases=qcases, max_size=max_size),
                thorough=dict(workers=tworkers, cases=tcases, max_size=max_size))


def TT(t, tcases, tworkers=6, max_size=100):
    """A rapidcheck target that takes part in the thorough tier only (e.g. the gcc-built variants: a g++ -O2 build of a
    harness takes 20-50 s, too long for the check that runs on every change)."""
    return dict(t=t, quick=None, thorough=dict(workers=tworkers, cases=tcases, max_size=max_size))


def GCC(name, **kw):
    """<name>_gcc: the same harness source, library and harness built by gcc / g++ -O2 (flavour gcc-asan)."""
    base = dict(TARGETS[name])
    base.update(dict(name=name + "_gcc", flavour="gcc-asan"))
    base.update(kw)
    TARGETS[name + "_gcc"] = base
    return name + "_gcc"


def F(t, qsecs, tsecs, qworkers=2, tworkers=4):
    return dict(t=t, quick=dict(workers=qworkers, secs=qsecs), thorough=dict(workers=tworkers, secs=tsecs))


NOT_APPLICABLE = {}
EXTRA_ENGINES = []

# one file per property under plans/ registers its targets and its plan
import glob as _glob
import os as _os
for _f in sorted(_glob.glob(_os.path.join(_os.path.dirname(_os.path.abspath(__file__)), "plans", "*.py"))):
    exec(compile(open(_f).read(), _f, "exec"))

"""Registry of harness targets and of the per-property check plans used by ./check."""

TARGETS = {}
PROPS = {}


def rc_target(name, flavour="asan", **kw):
    d = dict(name=name, src="harness/%s.cpp" % name, flavour=flavour, kind="rc")
    d.update(kw)
    TARGETS[name] = d


def fuzz_target(name, **kw):
    d = dict(name=name, src="fuzz/%s.cc" % name, flavour="fuzz", kind="fuzz")
    d.update(kw)
    TARGETS[name] = d


def plan(prop, targets, **kw):
    d = dict(targets=targets)
    d.update(kw)
    PROPS[prop] = d


def T(t, qcases, tcases, qworkers=4, tworkers=14, max_size=100):
    return dict(t=t, quick=dict(workers=qworkers, cases=qcases, max_size=max_size),
                thorough=dict(workers=tworkers, cases=tcases, max_size=max_size))


def F(t, qsecs, tsecs, qworkers=2, tworkers=4):
    return dict(t=t, quick=dict(workers=qworkers, secs=qsecs), thorough=dict(workers=tworkers, secs=tsecs))


NOT_APPLICABLE = {}
EXTRA_ENGINES = []

# one file per property under plans/ registers its targets and its plan
import glob as _glob
import os as _os
for _f in sorted(_glob.glob(_os.path.join(_os.path.dirname(_os.path.abspath(__file__)), "plans", "*.py"))):
    exec(compile(open(_f).read(), _f, "exec"))

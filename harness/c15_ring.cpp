// C15 — ring buffer never hands out overlapping memory, sequentially and in every interleaving of
// one acquirer and one releaser thread (controlled scheduler, schedule points at every atomic).
// See DESIGN.md section 5 / C15 and section 4.
#include "pbt.hpp"
#include "galloc.hpp"
#include "detsched/sched_glue.hpp"

#include <aws/common/byte_buf.h>
#include <aws/common/error.h>
#include <aws/common/ring_buffer.h>

#include <deque>
#include <pthread.h>

using namespace pbt;

enum { ACQ = 0, ACQ_UP_TO = 1, REL = 2 };

static Case gen_case() {
    Case c;
    uint64_t size = one_of({1, 2, 3, 4, 5, 7, 8, 9, 15, 16, 17, 31, 32, 33, 48}) ;
    if (chance(30)) size = pick(1, 48);
    uint64_t mode = weighted({3, 7}); // 0 sequential, 1 two threads
    c.cfg = {mode, size};
    auto small = [size]() -> uint64_t {
        switch (weighted({2, 5, 3, 1, 1})) {
        case 0: return pick(1, size + 1);
        case 1: return pick(1, size / 4 + 1);
        case 2: return pick(1, size / 2 + 1);
        case 3: return size;
        default: return size + 1;
        }
    };
    c.ops = op_list(56, [=] {
        switch (weighted({4, 3, 4})) {
        case 0: return mkop(ACQ, {small()});
        case 1: {
            uint64_t n = small();
            return mkop(ACQ_UP_TO, {pick(1, n), n});
        }
        default: return mkop(REL, {pick(0, 6)});
        }
    });
    if (mode == 1) c.ops.push_back(dsg::gen_schedule(400));
    return c;
}

struct Out {
    struct aws_byte_buf buf;
    uint8_t *ptr;
    size_t cap;
    uint32_t serial;
};

struct World {
    Ctx *ctx;
    struct aws_ring_buffer ring;
    size_t size;
    std::deque<Out> queue;        // acquired, release not yet invoked (FIFO)
    uint32_t serial = 0;
    uint64_t releases_done = 0;
    bool acq_done = false;
    bool wrapped_with_outstanding = false, release_during_acquire = false;
    uint8_t *last_ptr = nullptr;
    const Case *c;
    uint64_t succ = 0, fail = 0;
};

static uint8_t pat(uint32_t serial, size_t i) { return (uint8_t)(serial * 37 + i * 11 + 5); }

// one acquire request; all checks are recorded with note_fail (runs on library threads too)
static bool do_acquire(World &w, const Op &op) {
    Ctx &ctx = *w.ctx;
    bool up_to = op.kind == ACQ_UP_TO;
    size_t n = (size_t)std::max<uint64_t>(1, op.arg(up_to ? 1 : 0, 1)) ;
    if (n > w.size + 1) n = w.size + 1;
    size_t mn = up_to ? (size_t)std::max<uint64_t>(1, std::min<uint64_t>(op.arg(0, 1), n)) : n;
    // every buffer handed out so far has been released and that release call has returned
    bool nothing_outstanding = w.queue.empty() && w.releases_done == w.serial;
    uint64_t rel_before = w.releases_done;
    struct aws_byte_buf dest;
    AWS_ZERO_STRUCT(dest);
    aws_reset_error();
    int rc = up_to ? aws_ring_buffer_acquire_up_to(&w.ring, mn, n, &dest) : aws_ring_buffer_acquire(&w.ring, n, &dest);
    if (w.releases_done != rel_before) w.release_during_acquire = true;
    if (rc != AWS_OP_SUCCESS) {
        w.fail++;
        PBT_NOTE(ctx, aws_last_error() == AWS_ERROR_OOM, "failed acquire raised %s", aws_error_name(aws_last_error()));
        // when nothing is outstanding any request not larger than the ring succeeds (the up-to form needs min <= ring)
        if (nothing_outstanding && mn <= w.size && (up_to || n <= w.size))
            ctx.note_fail(fmt("acquire(%s min=%zu n=%zu) failed although nothing was outstanding (ring %zu)",
                              up_to ? "up_to" : "exact", mn, n, w.size));
        return false;
    }
    w.succ++;
    PBT_NOTE(ctx, dest.len == 0, "acquired buffer has len %zu", dest.len);
    if (up_to) PBT_NOTE(ctx, dest.capacity >= mn && dest.capacity <= n, "up_to(%zu,%zu) returned capacity %zu", mn, n, dest.capacity);
    else PBT_NOTE(ctx, dest.capacity == n, "acquire(%zu) returned capacity %zu", n, dest.capacity);
    bool inside = dest.buffer >= w.ring.allocation && dest.buffer + dest.capacity <= w.ring.allocation_end;
    PBT_NOTE(ctx, inside, "buffer [%p,+%zu) outside the ring storage", (void *)dest.buffer, dest.capacity);
    if (!inside || ctx.failed) return false;
    for (auto &o : w.queue) {
        bool overlap = dest.buffer < o.ptr + o.cap && o.ptr < dest.buffer + dest.capacity;
        if (overlap) {
            ctx.note_fail(fmt("acquired [%zu,+%zu) overlaps outstanding buffer #%u [%zu,+%zu)",
                              (size_t)(dest.buffer - w.ring.allocation), dest.capacity, o.serial,
                              (size_t)(o.ptr - w.ring.allocation), o.cap));
            return false;
        }
    }
    PBT_NOTE(ctx, aws_ring_buffer_buf_belongs_to_pool(&w.ring, &dest), "buf_belongs_to_pool is false for a vended buffer");
    if (!w.queue.empty() && w.last_ptr && dest.buffer < w.last_ptr) w.wrapped_with_outstanding = true;
    w.last_ptr = dest.buffer;
    Out o{dest, dest.buffer, dest.capacity, ++w.serial};
    for (size_t i = 0; i < o.cap; i++) o.ptr[i] = pat(o.serial, i);
    w.queue.push_back(o);
    return true;
}

static void do_release(World &w) {
    Ctx &ctx = *w.ctx;
    if (w.queue.empty()) return;
    Out o = w.queue.front();
    for (size_t i = 0; i < o.cap; i++)
        if (o.ptr[i] != pat(o.serial, i)) {
            ctx.note_fail(fmt("contents of outstanding buffer #%u damaged at byte %zu", o.serial, i));
            break;
        }
    w.queue.pop_front(); // from here on the memory may legitimately be handed out again
    aws_ring_buffer_release(&w.ring, &o.buf);
    w.releases_done++;
    PBT_NOTE(ctx, o.buf.buffer == nullptr && o.buf.capacity == 0 && o.buf.len == 0, "release did not zero the byte_buf");
}

static void *acquirer(void *p) {
    World &w = *(World *)p;
    for (auto &op : w.c->ops) {
        if (op.kind != ACQ && op.kind != ACQ_UP_TO) continue;
        if (w.ctx->failed) break;
        for (int attempt = 0; attempt < 3; attempt++) {
            if (do_acquire(w, op) || w.ctx->failed) break;
            // retry after the next release (bounded)
            uint64_t r = w.releases_done;
            int spins = 0;
            while (w.releases_done == r && w.releases_done != w.serial && spins++ < 200) ds::point();
            if (w.queue.empty() && w.releases_done == w.serial) break; // failed with nothing outstanding: request > ring
        }
    }
    w.acq_done = true;
    return nullptr;
}
static void *releaser(void *p) {
    World &w = *(World *)p;
    size_t di = 0;
    std::vector<uint64_t> delays;
    for (auto &op : w.c->ops)
        if (op.kind == REL) delays.push_back(op.arg(0) % 7);
    for (;;) {
        if (w.ctx->failed) break;
        if (!w.queue.empty()) {
            uint64_t d = delays.empty() ? 0 : delays[di++ % delays.size()];
            for (uint64_t i = 0; i < d; i++) ds::point();
            do_release(w);
        } else if (w.acq_done) {
            break;
        } else {
            ds::point();
        }
    }
    return nullptr;
}

static void run(const Case &c, Ctx &ctx) {
    galloc::reset();
    dsg::install();
    World w;
    w.ctx = &ctx;
    w.c = &c;
    w.size = (size_t)std::max<uint64_t>(1, c.c(1, 8) % 65);
    bool threaded = c.c(0) % 2 == 1;
    PBT_CHECK(aws_ring_buffer_init(&w.ring, galloc::full(), w.size) == AWS_OP_SUCCESS);

    if (!threaded) {
        for (auto &op : c.ops) {
            if (op.kind == ACQ || op.kind == ACQ_UP_TO) do_acquire(w, op);
            else if (op.kind == REL) do_release(w);
            if (ctx.failed) return;
            PBT_CHECK(aws_ring_buffer_is_valid(&w.ring), "ring invalid");
        }
    } else {
        ds::Config cfg = dsg::to_config(dsg::find_schedule(c), 60000);
        ds::run(cfg, [&] {
            pthread_t a, r;
            pthread_create(&a, nullptr, acquirer, &w);
            pthread_create(&r, nullptr, releaser, &w);
            pthread_join(a, nullptr);
            pthread_join(r, nullptr);
        });
        if (ds::stats().switches >= 4) ctx.tag("switches_ge_4");
        if (w.release_during_acquire) ctx.tag("release_during_acquire");
    }
    if (ctx.failed) return;
    while (!w.queue.empty()) do_release(w);
    if (ctx.failed) return;
    PBT_CHECK(aws_ring_buffer_is_valid(&w.ring), "ring invalid at the end");
    // once everything has been released the full capacity is available again
    struct aws_byte_buf all;
    AWS_ZERO_STRUCT(all);
    PBT_CHECK(aws_ring_buffer_acquire(&w.ring, w.size, &all) == AWS_OP_SUCCESS,
              "full-size acquire failed after everything was released (ring %zu)", w.size);
    PBT_CHECK(all.buffer == w.ring.allocation && all.capacity == w.size, "full-size buffer misplaced");
    aws_ring_buffer_release(&w.ring, &all);
    aws_ring_buffer_clean_up(&w.ring);
    const char *m = nullptr;
    PBT_CHECK(galloc::check_all(&m), "%s", m ? m : "");
    PBT_CHECK(galloc::live_blocks() == 0, "ring storage leaked");
    if (w.wrapped_with_outstanding) ctx.tag("wrapped_with_outstanding");
    if (threaded) ctx.tag("threaded");
    ctx.nontrivial = threaded ? (w.release_during_acquire && w.succ >= 3) : w.wrapped_with_outstanding;
}

int main(int argc, char **argv) {
    Spec sp{"C15", "c15_ring", gen_case, run,
            "ring sizes 1..48, <=40 requests (both acquire forms, n in 1..size+1) with FIFO releases; sequential "
            "histories and acquirer/releaser thread pairs under a generated schedule with a decision point at every "
            "atomic; non-trivial = sequential: the head wrapped while a buffer was outstanding; threaded: a release "
            "completed while an acquire call was in progress and >=3 acquires succeeded",
            /*isolate=*/true};
    return pbt_main(argc, argv, sp);
}

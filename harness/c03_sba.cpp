// C03 — small-block allocator hands out disjoint, intact, fully accounted memory (sequential part).
// Model: table of live blocks (pointer, requested size, size class fixed when the block was carved,
// shadow copy of the pattern written into it) + interval map + independently counted pages.
// The SBA takes its pages from posix_memalign()/free() directly (source/allocator_sba.c:113-134), not
// from the parent allocator, so this target is linked with --wrap=posix_memalign --wrap=free (see
// plans/C03.py) purely to *observe* which 4096-byte pages are alive.  See DESIGN.md section 5 / C03.
#include "pbt.hpp"
#include "galloc.hpp"

#include <aws/common/allocator.h>
#include <aws/common/error.h>

using namespace pbt;

// ---------------------------------------------------------------------------------------------
// page observation
// ---------------------------------------------------------------------------------------------
static size_t PAGE = 4096; // both are re-read from the allocator in run(): the geometry is not part of the property
static size_t HDR = 32;

struct PageInfo {
    size_t cls = 0;      // class of the blocks carved from it (learned from the first block seen in it)
    uint64_t serial = 0; // order of creation
};
struct World;
static World *W = nullptr;

struct World {
    Ctx *ctx = nullptr;
    std::map<uintptr_t, PageInfo> pages; // live pages
    uint64_t page_allocs = 0, page_frees = 0;
    bool page_freed_with_siblings = false;
    // live blocks
    struct Blk {
        uint8_t *p;
        size_t req;
        size_t cls; // 0 = served by the parent allocator
        uint32_t serial;
        std::string shadow;
    };
    std::vector<Blk> live;              // acquisition order
    std::map<uintptr_t, size_t> imap;   // start -> requested size, every live block
    std::set<uintptr_t> once_released;  // addresses that were handed out and released (free-list reuse)
    uint32_t serial = 0;
    // "recycling parent" mode (cfg[2]): what malloc does all the time - memory of a page the allocator gave back is handed
    // out again, contents untouched, for a request that the parent serves (above the largest class).  The harness keeps up
    // to 6 returned pages instead of freeing them and places one parent-served block at a time in each, 64..176 bytes
    // above the page base, so that the old page header is never part of a block.
    bool recycle = false;
    std::vector<uintptr_t> pool;            // returned pages kept by the harness
    std::map<uintptr_t, size_t> pool_live;  // parent-served blocks placed in them: start -> size
    uint64_t pool_serves = 0, parent_acquires = 0;
};

extern "C" int __real_posix_memalign(void **, size_t, size_t);
extern "C" void __real_free(void *);

extern "C" int __wrap_posix_memalign(void **out, size_t align, size_t size) {
    int rc = __real_posix_memalign(out, align, size);
    if (W && rc == 0 && align == size && align >= 1024 && (align & (align - 1)) == 0) {
        PageInfo pi;
        pi.serial = ++W->page_allocs;
        W->pages[(uintptr_t)*out] = pi;
    }
    return rc;
}
extern "C" void __wrap_free(void *p) {
    if (W && p && !W->pages.empty()) {
        auto it = W->pages.find((uintptr_t)p);
        if (it != W->pages.end()) {
            // no live block may be inside a page that goes back to the system
            auto b = W->imap.lower_bound((uintptr_t)p);
            if (b != W->imap.end() && b->first < (uintptr_t)p + PAGE)
                W->ctx->note_fail(fmt("page %p returned to the system while the live block %p (+%zu) is inside it", p,
                                      (void *)b->first, b->second));
            if (it->second.cls)
                for (auto &kv : W->pages)
                    if (kv.first != it->first && kv.second.cls == it->second.cls) W->page_freed_with_siblings = true;
            W->page_frees++;
            W->pages.erase(it);
            if (W->recycle && W->pool.size() < 6) {
                W->pool.push_back((uintptr_t)p); // kept, contents as the allocator left them; really freed at the end of the case
                return;
            }
        }
    }
    __real_free(p);
}

// the parent allocator of "recycling" cases: galloc, except that a request above the largest class goes into a kept page
// when one is free
static void *rp_acquire(struct aws_allocator *, size_t n) {
    if (W && W->recycle && n > 512) {
        W->parent_acquires++;
        for (uintptr_t pg : W->pool) {
            bool busy = false;
            for (auto &kv : W->pool_live)
                if (kv.first >= pg && kv.first < pg + PAGE) busy = true;
            size_t off = 64 + 16 * (size_t)(W->parent_acquires % 8);
            if (!busy && off + n <= PAGE) {
                W->pool_live[pg + off] = n;
                W->pool_serves++;
                return (void *)(pg + off);
            }
        }
    }
    return aws_mem_acquire(galloc::full(), n);
}
static void rp_release(struct aws_allocator *, void *p) {
    if (W && W->pool_live.erase((uintptr_t)p)) return;
    aws_mem_release(galloc::full(), p);
}
static struct aws_allocator g_recycling_parent = {rp_acquire, rp_release, nullptr, nullptr, nullptr};

// ---------------------------------------------------------------------------------------------
// generator
// ---------------------------------------------------------------------------------------------
enum { ACQ = 0, CALLOC = 1, REALLOC = 2, REL = 3, REL_PAGE = 4, REL_ALL = 5, BURST = 6, NKINDS = 7 };

static const uint64_t EDGE[] = {1, 31, 32, 33, 63, 64, 65, 127, 128, 129, 255, 256, 257, 511, 512, 513, 600, 4096, 5000};
static const uint64_t FOCUS[] = {0, 0, 24, 32, 64, 100, 128, 200, 256, 400, 512};

static uint64_t gen_size(uint64_t focus) {
    if (focus && chance(45)) return focus;
    switch (weighted({60, 40})) {
    case 0: return EDGE[pick(0, sizeof EDGE / sizeof EDGE[0] - 1)];
    default: return pick(1, 2048);
    }
}

static Case gen_case() {
    Case c;
    uint64_t focus = FOCUS[pick(0, sizeof FOCUS / sizeof FOCUS[0] - 1)];
    c.cfg = {pick(0, 1), focus, (uint64_t)chance(35)};
    c.ops = op_list(400, [=] {
        switch (weighted({36, 8, 15, 30, 6, 1, 4})) {
        case 0: return mkop(ACQ, {gen_size(focus)});
        case 1: {
            uint64_t total = gen_size(focus), num = one_of({1, 2, 3, 4, 7, 8, 16, 32});
            if (total % num) num = 1;
            return mkop(CALLOC, {num, total / num});
        }
        case 2: return mkop(REALLOC, {pick(0, 1000), gen_size(focus)});
        case 3: return mkop(REL, {weighted({3, 3, 4}), pick(0, 1000)});
        case 4: return mkop(REL_PAGE, {pick(0, 1000), pick(0, 2)});
        case 5: return mkop(REL_ALL, {pick(0, 3), pick(1, 97)});
        default: return mkop(BURST, {focus && chance(70) ? focus : one_of({1, 32, 33, 64, 100, 128, 256, 300, 512}), pick(2, 40)});
        }
    });
    return c;
}

// ---------------------------------------------------------------------------------------------
// oracle
// ---------------------------------------------------------------------------------------------
static size_t class_of(size_t n) { // the size class of a request: smallest of 32..512 that holds it; 0 = parent
    for (size_t c = 32; c <= 512; c *= 2)
        if (n <= c) return c;
    return 0;
}
// never produces 0x75, the first byte of AWS_SBA_TAG_VALUE in memory, so no pattern contains the tag
static inline uint8_t pat(uint32_t serial, size_t i) {
    uint8_t v = (uint8_t)(serial * 131u + i * 7u + (i >> 8) * 13u + 1u);
    return v == 0x75 ? 0x76 : v;
}

static void run(const Case &c, Ctx &ctx) {
    galloc::reset();
    World w;
    w.ctx = &ctx;
    W = &w;
    struct Unhook {
        ~Unhook() { W = nullptr; }
    } unhook;

    bool mt = c.c(0) % 2 == 1;
    w.recycle = c.c(2) % 2 == 1;
    struct PoolGuard { // the kept pages go back to the system whatever way the case ends
        World &w;
        ~PoolGuard() {
            for (uintptr_t pg : w.pool) __real_free((void *)pg);
            w.pool.clear();
        }
    } pool_guard{w};
    struct aws_allocator *sba = aws_small_block_allocator_new(w.recycle ? &g_recycling_parent : galloc::full(), mt);
    PBT_CHECK(sba != nullptr, "aws_small_block_allocator_new returned NULL");
    {
        size_t ps = aws_small_block_allocator_page_size(sba), av = aws_small_block_allocator_page_size_available(sba);
        PBT_CHECK(ps >= 1024 && (ps & (ps - 1)) == 0 && av < ps && av >= ps / 2, "page geometry %zu / %zu available cannot be observed by this harness", ps, av);
        PAGE = ps;
        HDR = ps - av;
    }
    size_t parent_baseline = galloc::live_blocks(); // allocator object + the bins' lists

    bool cross_up = false, cross_down = false, shrink_keep = false, move_small = false, reuse = false, grow_parent = false;
    bool mid_release_all = false;
    size_t max_pages = 0;
    std::set<size_t> classes_used;
    size_t cmd_no = 0;

    // --- a new or moved block: placement, alignment, disjointness; returns its size class (0 = parent) ---
    auto place = [&](uint8_t *p, size_t n, const char *what) -> size_t {
        PBT_CHECK(p != nullptr, "%s(%zu) returned NULL", what, n);
        PBT_CHECK(((uintptr_t)p & 15) == 0, "%s(%zu) returned %p which is not 16-byte aligned", what, n, (void *)p);
        size_t cls;
        uintptr_t base;
        size_t bsize;
        auto pl = w.pool_live.find((uintptr_t)p);
        if (pl != w.pool_live.end()) {
            PBT_CHECK(n <= pl->second, "%s(%zu) returned a parent block of %zu bytes", what, n, pl->second);
            cls = 0; // served by the (recycling) parent, inside a page the allocator had given back
        } else if (galloc::containing(p, &base, &bsize) && (uintptr_t)p + n <= base + bsize) {
            cls = 0; // served by the parent
        } else {
            uintptr_t pg = (uintptr_t)p & ~(uintptr_t)(PAGE - 1);
            auto it = w.pages.find(pg);
            PBT_CHECK(it != w.pages.end(), "%s(%zu) returned %p: neither inside a parent block nor inside a live page", what, n, (void *)p);
            PBT_CHECK((uintptr_t)p >= pg + HDR && (uintptr_t)p + n <= pg + PAGE,
                      "%s(%zu) returned %p (+%zu) which leaves the usable part of its page %p", what, n, (void *)p, n, (void *)pg);
            cls = class_of(n);
            PBT_CHECK(cls != 0, "%s(%zu): a request above the largest size class was carved from a page", what, n);
            if (!it->second.cls) it->second.cls = cls;
        }
        // disjoint from every live block
        auto nx = w.imap.lower_bound((uintptr_t)p);
        if (nx != w.imap.end())
            PBT_CHECK((uintptr_t)p + n <= nx->first, "%s(%zu) returned [%p,+%zu) which overlaps the live block [%p,+%zu)", what, n,
                      (void *)p, n, (void *)nx->first, nx->second);
        if (nx != w.imap.begin()) {
            --nx;
            PBT_CHECK(nx->first + nx->second <= (uintptr_t)p, "%s(%zu) returned [%p,+%zu) which overlaps the live block [%p,+%zu)", what,
                      n, (void *)p, n, (void *)nx->first, nx->second);
        }
        return cls;
    };
    auto fill = [&](World::Blk &b) {
        b.serial = ++w.serial;
        b.shadow.resize(b.req);
        for (size_t i = 0; i < b.req; i++) b.shadow[i] = (char)pat(b.serial, i);
        memcpy(b.p, b.shadow.data(), b.req); // whole requested size is written (ASan / parent canaries / neighbours notice overruns)
    };
    auto adopt = [&](uint8_t *p, size_t n, size_t cls) {
        World::Blk b{p, n, cls, 0, std::string()};
        fill(b);
        w.imap[(uintptr_t)p] = n;
        if (w.once_released.count((uintptr_t)p)) reuse = true;
        if (cls) classes_used.insert(cls);
        w.live.push_back(std::move(b));
    };
    auto verify_all = [&](const char *after) {
        PBT_CHECK(!ctx.failed, "%s", ctx.msg.c_str());
        size_t expect_active = 0;
        for (auto &b : w.live) {
            if (memcmp(b.p, b.shadow.data(), b.req) != 0) {
                size_t i = 0;
                while (i < b.req && b.p[i] == (uint8_t)b.shadow[i]) i++;
                PBT_CHECK(false, "command %zu (%s): contents of live block #%u [%p,+%zu, class %zu] changed at byte %zu", cmd_no, after,
                          b.serial, (void *)b.p, b.req, b.cls, i);
            }
            expect_active += b.cls;
        }
        size_t act = aws_small_block_allocator_bytes_active(sba);
        PBT_CHECK(act == expect_active, "command %zu (%s): bytes_active %zu, sum of the size classes of the live small blocks %zu", cmd_no,
                  after, act, expect_active);
        size_t res = aws_small_block_allocator_bytes_reserved(sba);
        PBT_CHECK(res == w.pages.size() * PAGE, "command %zu (%s): bytes_reserved %zu but %zu pages are alive", cmd_no, after, res,
                  w.pages.size());
        const char *m = nullptr;
        PBT_CHECK(galloc::check_all(&m), "command %zu (%s): %s", cmd_no, after, m ? m : "");
        if (w.pages.size() > max_pages) max_pages = w.pages.size();
    };
    auto release_at = [&](size_t i) {
        World::Blk b = std::move(w.live[i]);
        w.live.erase(w.live.begin() + (long)i);
        PBT_CHECK(memcmp(b.p, b.shadow.data(), b.req) == 0, "block #%u damaged before its release", b.serial);
        w.imap.erase((uintptr_t)b.p); // from here on the memory may be handed out again
        w.once_released.insert((uintptr_t)b.p);
        aws_mem_release(sba, b.p);
    };
    auto everything_released = [&](const char *when) {
        PBT_CHECK(w.live.empty());
        size_t act = aws_small_block_allocator_bytes_active(sba);
        PBT_CHECK(act == 0, "%s: everything released but bytes_active is %zu", when, act);
        size_t res = aws_small_block_allocator_bytes_reserved(sba);
        PBT_CHECK(res <= 5 * PAGE, "%s: everything released but bytes_reserved is %zu (> one page per size class)", when, res);
        PBT_CHECK(w.pages.size() <= 5, "%s: everything released but %zu pages are still alive", when, w.pages.size());
        std::map<size_t, int> per;
        for (auto &kv : w.pages)
            if (kv.second.cls) per[kv.second.cls]++; // a page no block was ever seen in has no known class: it only counts towards the total
        for (auto &kv : per)
            PBT_CHECK(kv.second <= 1, "%s: everything released but class %zu keeps %d pages", when, kv.first, kv.second);
        // (the allocator's own bookkeeping lists come from the parent too and may sit in a kept page)
        size_t out = galloc::live_blocks() + w.pool_live.size();
        PBT_CHECK(out == parent_baseline,
                  "%s: everything released but %zu parent blocks are outstanding (baseline %zu; %zu of them placed in pages the allocator had returned "
                  "earlier, first %p +%zu)",
                  when, out, parent_baseline, w.pool_live.size(), w.pool_live.empty() ? nullptr : (void *)w.pool_live.begin()->first,
                  w.pool_live.empty() ? (size_t)0 : w.pool_live.begin()->second);
    };

    verify_all("new");
    for (auto &op : c.ops) {
        cmd_no++;
        const char *name = "?";
        switch (op.kind % NKINDS) {
        case ACQ: {
            name = "acquire";
            size_t n = (size_t)std::min<uint64_t>(std::max<uint64_t>(op.arg(0, 1), 1), 6000);
            uint8_t *p = (uint8_t *)aws_mem_acquire(sba, n);
            adopt(p, n, place(p, n, "acquire"));
            break;
        }
        case BURST: {
            name = "burst";
            size_t n = (size_t)std::min<uint64_t>(std::max<uint64_t>(op.arg(0, 1), 1), 512);
            size_t k = 1 + (size_t)(op.arg(1, 1) % 40);
            for (size_t i = 0; i < k; i++) {
                uint8_t *p = (uint8_t *)aws_mem_acquire(sba, n);
                adopt(p, n, place(p, n, "acquire"));
            }
            break;
        }
        case CALLOC: {
            name = "calloc";
            size_t num = (size_t)std::min<uint64_t>(std::max<uint64_t>(op.arg(0, 1), 1), 64);
            size_t size = (size_t)std::min<uint64_t>(std::max<uint64_t>(op.arg(1, 1), 1), 6000);
            if (num * size > 8192) num = 1;
            uint8_t *p = (uint8_t *)aws_mem_calloc(sba, num, size);
            size_t n = num * size;
            size_t cls = place(p, n, "calloc");
            for (size_t i = 0; i < n; i++)
                PBT_CHECK(p[i] == 0, "calloc(%zu,%zu): byte %zu is 0x%02x", num, size, i, p[i]);
            adopt(p, n, cls);
            ctx.tag("calloc");
            break;
        }
        case REALLOC: {
            name = "realloc";
            if (w.live.empty()) break;
            size_t i = (size_t)(op.arg(0) % w.live.size());
            size_t n = (size_t)std::min<uint64_t>(std::max<uint64_t>(op.arg(1, 1), 1), 6000);
            World::Blk old = w.live[i];
            w.imap.erase((uintptr_t)old.p);
            void *ptr = old.p;
            int rc = aws_mem_realloc(sba, &ptr, old.req, n);
            PBT_CHECK(rc == AWS_OP_SUCCESS && ptr != nullptr, "realloc(%zu -> %zu) failed", old.req, n);
            uint8_t *p = (uint8_t *)ptr;
            size_t cls;
            if (p == old.p) {
                // kept in place: still the same carved block, so the same class; it must be able to hold n
                cls = old.cls;
                size_t capacity = old.cls;
                if (!old.cls) {
                    uintptr_t base;
                    size_t bsize = 0;
                    auto pl = w.pool_live.find((uintptr_t)p);
                    if (pl != w.pool_live.end()) bsize = pl->second;
                    else PBT_CHECK(galloc::containing(p, &base, &bsize) && base == (uintptr_t)p, "parent-served block vanished");
                    capacity = bsize;
                }
                PBT_CHECK(n <= capacity, "realloc(%zu -> %zu) kept the block in place although it only holds %zu bytes", old.req, n, capacity);
                place(p, n, "realloc"); // disjointness with the new extent
                if (n < old.req) shrink_keep = true;
                if (old.req > 512 && n <= 512) cross_down = true;
            } else {
                w.once_released.insert((uintptr_t)old.p);
                cls = place(p, n, "realloc");
                if (old.req <= 512 && n > 512) cross_up = true;
                if (old.req > 512 && n > 512) grow_parent = true;
                if (old.cls && cls) move_small = true;
                if (!old.cls && cls) ctx.tag("realloc_parent_block_into_class");
            }
            size_t keep = std::min(old.req, n);
            if (memcmp(p, old.shadow.data(), keep) != 0) {
                size_t k = 0;
                while (k < keep && p[k] == (uint8_t)old.shadow[k]) k++;
                PBT_CHECK(false, "realloc(%zu -> %zu, %s) lost the old contents at byte %zu of %zu", old.req, n,
                          p == old.p ? "in place" : "moved", k, keep);
            }
            World::Blk &b = w.live[i];
            b.p = p;
            b.req = n;
            b.cls = cls;
            fill(b);
            w.imap[(uintptr_t)p] = n;
            if (cls) classes_used.insert(cls);
            break;
        }
        case REL: {
            name = "release";
            if (w.live.empty()) break;
            switch (op.arg(0) % 3) {
            case 0: release_at(w.live.size() - 1); break;
            case 1: release_at(0); break;
            default: release_at((size_t)(op.arg(1) % w.live.size())); break;
            }
            break;
        }
        case REL_PAGE: {
            name = "release-page";
            if (w.live.empty()) break;
            size_t i = (size_t)(op.arg(0) % w.live.size());
            if (!w.live[i].cls) {
                release_at(i);
                break;
            }
            uintptr_t pg = (uintptr_t)w.live[i].p & ~(uintptr_t)(PAGE - 1);
            std::vector<uint8_t *> victims;
            for (auto &b : w.live)
                if (b.cls && ((uintptr_t)b.p & ~(uintptr_t)(PAGE - 1)) == pg) victims.push_back(b.p);
            if (op.arg(1) % 3 == 1) std::sort(victims.begin(), victims.end());
            if (op.arg(1) % 3 == 2) std::sort(victims.rbegin(), victims.rend());
            for (uint8_t *v : victims)
                for (size_t k = 0; k < w.live.size(); k++)
                    if (w.live[k].p == v) {
                        release_at(k);
                        break;
                    }
            ctx.tag("release_whole_page");
            break;
        }
        case REL_ALL: {
            name = "release-all";
            if (w.live.empty()) break;
            size_t stride = (size_t)std::max<uint64_t>(op.arg(1, 1), 1);
            while (!w.live.empty()) {
                switch (op.arg(0) % 4) {
                case 0: release_at(w.live.size() - 1); break;
                case 1: release_at(0); break;
                case 2: release_at(stride % w.live.size()); break;
                default: { // by address
                    size_t best = 0;
                    for (size_t k = 1; k < w.live.size(); k++)
                        if (w.live[k].p < w.live[best].p) best = k;
                    release_at(best);
                }
                }
                PBT_CHECK(!ctx.failed, "%s", ctx.msg.c_str());
            }
            everything_released("release-all in mid-history");
            mid_release_all = true;
            break;
        }
        }
        verify_all(name);
    }

    // release everything (order from the configuration), then destroy
    cmd_no++;
    while (!w.live.empty()) {
        release_at(c.c(1) % 2 ? 0 : w.live.size() - 1);
        PBT_CHECK(!ctx.failed, "%s", ctx.msg.c_str());
    }
    verify_all("final release");
    everything_released("end of history");
    aws_small_block_allocator_destroy(sba);
    PBT_CHECK(!ctx.failed, "%s", ctx.msg.c_str());
    PBT_CHECK(w.pages.empty(), "destroy left %zu pages allocated", w.pages.size());
    PBT_CHECK(w.page_allocs == w.page_frees, "pages: %llu allocated, %llu freed", (unsigned long long)w.page_allocs,
              (unsigned long long)w.page_frees);
    const char *m = nullptr;
    PBT_CHECK(galloc::check_all(&m), "%s", m ? m : "");
    PBT_CHECK(galloc::live_blocks() == 0, "destroy left %zu parent blocks (%zu bytes)", galloc::live_blocks(), galloc::live_bytes());
    PBT_CHECK(w.pool_live.empty(), "destroy left %zu parent block(s) that had been placed in returned pages", w.pool_live.size());

    if (mt) ctx.tag("created_multi_threaded");
    if (w.recycle) ctx.tag("recycling_parent");
    if (w.pool_serves) ctx.tag("parent_block_inside_returned_page");
    if (cross_up) ctx.tag("realloc_small_to_parent");
    if (cross_down) ctx.tag("realloc_parent_to_small_size_in_place");
    if (shrink_keep) ctx.tag("realloc_shrink_in_place");
    if (move_small) ctx.tag("realloc_class_to_class");
    if (grow_parent) ctx.tag("realloc_parent_to_parent");
    if (reuse) ctx.tag("address_reused");
    if (mid_release_all) ctx.tag("release_all_mid_history");
    if (w.page_freed_with_siblings) ctx.tag("page_freed_while_same_class_pages_live");
    if (max_pages >= 6) ctx.tag("pages_ge_6");
    if (classes_used.size() == 5) ctx.tag("all_five_classes");
    for (size_t cl : classes_used) ctx.tag("class_" + std::to_string(cl));
    ctx.nontrivial = w.page_freed_with_siblings && (cross_up || cross_down);
}

int main(int argc, char **argv) {
    Spec sp{"C03", "c03_sba", gen_case, run,
            "<=400 commands acquire/calloc/realloc/release/release-one-page/release-all/burst over a table of live blocks, sizes from "
            "the class edges {1,31..33,63..65,127..129,255..257,511..513,600,4096,5000}, uniform 1..2048 and a per-case focus size; "
            "allocator created single- or multi-threaded; non-trivial = a page was returned while another page of the same class was "
            "alive AND >=1 realloc crossed the 512-byte boundary; distinct by hash of the serialised case"};
    return pbt_main(argc, argv, sp);
}

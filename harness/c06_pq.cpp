// C06 — priority queue: pops in comparator order, handles always track their element.
// Model: multiset of element byte strings + handle table.  See DESIGN.md section 5 / C06.
#include "pbt.hpp"
#include "galloc.hpp"

#include <aws/common/priority_queue.h>
#include <aws/common/error.h>

using namespace pbt;

static const size_t SIZES[] = {1, 2, 8, 24, 127, 128, 129, 256, 300, 255, 257, 384, 512, 4096, 32767, 32768, 32772, 65536};
static const int NSIZES = sizeof SIZES / sizeof SIZES[0];
static const int NH = 8;

// Comparator styles the header documents as legal for a min heap ("negative value or zero if a should come out
// before b"): a three-way difference, a strict -1/0/1, and the boolean form `a > b` used by task_scheduler.c.
static int g_cmp_style = 0;
static int cmp_key(const void *a, const void *b) {
    unsigned char x = *(const unsigned char *)a, y = *(const unsigned char *)b;
    switch (g_cmp_style) {
    case 1: return x < y ? -1 : x > y ? 1 : 0;
    case 2: return x > y;
    case 3: return x > y ? 1000 : x < y ? -1000 : 0;
    default: return (int)x - (int)y;
    }
}

enum { PUSH, PUSH_REF, POP, TOP, REMOVE, CLEAR, SIZECAP, NKINDS };

static Case gen_case() {
    Case c;
    // element size index (large sizes are rarer), dynamic/static, capacity, comparator style
    c.cfg = {chance(94) ? pick(0, 12) : pick(13, NSIZES - 1), pick(0, 1), pick(0, 12), pick(0, 3)};
    c.ops = op_list(80, [] {
        switch (weighted({20, 30, 18, 6, 22, 2, 2})) {
        case 0: return mkop(PUSH, {pick(0, 5)});
        case 1: return mkop(PUSH_REF, {pick(0, 5), pick(0, NH - 1)});
        case 2: return mkop(POP);
        case 3: return mkop(TOP);
        case 4: return mkop(REMOVE, {pick(0, NH - 1)});
        case 5: return mkop(CLEAR);
        default: return mkop(SIZECAP);
        }
    });
    return c;
}

static std::string make_elem(size_t S, unsigned key, uint32_t id) {
    std::string e(S, '\0');
    e[0] = (char)key;
    for (size_t i = 1; i < S; i++) e[i] = (char)((id * 2654435761u >> ((i % 4) * 8)) ^ (i * 31) ^ (id >> 3));
    if (S >= 5) memcpy(&e[1], &id, 4);
    return e;
}

static void run(const Case &c, Ctx &ctx) {
    galloc::reset();
    size_t S = SIZES[c.c(0) % NSIZES];
    g_cmp_style = (int)(c.c(3) % 4);
    bool dynamic = c.c(1) % 2 == 0;
    size_t cap = dynamic ? c.c(2) % 9 : 1 + c.c(2) % 12;

    struct aws_priority_queue q;
    std::vector<unsigned char> arena;
    const size_t G = 64;
    if (dynamic) {
        PBT_CHECK(aws_priority_queue_init_dynamic(&q, galloc::full(), cap, S, cmp_key) == AWS_OP_SUCCESS);
    } else {
        arena.assign(cap * S + 2 * G, 0xEE);
        aws_priority_queue_init_static(&q, arena.data() + G, cap, S, cmp_key);
    }
    std::multiset<std::string> model;
    struct H {
        struct aws_priority_queue_node node;
        bool live = false;
        std::string elem;
    } h[NH];
    for (auto &x : h) aws_priority_queue_node_init(&x.node);
    uint32_t next_id = 1;
    bool any_handle_push = false, any_plain_push = false, interesting_remove = false;
    unsigned steps_since_push_of[NH] = {0};

    auto snapshot = [&]() {
        std::string s((const char *)q.container.data ? (const char *)q.container.data : "", q.container.data ? q.container.length * S : 0);
        s += "|" + std::to_string(q.container.length) + "|" + std::to_string(q.container.current_size) + "|" +
             std::to_string(q.backpointers.length);
        for (auto &x : h) s += "," + std::to_string(x.node.current_index);
        return s;
    };
    auto invariants = [&](const char *after) {
        PBT_CHECK(aws_priority_queue_is_valid(&q), "after %s", after);
        PBT_CHECK(aws_priority_queue_size(&q) == model.size(), "after %s: size %zu model %zu", after,
                  aws_priority_queue_size(&q), model.size());
        size_t n = q.container.length;
        // contents equal the model as a multiset
        std::multiset<std::string> have;
        for (size_t i = 0; i < n; i++) have.insert(std::string((const char *)q.container.data + i * S, S));
        PBT_CHECK(have == model, "after %s: stored multiset differs from the reference", after);
        // heap order under the comparator
        for (size_t i = 1; i < n; i++) {
            size_t p = (i - 1) / 2;
            PBT_CHECK(*((unsigned char *)q.container.data + p * S) <= *((unsigned char *)q.container.data + i * S),
                      "after %s: heap order broken at %zu", after, i);
        }
        for (int i = 0; i < NH; i++) {
            if (h[i].live) {
                PBT_CHECK(aws_priority_queue_node_is_in_queue(&h[i].node), "after %s: live handle %d not in queue", after, i);
                size_t idx = h[i].node.current_index;
                PBT_CHECK(idx < n, "after %s: handle %d index %zu >= size %zu", after, i, idx, n);
                PBT_CHECK(memcmp((char *)q.container.data + idx * S, h[i].elem.data(), S) == 0,
                          "after %s: handle %d does not point at its element", after, i);
            } else {
                PBT_CHECK(!aws_priority_queue_node_is_in_queue(&h[i].node) && h[i].node.current_index == SIZE_MAX,
                          "after %s: dead handle %d still marked in-queue (index %zu)", after, i, h[i].node.current_index);
            }
        }
        if (!dynamic) {
            PBT_CHECK(q.container.data == arena.data() + G && aws_priority_queue_capacity(&q) == cap, "static storage moved");
            for (size_t i = 0; i < G; i++)
                PBT_CHECK(arena[i] == 0xEE && arena[G + cap * S + i] == 0xEE, "after %s: wrote outside the caller's array", after);
        }
        const char *m = nullptr;
        PBT_CHECK(galloc::check_all(&m), "%s", m ? m : "");
    };
    auto forget = [&](const std::string &e) {
        auto it = model.find(e);
        PBT_CHECK(it != model.end(), "returned an element that is not stored");
        model.erase(it);
        for (auto &x : h)
            if (x.live && x.elem == e && S >= 5) x.live = false; // ids are unique for S>=5
    };

    invariants("init");
    for (auto &op : c.ops) {
        for (int i = 0; i < NH; i++) steps_since_push_of[i]++;
        switch (op.kind % NKINDS) {
        case PUSH: {
            std::string e = make_elem(S, op.arg(0) % 6, next_id++);
            std::string before = snapshot();
            int rc = aws_priority_queue_push(&q, (void *)e.data());
            if (!dynamic && model.size() >= cap) {
                PBT_CHECK(rc == AWS_OP_ERR, "push beyond static capacity succeeded");
                PBT_CHECK(snapshot() == before, "failed push changed the queue");
                ctx.tag("static_full_push");
            } else {
                PBT_CHECK(rc == AWS_OP_SUCCESS, "push failed: %s", aws_error_name(aws_last_error()));
                model.insert(e);
                any_plain_push = true;
            }
            invariants("push");
            break;
        }
        case PUSH_REF: {
            int hi = op.arg(1) % NH;
            if (h[hi].live) break; // a node may be in the queue only once (caller obligation)
            std::string e = make_elem(S, op.arg(0) % 6, next_id++);
            std::string before = snapshot();
            aws_reset_error();
            int rc = aws_priority_queue_push_ref(&q, (void *)e.data(), &h[hi].node);
            if (!dynamic) {
                PBT_CHECK(rc == AWS_OP_ERR, "push_ref with a handle on a static queue succeeded");
                if (model.size() < cap)
                    PBT_CHECK(aws_last_error() == AWS_ERROR_UNSUPPORTED_OPERATION, "wrong error %s", aws_error_name(aws_last_error()));
                PBT_CHECK(snapshot() == before, "failed push_ref changed the queue");
                ctx.tag("static_push_ref");
            } else {
                PBT_CHECK(rc == AWS_OP_SUCCESS, "push_ref failed");
                model.insert(e);
                h[hi].live = true;
                h[hi].elem = e;
                steps_since_push_of[hi] = 0;
                if (!any_handle_push && model.size() > 1) ctx.tag("first_handle_into_nonempty");
                any_handle_push = true;
            }
            invariants("push_ref");
            break;
        }
        case POP: {
            std::string out(S, '\x77');
            std::string before = snapshot();
            aws_reset_error();
            int rc = aws_priority_queue_pop(&q, &out[0]);
            if (model.empty()) {
                PBT_CHECK(rc == AWS_OP_ERR && aws_last_error() == AWS_ERROR_PRIORITY_QUEUE_EMPTY, "pop on empty");
                PBT_CHECK(snapshot() == before, "failed pop changed the queue");
            } else {
                PBT_CHECK(rc == AWS_OP_SUCCESS, "pop failed");
                unsigned char mn = (unsigned char)(*model.begin())[0];
                PBT_CHECK((unsigned char)out[0] == mn, "pop returned key %u, minimum is %u", (unsigned char)out[0], mn);
                if (S < 5) { // handles cannot be told apart by content: find which live handle got invalidated
                    for (auto &x : h)
                        if (x.live && x.node.current_index == SIZE_MAX) {
                            PBT_CHECK(x.elem == out, "pop invalidated a handle of a different element");
                            x.live = false;
                        }
                    auto it = model.find(out);
                    PBT_CHECK(it != model.end(), "pop returned an element that is not stored");
                    model.erase(it);
                } else
                    forget(out);
            }
            invariants("pop");
            break;
        }
        case TOP: {
            void *p = nullptr;
            aws_reset_error();
            int rc = aws_priority_queue_top(&q, &p);
            if (model.empty()) {
                PBT_CHECK(rc == AWS_OP_ERR && aws_last_error() == AWS_ERROR_PRIORITY_QUEUE_EMPTY, "top on empty");
            } else {
                PBT_CHECK(rc == AWS_OP_SUCCESS && p != nullptr, "top failed");
                PBT_CHECK(*(unsigned char *)p == (unsigned char)(*model.begin())[0], "top is not a minimum");
                PBT_CHECK(model.count(std::string((char *)p, S)) > 0, "top is not a stored element");
            }
            invariants("top");
            break;
        }
        case REMOVE: {
            int hi = op.arg(0) % NH;
            std::string out(S, '\x77');
            std::string before = snapshot();
            aws_reset_error();
            size_t idx = h[hi].node.current_index, n = model.size();
            int rc = aws_priority_queue_remove(&q, &out[0], &h[hi].node);
            if (!h[hi].live) {
                PBT_CHECK(rc == AWS_OP_ERR, "remove with a dead handle succeeded (removed something else)");
                PBT_CHECK(aws_last_error() == AWS_ERROR_PRIORITY_QUEUE_BAD_NODE, "wrong error %s", aws_error_name(aws_last_error()));
                PBT_CHECK(snapshot() == before, "refused remove changed the queue");
                ctx.tag("dead_handle_remove");
            } else {
                PBT_CHECK(rc == AWS_OP_SUCCESS, "remove of a live handle failed");
                PBT_CHECK(out == h[hi].elem, "remove returned a different element than the one pushed with the handle");
                auto it = model.find(out);
                PBT_CHECK(it != model.end(), "model");
                model.erase(it);
                h[hi].live = false;
                if (idx != 0 && idx + 1 != n && steps_since_push_of[hi] >= 3) interesting_remove = true;
            }
            invariants("remove");
            break;
        }
        case CLEAR:
            aws_priority_queue_clear(&q);
            model.clear();
            for (auto &x : h) x.live = false;
            invariants("clear");
            break;
        default:
            PBT_CHECK(aws_priority_queue_size(&q) == model.size());
            PBT_CHECK(aws_priority_queue_capacity(&q) >= model.size());
            break;
        }
    }
    aws_priority_queue_clean_up(&q);
    if (dynamic) PBT_CHECK(galloc::live_blocks() == 0, "storage not released by clean_up: %zu blocks", galloc::live_blocks());
    if (interesting_remove && (S > 128 || (any_handle_push && any_plain_push))) ctx.nontrivial = true;
    if (interesting_remove) ctx.tag("mid_heap_remove");
    if (S > 128) ctx.tag("elem_gt_128");
    if (S >= 32768) ctx.tag("elem_ge_32768");
    ctx.tag(g_cmp_style == 2 ? "comparator_boolean" : "comparator_three_way");
    if (!dynamic) ctx.tag("static");
}

int main(int argc, char **argv) {
    Spec sp{"C06", "c06_pq", gen_case, run,
            "generated op sequences (<=80 ops) over push/push_ref/pop/top/remove/clear with 6 key values; non-trivial = "
            ">=1 remove of a live non-root non-last handle >=3 steps after its push, with element size >128 or mixed "
            "handled/unhandled elements; distinct by hash of the serialised case"};
    return pbt_main(argc, argv, sp);
}

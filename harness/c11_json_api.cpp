// C11 — object / array access is coherent: programs of add / get / has / remove / iterate on one object and one array,
// compared step by step with an ordered reference model.  See DESIGN.md section 5 / C11.
//
// What is asserted about keys (include/aws/common/json.h):
//  * add with a key that is not in use succeeds; the member is then found by exactly that key, reads back, and can be removed;
//  * add with a key that is already in use (same bytes) is refused and the first member stays as it was;
//  * members are iterated in insertion order; removal keeps the order of the rest.
// The header calls the lookup keys "case sensitive" while the vendored lookup ignores ASCII case.  Nothing is asserted about
// whether a key that differs from a member's key only in letter case finds / blocks that member; if it finds something, it
// must be that member.  Such keys are never used for removal.
#include "pbt.hpp"
#include "galloc.hpp"

#include <aws/common/byte_buf.h>
#include <aws/common/common.h>
#include <aws/common/error.h>
#include <aws/common/json.h>

#include <cmath>

using namespace pbt;

enum { OADD, OGET, OHAS, OREMOVE, OITER, AADD, AGET, AREMOVE, AITER, AOOR, WRONGTYPE, ROUNDTRIP, DUPSWITCH, NKINDS };

static const char *const POOL[] = {"a",   "A",    "b",      "ab",       "AB",       "Ab",  "key", "KEY", "Key", "",  " ",
                                   "a\"b", "k\n", "\xc3\xa9", "\xc3\x89", "z",        "Z",   "a.b", "a/b", "\\", "k0", "K0",
                                   "0",   "\x01", "\xff",   "member",   "MEMBER_2", "m\t", "e",   "E",   "aa",  "aA"};
static const size_t NPOOL = sizeof(POOL) / sizeof(POOL[0]);

static Case gen_case() {
    Case c;
    c.cfg = {pick(0, 3)};
    c.ops = op_list(70, [] {
        auto key = []() -> std::string { return chance(12) ? bytes(1, 6, 1, 255) : std::string(); };
        switch (weighted({30, 8, 5, 12, 5, 20, 5, 12, 3, 2, 1, 2, 4})) {
        case 0: return mkop(OADD, {chance(55) ? pick(0, 9) : pick(0, NPOOL + 1), pick(0, 6)}, key());
        case 1: return mkop(OGET, {pick(0, NPOOL + 1)}, key());
        case 2: return mkop(OHAS, {pick(0, NPOOL + 1)}, key());
        case 3: return mkop(OREMOVE, {pick(0, NPOOL + 1), pick(0, 20)}, key());
        case 4: return mkop(OITER, {pick(0, 12), pick(0, 2)});
        case 5: return mkop(AADD, {pick(0, 6)});
        case 6: return mkop(AGET, {pick(0, 20)});
        case 7: return mkop(AREMOVE, {pick(0, 20)});
        case 8: return mkop(AITER, {pick(0, 12), pick(0, 2)});
        case 9: return mkop(AOOR, {pick(0, 3), pick(0, 1)});
        case 10: return mkop(WRONGTYPE, {pick(0, 9)});
        case 11: return mkop(ROUNDTRIP, {pick(0, 1)});
        default: return mkop(DUPSWITCH, {pick(0, 2)});
        }
    });
    return c;
}

struct Val {
    int type = 0; // 0 null 1 true 2 false 3 number 4 string 5 array [serial] 6 object {"n": serial}
    uint64_t serial = 0;
};
struct Slot {
    std::string key;
    Val val;
    const struct aws_json_value *ptr;
};

static std::string lower_ascii(std::string s) {
    for (auto &ch : s)
        if (ch >= 'A' && ch <= 'Z') ch = (char)(ch - 'A' + 'a');
    return s;
}
static std::string show(const std::string &s) {
    std::string o;
    for (unsigned char ch : s.substr(0, 40)) o += (ch >= 0x20 && ch < 0x7f) ? std::string(1, (char)ch) : fmt("\\x%02x", ch);
    return o;
}

static struct aws_json_value *make_value(const Val &v) {
    struct aws_allocator *A = galloc::full();
    std::string s = "s" + std::to_string(v.serial) + (v.serial % 3 == 0 ? "\"\n" : "");
    switch (v.type) {
    case 0: return aws_json_value_new_null(A);
    case 1: return aws_json_value_new_boolean(A, true);
    case 2: return aws_json_value_new_boolean(A, false);
    case 3: return aws_json_value_new_number(A, (double)v.serial + 0.25);
    case 4: return aws_json_value_new_string(A, aws_byte_cursor_from_array(s.data(), s.size()));
    case 5: {
        struct aws_json_value *a = aws_json_value_new_array(A);
        aws_json_value_add_array_element(a, aws_json_value_new_number(A, (double)v.serial));
        return a;
    }
    default: {
        struct aws_json_value *o = aws_json_value_new_object(A);
        aws_json_value_add_to_object_c_str(o, "n", aws_json_value_new_number(A, (double)v.serial));
        return o;
    }
    }
}
// reads a value back through the getters and compares it with what was put in
static void check_value(const struct aws_json_value *p, const Val &v, const char *where) {
    PBT_CHECK(p != nullptr, "%s: no value", where);
    double d = -1;
    bool b = false;
    struct aws_byte_cursor c = {0, nullptr};
    std::string s = "s" + std::to_string(v.serial) + (v.serial % 3 == 0 ? "\"\n" : "");
    switch (v.type) {
    case 0: PBT_CHECK(aws_json_value_is_null(p), "%s: not null", where); break;
    case 1:
    case 2:
        PBT_CHECK(aws_json_value_get_boolean(p, &b) == AWS_OP_SUCCESS && b == (v.type == 1), "%s: boolean reads back wrong", where);
        break;
    case 3:
        PBT_CHECK(aws_json_value_get_number(p, &d) == AWS_OP_SUCCESS && d == (double)v.serial + 0.25, "%s: number reads back as %g, put in %g",
                  where, d, (double)v.serial + 0.25);
        break;
    case 4:
        PBT_CHECK(aws_json_value_get_string(p, &c) == AWS_OP_SUCCESS && c.len == s.size() && memcmp(c.ptr, s.data(), c.len) == 0,
                  "%s: string reads back wrong (put in \"%s\")", where, show(s).c_str());
        break;
    case 5: {
        PBT_CHECK(aws_json_value_is_array(p) && aws_json_get_array_size(p) == 1, "%s: nested array lost", where);
        PBT_CHECK(aws_json_value_get_number(aws_json_get_array_element(p, 0), &d) == AWS_OP_SUCCESS && d == (double)v.serial,
                  "%s: nested array element reads back wrong", where);
        break;
    }
    default:
        PBT_CHECK(aws_json_value_is_object(p), "%s: nested object lost", where);
        PBT_CHECK(aws_json_value_get_number(aws_json_value_get_from_object_c_str(p, "n"), &d) == AWS_OP_SUCCESS && d == (double)v.serial,
                  "%s: nested object member reads back wrong", where);
        break;
    }
}

struct Visit {
    std::vector<std::pair<std::string, const struct aws_json_value *>> seen;
    size_t stop_at = SIZE_MAX; // 1-based visit number at which the callback intervenes
    int mode = 0;              // 1: *should_continue = false; 2: return AWS_OP_ERR
};
static int on_member(const struct aws_byte_cursor *key, const struct aws_json_value *value, bool *cont, void *ud) {
    Visit *v = (Visit *)ud;
    v->seen.emplace_back(std::string((const char *)key->ptr, key->len), value);
    if (v->seen.size() == v->stop_at) {
        if (v->mode == 1) *cont = false;
        if (v->mode == 2) return AWS_OP_ERR;
    }
    return AWS_OP_SUCCESS;
}
static int on_value(size_t idx, const struct aws_json_value *value, bool *cont, void *ud) {
    Visit *v = (Visit *)ud;
    v->seen.emplace_back(std::to_string(idx), value);
    if (v->seen.size() == v->stop_at) {
        if (v->mode == 1) *cont = false;
        if (v->mode == 2) return AWS_OP_ERR;
    }
    return AWS_OP_SUCCESS;
}

static void run(const Case &c, Ctx &ctx) {
    galloc::S().corrupt = false; // no galloc::reset(): the library's init-time blocks stay registered
    galloc::S().on_release = nullptr;
    const size_t live0 = galloc::live_blocks();
    struct aws_allocator *A = galloc::full();
    const bool cstr_api = c.c(0) & 1;

    struct aws_json_value *obj = aws_json_value_new_object(A);
    struct aws_json_value *arr = aws_json_value_new_array(A);
    PBT_CHECK(obj && arr);
    std::vector<Slot> om, am;
    uint64_t serial = 0;
    bool refused_dup = false, mid_obj_remove = false, mid_arr_remove = false, stopped_early = false;

    auto key_of = [&](const Op &op) -> std::string {
        if (!op.b.empty()) {
            std::string k;
            for (char ch : op.b)
                if (ch) k.push_back(ch);
            return k;
        }
        uint64_t i = op.arg(0) % (NPOOL + 2);
        if (i == NPOOL) return std::string(70, 'x');
        if (i == NPOOL + 1) return std::string(70, 'X');
        return POOL[i];
    };
    auto find_exact = [&](const std::string &k) -> long {
        for (size_t i = 0; i < om.size(); i++)
            if (om[i].key == k) return (long)i;
        return -1;
    };
    auto find_ci = [&](const std::string &k) -> long {
        for (size_t i = 0; i < om.size(); i++)
            if (lower_ascii(om[i].key) == lower_ascii(k)) return (long)i;
        return -1;
    };
    auto lib_get = [&](const struct aws_json_value *o, const std::string &k) {
        return cstr_api ? aws_json_value_get_from_object_c_str(o, k.c_str())
                        : aws_json_value_get_from_object(o, aws_byte_cursor_from_array(k.data(), k.size()));
    };
    auto lib_has = [&](const struct aws_json_value *o, const std::string &k) {
        return cstr_api ? aws_json_value_has_key_c_str(o, k.c_str()) : aws_json_value_has_key(o, aws_byte_cursor_from_array(k.data(), k.size()));
    };
    auto lib_add = [&](struct aws_json_value *o, const std::string &k, struct aws_json_value *v) {
        return cstr_api ? aws_json_value_add_to_object_c_str(o, k.c_str(), v)
                        : aws_json_value_add_to_object(o, aws_byte_cursor_from_array(k.data(), k.size()), v);
    };
    auto lib_remove = [&](struct aws_json_value *o, const std::string &k) {
        return cstr_api ? aws_json_value_remove_from_object_c_str(o, k.c_str())
                        : aws_json_value_remove_from_object(o, aws_byte_cursor_from_array(k.data(), k.size()));
    };

    auto verify_all = [&](const char *after) {
        Visit vo;
        PBT_CHECK(aws_json_const_iterate_object(obj, on_member, &vo) == AWS_OP_SUCCESS, "after %s: iterate_object failed", after);
        PBT_CHECK(vo.seen.size() == om.size(), "after %s: object has %zu members, reference has %zu", after, vo.seen.size(), om.size());
        for (size_t i = 0; i < om.size(); i++) {
            PBT_CHECK(vo.seen[i].first == om[i].key, "after %s: member %zu has key \"%s\", reference (insertion order) has \"%s\"", after, i,
                      show(vo.seen[i].first).c_str(), show(om[i].key).c_str());
            PBT_CHECK(vo.seen[i].second == om[i].ptr, "after %s: member %zu (\"%s\") is not the value that was added", after, i,
                      show(om[i].key).c_str());
            PBT_CHECK(lib_get(obj, om[i].key) == om[i].ptr, "after %s: get(\"%s\") does not return the member added under that key", after,
                      show(om[i].key).c_str());
            PBT_CHECK(lib_has(obj, om[i].key), "after %s: has_key(\"%s\") is false for a member", after, show(om[i].key).c_str());
            check_value(om[i].ptr, om[i].val, after);
        }
        PBT_CHECK(aws_json_get_array_size(arr) == am.size(), "after %s: array size %zu, reference %zu", after, aws_json_get_array_size(arr),
                  am.size());
        Visit va;
        PBT_CHECK(aws_json_const_iterate_array(arr, on_value, &va) == AWS_OP_SUCCESS, "after %s: iterate_array failed", after);
        PBT_CHECK(va.seen.size() == am.size(), "after %s: array iteration visits %zu of %zu", after, va.seen.size(), am.size());
        for (size_t i = 0; i < am.size(); i++) {
            PBT_CHECK(aws_json_get_array_element(arr, i) == am[i].ptr, "after %s: element %zu is not the %zu-th value still in the array", after,
                      i, i);
            PBT_CHECK(va.seen[i].first == std::to_string(i) && va.seen[i].second == am[i].ptr, "after %s: iteration step %zu shows index %s / another element",
                      after, i, va.seen[i].first.c_str());
            check_value(am[i].ptr, am[i].val, after);
        }
        const char *m = nullptr;
        PBT_CHECK(galloc::check_all(&m), "%s", m ? m : "");
    };

    try {
        verify_all("creation");
        bool stop = false;
        for (auto &op : c.ops) {
            if (stop) break;
            int kind = ((op.kind % NKINDS) + NKINDS) % NKINDS;
            switch (kind) {
            case OADD: {
                std::string k = key_of(op);
                Val v{(int)(op.arg(1) % 7), ++serial};
                struct aws_json_value *nv = make_value(v);
                PBT_CHECK(nv != nullptr);
                long ex = find_exact(k), ci = find_ci(k);
                int rc = lib_add(obj, k, nv);
                if (ex >= 0) {
                    if (rc == AWS_OP_SUCCESS) nv = nullptr; // taken
                    else aws_json_value_destroy(nv);
                    PBT_CHECK(rc == AWS_OP_ERR, "a second member with key \"%s\" was accepted", show(k).c_str());
                    refused_dup = true;
                    ctx.tag("duplicate_key_refused");
                } else if (ci >= 0) {
                    // same letters, different case: no promise either way
                    if (rc == AWS_OP_SUCCESS) {
                        ctx.tag("case_variant_key_accepted");
                        // whichever way letter case is treated, "an added member can be found [and] read back" by its key
                        const struct aws_json_value *r = lib_get(obj, k);
                        PBT_CHECK(r == nv, "the member just added under \"%s\" is not the one its key finds (%s): adding and looking up treat letter case differently",
                                  show(k).c_str(), r ? "another member is returned" : "nothing is returned");
                        stop = true; // other lookups are ambiguous from here on
                        continue;
                    }
                    aws_json_value_destroy(nv);
                    ctx.tag("case_variant_key_refused");
                } else {
                    if (rc != AWS_OP_SUCCESS) aws_json_value_destroy(nv);
                    PBT_CHECK(rc == AWS_OP_SUCCESS, "add with the unused key \"%s\" failed: %s", show(k).c_str(), aws_error_name(aws_last_error()));
                    om.push_back(Slot{k, v, nv});
                }
                verify_all("add_to_object");
                break;
            }
            case OGET:
            case OHAS: {
                std::string k = key_of(op);
                long ex = find_exact(k), ci = find_ci(k);
                const struct aws_json_value *r = lib_get(obj, k);
                bool h = lib_has(obj, k);
                if (ex >= 0) {
                    PBT_CHECK(r == om[ex].ptr && h, "member \"%s\" not found by its key", show(k).c_str());
                } else if (ci >= 0) {
                    PBT_CHECK(r == nullptr || r == om[ci].ptr, "get(\"%s\") returns a member with an unrelated key", show(k).c_str());
                    PBT_CHECK(h == (r != nullptr), "has_key and get disagree for \"%s\"", show(k).c_str());
                    ctx.tag("case_variant_lookup");
                } else {
                    PBT_CHECK(r == nullptr && !h, "get/has_key(\"%s\") finds something although no member has that key", show(k).c_str());
                    ctx.tag("lookup_of_absent_key");
                }
                break;
            }
            case OREMOVE: {
                std::string k = key_of(op);
                if (!om.empty() && op.arg(1) % 3 != 0) k = om[op.arg(1) % om.size()].key; // mostly remove something that is there
                long ex = find_exact(k), ci = find_ci(k);
                if (ex < 0 && ci >= 0) break; // case variant: not used for removal
                int rc = lib_remove(obj, k);
                if (ex >= 0) {
                    PBT_CHECK(rc == AWS_OP_SUCCESS, "removing member \"%s\" failed", show(k).c_str());
                    if (om.size() >= 3 && (size_t)ex + 1 != om.size()) mid_obj_remove = true;
                    om.erase(om.begin() + ex);
                    PBT_CHECK(lib_get(obj, k) == nullptr && !lib_has(obj, k), "member \"%s\" still found after its removal", show(k).c_str());
                } else {
                    PBT_CHECK(rc == AWS_OP_ERR, "removing the absent key \"%s\" reported success", show(k).c_str());
                }
                verify_all("remove_from_object");
                break;
            }
            case OITER:
            case AITER: {
                bool o = kind == OITER;
                size_t n = o ? om.size() : am.size();
                Visit v;
                v.mode = (int)(op.arg(1) % 3);
                v.stop_at = v.mode ? (size_t)(op.arg(0) % (n + 1)) + 1 : SIZE_MAX;
                int rc = o ? aws_json_const_iterate_object(obj, on_member, &v) : aws_json_const_iterate_array(arr, on_value, &v);
                size_t expect = v.mode && v.stop_at <= n ? v.stop_at : n;
                PBT_CHECK(v.seen.size() == expect, "%s iteration made %zu visits, expected %zu of %zu (mode %d, stop at %zu)",
                          o ? "object" : "array", v.seen.size(), expect, n, v.mode, v.stop_at);
                bool errs = v.mode == 2 && v.stop_at <= n;
                PBT_CHECK(rc == (errs ? AWS_OP_ERR : AWS_OP_SUCCESS), "iteration returned %d (mode %d, stop at %zu of %zu)", rc, v.mode, v.stop_at, n);
                for (size_t i = 0; i < expect; i++)
                    PBT_CHECK(v.seen[i].second == (o ? om[i].ptr : am[i].ptr) && v.seen[i].first == (o ? om[i].key : std::to_string(i)),
                              "iteration step %zu is out of order", i);
                if (v.mode && v.stop_at < n) {
                    stopped_early = true;
                    ctx.tag(v.mode == 1 ? "iteration_stopped_early" : "iteration_aborted_by_error");
                }
                break;
            }
            case AADD: {
                Val v{(int)(op.arg(0) % 7), ++serial};
                struct aws_json_value *nv = make_value(v);
                PBT_CHECK(nv != nullptr);
                int rc = aws_json_value_add_array_element(arr, nv);
                if (rc != AWS_OP_SUCCESS) aws_json_value_destroy(nv);
                PBT_CHECK(rc == AWS_OP_SUCCESS, "add_array_element failed");
                am.push_back(Slot{"", v, nv});
                verify_all("add_array_element");
                break;
            }
            case AGET: {
                if (am.empty()) break;
                size_t i = (size_t)(op.arg(0) % am.size());
                PBT_CHECK(aws_json_get_array_element(arr, i) == am[i].ptr, "element %zu is not the %zu-th inserted value still present", i, i);
                check_value(am[i].ptr, am[i].val, "get_array_element");
                break;
            }
            case AREMOVE: {
                if (am.empty()) break;
                size_t i = (size_t)(op.arg(0) % am.size());
                PBT_CHECK(aws_json_value_remove_array_element(arr, i) == AWS_OP_SUCCESS, "remove_array_element(%zu) of %zu failed", i, am.size());
                if (am.size() >= 3 && i + 1 != am.size()) mid_arr_remove = true;
                am.erase(am.begin() + (long)i);
                verify_all("remove_array_element");
                break;
            }
            case AOOR: {
                // an index beyond the end (size+1 and up; index == size is left alone, see the report)
                size_t i = am.size() + 1 + (size_t)(op.arg(0) % 4);
                if (op.arg(1) & 1) {
                    PBT_CHECK(aws_json_get_array_element(arr, i) == nullptr, "get_array_element(%zu) of %zu returned a value", i, am.size());
                } else {
                    PBT_CHECK(aws_json_value_remove_array_element(arr, i) == AWS_OP_ERR, "remove_array_element(%zu) of %zu reported success", i,
                              am.size());
                }
                ctx.tag("index_beyond_end");
                verify_all("out-of-range index");
                break;
            }
            case WRONGTYPE: {
                struct aws_json_value *nv = aws_json_value_new_null(A);
                struct aws_json_value *num = aws_json_value_new_number(A, 1.5);
                Visit v;
                switch (op.arg(0) % 10) {
                case 0: PBT_CHECK(aws_json_value_add_to_object_c_str(arr, "a", nv) == AWS_OP_ERR, "add_to_object on an array succeeded"); break;
                case 1: PBT_CHECK(aws_json_value_add_array_element(obj, nv) == AWS_OP_ERR, "add_array_element on an object succeeded"); break;
                case 2: PBT_CHECK(aws_json_value_get_from_object_c_str(arr, "a") == nullptr && !aws_json_value_has_key_c_str(arr, "a"), "key lookup on an array"); break;
                case 3: PBT_CHECK(aws_json_get_array_element(obj, 0) == nullptr && aws_json_get_array_size(obj) == 0, "index access on an object"); break;
                case 4: PBT_CHECK(aws_json_value_remove_from_object_c_str(arr, "a") == AWS_OP_ERR, "remove_from_object on an array succeeded"); break;
                case 5: PBT_CHECK(aws_json_value_remove_array_element(obj, 0) == AWS_OP_ERR, "remove_array_element on an object succeeded"); break;
                case 6: PBT_CHECK(aws_json_const_iterate_object(arr, on_member, &v) == AWS_OP_ERR && v.seen.empty(), "iterate_object on an array"); break;
                case 7: PBT_CHECK(aws_json_const_iterate_array(obj, on_value, &v) == AWS_OP_ERR && v.seen.empty(), "iterate_array on an object"); break;
                case 8: PBT_CHECK(aws_json_value_add_to_object_c_str(num, "a", nv) == AWS_OP_ERR, "add_to_object on a number succeeded"); break;
                default: PBT_CHECK(aws_json_value_add_array_element(num, nv) == AWS_OP_ERR, "add_array_element on a number succeeded"); break;
                }
                aws_json_value_destroy(nv); // never taken
                aws_json_value_destroy(num);
                ctx.tag("wrong_container_type");
                verify_all("wrong-type call");
                break;
            }
            case DUPSWITCH: {
                // "a duplicate compares equal to its original" - and it has to be a fully working value: the program continues
                // on the duplicate (the original is destroyed), so later adds / removes / lookups run against duplicated nodes
                bool do_obj = op.arg(0) % 3 != 1, do_arr = op.arg(0) % 3 != 0;
                if (do_obj) {
                    struct aws_json_value *d = aws_json_value_duplicate(obj);
                    PBT_CHECK(d != nullptr, "duplicate of the object failed");
                    PBT_CHECK(aws_json_value_compare(obj, d, true), "the duplicate of the object does not compare equal to it");
                    aws_json_value_destroy(obj);
                    obj = d;
                    Visit vo;
                    PBT_CHECK(aws_json_const_iterate_object(obj, on_member, &vo) == AWS_OP_SUCCESS && vo.seen.size() == om.size(),
                              "the duplicated object has %zu members, the original had %zu", vo.seen.size(), om.size());
                    for (size_t i = 0; i < om.size(); i++) {
                        PBT_CHECK(vo.seen[i].first == om[i].key, "member %zu of the duplicated object has another key", i);
                        om[i].ptr = vo.seen[i].second;
                    }
                }
                if (do_arr) {
                    struct aws_json_value *d = aws_json_value_duplicate(arr);
                    PBT_CHECK(d != nullptr, "duplicate of the array failed");
                    PBT_CHECK(aws_json_value_compare(arr, d, true), "the duplicate of the array does not compare equal to it");
                    aws_json_value_destroy(arr);
                    arr = d;
                    PBT_CHECK(aws_json_get_array_size(arr) == am.size(), "the duplicated array has %zu elements, the original had %zu",
                              aws_json_get_array_size(arr), am.size());
                    for (size_t i = 0; i < am.size(); i++) am[i].ptr = aws_json_get_array_element(arr, i);
                }
                ctx.tag("continued_on_duplicate");
                verify_all("switching to the duplicate");
                break;
            }
            default: { // ROUNDTRIP: the container as it is now survives serialise + parse
                bool o = op.arg(0) % 2 == 0;
                const struct aws_json_value *src = o ? obj : arr;
                struct aws_byte_buf buf;
                PBT_CHECK(aws_byte_buf_init(&buf, A, 16) == AWS_OP_SUCCESS);
                int rc = aws_byte_buf_append_json_string(src, &buf);
                struct aws_json_value *back = rc == AWS_OP_SUCCESS ? aws_json_value_new_from_string(A, aws_byte_cursor_from_buf(&buf)) : nullptr;
                aws_byte_buf_clean_up(&buf);
                bool eq = back && aws_json_value_compare(src, back, true);
                Visit v;
                int irc = back ? (o ? aws_json_const_iterate_object(back, on_member, &v) : aws_json_const_iterate_array(back, on_value, &v)) : AWS_OP_ERR;
                bool order = irc == AWS_OP_SUCCESS && v.seen.size() == (o ? om.size() : am.size());
                for (size_t i = 0; order && o && i < om.size(); i++) order = v.seen[i].first == om[i].key;
                aws_json_value_destroy(back);
                PBT_CHECK(rc == AWS_OP_SUCCESS && back != nullptr, "serialise / parse of the current %s failed", o ? "object" : "array");
                PBT_CHECK(eq, "the re-parsed %s does not compare equal", o ? "object" : "array");
                PBT_CHECK(order, "the re-parsed %s has other members / another member order", o ? "object" : "array");
                break;
            }
            }
        }
    } catch (...) {
        aws_json_value_destroy(obj);
        aws_json_value_destroy(arr);
        throw;
    }
    aws_json_value_destroy(obj);
    aws_json_value_destroy(arr);
    const char *m = nullptr;
    PBT_CHECK(galloc::check_all(&m), "%s", m ? m : "");
    PBT_CHECK(galloc::live_blocks() == live0, "allocator balance: %zu blocks live before the case, %zu after destroying both containers", live0,
              galloc::live_blocks());

    if (refused_dup && mid_obj_remove && mid_arr_remove) ctx.nontrivial = true;
    if (mid_obj_remove) ctx.tag("object_remove_not_last");
    if (mid_arr_remove) ctx.tag("array_remove_not_last");
    (void)stopped_early;
    ctx.tag(cstr_api ? "c_str_api" : "cursor_api");
}

int main(int argc, char **argv) {
    aws_common_library_init(galloc::full()); // the JSON module takes its allocator here
    Spec sp{"C11", "c11_json_api", gen_case, run,
            "programs (<=70 ops) on one object and one array: add (34 pooled keys incl. letter-case variants, empty, quote/control/UTF-8 keys, "
            "70-byte keys, random bytes; 7 value shapes with a unique serial), get/has, remove (mostly present keys), iterate (full / stop "
            "via out_should_continue / abort via AWS_OP_ERR at a generated step), array add/get/remove at index<size, index>size, calls on "
            "the wrong container type, serialise+parse+compare; reference = ordered list of (key, value id, pointer), re-verified after "
            "every mutation; non-trivial = >=1 refused duplicate-key add and >=1 removal of a non-last member of >=3 from the object and "
            "from the array; distinct by hash of the serialised case"};
    return pbt_main(argc, argv, sp);
}

// C20 — threads run once, run their exit callbacks (reverse order, on that thread), and managed
// threads all get joined by join_all_managed, in every completion order.  Controlled scheduler.
// See DESIGN.md section 5 / C20 and section 4.
#include "pbt.hpp"
#include "galloc.hpp"
#include "detsched/sched_glue.hpp"

#include <aws/common/common.h>
#include <aws/common/thread.h>
extern "C" {
#include <aws/common/private/thread_shared.h>
}

using namespace pbt;

// op kinds
enum { BODY = 0, MAIN = 1 };
// body actions
enum { B_ATEXIT = 0, B_SLEEP = 1, B_CHILD = 2, B_POINT = 3, B_CALL_ONCE = 4, NBODY = 5 };
// main actions
enum { M_LAUNCH_J = 0, M_LAUNCH_M = 1, M_JOIN = 2, M_JOIN_ALL = 3, M_SLEEP = 4, M_COUNT = 5, M_SET_TIMEOUT = 6, NMAIN = 7 };

static const uint64_t SLEEPS[] = {1000ull, 1000000ull, 5000000ull, 20000000ull};
static const int NJ = 3, NM = 4, NC = 6, NSLOT = NJ + NM + NC; // joinable 0..2, managed by main 3..6, children 7..12

static Case gen_case() {
    Case c;
    // names on/off; mask of thread slots launched pinned to a cpu that does not exist (create fails with EINVAL,
    // the library retries unpinned)
    // third: mask of joinable slots that take part in the managed-thread count the way event-loop threads do
    // (aws_thread_increment_unjoined_count at start, aws_thread_decrement_unjoined_count at the end)
    c.cfg = {pick(0, 1), chance(35) ? pick(0, (1u << NSLOT) - 1) : 0, chance(40) ? pick(0, 7) : 0};
    c.ops = op_list(45, [] {
        if (chance(45)) {
            switch (weighted({3, 4, 4, 3, 2, 1, 1})) {
            case 0: return mkop(MAIN, {M_LAUNCH_J});
            case 1: return mkop(MAIN, {M_LAUNCH_M});
            case 2: return mkop(MAIN, {M_JOIN, pick(0, NJ - 1)});
            case 3: return mkop(MAIN, {M_JOIN_ALL});
            case 4: return mkop(MAIN, {M_SLEEP, pick(0, 3)});
            case 5: return mkop(MAIN, {M_COUNT});
            default: return mkop(MAIN, {M_SET_TIMEOUT, pick(0, 3)});
            }
        }
        uint64_t slot = pick(0, NSLOT - 1);
        switch (weighted({4, 4, 3, 1, 1})) {
        case 4: return mkop(BODY, {slot, B_CALL_ONCE});
        case 0: return mkop(BODY, {slot, B_ATEXIT});
        case 1: return mkop(BODY, {slot, B_SLEEP, pick(0, 3)});
        case 2: return mkop(BODY, {slot, B_CHILD});
        default: return mkop(BODY, {slot, B_POINT});
        }
    });
    c.ops.push_back(dsg::gen_schedule(800));
    return c;
}

struct World;
struct AtExit {
    World *w;
    int slot, idx;
    int calls = 0;
};
struct Slot {
    World *w;
    int slot;
    struct aws_thread thread;
    bool launched = false;       // launch call returned successfully
    bool launching = false;      // launch call entered
    bool managed = false;
    int depth = 0;
    int fn_calls = 0;
    bool fn_done = false;
    int ds_id = -1;
    std::vector<AtExit *> registered;
    std::vector<int> exit_order; // idx in call order
    bool joined_by_main = false;
    uint64_t launch_seq = 0, finish_seq = 0;
};
struct World {
    Ctx *ctx;
    const Case *c;
    Slot s[NSLOT];
    int next_j = 0, next_m = NJ, next_c = NJ + NM;
    uint64_t seq = 0;
    bool names = false;
    uint64_t pin_mask = 0;
    uint64_t participant_mask = 0;
    int participants = 0;
    size_t p_inc_started = 0, p_inc_done = 0, p_dec_started = 0, p_dec_done = 0;
    int pinned_launches = 0;
    int at_exits = 0, child_launches = 0;
    std::vector<AtExit *> all_at_exit;
    aws_thread_once once_flag = AWS_THREAD_ONCE_STATIC_INIT;
    int once_calls = 0;
    uint64_t join_timeout = 0;
    int timed_out_join_alls = 0;
};
static void once_fn(void *ud) { ((World *)ud)->once_calls++; }

static void once_fn(void *ud);
static void atexit_cb(void *ud) {
    AtExit *a = (AtExit *)ud;
    World &w = *a->w;
    Slot &s = w.s[a->slot];
    a->calls++;
    if (a->calls != 1) w.ctx->note_fail(fmt("at-exit callback %d of thread slot %d ran %d times", a->idx, a->slot, a->calls));
    if (ds::self() != s.ds_id) w.ctx->note_fail(fmt("at-exit callback of slot %d ran on t%d, its thread is t%d", a->slot, ds::self(), s.ds_id));
    if (!s.fn_done) w.ctx->note_fail(fmt("at-exit callback of slot %d ran before the thread function returned", a->slot));
    s.exit_order.push_back(a->idx);
}

static void launch(World &w, Slot &s, bool managed, int depth);

static void thread_fn(void *arg) {
    Slot &s = *(Slot *)arg;
    World &w = *s.w;
    s.fn_calls++;
    if (s.fn_calls != 1) w.ctx->note_fail(fmt("thread function of slot %d invoked %d times", s.slot, s.fn_calls));
    s.ds_id = ds::self();
    bool participant = !s.managed && ((w.participant_mask >> s.slot) & 1);
    if (participant) {
        w.participants++;
        w.p_inc_started++;
        aws_thread_increment_unjoined_count();
        w.p_inc_done++;
    }
    for (auto &op : w.c->ops) {
        if (op.kind != BODY || (int)(op.arg(0) % NSLOT) != s.slot) continue;
        if (w.ctx->failed) break;
        switch (op.arg(1) % NBODY) {
        case B_ATEXIT: {
            if (s.registered.size() >= 4) break;
            AtExit *a = new AtExit{&w, s.slot, (int)s.registered.size()};
            w.all_at_exit.push_back(a);
            if (aws_thread_current_at_exit(atexit_cb, a) != AWS_OP_SUCCESS) {
                w.ctx->note_fail(fmt("aws_thread_current_at_exit failed on slot %d", s.slot));
                break;
            }
            s.registered.push_back(a);
            w.at_exits++;
            break;
        }
        case B_SLEEP: aws_thread_current_sleep(SLEEPS[op.arg(2) % 4]); break;
        case B_CHILD:
            if (s.managed && s.depth < 2 && w.next_c < NSLOT) {
                Slot &ch = w.s[w.next_c++];
                w.child_launches++;
                launch(w, ch, true, s.depth + 1);
            }
            break;
        case B_CALL_ONCE:
            // aws_thread_call_once on a library thread must leave the thread's own bookkeeping alone: at-exit
            // registrations made afterwards still have to be accepted and run
            aws_thread_call_once(&w.once_flag, once_fn, &w);
            break;
        default: ds::point(); break;
        }
    }
    if (participant) {
        w.p_dec_started++;
        aws_thread_decrement_unjoined_count();
        w.p_dec_done++;
    }
    s.fn_done = true;
    s.finish_seq = ++w.seq;
}

static void launch(World &w, Slot &s, bool managed, int depth) {
    s.managed = managed;
    s.depth = depth;
    s.launching = true;
    s.launch_seq = ++w.seq;
    aws_thread_init(&s.thread, galloc::full());
    struct aws_thread_options opt = *aws_default_thread_options();
    opt.join_strategy = managed ? AWS_TJS_MANAGED : AWS_TJS_MANUAL;
    char nm[16];
    snprintf(nm, sizeof nm, "c20-%d", s.slot);
    if (w.names) opt.name = aws_byte_cursor_from_c_str(nm);
    if ((w.pin_mask >> s.slot) & 1) {
        opt.cpu_id = 1000; // no such cpu: pinning is documented as best effort, the launch must still succeed
        w.pinned_launches++;
    }
    if (aws_thread_launch(&s.thread, thread_fn, &s, &opt) != AWS_OP_SUCCESS) {
        w.ctx->note_fail(fmt("aws_thread_launch failed for slot %d", s.slot));
        return;
    }
    s.launched = true;
}

static void check_thread_finished(World &w, Slot &s, const char *when) {
    Ctx &ctx = *w.ctx;
    if (s.fn_calls != 1 || !s.fn_done) ctx.note_fail(fmt("%s: thread slot %d has not finished its function (calls=%d)", when, s.slot, s.fn_calls));
    if (s.exit_order.size() != s.registered.size())
        ctx.note_fail(fmt("%s: slot %d ran %zu of %zu at-exit callbacks", when, s.slot, s.exit_order.size(), s.registered.size()));
    else
        for (size_t i = 0; i < s.exit_order.size(); i++)
            if (s.exit_order[i] != (int)(s.registered.size() - 1 - i)) {
                ctx.note_fail(fmt("%s: slot %d at-exit callbacks not in reverse registration order", when, s.slot));
                break;
            }
    auto th = ds::threads();
    if (s.ds_id > 0 && s.ds_id < (int)th.size()) {
        if (!th[s.ds_id].done) ctx.note_fail(fmt("%s: thread slot %d (t%d) has not exited", when, s.slot, s.ds_id));
        if (th[s.ds_id].joins != 1) ctx.note_fail(fmt("%s: thread slot %d (t%d) was joined %d times", when, s.slot, s.ds_id, th[s.ds_id].joins));
    }
}

static void join_all(World &w) {
    Ctx &ctx = *w.ctx;
    // every managed thread whose launch had been entered before this call (children included: a child is
    // launched by a managed thread that itself was launched before the call) has to be finished and joined
    std::vector<int> before;
    for (int i = NJ; i < NSLOT; i++)
        if (w.s[i].launched) before.push_back(i);
    int rc = aws_thread_join_all_managed();
    if (rc != AWS_OP_SUCCESS && w.join_timeout != 0) {
        // a join time-out is set and some thread was still running at the deadline: documented failure, nothing is
        // promised about this call - but nothing may be lost either: the final join-all (no time-out) checks that
        w.timed_out_join_alls++;
        return;
    }
    if (rc != AWS_OP_SUCCESS) ctx.note_fail("aws_thread_join_all_managed failed although no join time-out is set");
    for (int i : before) check_thread_finished(w, w.s[i], "after join_all_managed");
    // main is the only top-level launcher and all managed threads are done: nothing can be outstanding
    for (int i = NJ; i < NSLOT; i++)
        if (w.s[i].launching && !ctx.failed) check_thread_finished(w, w.s[i], "after join_all_managed (transitively launched)");
    // what may still be counted: participants (threads using the increment/decrement pair directly) that are between
    // their increment and their decrement right now
    // The read itself is a sequence of decision points, so a participant may start - or start AND finish - while it runs.
    // Surely counted: those whose increment had returned before the read began and whose decrement had not been entered
    // when it ended.  Possibly counted: those whose increment had been entered when the read ended, minus those whose
    // decrement had returned before it began.  (Sampling "inside now" before and after the read is not enough: a
    // participant that does both inside the read is in neither sample - found by seed 309, see DESIGN 9.3.)
    size_t inc_done0 = w.p_inc_done, dec_done0 = w.p_dec_done;
    size_t cnt = aws_thread_get_managed_thread_count();
    size_t inc_started1 = w.p_inc_started, dec_started1 = w.p_dec_started;
    size_t lo = inc_done0 > dec_started1 ? inc_done0 - dec_started1 : 0, hi = inc_started1 - dec_done0;
    if (cnt < lo || cnt > hi)
        ctx.note_fail(fmt("managed thread count is %zu after join_all_managed (%zu..%zu participants can be inside their increment/decrement bracket)", cnt,
                          lo, hi));
}

static void join_one(World &w, Slot &s) {
    if (!s.launched || s.joined_by_main) return;
    if (aws_thread_join(&s.thread) != AWS_OP_SUCCESS) w.ctx->note_fail(fmt("aws_thread_join failed for slot %d", s.slot));
    s.joined_by_main = true;
    check_thread_finished(w, s, "after join");
    aws_thread_clean_up(&s.thread);
}

static void run(const Case &c, Ctx &ctx) {
    galloc::reset();
    dsg::install();
    World w;
    w.ctx = &ctx;
    w.c = &c;
    w.names = c.c(0) % 2 == 1;
    w.pin_mask = c.c(1);
    w.participant_mask = c.c(2);
    for (int i = 0; i < NSLOT; i++) {
        w.s[i].w = &w;
        w.s[i].slot = i;
    }
    ds::Config cfg = dsg::to_config(dsg::find_schedule(c), 80000);
    cfg.max_virtual_ns = 3600ull * 1000000000ull;
    ds::run(cfg, [&] {
        for (auto &op : c.ops) {
            if (op.kind != MAIN) continue;
            if (ctx.failed) break;
            switch (op.arg(0) % NMAIN) {
            case M_LAUNCH_J:
                if (w.next_j < NJ) launch(w, w.s[w.next_j++], false, 0);
                break;
            case M_LAUNCH_M:
                if (w.next_m < NJ + NM) launch(w, w.s[w.next_m++], true, 0);
                break;
            case M_JOIN: join_one(w, w.s[op.arg(1) % NJ]); break;
            case M_JOIN_ALL: join_all(w); break;
            case M_SLEEP: aws_thread_current_sleep(SLEEPS[op.arg(1) % 4]); break;
            case M_SET_TIMEOUT: {
                static const uint64_t TO[] = {0, 1000000ull, 10000000ull, 40000000ull};
                w.join_timeout = TO[op.arg(1) % 4];
                aws_thread_set_managed_join_timeout_ns(w.join_timeout);
                break;
            }
            default: (void)aws_thread_get_managed_thread_count(); break;
            }
        }
        if (ctx.failed) return;
        w.join_timeout = 0;
        aws_thread_set_managed_join_timeout_ns(0);
        for (int i = 0; i < NJ; i++) join_one(w, w.s[i]);
        join_all(w);
        if (!ctx.failed) join_all(w); // a second call with nothing outstanding returns at once
    });
    if (ctx.failed) return;
    int managed = 0, out_of_order = 0;
    uint64_t last_fin = 0;
    for (int i = 0; i < NSLOT; i++) {
        Slot &s = w.s[i];
        if (!s.launching) continue;
        PBT_CHECK(s.fn_calls == 1 && s.fn_done, "slot %d function calls %d", i, s.fn_calls);
        for (auto *a : s.registered) PBT_CHECK(a->calls == 1, "at-exit callback %d of slot %d ran %d times", a->idx, i, a->calls);
        if (s.managed) {
            managed++;
            if (s.finish_seq < last_fin) out_of_order++;
            last_fin = std::max(last_fin, s.finish_seq);
        }
    }
    for (auto &ti : ds::threads())
        if (ti.id != 0) PBT_CHECK(ti.done && ti.joins == 1, "thread t%d: done=%d joins=%d at the end", ti.id, ti.done, ti.joins);
    for (auto *a : w.all_at_exit) delete a;
    const char *m = nullptr;
    PBT_CHECK(galloc::check_all(&m), "%s", m ? m : "");
    PBT_CHECK(galloc::live_blocks() == 0, "per-thread bookkeeping leaked: %zu blocks (%zu bytes)", galloc::live_blocks(), galloc::live_bytes());
    if (managed >= 3 && out_of_order) ctx.tag("managed_finish_out_of_order");
    if (w.child_launches) ctx.tag("managed_launches_managed");
    if (w.at_exits) ctx.tag("at_exit");
    if (w.pinned_launches) ctx.tag("launch_with_impossible_cpu_pin");
    if (w.participants) ctx.tag("count_participants");
    if (w.timed_out_join_alls) ctx.tag("join_all_timed_out");
    if (w.once_calls) ctx.tag("call_once_on_library_thread");
    PBT_CHECK(w.once_calls <= 1, "aws_thread_call_once ran its function %d times", w.once_calls);
    if (managed == 0) ctx.tag("no_managed");
    ctx.nontrivial = w.at_exits >= 1 && ((managed >= 3 && out_of_order) || w.child_launches);
}

int main(int argc, char **argv) {
    aws_common_library_init(aws_default_allocator()); // initialises the (process-global) managed-thread list; cases run in forked children
    Spec sp{"C20", "c20_threads", gen_case, run,
            "thread trees: main launches <=3 joinable and <=4 managed threads, managed threads launch managed children (depth<=2); "
            "bodies register <=4 at-exit callbacks, sleep, yield; main joins / calls join_all_managed at generated points; generated "
            "schedules with virtual time; non-trivial = >=1 at-exit callback and (>=3 managed threads finishing out of launch order or a "
            "managed thread launched by a managed thread)",
            /*isolate=*/true};
    return pbt_main(argc, argv, sp);
}

// C12 — XML traversal reports every element of a well-formed document exactly once.
//
// A case is an element tree in preorder (one op per element) plus a per-element callback action
// (descend / read body / skip / abort).  The harness renders the document, computes the expected
// event list from (tree, actions, max_depth) with a small model that does not look at the parser,
// and compares every callback invocation with it.  See DESIGN.md section 5 / C12.
//
// Limits as the code documents them (source/xml_parser.c):
//  * max_depth (option, 0 = 20): a node at depth d (root = 1) can be descended into only when
//    d < max_depth ("XML document exceeds max depth."), so nodes are reported down to depth max_depth;
//  * name length: at most 256 on the skip / body paths (the closing-tag search buffer); today the
//    traverse path has no name limit, an implementation that rejects a longer name when it reads the
//    start tag is accepted as well;
//  * attributes: at most 10 ("if this is exceeded we consider it invalid document"): the
//    declaration is rejected before the element is reported.
// Caller obligations respected by the callback: a node is either traversed or read as body, never
// both; attribute indices < num_attributes; name and attributes are read before the node is
// traversed (the attribute array is parser scratch); the callback propagates a failure of
// aws_xml_node_traverse / aws_xml_node_as_body by returning AWS_OP_ERR and raises an error before
// it aborts.  Nothing throws inside the callback.
#include "pbt.hpp"
#include "galloc.hpp"

#include <aws/common/error.h>
#include <aws/common/xml_parser.h>

#include <csignal>
#include <memory>
#include <sys/time.h>

using namespace pbt;

enum { DESCEND, BODY, SKIP, ABORT, NACT };
enum { T_OK, T_ABORT, T_INVALID };
static const int NNAMES = 13;
static const size_t DEPTH_CAP = 26;
static const size_t NAME_LIMIT = 256; // documented next to MAX_NAME_LEN
static const size_t ATTR_LIMIT = 10;  // documented in s_load_node_decl / xml_parser_impl.h
static const size_t DEFAULT_MAX_DEPTH = 20;

static std::string name_of(uint64_t i) {
    switch (i % NNAMES) {
    case 0: return "a";
    case 1: return "ab";
    case 2: return "abc";
    case 3: return "b";
    case 4: return "ba";
    case 5: return "a1";
    case 6: return "Key";
    case 7: return "KeyMarker";
    case 8: return "Part";
    case 9: return "PartNumber";
    case 10: return std::string(200, 'x');
    case 11: return std::string(256, 'x');
    default: return std::string(257, 'x');
    }
}

static const char *ANAMES[] = {"k", "id", "a", "ab", "Key", "x:y", "k2", "xmlns", "v-1", "_z"};
static const char *TAILS[] = {"", "", "", "\n", "  ", "t", "ab", "/a", " x y ", "a1 k=\"v\"", "&amp;"};
static const int ABORT_CODES[] = {AWS_ERROR_INVALID_ARGUMENT, AWS_ERROR_UNKNOWN, AWS_ERROR_SHORT_BUFFER};

static uint64_t mix(uint64_t x) {
    x += 0x9e3779b97f4a7c15ull;
    x = (x ^ (x >> 30)) * 0xbf58476d1ce4e5b9ull;
    x = (x ^ (x >> 27)) * 0x94d049bb133111ebull;
    return x ^ (x >> 31);
}

struct Attr {
    std::string name, value;
    bool quoted;
};

// attribute i of an element with value seed s: quoted values use every character the dialect allows
// (no space, quote, '<', '>', '='), bare values are non-empty and alphanumeric (a bare value ending
// in '/' would read as a self-closing tag, which is outside the dialect)
static Attr attr_of(uint64_t seed, size_t i) {
    static const std::string Q = "abcXYZ0189/-_.:;,'&#%+*?!()[]{}|~@$^\\`\xc3\xa9";
    static const std::string B = "abcXYZ0189";
    Attr a;
    uint64_t h = mix(seed * 131 + i);
    a.name = ANAMES[(seed + i * 7) % 10];
    a.quoted = seed == 0 || (h & 3) != 0;
    size_t len = a.quoted ? (seed == 0 ? 1 : (h >> 2) % 9) : 1 + (h >> 2) % 6;
    for (size_t j = 0; j < len; j++) {
        uint64_t r = mix(h + j);
        a.value.push_back(seed == 0 ? 'v' : a.quoted ? Q[r % Q.size()] : B[r % B.size()]);
    }
    return a;
}

static std::string clean_text(const std::string &b) {
    std::string s = b;
    for (auto &ch : s) {
        unsigned char u = (unsigned char)ch;
        if (u == '<' || u == '>') ch = '.';
        else if ((u < 0x20 && u != '\n' && u != '\t' && u != '\r') || u == 0x7f) ch = ' ';
    }
    return s;
}

struct Node {
    std::string name;
    int action = DESCEND;
    std::vector<Attr> attrs;
    std::string text, tail;
    std::vector<int> kids;
    int parent = -1;
    size_t depth = 1;
    std::string body; // exact source text between start and end tag (from the rendering)
};

// op = {name index, levels to close before this element opens, action, attribute count, value seed, tail text} | text
// Every op list is a tree: the first op is the root, every later op becomes a child of the element
// that is still open after closing (arg1 mod open-depth) levels, so the root is never closed early.
static std::vector<Node> build_tree(const std::vector<Op> &ops) {
    std::vector<Node> nodes;
    std::vector<int> stack;
    for (auto &op : ops) {
        Node n;
        n.name = name_of(op.arg(0));
        n.action = (int)(op.arg(2) % NACT);
        size_t na = (size_t)(op.arg(3) % 12);
        for (size_t i = 0; i < na; i++) n.attrs.push_back(attr_of(op.arg(4), i));
        n.text = clean_text(op.b);
        n.tail = TAILS[op.arg(5) % 11];
        if (!stack.empty()) {
            size_t up = (size_t)(op.arg(1) % stack.size());
            if (stack.size() - up >= DEPTH_CAP) up = stack.size() - (DEPTH_CAP - 1);
            stack.resize(stack.size() - up);
            n.parent = stack.back();
            n.depth = stack.size() + 1;
            nodes[(size_t)n.parent].kids.push_back((int)nodes.size());
        }
        stack.push_back((int)nodes.size());
        nodes.push_back(std::move(n));
    }
    if (nodes.empty()) {
        Node n;
        n.name = "a";
        nodes.push_back(n);
    }
    return nodes;
}

static size_t tree_depth(const std::vector<Node> &nodes) {
    size_t d = 0;
    for (auto &n : nodes) d = std::max(d, n.depth);
    return d;
}

static std::string gen_text() {
    static const std::vector<std::string> TPL = {"a",   "ab", "/a",        "a1 k=\"v\"", "Key", "\n  ", " ",
                                                 "&lt;a&gt;", "/",  "a/", "x=\"y\"",    "]]",  "?",    "!"};
    switch (weighted({40, 18, 17, 13, 12})) {
    case 0: return "";
    case 1: {
        static const std::string A = "abcKey01 /=\"'&;.-_\n";
        std::string s;
        size_t n = (size_t)pick(1, 8);
        for (size_t i = 0; i < n; i++) s.push_back(A[pick(0, A.size() - 1)]);
        return s;
    }
    case 2: return one_of_v(TPL);
    case 3: return "\n" + std::string((size_t)pick(0, 6), ' ');
    default: return clean_text(bytes(1, 40, 0x20, 0xff));
    }
}

static Case gen_case() {
    Case c;
    bool deep = chance(10); // a chain that reaches the default depth limit
    unsigned chain = deep ? 99 : (unsigned)one_of({45, 70, 90, 97});
    unsigned desc = deep ? 99 : (unsigned)one_of({55, 75, 92, 100});
    bool a_family = chance(50), longnames = chance(25);
    c.ops = op_list(48, [=] {
        uint64_t name;
        if (longnames && chance(20)) name = pick(10, 12);
        else if (a_family) name = one_of({0, 0, 0, 1, 1, 2, 3, 4, 5, 5});
        else name = chance(4) ? pick(10, 12) : pick(0, 9);
        uint64_t up = chance(chain) ? 0 : (chance(60) ? 1 : pick(2, 30));
        uint64_t action = chance(desc) ? DESCEND : (uint64_t)weighted({0, 36, 58, 6});
        uint64_t nattr;
        switch (weighted({42, 20, 10, 17, 9, 2})) {
        case 0: nattr = 0; break;
        case 1: nattr = 1; break;
        case 2: nattr = 2; break;
        case 3: nattr = pick(3, 9); break;
        case 4: nattr = 10; break;
        default: nattr = 11; break;
        }
        uint64_t aseed = chance(25) ? 0 : pick(1, 9999);
        uint64_t tail = chance(60) ? 0 : pick(0, 10);
        return mkop(0, {name, up, action, nattr, aseed, tail}, gen_text());
    });
    size_t D = tree_depth(build_tree(c.ops));
    uint64_t maxd;
    switch (weighted({35, 30, 35})) {
    case 0: maxd = 0; break;
    case 1: maxd = pick(1, 24); break;
    default: { // at the tree's own depth: one short, exact, one over
        int64_t m = (int64_t)D + (int64_t)pick(0, 2) - 1;
        maxd = (uint64_t)std::min<int64_t>(24, std::max<int64_t>(1, m));
    }
    }
    c.cfg = {maxd, pick(0, 7), pick(0, 3), chance(18) ? pick(1, 40) : 0, pick(0, 2)};
    return c;
}

// ---- the model -----------------------------------------------------------------------------
struct Exp {
    int node;
    size_t depth;
    int parent; // event index of the parent element's event, -1 for the root
    int action;
    bool action_ok = false;  // the model says the action on this element succeeds (for descend: whole subtree done)
    size_t subtree_end = 0;  // index one past the last event of this element's subtree
};

struct Model {
    const std::vector<Node> &nodes;
    size_t max_depth;
    std::vector<Exp> exp;
    int terminal = T_OK;
    const char *why = "";

    bool visit(int id, size_t depth, int parent_ev) {
        const Node &n = nodes[(size_t)id];
        if (n.attrs.size() > ATTR_LIMIT) { // declaration rejected: the element is never reported
            terminal = T_INVALID;
            why = "more than 10 attributes";
            return false;
        }
        size_t k = exp.size();
        Exp e;
        e.node = id;
        e.depth = depth;
        e.parent = parent_ev;
        e.action = n.action;
        exp.push_back(e);
        bool ok = true;
        switch (n.action) {
        case ABORT:
            terminal = T_ABORT;
            why = "callback abort";
            ok = false;
            break;
        case SKIP:
        case BODY:
            if (n.name.size() > NAME_LIMIT) {
                terminal = T_INVALID;
                why = "name longer than 256 on the skip/body path";
                ok = false;
            }
            break;
        default:
            if (depth >= max_depth) {
                terminal = T_INVALID;
                why = "descend at the depth limit";
                ok = false;
                break;
            }
            for (int kid : n.kids)
                if (!visit(kid, depth + 1, (int)k)) {
                    ok = false;
                    break;
                }
        }
        exp[k].action_ok = ok;
        exp[k].subtree_end = exp.size();
        return ok;
    }
};

static void render(std::vector<Node> &nodes, int id, int omit_close_of, std::string &out, bool record) {
    Node &n = nodes[(size_t)id];
    out += '<';
    out += n.name;
    for (auto &a : n.attrs) {
        out += ' ';
        out += a.name;
        out += '=';
        if (a.quoted) out += '"';
        out += a.value;
        if (a.quoted) out += '"';
    }
    out += '>';
    size_t lo = out.size();
    out += n.text;
    for (int kid : n.kids) {
        render(nodes, kid, omit_close_of, out, record);
        out += nodes[(size_t)kid].tail;
    }
    if (record) n.body = out.substr(lo);
    if (id != omit_close_of) {
        out += "</";
        out += n.name;
        out += '>';
    }
}

// ---- the callback ----------------------------------------------------------------------------
struct Level {
    int parent_ev;
    size_t depth;
};

struct RunState {
    Ctx *ctx = nullptr;
    const std::vector<Node> *nodes = nullptr;
    const std::vector<Exp> *exp = nullptr;
    std::vector<Level> levels; // levels[k+1] = user data handed to the traversal of event k; levels[0] = root level
    size_t next = 0;           // number of callback invocations so far
    size_t constrained = 0;    // events [0, constrained) must equal the model's
    bool loose_after = false;  // events beyond that are unconstrained (malformed document, ambiguous structure)
    int victim = -1;           // event whose element lost its closing tag
    size_t extra = 0;
    const uint8_t *doc = nullptr;
    size_t doclen = 0;
    int abort_code = 0;
    bool body_of_victim_ok = false;
};
static RunState *R = nullptr;

static bool inside(const struct aws_byte_cursor &c) {
    return c.len == 0 || (c.ptr >= R->doc && c.len <= R->doclen && c.ptr + c.len <= R->doc + R->doclen);
}
static bool same(const struct aws_byte_cursor &c, const std::string &s) {
    return c.len == s.size() && (c.len == 0 || memcmp(c.ptr, s.data(), c.len) == 0);
}
static std::string show(const struct aws_byte_cursor &c) {
    std::string s((const char *)c.ptr, c.len > 60 ? 60 : c.len);
    if (c.len > 60) s += fmt("...(%zu)", c.len);
    return s;
}
static std::string show(const std::string &s) {
    return s.size() > 60 ? s.substr(0, 60) + fmt("...(%zu)", s.size()) : s;
}
// error names are only registered after aws_common_library_init(); the harness does not need the library initialised
static std::string ename(int err) {
    if (err == AWS_ERROR_INVALID_XML) return "AWS_ERROR_INVALID_XML";
    if (err == AWS_ERROR_SUCCESS) return "no error";
    return fmt("error code %d", err);
}
static int stop(const std::string &m) {
    R->ctx->note_fail(m);
    aws_raise_error(AWS_ERROR_UNKNOWN);
    return AWS_OP_ERR;
}

static int on_node(struct aws_xml_node *node, void *ud) {
    size_t k = R->next++;
    struct aws_byte_cursor nm = aws_xml_node_get_name(node);
    size_t na = aws_xml_node_get_num_attributes(node);
    if (!inside(nm)) return stop(fmt("event #%zu: name cursor outside the document", k));
    if (R->ctx->replay)
        printf("  event #%zu: name '%s' %zu attribute(s)\n", k, show(nm).c_str(), na);

    if (k >= R->constrained) {
        if (!R->loose_after)
            return stop(fmt("event #%zu ('%s') delivered although the parse should have ended after %zu event(s)", k,
                            show(nm).c_str(), R->constrained));
        for (size_t i = 0; i < na; i++) {
            struct aws_xml_attribute at = aws_xml_node_get_attribute(node, i);
            if (!inside(at.name) || !inside(at.value)) return stop(fmt("event #%zu: attribute cursor outside the document", k));
        }
        R->extra++;
        return AWS_OP_SUCCESS; // skip
    }

    const Exp &e = (*R->exp)[k];
    const Node &n = (*R->nodes)[(size_t)e.node];
    Level *lv = (Level *)ud;
    if (lv < R->levels.data() || lv >= R->levels.data() + R->levels.size())
        return stop(fmt("event #%zu ('%s'): user_data is not the one given for this level", k, show(nm).c_str()));
    if (!same(nm, n.name))
        return stop(fmt("event #%zu: reported name '%s', expected element '%s' (depth %zu)", k, show(nm).c_str(),
                        show(n.name).c_str(), e.depth));
    if (lv->depth != e.depth || lv->parent_ev != e.parent)
        return stop(fmt("event #%zu ('%s'): reported at depth %zu under event %d, expected depth %zu under event %d", k,
                        show(nm).c_str(), lv->depth, lv->parent_ev, e.depth, e.parent));
    if (na != n.attrs.size())
        return stop(fmt("event #%zu ('%s'): %zu attributes reported, element has %zu", k, show(nm).c_str(), na, n.attrs.size()));
    for (size_t i = 0; i < na; i++) {
        struct aws_xml_attribute at = aws_xml_node_get_attribute(node, i);
        if (!inside(at.name) || !inside(at.value)) return stop(fmt("event #%zu: attribute %zu cursor outside the document", k, i));
        if (!same(at.name, n.attrs[i].name) || !same(at.value, n.attrs[i].value))
            return stop(fmt("event #%zu ('%s'): attribute %zu reported as '%s'='%s', expected '%s'='%s'", k, show(nm).c_str(), i,
                            show(at.name).c_str(), show(at.value).c_str(), n.attrs[i].name.c_str(), n.attrs[i].value.c_str()));
    }

    bool is_victim = (int)k == R->victim;
    switch (e.action) {
    case ABORT: aws_raise_error(R->abort_code); return AWS_OP_ERR;
    case SKIP: return AWS_OP_SUCCESS;
    case BODY: {
        struct aws_byte_cursor body;
        AWS_ZERO_STRUCT(body);
        int rc = aws_xml_node_as_body(node, &body);
        if (R->ctx->replay) printf("    as_body -> %d '%s'\n", rc, rc == AWS_OP_SUCCESS ? show(body).c_str() : "");
        if (rc != AWS_OP_SUCCESS) return AWS_OP_ERR; // the final verdict compares with the model
        if (is_victim) { // closing tag missing: only acceptable when an enclosing element of the same name closes it
            R->body_of_victim_ok = true;
            return AWS_OP_SUCCESS;
        }
        if (!e.action_ok)
            return stop(fmt("event #%zu: body of an element whose name has %zu characters (limit 256) was returned", k, n.name.size()));
        if (!inside(body)) return stop(fmt("event #%zu ('%s'): body cursor outside the document", k, show(nm).c_str()));
        if (!same(body, n.body))
            return stop(fmt("event #%zu ('%s'): body reported as '%s' (%zu bytes), text between its tags is '%s' (%zu bytes)", k,
                            show(nm).c_str(), show(body).c_str(), body.len, show(n.body).c_str(), n.body.size()));
        return AWS_OP_SUCCESS;
    }
    default: {
        R->levels[k + 1] = Level{(int)k, e.depth + 1};
        int rc = aws_xml_node_traverse(node, on_node, &R->levels[k + 1]);
        if (R->ctx->replay) printf("    traverse of #%zu -> %d\n", k, rc);
        if (rc != AWS_OP_SUCCESS) return AWS_OP_ERR;
        // the element without closing tag (its following siblings read as further children) and its ancestors end
        // wherever the malformed rest of the document takes them
        bool ancestor_of_victim = R->victim >= 0 && (int)k <= R->victim && e.subtree_end > (size_t)R->victim;
        if (!ancestor_of_victim && !R->ctx->failed && R->next != e.subtree_end)
            return stop(fmt("traversal of event #%zu ('%s') returned success after %zu event(s) in total, its subtree ends at %zu", k,
                            show(nm).c_str(), R->next, e.subtree_end));
        return AWS_OP_SUCCESS;
    }
    }
}

// A parse that does not return is a violation too (no element is reported, no error is returned).  A case takes
// well under a millisecond; after 1 s of CPU time the process ends with a message and status 14, which the driver treats like
// a crash inside the case (it re-runs the seed with one forked child per case, where this ends only the child).
static void on_alarm(int) {
    static const char m[] = "C12: aws_xml_parse did not return within 1 s of CPU time on the journalled case (hang)\n";
    (void)!write(2, m, sizeof m - 1);
    _exit(14);
}
struct HangGuard {
    static void arm(long secs) { // user CPU time of this process, so that machine load cannot trigger it
        struct itimerval tv;
        memset(&tv, 0, sizeof tv);
        tv.it_value.tv_sec = secs;
        setitimer(ITIMER_VIRTUAL, &tv, nullptr);
    }
    HangGuard() {
        signal(SIGVTALRM, on_alarm);
        arm(1);
    }
    ~HangGuard() { arm(0); }
};

static void run(const Case &c, Ctx &ctx) {
    HangGuard hang_guard;
    galloc::reset();
    std::vector<Node> nodes = build_tree(c.ops);
    size_t opt_depth = (size_t)(c.c(0) % 25);
    size_t max_depth = opt_depth ? opt_depth : DEFAULT_MAX_DEPTH;

    Model m{nodes, max_depth};
    m.visit(0, 1, -1);

    // closing tag of one visited element removed (an element the model reaches and whose action succeeds)
    int victim = -1;
    if (c.c(3)) {
        std::vector<int> eligible;
        for (size_t k = 0; k < m.exp.size(); k++)
            if (m.exp[k].action_ok) eligible.push_back((int)k);
        if (!eligible.empty()) victim = eligible[(size_t)((c.c(3) - 1) % eligible.size())];
    }

    std::string pre, post;
    if (c.c(2) & 1) pre += (c.c(2) & 2) ? "\n  " : " ";
    switch (c.c(1) % 8) {
    case 1: pre += "<?xml version=\"1.0\" encoding=\"UTF-8\"?>"; break;
    case 2: pre += "<?xml version=\"1.0\" encoding=\"UTF-8\"?>\n"; break;
    case 3: pre += "<?xml version=\"1.0\"?>\n<!DOCTYPE a SYSTEM \"a.dtd\">\n"; break;
    case 4: pre += "<!DOCTYPE a>"; break;
    case 5: pre += "<?xml version=\"1.0\"?><!-- generated -->\n"; break;
    case 6: pre += "<?xml version=\"1.0\"?>\r\n<?pi a=b?>\r\n"; break;
    default: break;
    }
    if (c.c(2) & 2) post = (c.c(2) & 1) ? "\n" : "  \n\t";

    std::string well_formed = pre, doc = pre;
    render(nodes, 0, -1, well_formed, true); // records every element's exact body text
    well_formed += post;
    if (victim >= 0) {
        render(nodes, 0, m.exp[(size_t)victim].node, doc, false);
        doc += post;
    } else
        doc = well_formed;

    RunState rs;
    rs.ctx = &ctx;
    rs.nodes = &nodes;
    rs.exp = &m.exp;
    rs.levels.assign(m.exp.size() + 2, Level{-2, 0});
    rs.levels[0] = Level{-1, 1};
    rs.victim = victim;
    rs.constrained = m.exp.size();
    rs.abort_code = ABORT_CODES[c.c(4) % 3];
    bool same_named_ancestor = false;
    if (victim >= 0) {
        const Exp &v = m.exp[(size_t)victim];
        for (int p = nodes[(size_t)v.node].parent; p >= 0; p = nodes[(size_t)p].parent)
            if (nodes[(size_t)p].name == nodes[(size_t)v.node].name) same_named_ancestor = true;
        if (v.action == DESCEND) {
            rs.constrained = v.subtree_end;
            rs.loose_after = true;
        } else {
            rs.constrained = (size_t)victim + 1;
            rs.loose_after = same_named_ancestor;
        }
    }
    // the parser sees an exact-size heap copy, so that any read outside the document is an ASan report
    std::unique_ptr<uint8_t[]> buf(new uint8_t[doc.size()]);
    memcpy(buf.get(), doc.data(), doc.size());
    rs.doc = buf.get();
    rs.doclen = doc.size();

    if (ctx.replay) {
        printf("document (%zu bytes, max_depth option %zu):\n%s\n", doc.size(), opt_depth, doc.c_str());
        printf("model: %zu event(s), terminal %s%s%s; victim event %d\n", m.exp.size(),
               m.terminal == T_OK ? "success" : m.terminal == T_ABORT ? "abort" : "INVALID_XML", *m.why ? ": " : "", m.why, victim);
        for (size_t k = 0; k < m.exp.size(); k++)
            printf("  expect #%zu depth %zu parent %d '%s' action %d\n", k, m.exp[k].depth, m.exp[k].parent,
                   show(nodes[(size_t)m.exp[k].node].name).c_str(), m.exp[k].action);
    }

    struct aws_xml_parser_options opt;
    AWS_ZERO_STRUCT(opt);
    opt.doc = aws_byte_cursor_from_array(buf.get(), doc.size());
    opt.max_depth = opt_depth;
    opt.on_root_encountered = on_node;
    opt.user_data = &rs.levels[0];

    R = &rs;
    fflush(stdout);
    aws_reset_error();
    int rc = aws_xml_parse(galloc::full(), &opt);
    int err = aws_last_error();
    R = nullptr;
    if (ctx.replay) printf("aws_xml_parse -> %d (%s), %zu event(s)\n", rc, rc ? ename(err).c_str() : "-", rs.next);

    if (ctx.failed) return; // recorded inside a callback
    const char *gm = nullptr;
    PBT_CHECK(galloc::check_all(&gm), "%s", gm ? gm : "");

    // A name above the documented 256-character limit puts the document outside the limits.  Today it is rejected
    // only when such an element is skipped or read as body; rejecting it as soon as its start tag is read is equally
    // "rejected with an error instead of being mis-reported".  Every event delivered before was compared in the callback.
    size_t first_long = SIZE_MAX;
    for (size_t k = 0; k < m.exp.size() && first_long == SIZE_MAX; k++)
        if (nodes[(size_t)m.exp[k].node].name.size() > NAME_LIMIT) first_long = k;
    bool early_name_reject = first_long != SIZE_MAX && rc == AWS_OP_ERR && err == AWS_ERROR_INVALID_XML &&
                             (rs.next == first_long || rs.next == first_long + 1) && rs.next < m.exp.size();
    if (early_name_reject && (victim < 0 || first_long < rs.constrained)) {
        ctx.tag("over_long_name_rejected_at_its_start_tag");
    } else if (victim < 0) {
        PBT_CHECK(rs.next == m.exp.size(), "%zu event(s) delivered, the model expects %zu (%s)", rs.next, m.exp.size(),
                  m.terminal == T_OK ? "every element that is not inside a skipped/body-read subtree" : m.why);
        if (m.terminal == T_OK) {
            PBT_CHECK(rc == AWS_OP_SUCCESS, "well-formed document within the limits rejected: rc %d, %s", rc, ename(err).c_str());
        } else if (m.terminal == T_ABORT) {
            PBT_CHECK(rc == AWS_OP_ERR, "callback returned AWS_OP_ERR but the parse returned %d", rc);
            PBT_CHECK(err == rs.abort_code, "the error raised by the aborting callback (%s) was replaced by %s",
                      ename(rs.abort_code).c_str(), ename(err).c_str());
        } else {
            PBT_CHECK(rc == AWS_OP_ERR, "document over a limit (%s) was accepted: rc %d", m.why, rc);
            PBT_CHECK(err == AWS_ERROR_INVALID_XML, "document over a limit (%s): error %s instead of AWS_ERROR_INVALID_XML", m.why,
                      ename(err).c_str());
        }
    } else if (rc == AWS_OP_ERR && err == AWS_ERROR_INVALID_XML && rs.next <= (size_t)victim && m.exp[rs.next].subtree_end > (size_t)victim) {
        // rejected before reporting the element without closing tag, or an ancestor of it (whose subtree is the malformed
        // part): a parser that verifies an element's end tag before it hands the element to the callback does this, and
        // it is "rejected with an error instead of being mis-reported".  The events before were compared in the callback.
        ctx.tag("missing_close_tag_rejected_before_the_element_is_reported");
    } else {
        PBT_CHECK(rs.next >= rs.constrained, "closing tag removed: only %zu of the %zu event(s) before it were delivered", rs.next,
                  rs.constrained);
        PBT_CHECK(rc == AWS_OP_ERR, "document without the closing tag of visited element #%d was accepted: rc %d", victim, rc);
        PBT_CHECK(err == AWS_ERROR_INVALID_XML, "missing closing tag: error %s instead of AWS_ERROR_INVALID_XML", ename(err).c_str());
        if (!same_named_ancestor)
            PBT_CHECK(!rs.body_of_victim_ok, "body of element #%d returned although its closing tag is missing", victim);
    }

    // ---- classes and the non-trivial rule ----
    bool nt_core = false, any_attr = false;
    for (auto &e : m.exp) {
        const Node &n = nodes[(size_t)e.node];
        if (!n.attrs.empty()) any_attr = true;
        if (e.action == BODY && e.action_ok && !n.kids.empty()) ctx.tag("body_of_non_leaf");
        if ((e.action == SKIP || e.action == BODY) && e.action_ok) {
            // any descendant whose name equals or extends this element's name
            std::vector<int> todo(n.kids.begin(), n.kids.end());
            bool eq = false, ext = false;
            while (!todo.empty()) {
                const Node &d = nodes[(size_t)todo.back()];
                todo.pop_back();
                if (d.name == n.name) eq = true;
                else if (d.name.compare(0, n.name.size(), n.name) == 0) ext = true;
                todo.insert(todo.end(), d.kids.begin(), d.kids.end());
            }
            if (eq) ctx.tag("skip_or_body_over_same_name");
            if (ext) ctx.tag("skip_or_body_over_extended_name");
            if (eq || ext) nt_core = true;
            if (n.name.size() == 256) ctx.tag("name_256_skip_or_body");
            if (e.depth > 1 && e.subtree_end < m.exp.size()) ctx.tag("sibling_after_skipped");
        }
    }
    size_t D = tree_depth(nodes);
    if (nt_core && D >= 3 && any_attr) ctx.nontrivial = true;
    if (victim >= 0) {
        ctx.tag(m.exp[(size_t)victim].action == DESCEND ? "missing_close_descend" : "missing_close_skip_or_body");
        if (same_named_ancestor) ctx.tag("missing_close_same_named_ancestor");
    } else {
        if (m.terminal == T_OK) ctx.tag(m.exp.size() == nodes.size() ? "ok_all_elements_reported" : "ok_with_skipped_subtrees");
        if (m.terminal == T_ABORT) ctx.tag("abort");
        if (m.terminal == T_INVALID) {
            if (m.why[0] == 'm') ctx.tag("over_attribute_limit");
            if (m.why[0] == 'n') ctx.tag("over_name_limit");
            if (m.why[0] == 'd') {
                ctx.tag("over_depth_limit");
                if (nodes[(size_t)m.exp.back().node].kids.empty()) ctx.tag("descend_into_leaf_at_depth_limit");
            }
        }
    }
    size_t reported_depth = 0;
    for (auto &e : m.exp) {
        reported_depth = std::max(reported_depth, e.depth);
        if (nodes[(size_t)e.node].attrs.size() == 10) ctx.tag("ten_attributes_reported");
        if (nodes[(size_t)e.node].name.size() == 257 && e.action == DESCEND && e.action_ok) ctx.tag("name_257_traversed");
    }
    if (reported_depth == max_depth) ctx.tag("reported_at_max_depth");
    if (reported_depth >= 20) ctx.tag("reported_depth_ge_20");
    if (opt_depth == 0) ctx.tag("max_depth_default");
    if (c.c(1) % 8 != 0 && c.c(1) % 8 != 7) ctx.tag("preamble");
}

int main(int argc, char **argv) {
    Spec sp{"C12", "c12_xml", gen_case, run,
            "generated element trees (<=48 elements, depth <=26, 13 names that repeat / nest in themselves / are prefixes of each "
            "other, 0-11 attributes, text, preamble, max_depth option 0..24) with a per-element callback action; non-trivial = "
            ">=1 skipped or body-read element with a descendant whose name equals or extends its own, tree depth >=3, >=1 "
            "attribute on a reported element; distinct by hash of the serialised case"};
    return pbt_main(argc, argv, sp);
}

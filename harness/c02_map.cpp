// C02 — hash table behaves as a map under any operation history.
// Model: two tables (for swap/move), each compared with a reference std::map<id,(key*,value*)> after every
// command through the public API; per-object destructor counters; generated hash plans that are always
// consistent with equality (the hash is a fixed function of the key's id for the whole case).
// See DESIGN.md section 5 / C02.
//
// Caller obligations respected here (never handed to the library):
//  * no operation on a table that is not initialised, except swap / clean_up (documented as allowed);
//  * aws_hash_table_move only into a table that is uninitialised or cleaned up;
//  * remove_element only with an element just returned by find, and not from inside foreach;
//  * the table is never mutated from a foreach callback other than through the return code;
//  * a value object is never re-used between puts;
//  * the hash of a key never changes while it is stored (fixed per id for the whole case).
// The private header is read for CLASSIFICATION ONLY (is a case non-trivial, which layout class did it reach)
// and for computing "current slot-array end" hashes; no verdict depends on it.
#include "pbt.hpp"
#include "galloc.hpp"

#include <aws/common/error.h>
#include <aws/common/hash_table.h>
#include <aws/common/math.h>
extern "C" {
#include <aws/common/private/hash_table_impl.h>
}

#include <memory>

using namespace pbt;

// ---- key / value objects ----------------------------------------------------
static const uint32_t KMAGIC = 0x4b455921, VMAGIC = 0x56414c21;
struct KeyObj {
    uint32_t magic = KMAGIC;
    uint32_t id = 0;
    uint64_t hash = 0;
    int destroyed = 0, expected = 0;
};
struct ValObj {
    uint32_t magic = VMAGIC;
    uint32_t serial = 0;
    int destroyed = 0, expected = 0;
};
static const uint32_t NULLID = 1000; // the NULL key pointer, treated as one more key
static const uint32_t NIDS = 48;

static Ctx *g_ctx = nullptr;
static std::set<const void *> *g_keys = nullptr, *g_vals = nullptr;
static uint64_t g_null_destroys = 0;

static uint64_t h_fn(const void *k) { return ((const KeyObj *)k)->hash; }
static bool eq_fn(const void *a, const void *b) { return ((const KeyObj *)a)->id == ((const KeyObj *)b)->id; }
static void destroy_key(void *p) {
    if (!p) {
        g_null_destroys++;
        return;
    }
    if (!g_keys->count(p)) {
        g_ctx->note_fail("key destructor called with a pointer that was never given to the table as a key");
        return;
    }
    ((KeyObj *)p)->destroyed++;
}
static void destroy_val(void *p) {
    if (!p) {
        g_null_destroys++;
        return;
    }
    if (!g_vals->count(p)) {
        g_ctx->note_fail("value destructor called with a pointer that was never given to the table as a value");
        return;
    }
    ((ValObj *)p)->destroyed++;
}

// ---- hash plans ---------------------------------------------------------------
enum { P_REAL, P_CONST, P_MOD3, P_END_CUR, P_ZERO, P_IDENT, P_END_ALL, P_HIGH, P_TABLE, NPLANS };
static const char *PLAN_NAME[] = {"real", "const", "mod3", "end_cur", "zero", "ident", "end_all", "high", "table"};
static const size_t INIT_SIZES[] = {0, 1, 2, 3, 4, 5, 7, 8, 9, 16, 17, 31, 32, 33, 64, 70};
static const uint32_t UNIVERSE[] = {3, 6, 12, 24, 48};

enum {
    PUT,
    CREATE,
    FIND_SET,
    REMOVE,
    REMOVE_ELEM,
    CLEAR,
    SWAP,
    MOVE,
    REINIT,
    ITERATE,
    FOREACH,
    FILL,
    HUGE_INIT,
    NKINDS
};

// foreach decisions
enum { F_CONT = 0, F_DEL = 1, F_STOP = 2, F_DEL_STOP = 3, F_ERR = 4, F_ERR_DEL = 5 };
// iterate decisions
enum { I_KEEP = 0, I_DEL_DESTROY = 1, I_DEL_KEEP = 2 };

static std::string gen_iter_decisions() {
    std::string s;
    size_t n = pick(1, 10);
    // some walks delete everything / nearly everything (long back-shift chains), others are mixed
    // the i-th visited element takes decision b[min(i, len-1)] (the last one repeats)
    unsigned style = weighted({25, 35, 15, 25});
    if (style == 3) { // keep a prefix (entries at the low slots stay), then delete everything after it
        size_t k = pick(1, 6);
        s.assign(k, (char)I_KEEP);
        s.push_back((char)(1 + weighted({50, 50})));
        if (chance(30)) s.push_back((char)weighted({40, 30, 30}));
        return s;
    }
    for (size_t i = 0; i < n; i++) {
        size_t d;
        if (style == 0) d = 1 + weighted({50, 50});
        else if (style == 1) d = weighted({40, 30, 30});
        else d = weighted({75, 13, 12});
        s.push_back((char)d);
    }
    return s;
}
static std::string gen_foreach_decisions() {
    std::string s;
    size_t n = pick(1, 10);
    unsigned style = weighted({25, 40, 10, 25});
    if (style == 3) { // continue over a prefix, then delete everything after it
        size_t k = pick(1, 6);
        s.assign(k, (char)F_CONT);
        s.push_back((char)F_DEL);
        return s;
    }
    for (size_t i = 0; i < n; i++) {
        size_t d;
        if (style == 0) d = weighted({8, 92});
        else if (style == 1) d = weighted({42, 50, 2, 2, 2, 2});
        else d = weighted({80, 12, 2, 2, 2, 2});
        s.push_back((char)d);
    }
    return s;
}

static Case gen_case() {
    Case c;
    // cfg: plan, universe, size A, size B, dtors A, dtors B, table 1 starts uninitialised, 8 generated hash values
    c.cfg = {pick(0, NPLANS - 1), pick(0, 4), pick(0, 15), pick(0, 15), pick(0, 3), pick(0, 3), (uint64_t)chance(15)};
    for (int i = 0; i < 8; i++) {
        switch (weighted({30, 30, 15, 15, 10})) {
        case 0: c.cfg.push_back(pick(0, 7)); break;
        case 1: c.cfg.push_back((1ull << pick(1, 8)) - 1 - pick(0, 2)); break; // last slots of some size 2..256
        case 2: c.cfg.push_back(UINT64_MAX - pick(0, 2)); break;
        case 3: c.cfg.push_back((pick(0, 3) << 32) | pick(0, 3)); break; // same slot, different code
        default: c.cfg.push_back(any_u64()); break;
        }
    }
    c.ops = op_list(60, [] {
        uint64_t t = chance(25) ? 1 : 0;
        switch (weighted({24, 8, 3, 12, 6, 2, 3, 2, 2, 13, 10, 13, 1})) {
        case 0: return mkop(PUT, {t, pick(0, NIDS - 1), pick(0, 3), pick(0, 19)});
        case 1: return mkop(CREATE, {t, pick(0, NIDS - 1), pick(0, 7), pick(0, 19)});
        case 2: return mkop(FIND_SET, {t, pick(0, NIDS - 1)});
        case 3: return mkop(REMOVE, {t, pick(0, NIDS - 1), pick(0, 3), pick(0, 19)});
        case 4: return mkop(REMOVE_ELEM, {t, pick(0, NIDS - 1)});
        case 5: return mkop(CLEAR, {t});
        case 6: return mkop(SWAP);
        case 7: return mkop(MOVE, {t, pick(0, 1)});
        case 8: return mkop(REINIT, {t, pick(0, 15), pick(0, 3), pick(0, 9)});
        case 9: return mkop(ITERATE, {t}, gen_iter_decisions());
        case 10: return mkop(FOREACH, {t}, gen_foreach_decisions());
        case 11: return mkop(FILL, {t, pick(0, NIDS - 1), pick(2, 14)});
        default: return mkop(HUGE_INIT, {pick(0, 6)});
        }
    });
    return c;
}

// ---- classification helpers (private header; never used for the verdict) ------
struct RemInfo {
    size_t run;
    bool wrap;
    size_t shifted;
};
static RemInfo classify_removal(const struct hash_table_state *s, size_t idx) {
    size_t n = s->size, mask = s->mask;
    RemInfo r{1, false, 0};
    size_t i = idx;
    while (r.run < n && s->slots[(i + 1) & mask].hash_code) {
        i = (i + 1) & mask;
        r.run++;
    }
    i = idx;
    while (r.run < n && s->slots[(i - 1) & mask].hash_code) {
        i = (i - 1) & mask;
        r.run++;
    }
    i = idx;
    for (size_t guard = 0; guard < n; guard++) {
        size_t nx = (i + 1) & mask;
        if (!s->slots[nx].hash_code) break;
        if ((s->slots[nx].hash_code & mask) == nx) break;
        if (nx == 0) r.wrap = true;
        r.shifted++;
        i = nx;
    }
    return r;
}
static long slot_of(const struct hash_table_state *s, const void *key) {
    for (size_t i = 0; i < s->size; i++)
        if (s->slots[i].hash_code && s->slots[i].element.key == key) return (long)i;
    return -1;
}
static bool has_collision(const struct hash_table_state *s) {
    std::set<size_t> homes;
    for (size_t i = 0; i < s->size; i++)
        if (s->slots[i].hash_code && !homes.insert((size_t)(s->slots[i].hash_code & s->mask)).second) return true;
    return false;
}

struct Ent {
    KeyObj *k;
    ValObj *v;
};
struct Tab {
    struct aws_hash_table t;
    bool init = false, dk = false, dv = false;
    std::map<uint32_t, Ent> m;
};

struct ForeachCtx {
    Ctx *ctx;
    Tab *T;
    const std::string *dec;
    std::map<uint32_t, Ent> start;
    std::set<uint32_t> visited;
    std::vector<uint32_t> deleted;
    size_t calls = 0;
    bool stopped = false, errored = false;
    bool may_stop = false; // DELETE without CONTINUE: the header describes both "continues iteration" and "if not set, iteration stops"
    bool nt_run4 = false, nt_wrap = false;
    std::set<std::string> tags;
};

static uint32_t id_of_key(const void *k, bool *ok) {
    *ok = true;
    if (!k) return NULLID;
    if (!g_keys->count(k)) {
        *ok = false;
        return 0;
    }
    return ((const KeyObj *)k)->id;
}

static int foreach_cb(void *vctx, struct aws_hash_element *e) {
    ForeachCtx &f = *(ForeachCtx *)vctx;
    Ctx &ctx = *f.ctx;
    f.calls++;
    if (f.stopped || f.errored) {
        ctx.note_fail("foreach: callback invoked again after it asked to stop");
        return 0;
    }
    if (f.calls > f.start.size() + 4) {
        ctx.note_fail("foreach: more callbacks than entries stored");
        return 0;
    }
    bool ok;
    uint32_t id = id_of_key(e->key, &ok);
    if (!ok) {
        ctx.note_fail("foreach: element key is not a key given to the table");
        return 0;
    }
    auto it = f.start.find(id);
    PBT_NOTE(ctx, it != f.start.end(), "foreach: visited id %u which was not stored at the start", id);
    if (it == f.start.end()) return 0;
    PBT_NOTE(ctx, f.visited.insert(id).second, "foreach: id %u visited twice", id);
    PBT_NOTE(ctx, e->key == it->second.k && e->value == it->second.v, "foreach: id %u has wrong key/value pointers", id);
    int d = f.dec->empty() ? F_CONT : (unsigned char)(*f.dec)[std::min(f.calls - 1, f.dec->size() - 1)] % 6;
    bool deletes = d == F_DEL || d == F_DEL_STOP;
    if (deletes) {
        // classification only
        const struct hash_table_state *s = f.T->t.p_impl;
        long sl = slot_of(s, e->key);
        if (sl >= 0) {
            RemInfo r = classify_removal(s, (size_t)sl);
            if (r.run >= 4) f.nt_run4 = true;
            if (r.wrap) f.nt_wrap = true;
            if (sl == 0) f.tags.insert("foreach_delete_slot0");
        }
        f.deleted.push_back(id);
    }
    switch (d) {
    case F_CONT: return AWS_COMMON_HASH_TABLE_ITER_CONTINUE;
    case F_DEL: return AWS_COMMON_HASH_TABLE_ITER_CONTINUE | AWS_COMMON_HASH_TABLE_ITER_DELETE;
    case F_STOP: f.stopped = true; return 0;
    case F_DEL_STOP: f.may_stop = true; return AWS_COMMON_HASH_TABLE_ITER_DELETE; // must delete; whether the walk goes on is left open
    case F_ERR: f.errored = true; return AWS_COMMON_HASH_TABLE_ITER_ERROR;
    default:
        f.errored = true; // "No action will be taken for the current value"
        return AWS_COMMON_HASH_TABLE_ITER_ERROR | AWS_COMMON_HASH_TABLE_ITER_DELETE | AWS_COMMON_HASH_TABLE_ITER_CONTINUE;
    }
}

static void run(const Case &c, Ctx &ctx) {
    galloc::reset();
    g_ctx = &ctx;
    g_null_destroys = 0;
    std::set<const void *> keyset, valset;
    g_keys = &keyset;
    g_vals = &valset;
    std::vector<std::unique_ptr<KeyObj>> keys;
    std::vector<std::unique_ptr<ValObj>> vals;

    const int plan = (int)(c.c(0) % NPLANS);
    const uint32_t U = UNIVERSE[c.c(1) % 5];
    uint64_t tbl[8];
    for (int i = 0; i < 8; i++) tbl[i] = c.c(7 + i, i);
    ctx.tag(std::string("plan_") + PLAN_NAME[plan]);

    Tab tabs[2];
    AWS_ZERO_STRUCT(tabs[0].t);
    AWS_ZERO_STRUCT(tabs[1].t);

    std::map<uint32_t, uint64_t> id_hash; // fixed at first use of an id, for the whole case
    uint32_t next_serial = 1;
    bool nt = false;
    bool any_resize = false;

    auto cur_size = [&](int t) -> size_t {
        if (tabs[t].init) return tabs[t].t.p_impl->size;
        if (tabs[1 - t].init) return tabs[1 - t].t.p_impl->size;
        return 8;
    };
    auto hash_of = [&](uint32_t id, int t) -> uint64_t {
        auto it = id_hash.find(id);
        if (it != id_hash.end()) return it->second;
        uint64_t h = 0;
        switch (plan) {
        case P_REAL: h = aws_hash_combine(id, 0x1234); break;
        case P_CONST: h = 7; break;
        case P_MOD3: h = id % 3; break;
        case P_END_CUR:
            // lands on the last slots of the slot array as it is now; ids with id%4>=2 differ in the code
            h = (uint64_t)cur_size(t) - 1 - (id % 2);
            if (id % 4 >= 2) h += (uint64_t)(id / 4 + 1) << 32;
            break;
        case P_ZERO: h = 0; break;
        case P_IDENT: h = id; break;
        case P_END_ALL: h = UINT64_MAX - (id % 3); break; // last slots whatever the size
        case P_HIGH: h = ((uint64_t)id << 10) | (id % 2); break;
        default: h = tbl[id % 8]; break;
        }
        id_hash[id] = h;
        return h;
    };
    auto new_key = [&](uint32_t id, int t) -> KeyObj * {
        keys.emplace_back(new KeyObj());
        KeyObj *k = keys.back().get();
        k->id = id;
        k->hash = hash_of(id, t);
        keyset.insert(k);
        return k;
    };
    auto new_val = [&]() -> ValObj * {
        vals.emplace_back(new ValObj());
        ValObj *v = vals.back().get();
        v->serial = next_serial++;
        valset.insert(v);
        return v;
    };
    auto expect_destroy = [&](Tab &T, const Ent &e) {
        if (T.dk && e.k) e.k->expected++;
        if (T.dv && e.v) e.v->expected++;
    };
    auto do_init = [&](Tab &T, size_t size, unsigned dt) {
        T.dk = dt & 1;
        T.dv = dt & 2;
        int rc = aws_hash_table_init(&T.t, galloc::full(), size, h_fn, eq_fn, T.dk ? destroy_key : nullptr,
                                     T.dv ? destroy_val : nullptr);
        PBT_CHECK(rc == AWS_OP_SUCCESS, "init(size=%zu) failed: %s", size, aws_error_name(aws_last_error()));
        T.init = true;
        T.m.clear();
    };
    auto do_cleanup = [&](Tab &T) {
        if (T.init)
            for (auto &kv : T.m) expect_destroy(T, kv.second);
        aws_hash_table_clean_up(&T.t); // idempotent: also legal on a cleaned-up / zeroed table
        T.init = false;
        T.m.clear();
    };
    // the key pointer a lookup uses: never the stored pointer (equal by comparison, distinct as pointer)
    auto probe_key = [&](uint32_t id, int t) -> const void * {
        if (id == NULLID) return nullptr;
        return new_key(id, t);
    };

    auto check_counters = [&](const char *after) {
        for (auto &k : keys)
            PBT_CHECK(k->destroyed == k->expected, "after %s: key object id %u destroyed %d times, expected %d", after, k->id,
                      k->destroyed, k->expected);
        for (auto &v : vals)
            PBT_CHECK(v->destroyed == v->expected, "after %s: value object #%u destroyed %d times, expected %d", after,
                      v->serial, v->destroyed, v->expected);
    };
    auto check_state = [&](const char *after) {
        if (ctx.failed) throw Failure{ctx.msg};
        for (int t = 0; t < 2; t++) {
            Tab &T = tabs[t];
            if (!T.init) continue;
            PBT_CHECK(aws_hash_table_is_valid(&T.t), "after %s: table %d not valid", after, t);
            PBT_CHECK(aws_hash_table_get_entry_count(&T.t) == T.m.size(), "after %s: table %d reports %zu entries, reference has %zu",
                      after, t, aws_hash_table_get_entry_count(&T.t), T.m.size());
            // find every id that ever got a hash (plus the NULL key) through a pointer-distinct key
            std::vector<uint32_t> ids;
            for (auto &kv : id_hash) ids.push_back(kv.first);
            ids.push_back(NULLID);
            for (uint32_t id : ids) {
                KeyObj probe;
                probe.id = id;
                const void *pk = nullptr;
                if (id != NULLID) {
                    probe.hash = id_hash[id];
                    pk = &probe;
                }
                struct aws_hash_element *e = (struct aws_hash_element *)0x1;
                PBT_CHECK(aws_hash_table_find(&T.t, pk, &e) == AWS_OP_SUCCESS, "find returned an error");
                auto it = T.m.find(id);
                if (it == T.m.end()) {
                    PBT_CHECK(e == nullptr, "after %s: table %d finds id %u which the reference does not hold", after, t, id);
                } else {
                    PBT_CHECK(e != nullptr, "after %s: table %d does not find stored id %u (hash %" PRIu64 ")", after, t, id,
                              id == NULLID ? 42 : id_hash[id]);
                    PBT_CHECK(e->key == it->second.k, "after %s: table %d id %u: stored key pointer differs from the reference", after, t, id);
                    PBT_CHECK(e->value == it->second.v, "after %s: table %d id %u: stored value pointer differs from the reference", after, t,
                              id);
                }
            }
            // a full plain iteration visits exactly the reference's entries, each once
            std::set<uint32_t> seen;
            size_t steps = 0;
            for (struct aws_hash_iter it = aws_hash_iter_begin(&T.t); !aws_hash_iter_done(&it); aws_hash_iter_next(&it)) {
                PBT_CHECK(++steps <= T.m.size(), "after %s: plain iteration of table %d yields more than %zu entries", after, t, T.m.size());
                bool ok;
                uint32_t id = id_of_key(it.element.key, &ok);
                PBT_CHECK(ok, "after %s: iteration yields a key pointer never given to the table", after);
                auto mi = T.m.find(id);
                PBT_CHECK(mi != T.m.end(), "after %s: iteration of table %d yields id %u which is not stored", after, t, id);
                PBT_CHECK(seen.insert(id).second, "after %s: iteration of table %d yields id %u twice", after, t, id);
                PBT_CHECK(it.element.key == mi->second.k && it.element.value == mi->second.v,
                          "after %s: iteration of table %d id %u has wrong key/value pointers", after, t, id);
            }
            PBT_CHECK(seen.size() == T.m.size(), "after %s: plain iteration of table %d visited %zu of %zu entries", after, t, seen.size(),
                      T.m.size());
        }
        check_counters(after);
        const char *m = nullptr;
        PBT_CHECK(galloc::check_all(&m), "%s", m ? m : "");
    };
    // put through the API, with model update; returns nothing, throws on mismatch
    auto do_put = [&](int t, uint32_t id, bool same_ptr, bool null_wc, const char *what, bool same_val = false) {
        Tab &T = tabs[t];
        auto it = T.m.find(id);
        bool present = it != T.m.end();
        const void *key;
        KeyObj *ko = nullptr;
        if (id == NULLID) key = nullptr;
        else if (present && same_ptr) key = ko = it->second.k;
        else key = ko = new_key(id, t);
        // re-putting the value object that is already stored: the entry is overwritten like any other ("destructors run
        // exactly once for every entry that is overwritten"), so that object sees one destructor call now and one more
        // when the new entry goes
        ValObj *v = present && same_val && it->second.v ? it->second.v : new_val();
        if (present && v == it->second.v) ctx.tag("same_value_pointer_reput");
        size_t size_before = T.t.p_impl->size;
        if (present) {
            if (it->second.k != ko && T.dk && it->second.k) it->second.k->expected++;
            if (T.dv && it->second.v) it->second.v->expected++;
            if (it->second.k == ko && id != NULLID) ctx.tag("same_pointer_reput");
            else ctx.tag("overwrite_other_pointer");
        }
        int wc = -1;
        int rc = aws_hash_table_put(&T.t, key, v, null_wc ? nullptr : &wc);
        PBT_CHECK(rc == AWS_OP_SUCCESS, "%s failed: %s", what, aws_error_name(aws_last_error()));
        if (!null_wc) PBT_CHECK(wc == (present ? 0 : 1), "%s of id %u: was_created=%d but the key was %s", what, id, wc, present ? "present" : "absent");
        T.m[id] = Ent{ko, v};
        if (T.t.p_impl->size != size_before) {
            any_resize = true;
            ctx.tag("resize");
            if (has_collision(T.t.p_impl)) {
                nt = true;
                ctx.tag("resize_with_colliding_keys");
            }
        }
    };
    // classification of a removal that is about to happen
    auto classify = [&](Tab &T, const void *key, const char *tagp) {
        long sl = slot_of(T.t.p_impl, key);
        if (sl < 0) return;
        RemInfo r = classify_removal(T.t.p_impl, (size_t)sl);
        if (r.wrap) {
            nt = true;
            ctx.tag(std::string(tagp) + "_shift_wraps");
        }
        if (r.shifted >= 3) ctx.tag(std::string(tagp) + "_shift_ge3");
    };

    do_init(tabs[0], INIT_SIZES[c.c(2) % 16], (unsigned)c.c(4) % 4);
    if (c.c(6) % 2 == 0) do_init(tabs[1], INIT_SIZES[c.c(3) % 16], (unsigned)c.c(5) % 4);
    check_state("init");

    for (auto &op : c.ops) {
        int t = (int)(op.arg(0) % 2);
        Tab &T = tabs[t];
        uint32_t id = (uint32_t)(op.arg(1) % U);
        int kind = op.kind % NKINDS;
        const char *name = "?";
        switch (kind) {
        case PUT: {
            name = "put";
            if (!T.init) break;
            if (op.arg(3) == 0) id = NULLID, ctx.tag("null_key");
            do_put(t, id, op.arg(2) % 4 == 0, op.arg(2) % 4 == 3, "put", op.arg(2) % 4 == 2 && op.arg(3) % 2 == 1);
            break;
        }
        case FILL: {
            name = "fill";
            if (!T.init) break;
            size_t n = (size_t)(op.arg(2) % 15);
            for (size_t k = 0; k < n; k++) do_put(t, (uint32_t)((op.arg(1) + k) % U), false, false, "put(fill)");
            break;
        }
        case CREATE: {
            name = "create";
            if (!T.init) break;
            if (op.arg(3) == 0) id = NULLID, ctx.tag("null_key");
            auto it = T.m.find(id);
            bool present = it != T.m.end();
            KeyObj *ko = id == NULLID ? nullptr : new_key(id, t);
            bool no_elem = op.arg(2) % 8 == 7, no_wc = op.arg(2) % 8 == 6;
            struct aws_hash_element *e = nullptr;
            int wc = -1;
            size_t size_before = T.t.p_impl->size;
            int rc = aws_hash_table_create(&T.t, ko, no_elem ? nullptr : &e, no_wc ? nullptr : &wc);
            PBT_CHECK(rc == AWS_OP_SUCCESS, "create failed: %s", aws_error_name(aws_last_error()));
            if (!no_wc) PBT_CHECK(wc == (present ? 0 : 1), "create of id %u: was_created=%d but the key was %s", id, wc, present ? "present" : "absent");
            if (present) {
                if (!no_elem) {
                    PBT_CHECK(e && e->key == it->second.k && e->value == it->second.v, "create of a present id %u did not return the stored element", id);
                    if (op.arg(2) % 2 == 0) { // overwrite the value through the element; the old value is the caller's now
                        ValObj *v = new_val();
                        e->value = v;
                        it->second.v = v;
                    }
                }
            } else {
                ValObj *v = nullptr;
                if (!no_elem) {
                    PBT_CHECK(e && e->key == ko, "create of a new id %u returned an element with a different key", id);
                    PBT_CHECK(e->value == nullptr, "create of a new id %u: value not initialised to NULL", id);
                    v = new_val();
                    e->value = v;
                }
                T.m[id] = Ent{ko, v};
            }
            if (T.t.p_impl->size != size_before) {
                any_resize = true;
                ctx.tag("resize");
                if (has_collision(T.t.p_impl)) nt = true, ctx.tag("resize_with_colliding_keys");
            }
            break;
        }
        case FIND_SET: {
            name = "find+set";
            if (!T.init) break;
            struct aws_hash_element *e = nullptr;
            PBT_CHECK(aws_hash_table_find(&T.t, probe_key(id, t), &e) == AWS_OP_SUCCESS);
            auto it = T.m.find(id);
            PBT_CHECK((e != nullptr) == (it != T.m.end()), "find of id %u: %s but the reference %s it", id, e ? "found" : "not found",
                      it != T.m.end() ? "holds" : "does not hold");
            if (e) { // "calling code may update the value by modifying **pElem"
                ValObj *v = new_val();
                e->value = v;
                it->second.v = v;
            }
            break;
        }
        case REMOVE: {
            name = "remove";
            if (!T.init) break;
            if (op.arg(3) == 0) id = NULLID;
            auto it = T.m.find(id);
            bool present = it != T.m.end();
            bool with_out = op.arg(2) % 2 == 1, no_wp = op.arg(2) % 4 >= 2;
            const void *key;
            if (present && op.arg(3) % 3 == 1) key = it->second.k; // sometimes through the stored pointer itself
            else key = probe_key(id, t);
            if (present) {
                classify(T, it->second.k, "remove");
                if (!with_out) expect_destroy(T, it->second);
            }
            struct aws_hash_element out;
            out.key = (const void *)0x11;
            out.value = (void *)0x22;
            int wp = -1;
            int rc = aws_hash_table_remove(&T.t, key, with_out ? &out : nullptr, no_wp ? nullptr : &wp);
            PBT_CHECK(rc == AWS_OP_SUCCESS, "remove returned an error");
            if (!no_wp) PBT_CHECK(wp == (present ? 1 : 0), "remove of id %u: was_present=%d but the key was %s", id, wp, present ? "present" : "absent");
            if (present) {
                if (with_out)
                    PBT_CHECK(out.key == it->second.k && out.value == it->second.v, "remove of id %u handed out different key/value pointers than stored", id);
                T.m.erase(it);
                ctx.tag(with_out ? "remove_with_out" : "remove_destroying");
            }
            break;
        }
        case REMOVE_ELEM: {
            name = "remove_element";
            if (!T.init) break;
            struct aws_hash_element *e = nullptr;
            PBT_CHECK(aws_hash_table_find(&T.t, probe_key(id, t), &e) == AWS_OP_SUCCESS);
            auto it = T.m.find(id);
            PBT_CHECK((e != nullptr) == (it != T.m.end()), "find of id %u disagrees with the reference", id);
            if (!e) break;
            classify(T, it->second.k, "remove_element");
            PBT_CHECK(aws_hash_table_remove_element(&T.t, e) == AWS_OP_SUCCESS);
            T.m.erase(it); // no destructor runs
            ctx.tag("remove_element");
            break;
        }
        case CLEAR: {
            name = "clear";
            if (!T.init) break;
            for (auto &kv : T.m) expect_destroy(T, kv.second);
            if (!T.m.empty()) ctx.tag("clear_nonempty");
            aws_hash_table_clear(&T.t);
            T.m.clear();
            break;
        }
        case SWAP: {
            name = "swap";
            aws_hash_table_swap(&tabs[0].t, &tabs[1].t);
            std::swap(tabs[0].init, tabs[1].init);
            std::swap(tabs[0].dk, tabs[1].dk);
            std::swap(tabs[0].dv, tabs[1].dv);
            std::swap(tabs[0].m, tabs[1].m);
            ctx.tag(tabs[0].init && tabs[1].init ? "swap" : "swap_with_uninitialised");
            break;
        }
        case MOVE: {
            name = "move";
            Tab &from = tabs[t], &to = tabs[1 - t];
            if (!from.init) break;
            if (to.init) do_cleanup(to); // "make sure that 'to' is either uninitialized or cleaned up"
            aws_hash_table_move(&to.t, &from.t);
            to.init = true;
            to.dk = from.dk;
            to.dv = from.dv;
            to.m.swap(from.m);
            from.m.clear();
            from.init = false;
            if (op.arg(1) % 2) aws_hash_table_clean_up(&from.t); // "safe to ... call aws_hash_table_clean_up again"
            ctx.tag("move");
            break;
        }
        case REINIT: {
            name = "clean_up+init";
            if (T.init && !T.m.empty()) ctx.tag("clean_up_nonempty");
            do_cleanup(T);
            if (op.arg(3) % 4 == 1) aws_hash_table_clean_up(&T.t); // idempotent
            if (op.arg(3) == 0) break;                            // leave it cleaned up
            check_counters("clean_up");
            do_init(T, INIT_SIZES[op.arg(1) % 16], (unsigned)op.arg(2) % 4);
            break;
        }
        case ITERATE: {
            name = "iterate";
            if (!T.init) break;
            std::map<uint32_t, Ent> start = T.m;
            std::set<uint32_t> visited;
            size_t i = 0, ndel = 0;
            for (struct aws_hash_iter it = aws_hash_iter_begin(&T.t); !aws_hash_iter_done(&it); aws_hash_iter_next(&it)) {
                PBT_CHECK(aws_hash_iter_is_valid(&it), "iterator not valid while positioned on an element");
                PBT_CHECK(i < start.size(), "iterate: the walk yields more than the %zu entries stored at its start", start.size());
                bool ok;
                uint32_t vid = id_of_key(it.element.key, &ok);
                PBT_CHECK(ok, "iterate: element key is not a key given to the table");
                auto si = start.find(vid);
                PBT_CHECK(si != start.end(), "iterate: visited id %u which was not stored at the start", vid);
                PBT_CHECK(visited.insert(vid).second, "iterate: id %u visited twice (after %zu deletions)", vid, ndel);
                PBT_CHECK(it.element.key == si->second.k && it.element.value == si->second.v, "iterate: id %u has wrong key/value pointers", vid);
                int d = op.b.empty() ? I_KEEP : (unsigned char)op.b[std::min(i, op.b.size() - 1)] % 3;
                i++;
                if (d == I_KEEP) continue;
                {   // classification only
                    RemInfo r = classify_removal(T.t.p_impl, it.slot);
                    if (r.run >= 4) nt = true, ctx.tag("iter_delete_in_run_ge4");
                    if (r.wrap) nt = true, ctx.tag("iter_delete_shift_wraps");
                    if (it.slot == 0 && r.shifted) ctx.tag("iter_delete_slot0_refilled");
                    if (it.limit < T.t.p_impl->size) ctx.tag("iter_delete_after_limit_shrunk");
                }
                if (d == I_DEL_DESTROY) expect_destroy(T, si->second);
                aws_hash_iter_delete(&it, d == I_DEL_DESTROY);
                PBT_CHECK(aws_hash_iter_is_valid(&it), "iterator not valid after delete");
                T.m.erase(vid);
                ndel++;
                ctx.tag(d == I_DEL_DESTROY ? "iter_delete_destroy" : "iter_delete_keep");
            }
            if (visited.size() != start.size()) {
                std::string missing;
                for (auto &kv : start)
                    if (!visited.count(kv.first)) missing += " " + std::to_string(kv.first);
                PBT_CHECK(false, "iterate: walk with %zu deletions skipped stored id(s)%s (%zu of %zu visited)", ndel, missing.c_str(),
                          visited.size(), start.size());
            }
            if (ndel) ctx.tag("iterate_with_delete");
            break;
        }
        case FOREACH: {
            name = "foreach";
            if (!T.init) break;
            ForeachCtx f;
            f.ctx = &ctx;
            f.T = &T;
            f.dec = &op.b;
            f.start = T.m;
            aws_reset_error();
            int rc = aws_hash_table_foreach(&T.t, foreach_cb, &f);
            if (ctx.failed) throw Failure{ctx.msg};
            for (uint32_t d : f.deleted) T.m.erase(d); // DELETE: removed, destructors NOT invoked
            if (f.errored) {
                PBT_CHECK(rc == AWS_OP_ERR, "foreach: callback returned ERROR but foreach returned success");
                ctx.tag("foreach_error");
            } else {
                PBT_CHECK(rc == AWS_OP_SUCCESS, "foreach returned an error without the callback asking for it");
                if (!f.stopped && !f.may_stop) {
                    if (f.visited.size() != f.start.size()) {
                        std::string missing;
                        for (auto &kv : f.start)
                            if (!f.visited.count(kv.first)) missing += " " + std::to_string(kv.first);
                        PBT_CHECK(false, "foreach: full walk with %zu deletions skipped stored id(s)%s", f.deleted.size(), missing.c_str());
                    }
                } else
                    ctx.tag("foreach_stop");
            }
            if (f.nt_run4) nt = true, ctx.tag("foreach_delete_in_run_ge4");
            if (f.nt_wrap) nt = true, ctx.tag("foreach_delete_shift_wraps");
            for (auto &tg : f.tags) ctx.tag(tg);
            if (!f.deleted.empty()) ctx.tag("foreach_with_delete");
            break;
        }
        default: { // HUGE_INIT: sizes whose slot array cannot be expressed in size_t must be refused before allocating
            name = "init(huge)";
            static const size_t HUGE_SIZES[] = {SIZE_MAX, SIZE_MAX - 1, ((size_t)1 << 63) + 1, (size_t)1 << 63, (size_t)1 << 62, (size_t)1 << 60,
                                          ((size_t)1 << 59) + 1};
            struct aws_hash_table scratch;
            AWS_ZERO_STRUCT(scratch);
            uint64_t acq = galloc::S().acquires;
            int rc = aws_hash_table_init(&scratch, galloc::full(), HUGE_SIZES[op.arg(0) % 7], h_fn, eq_fn, nullptr, nullptr);
            PBT_CHECK(rc == AWS_OP_ERR, "init with %zu elements reported success", HUGE_SIZES[op.arg(0) % 7]);
            PBT_CHECK(galloc::S().acquires == acq, "init with an unrepresentable size attempted an allocation");
            ctx.tag("huge_init");
            break;
        }
        }
        if (ctx.replay && getenv("VERIF_TRACE")) {
            fprintf(stderr, "-- %s t=%d id=%u:", name, t, id);
            for (int k = 0; k < 2; k++)
                if (tabs[k].init) fprintf(stderr, " T%d{n=%zu size=%zu}", k, tabs[k].m.size(), tabs[k].t.p_impl->size);
                else fprintf(stderr, " T%d{-}", k);
            fprintf(stderr, "\n");
        }
        check_state(name);
    }

    do_cleanup(tabs[0]);
    do_cleanup(tabs[1]);
    if (ctx.failed) throw Failure{ctx.msg};
    check_counters("final clean_up");
    PBT_CHECK(galloc::live_blocks() == 0, "clean_up left %zu blocks allocated", galloc::live_blocks());
    if (nt) ctx.nontrivial = true;
    (void)any_resize;
}

int main(int argc, char **argv) {
    Spec sp{"C02", "c02_map", gen_case, run,
            "generated command sequences (<=60) over two tables with a generated hash plan (real, constant, id mod 3, current slot-array "
            "end, zero, identity, all-ones end, same-slot/different-code, generated 8-entry table), 16 initial sizes, 4 destructor "
            "configurations; non-trivial = >=1 iterate/foreach deletion inside an occupied run of >=4 slots, or >=1 resize while >=2 "
            "stored keys share a home slot, or >=1 removal whose backward shift wraps around the end of the slot array (classified "
            "from the slot array; verdict uses the public API only); distinct by hash of the serialised case"};
    return pbt_main(argc, argv, sp);
}

// C04 / deep nesting — documents nested 10^2 .. 10^6 levels deep for every recursive-looking decoder,
// executed on a thread with the default 8 MiB stack inside a forked child.  Oracle: the call returns
// (accepting or rejecting through its documented channel); a stack overflow is a crash.
#include "pbt.hpp"
#include "galloc.hpp"

#include <aws/common/cbor.h>
#include <aws/common/common.h>
#include <aws/common/json.h>
#include <aws/common/xml_parser.h>

#include <pthread.h>

using namespace pbt;

enum { JSON_ARR = 0, JSON_OBJ, XML_DESCEND, XML_SKIP, XML_BODY, CBOR_ARR_WHOLE, CBOR_TAG_WHOLE, CBOR_INDEF_WHOLE, CBOR_MAP_WHOLE, CBOR_ARR_SINGLE, NFMT };
static const uint64_t DEPTHS[] = {100, 1000, 10000, 50000, 100000, 200000, 1000000};
// Known finding cbor-skip-unbounded-recursion: aws_cbor_decoder_consume_next_whole_data_item recurses once per
// nesting level without a limit.  In this (sanitizer) build an 8 MiB stack is exhausted somewhere above 10^4 levels.
static const uint64_t CBOR_KNOWN_FROM = 50000;

static bool known_listed() {
    const char *k = getenv("VERIF_KNOWN");
    return k && strstr(k, "cbor-skip-unbounded-recursion");
}

static Case gen_case() {
    Case c;
    c.cfg = {pick(0, NFMT - 1), pick(0, 6), pick(0, 3)};
    return c;
}

struct Job {
    int fmt;
    uint64_t depth;
    uint64_t variant;
    std::string doc;
    std::string verdict; // empty = ok
    bool accepted = false;
    int xml_nodes = 0;
    int xml_mode = 0;
};

static int xml_cb(struct aws_xml_node *node, void *ud) {
    Job *j = (Job *)ud;
    j->xml_nodes++;
    if (j->xml_mode == XML_DESCEND) return aws_xml_node_traverse(node, xml_cb, ud);
    if (j->xml_mode == XML_BODY) {
        struct aws_byte_cursor b;
        return aws_xml_node_as_body(node, &b);
    }
    return AWS_OP_SUCCESS;
}

static void *job_thread(void *p) {
    Job &j = *(Job *)p;
    struct aws_allocator *alloc = aws_default_allocator();
    struct aws_byte_cursor cur = aws_byte_cursor_from_array(j.doc.data(), j.doc.size());
    aws_reset_error();
    switch (j.fmt) {
    case JSON_ARR:
    case JSON_OBJ: {
        struct aws_json_value *v = aws_json_value_new_from_string(alloc, cur);
        j.accepted = v != nullptr;
        if (v) {
            struct aws_byte_buf out;
            aws_byte_buf_init(&out, alloc, 0);
            if (aws_byte_buf_append_json_string(v, &out) != AWS_OP_SUCCESS && aws_last_error() == 0) j.verdict = "json print failed without error";
            struct aws_json_value *d = aws_json_value_duplicate(v);
            if (d) aws_json_value_destroy(d);
            aws_byte_buf_clean_up(&out);
            aws_json_value_destroy(v);
        }
        break;
    }
    case XML_DESCEND:
    case XML_SKIP:
    case XML_BODY: {
        struct aws_xml_parser_options o;
        AWS_ZERO_STRUCT(o);
        o.doc = cur;
        o.on_root_encountered = xml_cb;
        o.user_data = &j;
        o.max_depth = j.variant == 0 ? 0 : (size_t)j.depth + 5; // default limit, or a limit above the document's depth
        j.xml_mode = j.fmt;
        int rc = aws_xml_parse(alloc, &o);
        j.accepted = rc == AWS_OP_SUCCESS;
        if (rc != AWS_OP_SUCCESS && aws_last_error() == 0) j.verdict = "xml parse failed without raising an error";
        break;
    }
    default: {
        struct aws_cbor_decoder *d = aws_cbor_decoder_new(alloc, cur);
        int rc = j.fmt == CBOR_ARR_SINGLE ? AWS_OP_SUCCESS : aws_cbor_decoder_consume_next_whole_data_item(d);
        if (j.fmt == CBOR_ARR_SINGLE)
            for (uint64_t i = 0; i <= j.depth && rc == AWS_OP_SUCCESS; i++) rc = aws_cbor_decoder_consume_next_single_element(d);
        j.accepted = rc == AWS_OP_SUCCESS;
        if (rc != AWS_OP_SUCCESS && aws_last_error() == 0) j.verdict = "cbor skip failed without raising an error";
        if (rc == AWS_OP_SUCCESS && aws_cbor_decoder_get_remaining_length(d) != 0)
            j.verdict = fmt("cbor skip of a %llu-deep item left %zu bytes", (unsigned long long)j.depth, aws_cbor_decoder_get_remaining_length(d));
        aws_cbor_decoder_destroy(d);
        break;
    }
    }
    return nullptr;
}

static std::string rep(const std::string &s, uint64_t n) {
    std::string o;
    o.reserve(s.size() * n);
    for (uint64_t i = 0; i < n; i++) o += s;
    return o;
}

static void run(const Case &c, Ctx &ctx) {
    Job j;
    j.fmt = (int)(c.c(0) % NFMT);
    j.depth = DEPTHS[c.c(1) % 7];
    j.variant = c.c(2) % 4;
    bool cbor_recursive = j.fmt == CBOR_ARR_WHOLE || j.fmt == CBOR_TAG_WHOLE || j.fmt == CBOR_INDEF_WHOLE || j.fmt == CBOR_MAP_WHOLE;
    bool forced = c.c(3) == 1; // regression input of the known finding: never excluded
    if (cbor_recursive && j.depth >= CBOR_KNOWN_FROM && known_listed() && !forced) {
        ctx.tag("excluded_known_cbor_deep");
        return;
    }
    // the XML skip/body search is quadratic in the nesting depth of same-named nodes: keep those below 10^4
    if ((j.fmt == XML_SKIP || j.fmt == XML_BODY || j.fmt == XML_DESCEND) && j.depth > 10000) j.depth = 10000;
    // a caller-chosen max_depth above the document's depth makes traversal recurse that deep by request: keep it moderate
    if (j.fmt == XML_DESCEND && j.variant != 0 && j.depth > 1000) j.depth = 1000;
    uint64_t n = j.depth;
    switch (j.fmt) {
    // variants 2 and 3: every level has siblings in front of the nested value (an empty container, a scalar), so that a
    // depth counter that is not restored when a sibling closes shows (the nesting limit must hold for these shapes too)
    case JSON_ARR:
        j.doc = rep(j.variant == 2 ? "[[]," : j.variant == 3 ? "[{},\"x\",[1]," : "[", n) + "1" + rep("]", j.variant == 1 ? n - 1 : n);
        break;
    case JSON_OBJ:
        j.doc = rep(j.variant == 2 ? "{\"s\":[],\"a\":" : j.variant == 3 ? "{\"s\":{},\"t\":[0],\"a\":" : "{\"a\":", n) + "1" +
                rep("}", j.variant == 1 ? n / 2 : n);
        break;
    case XML_DESCEND:
    case XML_SKIP:
    case XML_BODY: j.doc = rep("<a>", n) + "x" + rep("</a>", j.variant == 1 ? n - 1 : n); break;
    case CBOR_ARR_WHOLE:
    case CBOR_ARR_SINGLE: j.doc = rep("\x81", n) + std::string(1, '\0'); break;
    case CBOR_TAG_WHOLE: j.doc = rep("\xc1", n) + std::string(1, '\0'); break;
    case CBOR_INDEF_WHOLE: j.doc = rep("\x9f", n) + std::string(1, '\0') + rep("\xff", n); break;
    default: j.doc = rep("\xa1\x00", n) + std::string(1, '\0'); break; // {0: {0: ... 0}}
    }
    pthread_attr_t at;
    pthread_attr_init(&at);
    pthread_attr_setstacksize(&at, 8u << 20);
    pthread_t th;
    PBT_CHECK(pthread_create(&th, &at, job_thread, &j) == 0, "thread");
    pthread_join(th, nullptr);
    PBT_CHECK(j.verdict.empty(), "%s", j.verdict.c_str());
    // documented limits: JSON nesting limit 1000, XML default depth 20
    if (j.fmt == JSON_ARR || j.fmt == JSON_OBJ) PBT_CHECK(j.accepted == (n < 1000 && j.variant != 1) || n == 1000, "JSON depth %llu variant %llu accepted=%d", (unsigned long long)n, (unsigned long long)j.variant, j.accepted);
    if (j.fmt == XML_DESCEND && j.variant == 0) PBT_CHECK(!j.accepted, "XML depth %llu accepted with the default depth limit", (unsigned long long)n);
    ctx.tag(fmt("fmt%d", j.fmt));
    if ((j.fmt == JSON_ARR || j.fmt == JSON_OBJ) && j.variant >= 2) ctx.tag("json_nesting_with_siblings");
    ctx.nontrivial = n >= 1000;
}

int main(int argc, char **argv) {
    aws_common_library_init(aws_default_allocator());
    Spec sp{"C04", "c04_deep", gen_case, run,
            "10 (decoder, traversal mode) combinations x nesting depths {1e2,1e3,1e4,5e4,1e5,2e5,1e6} x balanced/unbalanced, "
            "each on an 8 MiB-stack thread in a forked child; non-trivial = depth >= 1000",
            /*isolate=*/true};
    return pbt_main(argc, argv, sp);
}

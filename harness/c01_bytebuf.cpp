// C01 — byte buffers and cursors stay in bounds; failed operations change nothing.
// Stateful model check: 3 buffer slots (zeroed / owned by galloc / static over a guarded arena),
// 4 cursor slots (exact-size heap arrays so that ASan sees over-reads, views into a buffer's memory,
// {NULL,0}, "phantom" huge-length views that are only given to operations which must reject by size).
// After every command: model comparison of every struct and every byte of every backing store,
// guard bytes, galloc canaries; a command that reported failure (and every read-only command) must
// leave a full snapshot identical.  See DESIGN.md section 5 / C01.
#include "pbt.hpp"
#include "galloc.hpp"

#include <aws/common/array_list.h>
#include <aws/common/byte_buf.h>
#include <aws/common/error.h>
#include <aws/common/private/byte_buf.h>
#include <aws/common/string.h>
#include <aws/common/zero.h>

#include <memory>

using namespace pbt;

static const int NB = 3, NC = 4;
static const size_t G = 32;          // guard bytes on each side of a static arena
static const size_t MAXCAP = 4096;   // growth commands that would exceed this are skipped
static const size_t HALF = SIZE_MAX >> 1;
static const size_t CAPS[] = {0, 1, 2, 3, 7, 8, 9, 15, 16, 17, 31, 32, 33, 63, 64, 65, 100, 127, 128, 129, 255, 256, 257, 511, 512};
static const size_t NCAPS = sizeof(CAPS) / sizeof(CAPS[0]);

enum {
    // harness-side constructors of cursors
    CUR_BYTES, CUR_PATTERN, CUR_BUFVIEW, CUR_NULL, CUR_PHANTOM, CUR_COPY,
    // buffer life cycle
    B_INIT, B_INIT_COPY, B_INIT_COPY_CURSOR, B_INIT_CACHE, B_INIT_CACHE_HUGE, B_FROM_ARRAY, B_FROM_FILE,
    B_CLEAN_UP, B_CLEAN_UP_SECURE, B_RESET, B_SECURE_ZERO, B_ZERO_RANGE,
    // append family
    B_APPEND, B_APPEND_LOOKUP, B_APPEND_DYN, B_APPEND_DYN_SECURE, B_APPEND_BYTE_DYN, B_APPEND_BYTE_DYN_SECURE,
    B_APPEND_UPDATE, B_APPEND_NUL, B_CAT, B_APPEND_DYN_HUGE,
    // reserve family
    B_RESERVE, B_RESERVE_REL, B_RESERVE_SMART, B_RESERVE_SMART_REL, B_RESERVE_REL_HUGE,
    // write family
    B_WRITE, B_WRITE_U8, B_WRITE_U8_N, B_WRITE_BE16, B_WRITE_BE24, B_WRITE_BE32, B_WRITE_BE64, B_WRITE_F32, B_WRITE_F64,
    B_WRITE_WHOLE_BUF, B_WRITE_WHOLE_CURSOR, B_WRITE_WHOLE_STRING, B_WRITE_TO_CAP, B_ADVANCE,
    // cursor, mutating
    C_ADVANCE, C_ADVANCE_NOSPEC, C_READ, C_READ_U8, C_READ_BE16, C_READ_BE24, C_READ_BE32, C_READ_BE64, C_READ_F32,
    C_READ_F64, C_READ_HEX, C_READ_FILL,
    // cursor, read-only
    C_NEXT_SPLIT, C_SPLIT, C_FIND, C_TRIM, C_SATISFIES, C_CMP_LEX, C_CMP_LOOKUP, C_EQ, C_EQ_BUF, C_EQ_CSTR, C_STARTS,
    C_PARSE, B_EQ, MEM_ZEROED, STRING_LIFE,
    NKINDS
};

// ---------------------------------------------------------------- generator
static std::string bytes_from(const char *alpha, size_t na, size_t lo, size_t hi) {
    size_t n = (size_t)pick(lo, hi);
    std::string s;
    for (size_t i = 0; i < n; i++) s.push_back(alpha[pick(0, na - 1)]);
    return s;
}
static std::string gen_bytes() {
    static const char text[] = " ;;,\t\n\r\v\fabABzZ09fF-x";
    static const char *special[] = {"18446744073709551615", "18446744073709551616", "184467440737095516150",
                                    "ffffffffffffffff", "FFFFFFFFFFFFFFFF", "10000000000000000", "0", "00000000000000000018446744073709551615",
                                    "0x0", "-1", " 0", "1,000", "", ";", ";;", "a;", ";a", "0F", "fg"};
    switch (weighted({25, 30, 15, 12, 12, 6})) {
    case 0: return bytes(0, 20);
    case 1: return bytes_from(text, sizeof(text) - 1, 0, 24);
    case 2: return bytes_from("0123456789", 10, 0, 22);
    case 3: return bytes_from("0123456789abcdefABCDEF", 22, 0, 18);
    case 4: return special[pick(0, sizeof(special) / sizeof(special[0]) - 1)];
    default: return bytes(0, 2);
    }
}
static uint64_t gen_value() {
    switch (weighted({3, 3, 2})) {
    case 0: return one_of({0, 1, 0xFF, 0x100, 0xFFFF, 0xFFFFFF, 0x1000000, 0xFFFFFFFFull, UINT64_MAX, 0x7FFFFFFFFFFFFFFFull, 0x8000000000000000ull});
    case 1: return pick(0, 255);
    default: return any_u64();
    }
}
static bool needs_bytes(int k) {
    return k == CUR_BYTES || k == B_WRITE_WHOLE_STRING || k == C_EQ_CSTR || k == C_PARSE || k == STRING_LIFE || k == C_FIND;
}
static Op gen_op_of(int k) {
    Op o = mkop(k, {pick(0, 7), pick(0, 7), pick(0, 11), pick(0, 70), gen_value()});
    if (needs_bytes(k)) o.b = gen_bytes();
    return o;
}
static int pick_in(int lo, int hi) { return (int)pick(lo, hi); }

static Case gen_case() {
    Case c;
    // initial kind and capacity of the three buffer slots, allocator flavour
    c.cfg = {pick(0, 3), pick(0, NCAPS - 1), pick(0, 3), pick(0, NCAPS - 1), pick(0, 3), pick(0, NCAPS - 1), pick(0, 3)};
    int profile = (int)weighted({4, 3, 3}); // buffer-heavy, cursor-heavy, mixed
    c.ops = op_list(40, [profile] {
        // family weights: cursor ctor, life cycle, append, reserve, write, cursor mutating, cursor read-only
        static const unsigned W[3][7] = {{18, 10, 24, 10, 20, 8, 10}, {22, 4, 6, 2, 6, 26, 34}, {18, 8, 16, 7, 14, 16, 21}};
        const unsigned *w = W[profile];
        switch (weighted({w[0], w[1], w[2], w[3], w[4], w[5], w[6]})) {
        case 0:
            switch (weighted({30, 30, 20, 5, 10, 5})) {
            case 0: return gen_op_of(CUR_BYTES);
            case 1: return gen_op_of(CUR_PATTERN);
            case 2: return gen_op_of(CUR_BUFVIEW);
            case 3: return gen_op_of(CUR_NULL);
            case 4: return gen_op_of(CUR_PHANTOM);
            default: return gen_op_of(CUR_COPY);
            }
        case 1: return gen_op_of(pick_in(B_INIT, B_ZERO_RANGE));
        case 2: return gen_op_of(pick_in(B_APPEND, B_APPEND_DYN_HUGE));
        case 3: return gen_op_of(pick_in(B_RESERVE, B_RESERVE_REL_HUGE));
        case 4: return gen_op_of(pick_in(B_WRITE, B_ADVANCE));
        case 5: return gen_op_of(pick_in(C_ADVANCE, C_READ_FILL));
        default: return gen_op_of(pick_in(C_NEXT_SPLIT, STRING_LIFE));
        }
    });
    return c;
}

// ---------------------------------------------------------------- small reference helpers
static size_t sel_size(uint64_t mode, uint64_t k, size_t avail) {
    switch (mode % 12) {
    case 0: return avail;                   // exact fit
    case 1: return avail ? avail - 1 : 0;   // one spare
    case 2: return avail + 1;               // one over
    case 3: return 0;
    case 4: return 1;
    case 5: return (size_t)(k % 40);
    case 6: return avail + 1 + (size_t)(k % 70);
    case 7: return avail / 2;
    case 8: return SIZE_MAX - (size_t)(k % 6);
    case 9: return HALF + (size_t)(k % 4);  // SIZE_MAX/2, +1, +2, +3
    case 10: return HALF - (size_t)(k % 3);
    default: return avail + (size_t)(k % 3);
    }
}
static bool is_huge(size_t n) { return n >= HALF - 4; }

static bool ref_isspace(uint8_t c) { return c == 0x20 || (c >= 0x09 && c <= 0x0D); }
static bool ref_isdigit(uint8_t c) { return c >= '0' && c <= '9'; }
static bool ref_isalpha(uint8_t c) { return ((c | 0x20) >= 'a' && (c | 0x20) <= 'z'); }
static bool ref_isalnum(uint8_t c) { return ref_isdigit(c) || ref_isalpha(c); }
static bool ref_isxdigit(uint8_t c) { return ref_isdigit(c) || ((c | 0x20) >= 'a' && (c | 0x20) <= 'f'); }
static bool pred_true(uint8_t) { return true; }
static bool pred_false(uint8_t) { return false; }
struct Pred {
    aws_byte_predicate_fn *lib;
    bool (*ref)(uint8_t);
    const char *name;
};
static bool ref_true(uint8_t) { return true; }
static bool ref_false(uint8_t) { return false; }
static const Pred PREDS[] = {{aws_isspace, ref_isspace, "isspace"}, {aws_isdigit, ref_isdigit, "isdigit"},
                             {aws_isalpha, ref_isalpha, "isalpha"}, {aws_isalnum, ref_isalnum, "isalnum"},
                             {aws_isxdigit, ref_isxdigit, "isxdigit"}, {pred_true, ref_true, "true"},
                             {pred_false, ref_false, "false"}};
static uint8_t ref_lower(uint8_t c) { return (c >= 'A' && c <= 'Z') ? (uint8_t)(c + 32) : c; }
static int sgn(int x) { return (x > 0) - (x < 0); }

static std::string lcg_bytes(size_t n, uint64_t seed, int flavour) {
    static const char text[] = " ;,ab\tAB09zf";
    std::string s(n, '\0');
    uint64_t x = seed * 6364136223846793005ull + 1442695040888963407ull;
    for (size_t i = 0; i < n; i++) {
        x = x * 6364136223846793005ull + 1442695040888963407ull;
        uint8_t r = (uint8_t)(x >> 33);
        s[i] = flavour == 0 ? (char)r : flavour == 1 ? text[r % (sizeof(text) - 1)] : "0123456789abcdefABCDEF"[r % 22];
    }
    return s;
}

// ---------------------------------------------------------------- the world: real objects + plain model
enum { K_ZERO, K_OWNED, K_STATIC };
enum { S_NONE, S_ARRAY, S_BUF };

struct Arena {
    uint8_t *raw;
    size_t cap;
};
struct Arr {
    uint8_t *p;
    size_t n;
    std::string orig;
};
struct BufSlot {
    struct aws_byte_buf b;
    int kind = K_ZERO;
    std::vector<uint8_t> store; // model of all `capacity` bytes
    size_t len = 0;
    uint8_t *ptr = nullptr;     // expected b.buffer
    struct aws_allocator *alloc = nullptr;
    size_t cap() const { return store.size(); }
    size_t avail() const { return store.size() - len; }
};
struct CurSlot {
    struct aws_byte_cursor c;
    int src = S_NONE;
    int idx = 0;
    size_t off = 0, len = 0;
    bool phantom = false;
};
struct Rel {
    void *p;
    size_t n;
    bool zero;
    std::string bytes;
};

struct World {
    Ctx &ctx;
    struct aws_allocator *A;
    BufSlot bufs[NB];
    CurSlot curs[NC];
    std::vector<Arena> arenas;
    std::vector<Arr> arrays;
    std::vector<Rel> rels;
    unsigned nfailed = 0, ngrow = 0, nalias = 0, nhuge = 0, nsecure = 0;
    const char *opname = "init";

    explicit World(Ctx &c) : ctx(c), A(nullptr) {
        for (auto &b : bufs) memset(&b.b, 0, sizeof b.b);
        for (auto &x : curs) memset(&x.c, 0, sizeof x.c);
    }
    ~World() {
        galloc::S().on_release = nullptr;
        for (auto &a : arenas) free(a.raw);
        for (auto &a : arrays) free(a.p);
    }

    // ---- harness-owned memory
    int new_array(const std::string &s) {
        Arr a;
        a.n = s.size();
        a.p = (uint8_t *)malloc(a.n); // exact size: ASan sees every over-read; malloc(0) is a valid, unreadable pointer
        if (a.n) memcpy(a.p, s.data(), a.n);
        a.orig = s;
        arrays.push_back(a);
        return (int)arrays.size() - 1;
    }
    int new_arena(size_t cap, uint64_t seed) {
        Arena a;
        a.cap = cap;
        a.raw = (uint8_t *)malloc(cap + 2 * G);
        memset(a.raw, 0xEE, cap + 2 * G);
        std::string fill = lcg_bytes(cap, seed, 0);
        if (cap) memcpy(a.raw + G, fill.data(), cap);
        arenas.push_back(a);
        return (int)arenas.size() - 1;
    }

    // ---- model views
    const uint8_t *cur_base(const CurSlot &x) const {
        if (x.src == S_ARRAY) return arrays[x.idx].p;
        if (x.src == S_BUF) return bufs[x.idx].ptr;
        return nullptr;
    }
    std::string view(const CurSlot &x) const { // model content of a non-phantom cursor
        if (x.src == S_ARRAY) return arrays[x.idx].orig.substr(x.off, x.len);
        if (x.src == S_BUF) return std::string((const char *)bufs[x.idx].store.data() + x.off, x.len);
        return std::string();
    }
    bool views_buf(const CurSlot &x, int slot) const { return x.src == S_BUF && x.idx == slot; }
    // a cursor may be appended to the buffer it points into only if it lies in the used part ("earlier in the buffer")
    bool append_alias_ok(const CurSlot &x, int slot) const { return !views_buf(x, slot) || x.off + x.len <= bufs[slot].len; }
    void set_null(CurSlot &x) {
        x.c.ptr = nullptr;
        x.c.len = 0;
        x.src = S_NONE;
        x.idx = 0;
        x.off = x.len = 0;
        x.phantom = false;
    }
    void invalidate_views(int slot) { // harness action: views into a block that was handed back are dropped
        for (auto &x : curs)
            if (views_buf(x, slot)) set_null(x);
    }
    void make_zero_slot(int i) {
        BufSlot &s = bufs[i];
        s.kind = K_ZERO;
        s.store.clear();
        s.len = 0;
        s.ptr = nullptr;
        s.alloc = nullptr;
    }
    // adopt an owned buffer after (re)allocation: bytes [0,expect.size()) are required, the rest is unspecified
    void adopt_owned(int i, const std::vector<uint8_t> &expect) {
        BufSlot &s = bufs[i];
        size_t cap = s.b.capacity;
        PBT_CHECK(cap >= expect.size(), "%s: capacity %zu smaller than the %zu bytes it must hold", opname, cap, expect.size());
        PBT_CHECK(cap <= 4 * MAXCAP + 64, "%s: capacity %zu out of proportion", opname, cap);
        PBT_CHECK((s.b.buffer == nullptr) == (cap == 0), "%s: buffer NULL <=> capacity 0 violated (cap %zu)", opname, cap);
        if (cap) {
            size_t sz = 0;
            PBT_CHECK(galloc::is_live(s.b.buffer, &sz) && sz == cap, "%s: buffer is not a live block of exactly capacity bytes (cap %zu, block %zu)", opname, cap, sz);
        }
        s.kind = K_OWNED;
        s.alloc = A;
        s.ptr = s.b.buffer;
        s.store.assign(s.b.buffer, s.b.buffer + cap);
        std::copy(expect.begin(), expect.end(), s.store.begin());
        s.len = expect.size();
    }
    std::vector<uint8_t> used(int i) const { return std::vector<uint8_t>(bufs[i].store.begin(), bufs[i].store.begin() + bufs[i].len); }

    // ---- full snapshot: every struct, every byte of every backing store, the set of live blocks
    std::string snapshot() const {
        std::string s;
        for (auto &b : bufs) {
            s.append((const char *)&b.b, sizeof b.b);
            if (b.kind == K_OWNED && b.ptr) s.append((const char *)b.ptr, b.cap());
        }
        for (auto &x : curs) s.append((const char *)&x.c, sizeof x.c);
        for (auto &a : arenas) s.append((const char *)a.raw, a.cap + 2 * G);
        for (auto &a : arrays) s.append((const char *)a.p, a.n);
        {
            std::lock_guard<std::mutex> g(galloc::S().mu);
            for (auto &kv : galloc::S().live) {
                s.append((const char *)&kv.first, sizeof kv.first);
                s.append((const char *)&kv.second.size, sizeof kv.second.size);
            }
        }
        return s;
    }

    // ---- model comparison after every command
    void check_world() {
        size_t owned_blocks = 0;
        for (int i = 0; i < NB; i++) {
            BufSlot &s = bufs[i];
            PBT_CHECK(s.b.len <= s.b.capacity, "after %s: buf %d len %zu > capacity %zu", opname, i, s.b.len, s.b.capacity);
            PBT_CHECK((s.b.buffer == nullptr) == (s.b.capacity == 0), "after %s: buf %d buffer NULL <=> capacity 0 violated", opname, i);
            PBT_CHECK(aws_byte_buf_is_valid(&s.b), "after %s: buf %d not valid", opname, i);
            PBT_CHECK(s.b.len == s.len, "after %s: buf %d len %zu, model %zu", opname, i, s.b.len, s.len);
            PBT_CHECK(s.b.capacity == s.cap(), "after %s: buf %d capacity %zu, model %zu", opname, i, s.b.capacity, s.cap());
            PBT_CHECK(s.b.buffer == s.ptr, "after %s: buf %d storage pointer changed", opname, i);
            PBT_CHECK(s.b.allocator == s.alloc, "after %s: buf %d allocator field changed", opname, i);
            if (s.kind == K_OWNED && s.ptr) {
                size_t sz = 0;
                PBT_CHECK(galloc::is_live(s.ptr, &sz) && sz == s.cap(), "after %s: buf %d block not live / wrong size", opname, i);
                owned_blocks++;
            }
            for (size_t k = 0; k < s.cap(); k++)
                if (s.ptr[k] != s.store[k])
                    PBT_CHECK(false, "after %s: buf %d byte %zu is %02x, model %02x (%s; len %zu cap %zu)", opname, i, k, s.ptr[k], s.store[k],
                              k < s.len ? "previously written / expected content" : "unused tail must be untouched", s.len, s.cap());
        }
        for (auto &a : arenas)
            for (size_t k = 0; k < G; k++)
                PBT_CHECK(a.raw[k] == 0xEE && a.raw[G + a.cap + k] == 0xEE, "after %s: guard byte next to a static buffer overwritten", opname);
        for (auto &a : arrays) PBT_CHECK(a.n == 0 || memcmp(a.p, a.orig.data(), a.n) == 0, "after %s: a read-only source array was modified", opname);
        for (int i = 0; i < NC; i++) {
            CurSlot &x = curs[i];
            PBT_CHECK(x.c.len == x.len, "after %s: cursor %d len %zu, model %zu", opname, i, x.c.len, x.len);
            const uint8_t *base = cur_base(x);
            const uint8_t *want = base ? base + x.off : nullptr;
            PBT_CHECK(x.c.ptr == want, "after %s: cursor %d ptr is off by %td from the model", opname, i, (ptrdiff_t)((intptr_t)x.c.ptr - (intptr_t)want));
            if (!x.phantom && x.src == S_ARRAY) PBT_CHECK(x.off + x.len <= arrays[x.idx].n, "harness: cursor %d model outside its array", i);
            if (x.src == S_BUF) PBT_CHECK(x.off + x.len <= bufs[x.idx].cap(), "harness: cursor %d model outside its buffer", i);
            PBT_CHECK(aws_byte_cursor_is_valid(&x.c), "after %s: cursor %d not valid", opname, i);
        }
        const char *m = nullptr;
        PBT_CHECK(galloc::check_all(&m), "after %s: %s", opname, m ? m : "");
        PBT_CHECK(galloc::live_blocks() == owned_blocks, "after %s: %zu live blocks, %zu owned buffers", opname, galloc::live_blocks(), owned_blocks);
    }

    void step(const Op &op);
    // the families
    void op_cursor_ctor(const Op &op, int k);
    bool op_lifecycle(const Op &op, int k, bool &failed);
    bool op_append(const Op &op, int k, bool &failed, bool &partial);
    bool op_reserve(const Op &op, int k, bool &failed);
    bool op_write(const Op &op, int k, bool &failed);
    bool op_cursor_mut(const Op &op, int k, bool &failed);
    bool op_cursor_ro(const Op &op, int k, bool &failed, bool &partial);

    // release events since the start of the command
    void expect_one_release(void *oldptr, size_t oldcap, bool must_be_zero) {
        PBT_CHECK(rels.size() == 1 && rels[0].p == oldptr && rels[0].n == oldcap, "%s: expected exactly the old block (%zu bytes) to be released, saw %zu release(s)", opname,
                  oldcap, rels.size());
        if (must_be_zero) {
            PBT_CHECK(rels[0].zero, "%s: block handed back to the allocator was not zeroed over its full capacity (%zu bytes)", opname, oldcap);
            nsecure++;
        }
    }
};

#include "c01_body2.inc"

// C01 — byte buffers and cursors stay in bounds; failed operations change nothing.
// Stateful model check: 3 buffer slots (zeroed / owned by galloc / static over a guarded arena),
// 4 cursor slots (exact-size heap arrays so that ASan sees over-reads, views into a buffer's memory,
// {NULL,0}, "phantom" huge-length views that are only given to operations which must reject by size).
// After every command: model comparison of every struct and every byte of every backing store,
// guard bytes, galloc canaries; a command that reported failure (and every read-only command) must
// leave a full snapshot identical.  See DESIGN.md section 5 / C01.
#include "pbt.hpp"
#include "galloc.hpp"

#include <aws/common/array_list.h>
#include <aws/common/byte_buf.h>
#include <aws/common/error.h>
extern "C" {
#include <aws/common/private/byte_buf.h> // reserve_smart(_relative): the private header has no extern "C" guard
}
#include <aws/common/string.h>
#include <aws/common/zero.h>

#include <memory>

using namespace pbt;

static const int NB = 3, NC = 4;
static const size_t G = 32;          // guard bytes on each side of a static arena
static const size_t MAXCAP = 4096;   // growth commands that would exceed this are skipped
static const size_t HALF = SIZE_MAX >> 1;
static const size_t CAPS[] = {0, 1, 2, 3, 7, 8, 9, 15, 16, 17, 31, 32, 33, 63, 64, 65, 100, 127, 128, 129, 255, 256, 257, 511, 512};
static const size_t NCAPS = sizeof(CAPS) / sizeof(CAPS[0]);

enum {
    // harness-side constructors of cursors
    CUR_BYTES, CUR_PATTERN, CUR_BUFVIEW, CUR_NULL, CUR_PHANTOM, CUR_COPY,
    // buffer life cycle
    B_INIT, B_INIT_COPY, B_INIT_COPY_CURSOR, B_INIT_CACHE, B_INIT_CACHE_HUGE, B_FROM_ARRAY, B_FROM_FILE,
    B_CLEAN_UP, B_CLEAN_UP_SECURE, B_RESET, B_SECURE_ZERO, B_ZERO_RANGE,
    // append family
    B_APPEND, B_APPEND_LOOKUP, B_APPEND_DYN, B_APPEND_DYN_SECURE, B_APPEND_BYTE_DYN, B_APPEND_BYTE_DYN_SECURE,
    B_APPEND_UPDATE, B_APPEND_NUL, B_CAT, B_APPEND_DYN_HUGE,
    // reserve family
    B_RESERVE, B_RESERVE_REL, B_RESERVE_SMART, B_RESERVE_SMART_REL, B_RESERVE_REL_HUGE,
    // write family
    B_WRITE, B_WRITE_U8, B_WRITE_U8_N, B_WRITE_BE16, B_WRITE_BE24, B_WRITE_BE32, B_WRITE_BE64, B_WRITE_F32, B_WRITE_F64,
    B_WRITE_WHOLE_BUF, B_WRITE_WHOLE_CURSOR, B_WRITE_WHOLE_STRING, B_WRITE_TO_CAP, B_ADVANCE,
    // cursor, mutating
    C_ADVANCE, C_ADVANCE_NOSPEC, C_READ, C_READ_U8, C_READ_BE16, C_READ_BE24, C_READ_BE32, C_READ_BE64, C_READ_F32,
    C_READ_F64, C_READ_HEX, C_READ_FILL,
    // cursor, read-only
    C_NEXT_SPLIT, C_SPLIT, C_FIND, C_TRIM, C_SATISFIES, C_CMP_LEX, C_CMP_LOOKUP, C_EQ, C_EQ_BUF, C_EQ_CSTR, C_STARTS,
    C_PARSE, B_EQ, MEM_ZEROED, STRING_LIFE,
    NKINDS
};

// ---------------------------------------------------------------- generator
static std::string bytes_from(const char *alpha, size_t na, size_t lo, size_t hi) {
    size_t n = (size_t)pick(lo, hi);
    std::string s;
    for (size_t i = 0; i < n; i++) s.push_back(alpha[pick(0, na - 1)]);
    return s;
}
static std::string gen_bytes() {
    static const char text[] = " ;;,\t\n\r\v\fabABzZ09fF-x";
    static const char *special[] = {"18446744073709551615", "18446744073709551616", "184467440737095516150",
                                    "ffffffffffffffff", "FFFFFFFFFFFFFFFF", "10000000000000000", "0", "00000000000000000018446744073709551615",
                                    "0x0", "-1", " 0", "1,000", "", ";", ";;", "a;", ";a", "0F", "fg"};
    switch (weighted({25, 30, 15, 12, 12, 6})) {
    case 0: return bytes(0, 20);
    case 1: return bytes_from(text, sizeof(text) - 1, 0, 24);
    case 2: return bytes_from("0123456789", 10, 0, 22);
    case 3: return bytes_from("0123456789abcdefABCDEF", 22, 0, 18);
    case 4: return special[pick(0, sizeof(special) / sizeof(special[0]) - 1)];
    default: return bytes(0, 2);
    }
}
static uint64_t gen_value() {
    switch (weighted({3, 3, 2})) {
    case 0: return one_of({0, 1, 0xFF, 0x100, 0xFFFF, 0xFFFFFF, 0x1000000, 0xFFFFFFFFull, UINT64_MAX, 0x7FFFFFFFFFFFFFFFull, 0x8000000000000000ull});
    case 1: return pick(0, 255);
    default: return any_u64();
    }
}
static std::string gen_numeric() {
    static const char *special[] = {"18446744073709551615", "18446744073709551616", "184467440737095516150", "ffffffffffffffff", "FFFFFFFFFFFFFFFF",
                                    "10000000000000000", "0", "00000000000000000018446744073709551615", "0000000000000000ffffffffffffffff", "0x0", "-1", " 0", "1,000", ""};
    switch (weighted({35, 30, 20, 15})) {
    case 0: return bytes_from("0123456789", 10, 1, 21);
    case 1: return bytes_from("0123456789abcdefABCDEF", 22, 1, 17);
    case 2: return special[pick(0, sizeof(special) / sizeof(special[0]) - 1)];
    default: return bytes_from("0123456789abcdefABCDEFg x-", 26, 0, 20);
    }
}
static uint64_t gen_capidx() { return chance(60) ? pick(0, 11) : pick(0, NCAPS - 1); }
static bool needs_bytes(int k) {
    return k == CUR_BYTES || k == B_WRITE_WHOLE_STRING || k == C_EQ_CSTR || k == C_PARSE || k == STRING_LIFE || k == C_FIND;
}
static Op gen_op_of(int k) {
    Op o = mkop(k, {pick(0, 7), pick(0, 7), pick(0, 11), pick(0, 70), gen_value()});
    if (k == C_PARSE) o.b = gen_numeric();
    else if (needs_bytes(k)) o.b = gen_bytes();
    if (k == B_INIT || k == B_FROM_ARRAY) o.a[3] = gen_capidx();
    return o;
}
static int pick_in(int lo, int hi) { return (int)pick(lo, hi); }

static Case gen_case() {
    Case c;
    // initial kind and capacity of the three buffer slots, allocator flavour
    // cfg[0..5]: (kind, capacity index) of each slot; cfg[6]: allocator; cfg[7..9]: initial fill of each buffer; cfg[10]: seed of the initial cursors
    c.cfg = {pick(0, 5), gen_capidx(), pick(0, 5), gen_capidx(), pick(0, 5), gen_capidx(), pick(0, 3), pick(0, 5), pick(0, 5), pick(0, 5), pick(0, 1000)};
    int profile = (int)weighted({4, 3, 3}); // buffer-heavy, cursor-heavy, mixed
    c.ops = op_list(40, [profile] {
        // family weights: cursor ctor, life cycle, append, reserve, write, cursor mutating, cursor read-only
        static const unsigned W[3][7] = {{18, 10, 24, 10, 20, 8, 10}, {22, 4, 6, 2, 6, 26, 34}, {18, 8, 16, 7, 14, 16, 21}};
        const unsigned *w = W[profile];
        switch (weighted({w[0], w[1], w[2], w[3], w[4], w[5], w[6]})) {
        case 0:
            switch (weighted({25, 25, 20, 4, 12, 14})) {
            case 0: return gen_op_of(CUR_BYTES);
            case 1: return gen_op_of(CUR_PATTERN);
            case 2: return gen_op_of(CUR_BUFVIEW);
            case 3: return gen_op_of(CUR_NULL);
            case 4: return gen_op_of(CUR_PHANTOM);
            default: return gen_op_of(CUR_COPY);
            }
        case 1: return gen_op_of(pick_in(B_INIT, B_ZERO_RANGE));
        case 2: return gen_op_of(pick_in(B_APPEND, B_APPEND_DYN_HUGE));
        case 3: return gen_op_of(pick_in(B_RESERVE, B_RESERVE_REL_HUGE));
        case 4: return gen_op_of(pick_in(B_WRITE, B_ADVANCE));
        case 5: return gen_op_of(pick_in(C_ADVANCE, C_READ_FILL));
        default: return gen_op_of(pick_in(C_NEXT_SPLIT, STRING_LIFE));
        }
    });
    return c;
}

// ---------------------------------------------------------------- small reference helpers
static size_t sel_size(uint64_t mode, uint64_t k, size_t avail) {
    switch (mode % 12) {
    case 0: return avail;                   // exact fit
    case 1: return avail ? avail - 1 : 0;   // one spare
    case 2: return avail + 1;               // one over
    case 3: return 0;
    case 4: return 1;
    case 5: return (size_t)(k % 40);
    case 6: return avail + 1 + (size_t)(k % 70);
    case 7: return avail / 2;
    case 8: return SIZE_MAX - (size_t)(k % 6);
    case 9: return HALF + (size_t)(k % 4);  // SIZE_MAX/2, +1, +2, +3
    case 10: return HALF - (size_t)(k % 3);
    default: return avail + (size_t)(k % 3);
    }
}
static bool is_huge(size_t n) { return n >= HALF - 4; }

static bool ref_isspace(uint8_t c) { return c == 0x20 || (c >= 0x09 && c <= 0x0D); }
static bool ref_isdigit(uint8_t c) { return c >= '0' && c <= '9'; }
static bool ref_isalpha(uint8_t c) { return ((c | 0x20) >= 'a' && (c | 0x20) <= 'z'); }
static bool ref_isalnum(uint8_t c) { return ref_isdigit(c) || ref_isalpha(c); }
static bool ref_isxdigit(uint8_t c) { return ref_isdigit(c) || ((c | 0x20) >= 'a' && (c | 0x20) <= 'f'); }
static bool pred_true(uint8_t) { return true; }
static bool pred_false(uint8_t) { return false; }
struct Pred {
    aws_byte_predicate_fn *lib;
    bool (*ref)(uint8_t);
    const char *name;
};
static bool ref_true(uint8_t) { return true; }
static bool ref_false(uint8_t) { return false; }
static const Pred PREDS[] = {{aws_isspace, ref_isspace, "isspace"}, {aws_isdigit, ref_isdigit, "isdigit"},
                             {aws_isalpha, ref_isalpha, "isalpha"}, {aws_isalnum, ref_isalnum, "isalnum"},
                             {aws_isxdigit, ref_isxdigit, "isxdigit"}, {pred_true, ref_true, "true"},
                             {pred_false, ref_false, "false"}};
static uint8_t ref_lower(uint8_t c) { return (c >= 'A' && c <= 'Z') ? (uint8_t)(c + 32) : c; }
static int sgn(int x) { return (x > 0) - (x < 0); }

static std::string lcg_bytes(size_t n, uint64_t seed, int flavour) {
    static const char text[] = " ;,ab\tAB09zf";
    std::string s(n, '\0');
    uint64_t x = seed * 6364136223846793005ull + 1442695040888963407ull;
    for (size_t i = 0; i < n; i++) {
        x = x * 6364136223846793005ull + 1442695040888963407ull;
        uint8_t r = (uint8_t)(x >> 33);
        s[i] = flavour == 0 ? (char)r : flavour == 1 ? text[r % (sizeof(text) - 1)] : "0123456789abcdefABCDEF"[r % 22];
    }
    return s;
}

// ---------------------------------------------------------------- the world: real objects + plain model
enum { K_ZERO, K_OWNED, K_STATIC };
enum { S_NONE, S_ARRAY, S_BUF };

struct Arena {
    uint8_t *raw;
    size_t cap;
};
struct Arr {
    uint8_t *p;
    size_t n;
    std::string orig;
};
struct BufSlot {
    struct aws_byte_buf b;
    int kind = K_ZERO;
    std::vector<uint8_t> store; // model of all `capacity` bytes
    size_t len = 0;
    uint8_t *ptr = nullptr;     // expected b.buffer
    struct aws_allocator *alloc = nullptr;
    size_t cap() const { return store.size(); }
    size_t avail() const { return store.size() - len; }
};
struct CurSlot {
    struct aws_byte_cursor c;
    int src = S_NONE;
    int idx = 0;
    size_t off = 0, len = 0;
    bool phantom = false;
};
struct Rel {
    void *p;
    size_t n;
    bool zero;
    std::string bytes;
};

struct World {
    Ctx &ctx;
    struct aws_allocator *A;
    BufSlot bufs[NB];
    CurSlot curs[NC];
    std::vector<Arena> arenas;
    std::vector<Arr> arrays;
    std::vector<Rel> rels;
    unsigned nfailed = 0, ngrow = 0, nalias = 0, nhuge = 0, nsecure = 0;
    const char *opname = "init";
    bool skip_snap = false;

    explicit World(Ctx &c) : ctx(c), A(nullptr) {
        for (auto &b : bufs) memset(&b.b, 0, sizeof b.b);
        for (auto &x : curs) memset(&x.c, 0, sizeof x.c);
        new_array("abcd"); // arrays[0]: base address of the locally built phantom cursors
    }
    ~World() {
        galloc::S().on_release = nullptr;
        for (auto &a : arenas) free(a.raw);
        for (auto &a : arrays) free(a.p);
        for (auto p : temps) free(p);
    }

    // ---- harness-owned memory
    int new_array(const std::string &s) {
        Arr a;
        a.n = s.size();
        a.p = (uint8_t *)malloc(a.n); // exact size: ASan sees every over-read; malloc(0) is a valid, unreadable pointer
        if (a.n) memcpy(a.p, s.data(), a.n);
        a.orig = s;
        arrays.push_back(a);
        return (int)arrays.size() - 1;
    }
    // scratch input of a single command (not part of the persistent state, hence not of the snapshot)
    std::vector<uint8_t *> temps;
    uint8_t *temp_array(const std::string &s) {
        uint8_t *p = (uint8_t *)malloc(s.size());
        if (!s.empty()) memcpy(p, s.data(), s.size());
        temps.push_back(p);
        return p;
    }
    int new_arena(size_t cap, uint64_t seed) {
        Arena a;
        a.cap = cap;
        a.raw = (uint8_t *)malloc(cap + 2 * G);
        memset(a.raw, 0xEE, cap + 2 * G);
        std::string fill = lcg_bytes(cap, seed, 0);
        if (cap) memcpy(a.raw + G, fill.data(), cap);
        arenas.push_back(a);
        return (int)arenas.size() - 1;
    }

    // ---- model views
    const uint8_t *cur_base(const CurSlot &x) const {
        if (x.src == S_ARRAY) return arrays[x.idx].p;
        if (x.src == S_BUF) return bufs[x.idx].ptr;
        return nullptr;
    }
    std::string view(const CurSlot &x) const { // model content of a non-phantom cursor
        if (x.src == S_ARRAY) return arrays[x.idx].orig.substr(x.off, x.len);
        if (x.src == S_BUF) return std::string((const char *)bufs[x.idx].store.data() + x.off, x.len);
        return std::string();
    }
    bool views_buf(const CurSlot &x, int slot) const { return x.src == S_BUF && x.idx == slot; }
    // a cursor may be appended to the buffer it points into only if it lies in the used part ("earlier in the buffer")
    bool append_alias_ok(const CurSlot &x, int slot) const { return !views_buf(x, slot) || x.off + x.len <= bufs[slot].len; }
    void set_null(CurSlot &x) {
        x.c.ptr = nullptr;
        x.c.len = 0;
        x.src = S_NONE;
        x.idx = 0;
        x.off = x.len = 0;
        x.phantom = false;
    }
    void invalidate_views(int slot) { // harness action: views into a block that was handed back are dropped
        for (auto &x : curs)
            if (views_buf(x, slot)) set_null(x);
    }
    void make_zero_slot(int i) {
        BufSlot &s = bufs[i];
        s.kind = K_ZERO;
        s.store.clear();
        s.len = 0;
        s.ptr = nullptr;
        s.alloc = nullptr;
    }
    // adopt an owned buffer after (re)allocation: bytes [0,expect.size()) are required, the rest is unspecified
    void adopt_owned(int i, const std::vector<uint8_t> &expect) {
        BufSlot &s = bufs[i];
        size_t cap = s.b.capacity;
        PBT_CHECK(cap >= expect.size(), "%s: capacity %zu smaller than the %zu bytes it must hold", opname, cap, expect.size());
        PBT_CHECK(cap <= 16 * MAXCAP + 4096, "%s: capacity %zu out of proportion", opname, cap);
        PBT_CHECK((s.b.buffer == nullptr) == (cap == 0), "%s: buffer NULL <=> capacity 0 violated (cap %zu)", opname, cap);
        if (cap) {
            size_t sz = 0;
            PBT_CHECK(galloc::is_live(s.b.buffer, &sz) && sz == cap, "%s: buffer is not a live block of exactly capacity bytes (cap %zu, block %zu)", opname, cap, sz);
        }
        s.kind = K_OWNED;
        s.alloc = A;
        s.ptr = s.b.buffer;
        s.store.assign(s.b.buffer, s.b.buffer + cap);
        std::copy(expect.begin(), expect.end(), s.store.begin());
        s.len = expect.size();
    }
    std::vector<uint8_t> used(int i) const { return std::vector<uint8_t>(bufs[i].store.begin(), bufs[i].store.begin() + bufs[i].len); }

    // ---- full snapshot: every struct, every byte of every backing store, the set of live blocks
    std::string snapshot() const {
        std::string s;
        for (auto &b : bufs) {
            s.append((const char *)&b.b, sizeof b.b);
            if (b.kind == K_OWNED && b.ptr) s.append((const char *)b.ptr, b.cap());
        }
        for (auto &x : curs) s.append((const char *)&x.c, sizeof x.c);
        for (auto &a : arenas) s.append((const char *)a.raw, a.cap + 2 * G);
        for (auto &a : arrays) s.append((const char *)a.p, a.n);
        {
            std::lock_guard<decltype(galloc::S().mu)> g(galloc::S().mu);
            for (auto &kv : galloc::S().live) {
                s.append((const char *)&kv.first, sizeof kv.first);
                s.append((const char *)&kv.second.size, sizeof kv.second.size);
            }
        }
        return s;
    }

    // ---- model comparison after every command
    void check_world() {
        size_t owned_blocks = 0;
        for (int i = 0; i < NB; i++) {
            BufSlot &s = bufs[i];
            PBT_CHECK(s.b.len <= s.b.capacity, "after %s: buf %d len %zu > capacity %zu", opname, i, s.b.len, s.b.capacity);
            PBT_CHECK((s.b.buffer == nullptr) == (s.b.capacity == 0), "after %s: buf %d buffer NULL <=> capacity 0 violated", opname, i);
            PBT_CHECK(aws_byte_buf_is_valid(&s.b), "after %s: buf %d not valid", opname, i);
            PBT_CHECK(s.b.len == s.len, "after %s: buf %d len %zu, model %zu", opname, i, s.b.len, s.len);
            PBT_CHECK(s.b.capacity == s.cap(), "after %s: buf %d capacity %zu, model %zu", opname, i, s.b.capacity, s.cap());
            PBT_CHECK(s.b.buffer == s.ptr, "after %s: buf %d storage pointer changed", opname, i);
            PBT_CHECK(s.b.allocator == s.alloc, "after %s: buf %d allocator field changed", opname, i);
            if (s.kind == K_OWNED && s.ptr) {
                size_t sz = 0;
                PBT_CHECK(galloc::is_live(s.ptr, &sz) && sz == s.cap(), "after %s: buf %d block not live / wrong size", opname, i);
                owned_blocks++;
            }
            for (size_t k = 0; k < s.cap(); k++)
                if (s.ptr[k] != s.store[k])
                    PBT_CHECK(false, "after %s: buf %d byte %zu is %02x, model %02x (%s; len %zu cap %zu)", opname, i, k, s.ptr[k], s.store[k],
                              k < s.len ? "previously written / expected content" : "unused tail must be untouched", s.len, s.cap());
        }
        for (auto &a : arenas)
            for (size_t k = 0; k < G; k++)
                PBT_CHECK(a.raw[k] == 0xEE && a.raw[G + a.cap + k] == 0xEE, "after %s: guard byte next to a static buffer overwritten", opname);
        for (auto &a : arrays) PBT_CHECK(a.n == 0 || memcmp(a.p, a.orig.data(), a.n) == 0, "after %s: a read-only source array was modified", opname);
        for (int i = 0; i < NC; i++) {
            CurSlot &x = curs[i];
            PBT_CHECK(x.c.len == x.len, "after %s: cursor %d len %zu, model %zu", opname, i, x.c.len, x.len);
            const uint8_t *base = cur_base(x);
            const uint8_t *want = base ? base + x.off : nullptr;
            PBT_CHECK(x.c.ptr == want, "after %s: cursor %d ptr is off by %td from the model", opname, i, (ptrdiff_t)((intptr_t)x.c.ptr - (intptr_t)want));
            if (!x.phantom && x.src == S_ARRAY) PBT_CHECK(x.off + x.len <= arrays[x.idx].n, "harness: cursor %d model outside its array", i);
            if (x.src == S_BUF) PBT_CHECK(x.off + x.len <= bufs[x.idx].cap(), "harness: cursor %d model outside its buffer", i);
            PBT_CHECK(aws_byte_cursor_is_valid(&x.c), "after %s: cursor %d not valid", opname, i);
        }
        const char *m = nullptr;
        PBT_CHECK(galloc::check_all(&m), "after %s: %s", opname, m ? m : "");
        PBT_CHECK(galloc::live_blocks() == owned_blocks, "after %s: %zu live blocks, %zu owned buffers", opname, galloc::live_blocks(), owned_blocks);
    }

    void step(const Op &op);
    // the families
    void op_cursor_ctor(const Op &op, int k);
    bool op_lifecycle(const Op &op, int k, bool &failed);
    bool op_append(const Op &op, int k, bool &failed, bool &partial);
    bool op_reserve(const Op &op, int k, bool &failed);
    bool op_write(const Op &op, int k, bool &failed);
    bool op_cursor_mut(const Op &op, int k, bool &failed);
    bool op_cursor_ro(const Op &op, int k, bool &failed, bool &partial);

    // release events since the start of the command
    void expect_one_release(void *oldptr, size_t oldcap, bool must_be_zero) {
        PBT_CHECK(rels.size() == 1 && rels[0].p == oldptr && rels[0].n == oldcap, "%s: expected exactly the old block (%zu bytes) to be released, saw %zu release(s)", opname,
                  oldcap, rels.size());
        if (must_be_zero) {
            PBT_CHECK(rels[0].zero, "%s: block handed back to the allocator was not zeroed over its full capacity (%zu bytes)", opname, oldcap);
            nsecure++;
        }
    }
};

void World::step(const Op &op) {
    int k = ((op.kind % NKINDS) + NKINDS) % NKINDS;
    rels.clear();
    aws_reset_error();
    if (k <= CUR_COPY) {
        opname = "cursor-ctor";
        op_cursor_ctor(op, k);
        check_world();
        return;
    }
    std::string before = snapshot();
    bool failed = false, partial = false, pure = false;
    opname = "?";
    skip_snap = false;
    if (k <= B_ZERO_RANGE) op_lifecycle(op, k, failed);
    else if (k <= B_APPEND_DYN_HUGE) op_append(op, k, failed, partial);
    else if (k <= B_RESERVE_REL_HUGE) op_reserve(op, k, failed);
    else if (k <= B_ADVANCE) op_write(op, k, failed);
    else if (k <= C_READ_FILL) op_cursor_mut(op, k, failed);
    else {
        op_cursor_ro(op, k, failed, partial);
        pure = true; // read-only commands (and create+destroy commands) leave every object as it was
    }
    if ((failed || pure) && !skip_snap)
        PBT_CHECK(snapshot() == before, "%s %s, but some buffer struct, cursor struct or byte of a backing store differs from the snapshot taken before the call",
                  opname, failed ? "reported failure" : "is read-only");
    if (failed || partial) {
        nfailed++;
        ctx.tag("failed_op");
    }
    check_world();
}

// ---------------------------------------------------------------- cursor constructors (harness side)
void World::op_cursor_ctor(const Op &op, int k) {
    CurSlot &x = curs[op.arg(0) % NC];
    switch (k) {
    case CUR_BYTES:
    case CUR_PATTERN: {
        std::string s;
        if (k == CUR_BYTES) s = op.b;
        else {
            size_t n = sel_size(op.arg(2), op.arg(3), bufs[op.arg(1) % NB].avail());
            if (is_huge(n)) n = (size_t)op.arg(3);
            if (n > 1300) n = 1300;
            s = lcg_bytes(n, op.arg(4), (int)(op.arg(4) % 3));
        }
        int ai = new_array(s);
        size_t n = s.size(), off = 0, len = n;
        if (k == CUR_BYTES && n > 0) switch (op.arg(1) % 4) {
            case 1: off = 1, len = n - 1; break;
            case 2: len = n - 1; break;
            case 3: off = op.arg(3) % n, len = (n - off) / 2; break;
            default: break;
            }
        x.c = aws_byte_cursor_from_array(arrays[ai].p + off, len);
        x.src = S_ARRAY, x.idx = ai, x.off = off, x.len = len, x.phantom = false;
        break;
    }
    case CUR_BUFVIEW: {
        int bi = (int)(op.arg(1) % NB);
        BufSlot &b = bufs[bi];
        if (!b.ptr) {
            set_null(x);
            break;
        }
        size_t off = 0, len = b.len, kk = (size_t)op.arg(3);
        switch (op.arg(2) % 4) {
        case 1: off = kk % (b.len + 1), len = b.len - off; break;
        case 2: len = kk % (b.len + 1); break;
        case 3: off = b.len / 2, len = (b.len - off) ? kk % (b.len - off + 1) : 0; break;
        default: break;
        }
        if (off == 0 && len == b.len) x.c = aws_byte_cursor_from_buf(&b.b);
        else x.c = aws_byte_cursor_from_array(b.ptr + off, len);
        x.src = S_BUF, x.idx = bi, x.off = off, x.len = len, x.phantom = false;
        ctx.tag("cursor_into_buffer");
        break;
    }
    case CUR_NULL: set_null(x); break;
    case CUR_PHANTOM: {
        int ai = (int)(op.arg(3) % arrays.size());
        size_t len = (op.arg(2) % 2) ? SIZE_MAX - (size_t)(op.arg(3) % 6) : HALF + 1 + (size_t)(op.arg(3) % 3);
        x.c.ptr = arrays[ai].p; // never dereferenced: only passed to operations that must reject by size
        x.c.len = len;
        x.src = S_ARRAY, x.idx = ai, x.off = 0, x.len = len, x.phantom = true;
        ctx.tag("phantom_cursor");
        break;
    }
    default: { // CUR_COPY
        CurSlot &y = curs[op.arg(1) % NC];
        if (&x == &y) break;
        x = y;
        if (!x.phantom && x.len > 0 && op.arg(2) % 2) { // narrowed, overlapping view
            size_t cut = (size_t)op.arg(3) % x.len;
            x.off += cut, x.len -= cut, x.c.ptr += cut, x.c.len -= cut;
        }
        break;
    }
    }
}

// ---------------------------------------------------------------- buffer life cycle
bool World::op_lifecycle(const Op &op, int k, bool &failed) {
    int i = (int)(op.arg(0) % NB);
    BufSlot &s = bufs[i];
    switch (k) {
    case B_INIT: {
        if (s.kind != K_ZERO) return false;
        opname = "aws_byte_buf_init";
        size_t cap = CAPS[op.arg(3) % NCAPS];
        memset(&s.b, 0x5A, sizeof s.b); // out-parameter: previous content is irrelevant
        int rc = aws_byte_buf_init(&s.b, A, cap);
        PBT_CHECK(rc == AWS_OP_SUCCESS, "init failed");
        PBT_CHECK(s.b.capacity == cap && s.b.len == 0 && s.b.allocator == A, "init: fields not set (cap %zu len %zu)", s.b.capacity, s.b.len);
        adopt_owned(i, {});
        return true;
    }
    case B_INIT_COPY: {
        int j = (int)(op.arg(1) % NB);
        if (s.kind != K_ZERO || j == i) return false;
        opname = "aws_byte_buf_init_copy";
        memset(&s.b, 0x5A, sizeof s.b);
        int rc = aws_byte_buf_init_copy(&s.b, A, &bufs[j].b);
        PBT_CHECK(rc == AWS_OP_SUCCESS, "init_copy failed");
        PBT_CHECK(s.b.allocator == A, "init_copy: allocator not set");
        PBT_CHECK(s.b.len == bufs[j].len, "init_copy: len %zu, source %zu", s.b.len, bufs[j].len);
        adopt_owned(i, used(j));
        return true;
    }
    case B_INIT_COPY_CURSOR: {
        CurSlot &x = curs[op.arg(1) % NC];
        if (s.kind != K_ZERO || x.phantom) return false;
        opname = "aws_byte_buf_init_copy_from_cursor";
        std::string v = view(x);
        memset(&s.b, 0x5A, sizeof s.b);
        int rc = aws_byte_buf_init_copy_from_cursor(&s.b, A, x.c);
        PBT_CHECK(rc == AWS_OP_SUCCESS, "init_copy_from_cursor failed");
        PBT_CHECK(s.b.len == v.size() && s.b.capacity == v.size() && s.b.allocator == A, "init_copy_from_cursor: len %zu cap %zu, source len %zu", s.b.len,
                  s.b.capacity, v.size());
        adopt_owned(i, std::vector<uint8_t>(v.begin(), v.end()));
        return true;
    }
    case B_INIT_CACHE: {
        if (s.kind != K_ZERO) return false;
        int c0 = (int)(op.arg(1) % NC), c1 = (int)(op.arg(2) % NC), c2 = (int)(op.arg(3) % NC);
        bool three = op.arg(4) % 2 && c2 != c0 && c2 != c1;
        if (c0 == c1 || curs[c0].phantom || curs[c1].phantom || (three && curs[c2].phantom)) return false;
        opname = "aws_byte_buf_init_cache_and_update_cursors";
        int order[3] = {c0, c1, c2};
        int n = three ? 3 : 2;
        std::vector<uint8_t> all;
        size_t offs[3];
        for (int q = 0; q < n; q++) {
            std::string v = view(curs[order[q]]);
            offs[q] = all.size();
            all.insert(all.end(), v.begin(), v.end());
        }
        if (all.size() > MAXCAP) return false;
        memset(&s.b, 0x5A, sizeof s.b);
        int rc = three ? aws_byte_buf_init_cache_and_update_cursors(&s.b, A, &curs[c0].c, &curs[c1].c, &curs[c2].c, NULL)
                       : aws_byte_buf_init_cache_and_update_cursors(&s.b, A, &curs[c0].c, &curs[c1].c, NULL);
        PBT_CHECK(rc == AWS_OP_SUCCESS, "init_cache_and_update_cursors failed");
        adopt_owned(i, all);
        for (int q = 0; q < n; q++) {
            CurSlot &x = curs[order[q]];
            size_t l = x.len;
            x.phantom = false;
            if (!s.ptr) x.src = S_NONE, x.idx = 0, x.off = 0, x.len = 0; // total length 0: documented NULL buffer, cursors get NULL
            else x.src = S_BUF, x.idx = i, x.off = offs[q], x.len = l;
        }
        ctx.tag("cursor_into_buffer");
        return true;
    }
    case B_INIT_CACHE_HUGE: {
        if (s.kind != K_ZERO) return false;
        opname = "aws_byte_buf_init_cache_and_update_cursors(total length overflows)";
        CurSlot &x = curs[op.arg(1) % NC];
        struct aws_byte_cursor p1, p2;
        p1.ptr = p2.ptr = arrays[0].p;
        p2.len = SIZE_MAX - (size_t)(op.arg(3) % 4);
        bool use_real = !x.phantom && x.len > 0 && op.arg(2) % 2;
        if (use_real) p2.len = SIZE_MAX - (size_t)(op.arg(3) % x.len); // real.len + p2.len > SIZE_MAX
        else p1.len = HALF + 1 + (size_t)(op.arg(3) % 3);
        struct aws_byte_cursor q1 = p1, q2 = p2;
        int rc = use_real ? aws_byte_buf_init_cache_and_update_cursors(&s.b, A, &x.c, &p2, NULL)
                          : aws_byte_buf_init_cache_and_update_cursors(&s.b, A, &p1, &p2, NULL);
        PBT_CHECK(rc == AWS_OP_ERR, "total cursor length exceeds SIZE_MAX but init_cache_and_update_cursors succeeded");
        PBT_CHECK(p2.ptr == q2.ptr && p2.len == q2.len && (use_real || (p1.ptr == q1.ptr && p1.len == q1.len)), "failed init_cache changed a cursor");
        failed = true;
        nhuge++;
        return true;
    }
    case B_FROM_ARRAY: {
        if (s.kind != K_ZERO) return false;
        size_t cap = CAPS[op.arg(3) % NCAPS];
        int mode = (int)(op.arg(1) % 3);
        int ai;
        if (mode == 2) {
            opname = "aws_byte_buf_from_c_str";
            ai = new_arena(cap + 1, op.arg(4));
            std::string t = lcg_bytes(cap, op.arg(4), 1);
            memcpy(arenas[ai].raw + G, t.c_str(), cap + 1);
            s.b = aws_byte_buf_from_c_str((const char *)arenas[ai].raw + G);
        } else {
            opname = mode ? "aws_byte_buf_from_array" : "aws_byte_buf_from_empty_array";
            ai = new_arena(cap, op.arg(4));
            s.b = mode ? aws_byte_buf_from_array(arenas[ai].raw + G, cap) : aws_byte_buf_from_empty_array(arenas[ai].raw + G, cap);
        }
        if (cap == 0) { // documented: a NULL buffer for a zero capacity
            make_zero_slot(i);
            return true;
        }
        s.kind = K_STATIC;
        s.alloc = nullptr;
        s.ptr = arenas[ai].raw + G;
        s.store.assign(s.ptr, s.ptr + cap);
        s.len = mode ? cap : 0;
        ctx.tag("static_buffer");
        return true;
    }
    case B_FROM_FILE: {
        if (s.kind != K_ZERO) return false;
        static const size_t FS[] = {0, 1, 5, 31, 32, 33, 100, 4095, 4096, 4097};
        size_t n = FS[op.arg(3) % 10];
        std::string content = lcg_bytes(n, op.arg(4), (int)(op.arg(4) % 2));
        char path[128];
        snprintf(path, sizeof path, "/tmp/verif-c01-%d.bin", (int)getpid());
        FILE *f = fopen(path, "wb");
        if (!f) return false;
        if (n) fwrite(content.data(), 1, n, f);
        fclose(f);
        memset(&s.b, 0x5A, sizeof s.b);
        int rc;
        if (op.arg(1) % 2) {
            opname = "aws_byte_buf_init_from_file_with_size_hint";
            static const size_t HS[] = {0, 1, 31, 32, 33, 4096};
            size_t hint = (op.arg(2) % 9) < 6 ? HS[op.arg(2) % 9] : n + (op.arg(2) % 9) - 7; // n-1, n, n+1
            if (hint > 8192) hint = 0;
            rc = aws_byte_buf_init_from_file_with_size_hint(&s.b, A, path, hint);
        } else {
            opname = "aws_byte_buf_init_from_file";
            rc = aws_byte_buf_init_from_file(&s.b, A, path);
        }
        unlink(path);
        PBT_CHECK(rc == AWS_OP_SUCCESS, "%s failed: %s", opname, aws_error_name(aws_last_error()));
        PBT_CHECK(s.b.len == n, "%s: len %zu, file has %zu bytes", opname, s.b.len, n);
        PBT_CHECK(s.b.capacity > n && s.b.buffer && s.b.buffer[n] == 0, "%s: no NUL terminator after the data inside the capacity", opname);
        PBT_CHECK(s.b.capacity <= 4 * MAXCAP, "%s: capacity %zu", opname, s.b.capacity);
        adopt_owned(i, std::vector<uint8_t>(content.begin(), content.end()));
        ctx.tag("from_file");
        return true;
    }
    case B_CLEAN_UP:
    case B_CLEAN_UP_SECURE: {
        bool secure = k == B_CLEAN_UP_SECURE;
        opname = secure ? "aws_byte_buf_clean_up_secure" : "aws_byte_buf_clean_up";
        uint8_t *oldptr = s.ptr;
        size_t oldcap = s.cap();
        int kind = s.kind;
        if (secure) aws_byte_buf_clean_up_secure(&s.b);
        else aws_byte_buf_clean_up(&s.b);
        if (kind == K_OWNED && oldptr) expect_one_release(oldptr, oldcap, secure);
        else PBT_CHECK(rels.empty(), "%s released a block it does not own", opname);
        if (kind == K_STATIC && secure) {
            PBT_CHECK(aws_is_mem_zeroed(oldptr, oldcap), "clean_up_secure did not zero the (borrowed) storage");
            nsecure++;
        } else if (kind == K_STATIC)
            PBT_CHECK(memcmp(oldptr, s.store.data(), oldcap) == 0, "clean_up modified borrowed storage");
        invalidate_views(i);
        make_zero_slot(i);
        return true;
    }
    case B_RESET:
    case B_SECURE_ZERO: {
        bool zero = k == B_SECURE_ZERO || op.arg(1) % 2;
        opname = k == B_SECURE_ZERO ? "aws_byte_buf_secure_zero" : zero ? "aws_byte_buf_reset(zero)" : "aws_byte_buf_reset";
        if (k == B_SECURE_ZERO) aws_byte_buf_secure_zero(&s.b);
        else aws_byte_buf_reset(&s.b, zero);
        s.len = 0;
        if (zero) std::fill(s.store.begin(), s.store.end(), 0);
        return true;
    }
    default: { // B_ZERO_RANGE: aws_secure_zero on part of a buffer's storage
        opname = "aws_secure_zero";
        if (!s.ptr) {
            aws_secure_zero(nullptr, 0);
            return true;
        }
        size_t off = (size_t)op.arg(3) % (s.cap() + 1);
        size_t n = sel_size(op.arg(2), op.arg(3), s.cap() - off);
        if (n > s.cap() - off) n = s.cap() - off;
        aws_secure_zero(s.ptr + off, n);
        std::fill(s.store.begin() + off, s.store.begin() + off + n, 0);
        return true;
    }
    }
}

// ---------------------------------------------------------------- append family
static const uint8_t *custom_table() {
    static uint8_t t[256];
    static bool init = false;
    if (!init) {
        for (int i = 0; i < 256; i++) t[i] = (uint8_t)((i * 7 + 3) ^ 0x5A);
        init = true;
    }
    return t;
}
static uint8_t ref_hexnum(uint8_t c) {
    if (c >= '0' && c <= '9') return (uint8_t)(c - '0');
    if (c >= 'a' && c <= 'f') return (uint8_t)(c - 'a' + 10);
    if (c >= 'A' && c <= 'F') return (uint8_t)(c - 'A' + 10);
    return 255;
}
static uint8_t ref_table(int which, uint8_t c) { return which == 0 ? ref_lower(c) : which == 1 ? ref_hexnum(c) : (uint8_t)((c * 7 + 3) ^ 0x5A); }
static const uint8_t *lib_table(int which) { return which == 0 ? aws_lookup_table_to_lower_get() : which == 1 ? aws_lookup_table_hex_to_num_get() : custom_table(); }

bool World::op_append(const Op &op, int k, bool &failed, bool &partial) {
    int i = (int)(op.arg(0) % NB);
    BufSlot &s = bufs[i];
    // explicit self-aliasing variant: the source is a temporary view of the destination's own used bytes
    CurSlot selfv, *xp = &curs[op.arg(1) % NC];
    bool self = false;
    if (op.arg(1) % 8 >= 6 && s.ptr && (k == B_APPEND || k == B_APPEND_DYN || k == B_APPEND_DYN_SECURE || k == B_APPEND_UPDATE)) {
        size_t off = op.arg(1) % 8 == 6 ? 0 : (size_t)(op.arg(4) % (s.len + 1));
        selfv.src = S_BUF, selfv.idx = i, selfv.off = off, selfv.len = s.len - off;
        selfv.c = off == 0 ? aws_byte_cursor_from_buf(&s.b) : aws_byte_cursor_from_array(s.ptr + off, s.len - off);
        xp = &selfv, self = true;
    }
    CurSlot &x = *xp;
    // a local copy of the slot's cursor, possibly narrowed to a length chosen relative to the free space
    struct aws_byte_cursor t = x.c;
    if (!x.phantom && op.arg(3) % 3 != 0) {
        size_t want = sel_size(op.arg(2), op.arg(3), s.avail());
        if (want < t.len) t.len = want;
    }
    const struct aws_byte_cursor t0 = t;
    auto content_of = [&]() { return x.phantom ? std::string() : view(x).substr(0, t.len); };
    auto put = [&](const std::string &c) {
        std::copy(c.begin(), c.end(), s.store.begin() + s.len);
        s.len += c.size();
    };
    // shared by the four growing appends
    auto dyn_append = [&](const std::string &c, bool secure, const std::function<int()> &call) -> bool {
        bool fits = s.avail() >= c.size();
        if (!fits && s.len + c.size() > MAXCAP) return false;
        uint8_t *oldptr = s.ptr;
        size_t oldcap = s.cap();
        std::vector<uint8_t> expect = used(i);
        expect.insert(expect.end(), c.begin(), c.end());
        int rc = call();
        if (s.kind != K_OWNED) { // no allocator: cannot grow
            if (rc == AWS_OP_SUCCESS) {
                PBT_CHECK(fits, "%s grew a buffer that has no allocator", opname);
                put(c);
            } else
                failed = true;
            return true;
        }
        PBT_CHECK(rc == AWS_OP_SUCCESS, "%s failed: %s", opname, aws_error_name(aws_last_error()));
        if (fits && s.b.buffer == oldptr) {
            PBT_CHECK(rels.empty(), "%s released a block although the data fit", opname);
            put(c);
        } else {
            PBT_CHECK(!fits || s.b.capacity >= oldcap, "%s shrank the buffer", opname);
            if (oldptr) expect_one_release(oldptr, oldcap, secure);
            else PBT_CHECK(rels.empty(), "%s: unexpected release", opname);
            invalidate_views(i);
            adopt_owned(i, expect);
            ngrow++;
            ctx.tag(secure ? "grow_secure" : "grow");
        }
        return true;
    };

    switch (k) {
    case B_APPEND:
    case B_APPEND_LOOKUP: {
        int which = (int)(op.arg(4) % 3);
        if (k == B_APPEND_LOOKUP && x.src == S_BUF && views_buf(x, i)) return false; // overlap is documented as not handled
        if (!append_alias_ok(x, i)) return false;
        opname = k == B_APPEND ? "aws_byte_buf_append" : "aws_byte_buf_append_with_lookup";
        std::string c = content_of();
        if (k == B_APPEND_LOOKUP)
            for (auto &ch : c) ch = (char)ref_table(which, (uint8_t)ch);
        bool fits = !x.phantom && s.avail() >= t.len;
        int rc = k == B_APPEND ? aws_byte_buf_append(&s.b, &t) : aws_byte_buf_append_with_lookup(&s.b, &t, lib_table(which));
        PBT_CHECK(t.ptr == t0.ptr && t.len == t0.len, "%s modified its (const) source cursor", opname);
        if (fits) {
            PBT_CHECK(rc == AWS_OP_SUCCESS, "%s of %zu bytes into %zu free bytes failed", opname, t.len, s.avail());
            put(c);
            if (views_buf(x, i) && t.len) nalias++, ctx.tag("alias_append_self");
        } else {
            PBT_CHECK(rc == AWS_OP_ERR, "%s of %zu bytes into %zu free bytes succeeded", opname, t.len, s.avail());
            PBT_CHECK(aws_last_error() == AWS_ERROR_DEST_COPY_TOO_SMALL, "%s: error %s, documented AWS_ERROR_DEST_COPY_TOO_SMALL", opname, aws_error_name(aws_last_error()));
            failed = true;
            if (x.phantom) nhuge++;
        }
        return true;
    }
    case B_APPEND_DYN:
    case B_APPEND_DYN_SECURE: {
        bool secure = k == B_APPEND_DYN_SECURE;
        if (x.phantom || !append_alias_ok(x, i)) return false;
        opname = secure ? "aws_byte_buf_append_dynamic_secure" : "aws_byte_buf_append_dynamic";
        bool alias = views_buf(x, i) && t.len;
        bool ran = dyn_append(content_of(), secure,
                              [&] { return secure ? aws_byte_buf_append_dynamic_secure(&s.b, &t) : aws_byte_buf_append_dynamic(&s.b, &t); });
        if (ran) PBT_CHECK(t.ptr == t0.ptr && t.len == t0.len, "%s modified its (const) source cursor", opname);
        if (ran && alias && !failed) nalias++, ctx.tag("alias_append_self");
        return ran;
    }
    case B_APPEND_BYTE_DYN:
    case B_APPEND_BYTE_DYN_SECURE: {
        bool secure = k == B_APPEND_BYTE_DYN_SECURE;
        opname = secure ? "aws_byte_buf_append_byte_dynamic_secure" : "aws_byte_buf_append_byte_dynamic";
        uint8_t v = (uint8_t)op.arg(4);
        return dyn_append(std::string(1, (char)v), secure,
                          [&] { return secure ? aws_byte_buf_append_byte_dynamic_secure(&s.b, v) : aws_byte_buf_append_byte_dynamic(&s.b, v); });
    }
    case B_APPEND_NUL:
        opname = "aws_byte_buf_append_null_terminator";
        return dyn_append(std::string(1, '\0'), false, [&] { return aws_byte_buf_append_null_terminator(&s.b); });
    case B_APPEND_UPDATE: {
        if (!append_alias_ok(x, i)) return false;
        opname = "aws_byte_buf_append_and_update";
        std::string c = x.phantom ? std::string() : view(x);
        bool fits = !x.phantom && s.avail() >= x.len;
        bool alias = views_buf(x, i) && x.len;
        size_t oldlen = s.len;
        const struct aws_byte_cursor before = x.c;
        int rc = aws_byte_buf_append_and_update(&s.b, &x.c);
        if (self) PBT_CHECK(x.c.len == before.len && x.c.ptr == (fits ? s.ptr + oldlen : before.ptr), "%s: cursor not %s", opname, fits ? "moved to the copy" : "left unchanged");
        if (fits) {
            PBT_CHECK(rc == AWS_OP_SUCCESS, "%s of %zu bytes into %zu free bytes failed", opname, x.len, s.avail());
            put(c);
            if (s.ptr) x.src = S_BUF, x.idx = i, x.off = oldlen; // the cursor now references the copy inside the buffer
            else x.src = S_NONE, x.idx = 0, x.off = 0;
            if (alias) nalias++, ctx.tag("alias_append_self");
            ctx.tag("cursor_into_buffer");
        } else {
            PBT_CHECK(rc == AWS_OP_ERR && aws_last_error() == AWS_ERROR_DEST_COPY_TOO_SMALL, "%s of %zu bytes into %zu free bytes: rc %d error %s", opname, x.len,
                      s.avail(), rc, aws_error_name(aws_last_error()));
            failed = true;
            if (x.phantom) nhuge++;
        }
        return true;
    }
    case B_CAT: {
        opname = "aws_byte_buf_cat";
        int n = 2 + (int)(op.arg(4) % 3);
        int src[4] = {(int)(op.arg(1) % NB), (int)(op.arg(2) % NB), (int)(op.arg(3) % NB), (int)(op.arg(1) / 3 % NB)};
        bool alias = false;
        for (int q = 0; q < n; q++) alias |= src[q] == i && bufs[i].len > 0;
        int rc = n == 2   ? aws_byte_buf_cat(&s.b, 2, &bufs[src[0]].b, &bufs[src[1]].b)
                 : n == 3 ? aws_byte_buf_cat(&s.b, 3, &bufs[src[0]].b, &bufs[src[1]].b, &bufs[src[2]].b)
                          : aws_byte_buf_cat(&s.b, 4, &bufs[src[0]].b, &bufs[src[1]].b, &bufs[src[2]].b, &bufs[src[3]].b);
        // documented to stop part-way: what was appended is the longest prefix of the argument list that fits
        bool ok = true;
        size_t appended = 0;
        for (int q = 0; q < n && ok; q++) {
            std::vector<uint8_t> c = used(src[q]);
            if (s.avail() < c.size()) ok = false;
            else {
                std::copy(c.begin(), c.end(), s.store.begin() + s.len);
                s.len += c.size();
                appended += c.size();
            }
        }
        if (ok) PBT_CHECK(rc == AWS_OP_SUCCESS, "cat of buffers that fit failed");
        else {
            PBT_CHECK(rc == AWS_OP_ERR && aws_last_error() == AWS_ERROR_DEST_COPY_TOO_SMALL, "cat beyond capacity: rc %d error %s", rc, aws_error_name(aws_last_error()));
            if (appended) partial = true, ctx.tag("cat_stopped_part_way");
            else failed = true;
        }
        if (alias) nalias++, ctx.tag("alias_cat_self");
        return true;
    }
    default: { // B_APPEND_DYN_HUGE: len + from.len overflows size_t, must be refused before any allocation
        if (s.kind != K_OWNED || s.len == 0) return false;
        bool secure = op.arg(2) % 2;
        opname = secure ? "aws_byte_buf_append_dynamic_secure(huge)" : "aws_byte_buf_append_dynamic(huge)";
        struct aws_byte_cursor p;
        bool use_slot = x.phantom && x.len > SIZE_MAX - s.len;
        if (use_slot) p = x.c;
        else p.ptr = arrays[0].p, p.len = SIZE_MAX - (size_t)(op.arg(3) % s.len);
        const struct aws_byte_cursor p0 = p;
        int rc = secure ? aws_byte_buf_append_dynamic_secure(&s.b, &p) : aws_byte_buf_append_dynamic(&s.b, &p);
        PBT_CHECK(rc == AWS_OP_ERR, "%s: size overflow not reported", opname);
        PBT_CHECK(p.ptr == p0.ptr && p.len == p0.len, "%s modified its source cursor", opname);
        failed = true;
        nhuge++;
        return true;
    }
    }
}

// ---------------------------------------------------------------- reserve family
bool World::op_reserve(const Op &op, int k, bool &failed) {
    int i = (int)(op.arg(0) % NB);
    BufSlot &s = bufs[i];
    if (k == B_RESERVE_REL_HUGE) { // len + additional overflows: must be refused by the checked add
        if (s.len == 0) return false;
        bool smart = op.arg(1) % 2;
        opname = smart ? "aws_byte_buf_reserve_smart_relative(huge)" : "aws_byte_buf_reserve_relative(huge)";
        size_t add = SIZE_MAX - (size_t)(op.arg(3) % s.len);
        int rc = smart ? aws_byte_buf_reserve_smart_relative(&s.b, add) : aws_byte_buf_reserve_relative(&s.b, add);
        PBT_CHECK(rc == AWS_OP_ERR, "%s: len %zu + %zu overflows but no error was reported", opname, s.len, add);
        failed = true;
        nhuge++;
        return true;
    }
    bool rel = k == B_RESERVE_REL || k == B_RESERVE_SMART_REL, smart = k == B_RESERVE_SMART || k == B_RESERVE_SMART_REL;
    size_t arg = sel_size(op.arg(2), op.arg(3), rel ? s.avail() : s.cap());
    if (is_huge(arg)) arg = (rel ? s.avail() : s.cap()) + (size_t)op.arg(3);
    size_t req = rel ? s.len + arg : arg;
    if (req > MAXCAP) return false;
    opname = k == B_RESERVE ? "aws_byte_buf_reserve" : k == B_RESERVE_REL ? "aws_byte_buf_reserve_relative" : k == B_RESERVE_SMART ? "aws_byte_buf_reserve_smart" : "aws_byte_buf_reserve_smart_relative";
    uint8_t *oldptr = s.ptr;
    size_t oldcap = s.cap();
    int rc = k == B_RESERVE ? aws_byte_buf_reserve(&s.b, arg) : k == B_RESERVE_REL ? aws_byte_buf_reserve_relative(&s.b, arg) : k == B_RESERVE_SMART ? aws_byte_buf_reserve_smart(&s.b, arg) : aws_byte_buf_reserve_smart_relative(&s.b, arg);
    if (s.kind != K_OWNED) { // no allocator: the capacity cannot change
        if (rc == AWS_OP_SUCCESS) PBT_CHECK(req <= oldcap, "%s reported success on a buffer without allocator that is too small", opname);
        else failed = true;
        return true;
    }
    PBT_CHECK(rc == AWS_OP_SUCCESS, "%s(%zu) failed: %s", opname, arg, aws_error_name(aws_last_error()));
    if (req <= oldcap) {
        PBT_CHECK(s.b.capacity == oldcap && s.b.buffer == oldptr && rels.empty(), "%s with a request below the capacity changed the buffer (cap %zu -> %zu)", opname, oldcap,
                  s.b.capacity);
        return true;
    }
    if (!smart) PBT_CHECK(s.b.capacity == req, "%s: capacity %zu, requested %zu", opname, s.b.capacity, req);
    else PBT_CHECK(s.b.capacity >= req, "%s: capacity %zu below the request %zu", opname, s.b.capacity, req);
    if (oldptr) expect_one_release(oldptr, oldcap, false);
    if (s.b.buffer != oldptr) invalidate_views(i);
    adopt_owned(i, used(i));
    ngrow++;
    ctx.tag("grow_reserve");
    return true;
}

// ---------------------------------------------------------------- write family
static std::string be_bytes(uint64_t v, int n) {
    std::string s;
    for (int q = n - 1; q >= 0; q--) s.push_back((char)(v >> (8 * q)));
    return s;
}
// a size argument: relative to the free space, or next to SIZE_MAX such that len + n wraps to a small number
static size_t size_arg(const Op &op, size_t avail, size_t len) {
    if (op.arg(2) % 12 == 8) return SIZE_MAX - (size_t)(op.arg(3) % (len + 1));
    return sel_size(op.arg(2), op.arg(3), avail);
}

bool World::op_write(const Op &op, int k, bool &failed) {
    int i = (int)(op.arg(0) % NB);
    BufSlot &s = bufs[i];
    CurSlot &x = curs[op.arg(1) % NC];
    auto put = [&](const std::string &c) {
        std::copy(c.begin(), c.end(), s.store.begin() + s.len);
        s.len += c.size();
    };
    // all fixed-content writes: success iff the bytes fit (an empty write always succeeds)
    auto fixed = [&](const std::string &c, bool rv, bool extra_reject = false) {
        bool ok = !extra_reject && (c.empty() || s.avail() >= c.size());
        if (ok) {
            PBT_CHECK(rv, "%s of %zu bytes into %zu free bytes returned false", opname, c.size(), s.avail());
            put(c);
        } else {
            PBT_CHECK(!rv, "%s of %zu bytes into %zu free bytes returned true", opname, c.size(), s.avail());
            failed = true;
        }
        return true;
    };
    uint64_t v = op.arg(4);
    switch (k) {
    case B_WRITE:
    case B_WRITE_WHOLE_CURSOR: {
        if (views_buf(x, i)) return false; // restrict-qualified parameters: no aliasing
        opname = k == B_WRITE ? "aws_byte_buf_write" : "aws_byte_buf_write_from_whole_cursor";
        struct aws_byte_cursor t = x.c;
        bool huge = x.phantom;
        if (!x.phantom && t.ptr && op.arg(3) % 7 == 0) { // a real pointer with an absurd length: must be refused before copying
            t.len = op.arg(2) % 3 == 0 ? SIZE_MAX - (size_t)(v % (s.len + 1)) : op.arg(2) % 3 == 1 ? HALF + 1 + (size_t)(v % 3) : HALF - (size_t)(v % 2);
            huge = true;
        } else if (!x.phantom && op.arg(3) % 3 != 0) {
            size_t want = sel_size(op.arg(2), op.arg(3), s.avail());
            if (!is_huge(want) && want < t.len) t.len = want;
        }
        bool rv = k == B_WRITE ? aws_byte_buf_write(&s.b, t.ptr, t.len) : aws_byte_buf_write_from_whole_cursor(&s.b, t);
        if (huge) {
            PBT_CHECK(!rv, "%s with length %zu (>= SIZE_MAX/2 - 1) returned true", opname, t.len);
            failed = true;
            nhuge++;
            return true;
        }
        return fixed(view(x).substr(0, t.len), rv);
    }
    case B_WRITE_U8:
        opname = "aws_byte_buf_write_u8";
        return fixed(std::string(1, (char)v), aws_byte_buf_write_u8(&s.b, (uint8_t)v));
    case B_WRITE_U8_N: {
        opname = "aws_byte_buf_write_u8_n";
        size_t n = size_arg(op, s.avail(), s.len);
        bool rv = aws_byte_buf_write_u8_n(&s.b, (uint8_t)v, n);
        if (is_huge(n) || n > s.avail()) {
            PBT_CHECK(!rv, "write_u8_n count %zu into %zu free bytes returned true", n, s.avail());
            failed = true;
            if (is_huge(n)) nhuge++;
            return true;
        }
        return fixed(std::string(n, (char)v), rv);
    }
    case B_WRITE_BE16: opname = "aws_byte_buf_write_be16"; return fixed(be_bytes(v & 0xFFFF, 2), aws_byte_buf_write_be16(&s.b, (uint16_t)v));
    case B_WRITE_BE24:
        opname = "aws_byte_buf_write_be24";
        return fixed(be_bytes(v & 0xFFFFFF, 3), aws_byte_buf_write_be24(&s.b, (uint32_t)v), /*value does not fit 3 bytes*/ (uint32_t)v > 0xFFFFFF);
    case B_WRITE_BE32: opname = "aws_byte_buf_write_be32"; return fixed(be_bytes(v & 0xFFFFFFFFull, 4), aws_byte_buf_write_be32(&s.b, (uint32_t)v));
    case B_WRITE_BE64: opname = "aws_byte_buf_write_be64"; return fixed(be_bytes(v, 8), aws_byte_buf_write_be64(&s.b, v));
    case B_WRITE_F32: {
        opname = "aws_byte_buf_write_float_be32";
        uint32_t bits = (uint32_t)v;
        if ((bits & 0x7F800000u) == 0x7F800000u) bits &= 0xFF800000u; // no NaN payloads: only byte order is under test
        float f;
        memcpy(&f, &bits, 4);
        return fixed(be_bytes(bits, 4), aws_byte_buf_write_float_be32(&s.b, f));
    }
    case B_WRITE_F64: {
        opname = "aws_byte_buf_write_float_be64";
        uint64_t bits = v;
        if ((bits & 0x7FF0000000000000ull) == 0x7FF0000000000000ull) bits &= 0xFFF0000000000000ull;
        double d;
        memcpy(&d, &bits, 8);
        return fixed(be_bytes(bits, 8), aws_byte_buf_write_float_be64(&s.b, d));
    }
    case B_WRITE_WHOLE_BUF: {
        int j = (int)(op.arg(1) % NB);
        if (j == i) return false;
        opname = "aws_byte_buf_write_from_whole_buffer";
        std::vector<uint8_t> c = used(j);
        return fixed(std::string(c.begin(), c.end()), aws_byte_buf_write_from_whole_buffer(&s.b, bufs[j].b));
    }
    case B_WRITE_WHOLE_STRING: {
        opname = "aws_byte_buf_write_from_whole_string";
        struct aws_string *str = aws_string_new_from_array(A, (const uint8_t *)op.b.data(), op.b.size());
        PBT_CHECK(str && str->len == op.b.size() && memcmp(aws_string_bytes(str), op.b.data(), op.b.size()) == 0 && aws_string_bytes(str)[op.b.size()] == 0,
                  "aws_string_new_from_array: content");
        bool rv = aws_byte_buf_write_from_whole_string(&s.b, str);
        rels.clear();
        if (op.arg(1) % 2) {
            aws_string_destroy_secure(str);
            PBT_CHECK(rels.size() == 1 && rels[0].p == (void *)str, "destroy_secure: expected one release");
            size_t o = offsetof(struct aws_string, bytes);
            PBT_CHECK(rels[0].bytes.size() >= o + op.b.size() && aws_is_mem_zeroed(rels[0].bytes.data() + o, op.b.size()),
                      "aws_string_destroy_secure handed the string back without zeroing its %zu bytes", op.b.size());
            nsecure++;
        } else
            aws_string_destroy(str);
        return fixed(op.b, rv);
    }
    case B_WRITE_TO_CAP: {
        if (x.phantom || views_buf(x, i)) return false;
        opname = "aws_byte_buf_write_to_capacity";
        size_t n = std::min(s.avail(), x.len);
        std::string c = view(x).substr(0, n);
        const uint8_t *oldp = x.c.ptr;
        struct aws_byte_cursor w = aws_byte_buf_write_to_capacity(&s.b, &x.c);
        PBT_CHECK(w.len == n, "write_to_capacity returned a cursor of %zu bytes, %zu expected (free %zu, source %zu)", w.len, n, s.avail(), x.len);
        if (n) PBT_CHECK(w.ptr == oldp, "write_to_capacity: returned cursor does not start at the old position of the source");
        put(c);
        x.off += n, x.len -= n;
        return true;
    }
    default: { // B_ADVANCE
        opname = "aws_byte_buf_advance";
        size_t n = size_arg(op, s.avail(), s.len);
        struct aws_byte_buf out;
        memset(&out, 0, sizeof out);
        size_t oldlen = s.len;
        bool rv = aws_byte_buf_advance(&s.b, &out, n);
        if (n <= s.avail()) {
            PBT_CHECK(rv, "buf_advance(%zu) with %zu free bytes returned false", n, s.avail());
            PBT_CHECK(out.len == 0 && out.capacity == n && out.allocator == nullptr && out.buffer == (n ? s.ptr + oldlen : nullptr), "buf_advance: sub-buffer fields wrong");
            s.len += n;
            PBT_CHECK(aws_byte_buf_write_u8_n(&out, (uint8_t)v, n), "filling the sub-buffer failed");
            std::fill(s.store.begin() + oldlen, s.store.begin() + oldlen + n, (uint8_t)v);
            PBT_CHECK(!aws_byte_buf_write_u8(&out, 1) && out.len == n, "write into a full sub-buffer succeeded");
        } else {
            PBT_CHECK(!rv, "buf_advance(%zu) with %zu free bytes returned true", n, s.avail());
            PBT_CHECK(out.len == 0 && out.capacity == 0 && out.buffer == nullptr && out.allocator == nullptr, "buf_advance: *output not nulled on failure");
            failed = true;
            if (is_huge(n)) nhuge++;
        }
        return true;
    }
    }
}

// ---------------------------------------------------------------- cursor commands that move the cursor
static uint64_t be_value(const std::string &s, size_t n) {
    uint64_t v = 0;
    for (size_t q = 0; q < n; q++) v = (v << 8) | (uint8_t)s[q];
    return v;
}

bool World::op_cursor_mut(const Op &op, int k, bool &failed) {
    CurSlot &x = curs[op.arg(0) % NC];
    size_t n = sel_size(op.arg(2), op.arg(3), x.phantom ? 4 : x.len);
    const uint8_t *oldp = x.c.ptr;
    auto moved = [&](size_t by) { x.off += by, x.len -= by; };
    auto short_read = [&](size_t need) {
        failed = true;
        if (x.phantom || is_huge(need)) nhuge++;
        ctx.tag("short_read");
    };
    switch (k) {
    case C_ADVANCE:
    case C_ADVANCE_NOSPEC: {
        opname = k == C_ADVANCE ? "aws_byte_cursor_advance" : "aws_byte_cursor_advance_nospec";
        struct aws_byte_cursor r = k == C_ADVANCE ? aws_byte_cursor_advance(&x.c, n) : aws_byte_cursor_advance_nospec(&x.c, n);
        if (!x.phantom && n <= x.len) {
            PBT_CHECK(r.len == n && r.ptr == oldp, "%s(%zu) on %zu bytes: returned cursor is not the first %zu bytes (len %zu)", opname, n, x.len, n, r.len);
            moved(n);
        } else {
            PBT_CHECK(r.ptr == nullptr && r.len == 0, "%s(%zu) on %zu bytes did not return the empty cursor", opname, n, x.len);
            short_read(n);
        }
        return true;
    }
    case C_READ: {
        opname = "aws_byte_cursor_read";
        bool ok = n == 0 || (!x.phantom && n <= x.len);
        size_t dn = ok ? n : (is_huge(n) ? 4 : std::min<size_t>(n, 2048));
        if (!ok && !is_huge(n) && n > 2048) return false;
        std::unique_ptr<uint8_t, void (*)(void *)> dest((uint8_t *)malloc(dn ? dn : 1), free);
        memset(dest.get(), 0x77, dn ? dn : 1);
        std::string c = x.phantom ? std::string() : view(x).substr(0, std::min(n, x.len));
        bool rv = aws_byte_cursor_read(&x.c, dest.get(), n);
        if (ok) {
            PBT_CHECK(rv, "read(%zu) from %zu bytes returned false", n, x.len);
            PBT_CHECK(n == 0 || memcmp(dest.get(), c.data(), n) == 0, "read(%zu): destination differs from the cursor's bytes", n);
            moved(n);
        } else {
            PBT_CHECK(!rv, "read(%zu) from %zu bytes returned true", n, x.len);
            short_read(n);
        }
        return true;
    }
    case C_READ_HEX: {
        if (x.phantom) return false; // would legitimately read ptr[0..1]
        opname = "aws_byte_cursor_read_hex_u8";
        std::string c = view(x);
        uint8_t var = 0x77;
        bool rv = aws_byte_cursor_read_hex_u8(&x.c, &var);
        bool ok = c.size() >= 2 && ref_hexnum((uint8_t)c[0]) != 255 && ref_hexnum((uint8_t)c[1]) != 255;
        if (ok) {
            PBT_CHECK(rv && var == (uint8_t)(ref_hexnum((uint8_t)c[0]) * 16 + ref_hexnum((uint8_t)c[1])), "read_hex_u8: rv %d value %02x", (int)rv, var);
            moved(2);
        } else {
            PBT_CHECK(!rv, "read_hex_u8 accepted a short or non-hex input");
            failed = true;
            ctx.tag(c.size() >= 2 ? "bad_digit" : "short_read");
        }
        return true;
    }
    case C_READ_FILL: {
        int j = (int)(op.arg(1) % NB);
        BufSlot &d = bufs[j];
        if (views_buf(x, j)) return false; // restrict
        opname = "aws_byte_cursor_read_and_fill_buffer";
        size_t cap = d.cap();
        bool ok = cap == 0 || (!x.phantom && x.len >= cap);
        std::string c = ok && cap ? view(x).substr(0, cap) : std::string();
        bool rv = aws_byte_cursor_read_and_fill_buffer(&x.c, &d.b);
        if (ok) {
            PBT_CHECK(rv, "read_and_fill_buffer(%zu) from %zu bytes returned false", cap, x.len);
            std::copy(c.begin(), c.end(), d.store.begin());
            d.len = cap;
            moved(cap);
        } else {
            PBT_CHECK(!rv, "read_and_fill_buffer(%zu) from %zu bytes returned true", cap, x.len);
            short_read(cap);
        }
        return true;
    }
    default: {
        static const size_t W[] = {1, 2, 3, 4, 8, 4, 8};
        static const char *NM[] = {"read_u8", "read_be16", "read_be24", "read_be32", "read_be64", "read_float_be32", "read_float_be64"};
        int q = k - C_READ_U8;
        size_t w = W[q];
        opname = NM[q];
        bool ok = !x.phantom && x.len >= w;
        uint64_t want = ok ? be_value(view(x), w) : 0, got = 0;
        bool rv;
        switch (k) {
        case C_READ_U8: { uint8_t v = 0; rv = aws_byte_cursor_read_u8(&x.c, &v); got = v; break; }
        case C_READ_BE16: { uint16_t v = 0; rv = aws_byte_cursor_read_be16(&x.c, &v); got = v; break; }
        case C_READ_BE24: { uint32_t v = 0xFFFFFFFFu; rv = aws_byte_cursor_read_be24(&x.c, &v); got = v; break; }
        case C_READ_BE32: { uint32_t v = 0; rv = aws_byte_cursor_read_be32(&x.c, &v); got = v; break; }
        case C_READ_BE64: { uint64_t v = 0; rv = aws_byte_cursor_read_be64(&x.c, &v); got = v; break; }
        case C_READ_F32: {
            float f = 0;
            rv = aws_byte_cursor_read_float_be32(&x.c, &f);
            uint32_t b;
            memcpy(&b, &f, 4);
            got = b;
            if (f != f) got = want; // NaN payloads are not compared
            break;
        }
        default: {
            double f = 0;
            rv = aws_byte_cursor_read_float_be64(&x.c, &f);
            memcpy(&got, &f, 8);
            if (f != f) got = want;
            break;
        }
        }
        if (ok) {
            PBT_CHECK(rv && got == want, "%s: rv %d value %llx, expected %llx", opname, (int)rv, (unsigned long long)got, (unsigned long long)want);
            moved(w);
        } else {
            PBT_CHECK(!rv, "%s from %zu bytes returned true", opname, x.len);
            short_read(w);
        }
        return true;
    }
    }
}

// ---------------------------------------------------------------- read-only cursor commands
typedef std::vector<std::pair<size_t, size_t>> Pieces;
static Pieces ref_split(const std::string &s, char ch) {
    Pieces r;
    size_t start = 0;
    for (size_t q = 0; q < s.size(); q++)
        if (s[q] == ch) {
            r.push_back({start, q - start});
            start = q + 1;
        }
    r.push_back({start, s.size() - start});
    return r;
}
static std::string lower(std::string s) {
    for (auto &c : s) c = (char)ref_lower((uint8_t)c);
    return s;
}
static std::string until_nul(const std::string &s) { return std::string(s.c_str()); }
static std::string flip_case(std::string s) {
    for (auto &c : s)
        if (ref_isalpha((uint8_t)c)) c ^= 0x20;
    return s;
}
// 0 ok, 1 invalid, 2 overflow, 3 both (an implementation may report either)
static int ref_parse(const std::string &s, int base, uint64_t *out) {
    if (s.empty()) return 1;
    bool bad = false, over = false;
    unsigned __int128 v = 0;
    for (unsigned char c : s) {
        uint8_t d = ref_hexnum(c);
        if (d >= base) {
            bad = true;
            continue;
        }
        if (!over) {
            v = v * base + d;
            if (v > (unsigned __int128)UINT64_MAX) over = true;
        }
    }
    *out = (uint64_t)v;
    return bad && over ? 3 : bad ? 1 : over ? 2 : 0;
}

bool World::op_cursor_ro(const Op &op, int k, bool &failed, bool &partial) {
    CurSlot &x = curs[op.arg(0) % NC];
    CurSlot &y = curs[op.arg(1) % NC];
    auto split_char = [&](const std::string &c) -> char {
        static const char set[] = {';', ' ', ',', 'a', 0, (char)0xff, '\n'};
        if (!c.empty() && op.arg(4) % 4 == 0) return c[op.arg(3) % c.size()];
        return set[op.arg(3) % 7];
    };
    switch (k) {
    case C_NEXT_SPLIT: {
        if (x.phantom) return false;
        opname = "aws_byte_cursor_next_split";
        std::string c = view(x);
        char ch = split_char(c);
        Pieces want = ref_split(c, ch);
        struct aws_byte_cursor sub;
        memset(&sub, 0, sizeof sub);
        size_t cnt = 0;
        while (aws_byte_cursor_next_split(&x.c, ch, &sub)) {
            PBT_CHECK(cnt < want.size(), "next_split produced more than the %zu pieces of the input", want.size());
            PBT_CHECK(sub.len == want[cnt].second, "next_split piece %zu has length %zu, expected %zu", cnt, sub.len, want[cnt].second);
            if (x.c.ptr) PBT_CHECK(sub.ptr == x.c.ptr + want[cnt].first, "next_split piece %zu does not start at offset %zu of the input", cnt, want[cnt].first);
            cnt++;
        }
        PBT_CHECK(cnt == want.size(), "next_split stopped after %zu of %zu pieces", cnt, want.size());
        PBT_CHECK(sub.len == 0, "next_split: substr not empty after the last piece");
        if (want.size() > 1) ctx.tag("split_multi");
        return true;
    }
    case C_SPLIT: {
        if (x.phantom) return false;
        std::string c = view(x);
        char ch = split_char(c);
        static const size_t NS[] = {0, 0, 1, 2, 3, SIZE_MAX, HALF};
        size_t n = NS[op.arg(1) % 7];
        bool plain = op.arg(1) % 7 == 0;
        opname = plain ? "aws_byte_cursor_split_on_char" : "aws_byte_cursor_split_on_char_n";
        Pieces want = ref_split(c, ch);
        if (n > 0 && want.size() - 1 > n) { // the (n+1)th piece takes the rest of the input
            want.resize(n + 1);
            want[n].second = c.size() - want[n].first;
        }
        size_t lcap = op.arg(2) % 5; // 0: dynamic list (never fills), else a static list of 1..4 items
        size_t prefill = lcap ? op.arg(3) % (lcap + 1) : op.arg(3) % 3;
        struct aws_array_list list;
        std::unique_ptr<uint8_t, void (*)(void *)> mem((uint8_t *)malloc(lcap ? lcap * sizeof(struct aws_byte_cursor) : 1), free);
        if (lcap) aws_array_list_init_static(&list, mem.get(), lcap, sizeof(struct aws_byte_cursor));
        else PBT_CHECK(aws_array_list_init_dynamic(&list, A, op.arg(3) % 3, sizeof(struct aws_byte_cursor)) == AWS_OP_SUCCESS, "list init");
        struct aws_byte_cursor dummy = {12345, (uint8_t *)mem.get()};
        for (size_t q = 0; q < prefill; q++) PBT_CHECK(aws_array_list_push_back(&list, &dummy) == AWS_OP_SUCCESS, "prefill");
        const struct aws_byte_cursor in0 = x.c;
        int rc = plain ? aws_byte_cursor_split_on_char(&x.c, ch, &list) : aws_byte_cursor_split_on_char_n(&x.c, ch, n, &list);
        size_t room = lcap ? lcap - prefill : SIZE_MAX;
        size_t got = aws_array_list_length(&list);
        std::string err;
        if (want.size() <= room) {
            if (rc != AWS_OP_SUCCESS) err = "split into a list with enough room failed";
            else if (got != prefill + want.size()) err = fmt("split produced %zu pieces, expected %zu", got - prefill, want.size());
        } else { // documented to stop part-way: the list holds the first pieces, up to its capacity
            if (rc != AWS_OP_ERR) err = "split into a list that fills up reported success";
            else if (got != lcap) err = fmt("list of capacity %zu holds %zu items after a failed split", lcap, got);
            partial = true;
            ctx.tag("split_list_full");
        }
        for (size_t q = 0; err.empty() && q < got; q++) {
            struct aws_byte_cursor it;
            aws_array_list_get_at(&list, &it, q);
            if (q < prefill) {
                if (it.len != 12345 || it.ptr != mem.get()) err = "an item that was already in the list was modified";
                continue;
            }
            auto &w = want[q - prefill];
            if (it.len != w.second || (in0.ptr && it.ptr != in0.ptr + w.first)) err = fmt("piece %zu is (offset %td, len %zu), expected (%zu, %zu)", q - prefill, in0.ptr ? it.ptr - in0.ptr : 0, it.len, w.first, w.second);
        }
        // the input is const in the signature; the header says it is advanced past the last processed separator when the list is too small
        if (err.empty() && !(x.c.ptr == in0.ptr && x.c.len == in0.len)) {
            bool doc = partial && in0.ptr && x.c.ptr >= in0.ptr && x.c.ptr <= in0.ptr + in0.len && x.c.len == (size_t)(in0.ptr + in0.len - x.c.ptr);
            if (!doc) err = "split changed its input cursor";
            else x.off += (size_t)(x.c.ptr - in0.ptr), x.len = x.c.len, skip_snap = true;
        }
        if (!lcap) aws_array_list_clean_up(&list);
        PBT_CHECK(err.empty(), "%s: %s", opname, err.c_str());
        if (want.size() > 1) ctx.tag("split_multi");
        return true;
    }
    case C_FIND: {
        if (x.phantom) return false;
        opname = "aws_byte_cursor_find_exact";
        std::string hay = view(x), needle;
        struct aws_byte_cursor nc;
        bool huge = false;
        if (op.arg(2) % 2) {
            needle = op.arg(2) % 4 == 1 && !hay.empty() ? hay.substr(op.arg(3) % hay.size(), 1 + op.arg(4) % 4) : op.b;
            nc = aws_byte_cursor_from_array(temp_array(needle), needle.size());
        } else {
            nc = y.c;
            huge = y.phantom;
            if (!huge) needle = view(y);
        }
        struct aws_byte_cursor found = {777, nullptr};
        int rc = aws_byte_cursor_find_exact(&x.c, &nc, &found);
        size_t pos = huge || needle.empty() ? std::string::npos : hay.find(needle);
        if (pos != std::string::npos) {
            PBT_CHECK(rc == AWS_OP_SUCCESS, "find_exact missed a match at offset %zu", pos);
            PBT_CHECK(found.ptr == x.c.ptr + pos && found.len == hay.size() - pos, "find_exact: result (offset %td, len %zu), expected (%zu, %zu)", found.ptr - x.c.ptr, found.len, pos,
                      hay.size() - pos);
            ctx.tag("find_hit");
        } else if (huge || !needle.empty()) {
            PBT_CHECK(rc == AWS_OP_ERR && aws_last_error() == AWS_ERROR_STRING_MATCH_NOT_FOUND, "find_exact without a match: rc %d error %s", rc, aws_error_name(aws_last_error()));
            failed = true;
            if (huge) nhuge++;
        } else if (rc != AWS_OP_SUCCESS) // empty needle: the header is silent; only "a failure changes nothing" applies
            failed = true;
        else PBT_CHECK(found.ptr >= x.c.ptr && found.ptr + found.len == x.c.ptr + x.c.len, "find_exact(empty needle): result outside the input");
        return true;
    }
    case C_TRIM:
    case C_SATISFIES: {
        if (x.phantom) return false;
        const Pred &p = PREDS[op.arg(1) % 7];
        std::string c = view(x);
        size_t l = 0, r = c.size();
        if (k == C_SATISFIES) {
            opname = "aws_byte_cursor_satisfies_pred";
            bool all = true;
            for (unsigned char ch : c) all &= p.ref(ch);
            PBT_CHECK(aws_byte_cursor_satisfies_pred(&x.c, p.lib) == all, "satisfies_pred(%s) wrong", p.name);
            return true;
        }
        int side = (int)(op.arg(2) % 3);
        opname = side == 0 ? "aws_byte_cursor_left_trim_pred" : side == 1 ? "aws_byte_cursor_right_trim_pred" : "aws_byte_cursor_trim_pred";
        if (side != 1)
            while (l < r && p.ref((uint8_t)c[l])) l++;
        if (side != 0)
            while (r > l && p.ref((uint8_t)c[r - 1])) r--;
        struct aws_byte_cursor t = side == 0 ? aws_byte_cursor_left_trim_pred(&x.c, p.lib) : side == 1 ? aws_byte_cursor_right_trim_pred(&x.c, p.lib) : aws_byte_cursor_trim_pred(&x.c, p.lib);
        PBT_CHECK(t.len == r - l, "%s(%s): length %zu, expected %zu", opname, p.name, t.len, r - l);
        // where an EMPTY result sits (everything trimmed away) is left open: anywhere inside the source
        if (x.c.ptr && r == l)
            PBT_CHECK(t.ptr >= x.c.ptr && t.ptr <= x.c.ptr + x.c.len, "%s(%s): the empty result lies outside the source (offset %td)", opname, p.name,
                      t.ptr - x.c.ptr);
        else if (x.c.ptr) PBT_CHECK(t.ptr == x.c.ptr + l, "%s(%s): starts at offset %td, expected %zu", opname, p.name, t.ptr - x.c.ptr, l);
        else PBT_CHECK(t.ptr == nullptr, "%s of a NULL cursor returned a pointer", opname);
        if (r - l != c.size()) ctx.tag("trimmed");
        return true;
    }
    case C_CMP_LEX:
    case C_CMP_LOOKUP: {
        if (x.phantom || y.phantom) return false;
        std::string a = view(x), b = view(y);
        int which = (int)(op.arg(2) % 3);
        if (k == C_CMP_LEX) {
            if (!x.c.ptr || !y.c.ptr) return false; // documented precondition: non-NULL pointers
            opname = "aws_byte_cursor_compare_lexical";
        } else {
            opname = "aws_byte_cursor_compare_lookup";
            for (auto &ch : a) ch = (char)ref_table(which, (uint8_t)ch);
            for (auto &ch : b) ch = (char)ref_table(which, (uint8_t)ch);
        }
        int want = sgn(a.compare(b)); // std::string compares as unsigned char, then by length
        int got = k == C_CMP_LEX ? aws_byte_cursor_compare_lexical(&x.c, &y.c) : aws_byte_cursor_compare_lookup(&x.c, &y.c, lib_table(which));
        PBT_CHECK(sgn(got) == want, "%s: sign %d, expected %d", opname, sgn(got), want);
        return true;
    }
    case C_EQ: {
        if (x.phantom && y.phantom) return false;
        bool huge = x.phantom || y.phantom; // different lengths: must be decided by size alone
        int var = (int)(op.arg(2) % 3);
        opname = var == 0 ? "aws_byte_cursor_eq" : var == 1 ? "aws_byte_cursor_eq_ignore_case" : "aws_array_eq";
        bool want = !huge && (var == 1 ? lower(view(x)) == lower(view(y)) : view(x) == view(y));
        bool got = var == 0 ? aws_byte_cursor_eq(&x.c, &y.c) : var == 1 ? aws_byte_cursor_eq_ignore_case(&x.c, &y.c) : aws_array_eq(x.c.ptr, x.c.len, y.c.ptr, y.c.len);
        PBT_CHECK(got == want, "%s: %d, expected %d", opname, (int)got, (int)want);
        if (huge) nhuge++;
        if (want && x.len) ctx.tag("eq_true");
        return true;
    }
    case C_EQ_BUF: {
        BufSlot &b = bufs[op.arg(1) % NB];
        bool ic = op.arg(2) % 2;
        opname = ic ? "aws_byte_cursor_eq_byte_buf_ignore_case" : "aws_byte_cursor_eq_byte_buf";
        std::vector<uint8_t> u(b.store.begin(), b.store.begin() + b.len);
        std::string bs(u.begin(), u.end());
        bool want = !x.phantom && (ic ? lower(view(x)) == lower(bs) : view(x) == bs);
        bool got = ic ? aws_byte_cursor_eq_byte_buf_ignore_case(&x.c, &b.b) : aws_byte_cursor_eq_byte_buf(&x.c, &b.b);
        PBT_CHECK(got == want, "%s: %d, expected %d", opname, (int)got, (int)want);
        if (x.phantom) nhuge++;
        if (want && x.len) ctx.tag("eq_true");
        return true;
    }
    case C_EQ_CSTR: {
        if (x.phantom) return false;
        std::string c = view(x);
        std::string z = op.arg(3) % 3 == 0 ? until_nul(c) : op.arg(3) % 3 == 1 ? flip_case(until_nul(c)) : until_nul(op.b);
        const char *cs = (const char *)temp_array(z + std::string(1, '\0')); // exact size: reading past the terminator is an ASan report
        bool ic = op.arg(2) % 2;
        opname = ic ? "aws_byte_cursor_eq_c_str_ignore_case" : "aws_byte_cursor_eq_c_str";
        bool want = ic ? lower(c) == lower(z) : c == z;
        bool got = ic ? aws_byte_cursor_eq_c_str_ignore_case(&x.c, cs) : aws_byte_cursor_eq_c_str(&x.c, cs);
        PBT_CHECK(got == want, "%s: %d, expected %d", opname, (int)got, (int)want);
        if (want && x.len) ctx.tag("eq_true");
        return true;
    }
    case C_STARTS: {
        if (x.phantom) return false;
        bool ic = op.arg(2) % 2;
        opname = ic ? "aws_byte_cursor_starts_with_ignore_case" : "aws_byte_cursor_starts_with";
        std::string a = view(x), p = y.phantom ? std::string() : view(y);
        if (ic) a = lower(a), p = lower(p);
        bool want = !y.phantom && a.size() >= p.size() && a.compare(0, p.size(), p) == 0;
        bool got = ic ? aws_byte_cursor_starts_with_ignore_case(&x.c, &y.c) : aws_byte_cursor_starts_with(&x.c, &y.c);
        PBT_CHECK(got == want, "%s: %d, expected %d", opname, (int)got, (int)want);
        if (y.phantom) nhuge++;
        return true;
    }
    case C_PARSE: {
        bool is_hex = op.arg(1) % 2;
        opname = is_hex ? "aws_byte_cursor_utf8_parse_u64_hex" : "aws_byte_cursor_utf8_parse_u64";
        std::string c;
        struct aws_byte_cursor pc;
        if (x.phantom || op.arg(2) % 2) {
            c = op.b;
            pc = aws_byte_cursor_from_array(temp_array(c), c.size());
        } else
            c = view(x), pc = x.c;
        uint64_t want = 0, got = 0x7777;
        int cls = ref_parse(c, is_hex ? 16 : 10, &want);
        int rc = is_hex ? aws_byte_cursor_utf8_parse_u64_hex(pc, &got) : aws_byte_cursor_utf8_parse_u64(pc, &got);
        int e = aws_last_error();
        if (cls == 0) {
            PBT_CHECK(rc == AWS_OP_SUCCESS && got == want, "%s(hex %s): rc %d value %llu, expected %llu", opname, pbt::hex(c).c_str(), rc, (unsigned long long)got, (unsigned long long)want);
            ctx.tag("parse_ok");
        } else {
            PBT_CHECK(rc == AWS_OP_ERR, "%s accepted an input it must reject (class %d)", opname, cls);
            bool code_ok = cls == 1 ? e == AWS_ERROR_INVALID_ARGUMENT : cls == 2 ? e == AWS_ERROR_OVERFLOW_DETECTED : (e == AWS_ERROR_INVALID_ARGUMENT || e == AWS_ERROR_OVERFLOW_DETECTED);
            PBT_CHECK(code_ok, "%s: error %s for rejection class %d", opname, aws_error_name(e), cls);
            failed = true;
            ctx.tag(cls == 2 ? "parse_overflow" : "bad_digit");
        }
        return true;
    }
    case B_EQ: {
        BufSlot &a = bufs[op.arg(0) % NB], &b = bufs[op.arg(1) % NB];
        std::string as(a.store.begin(), a.store.begin() + a.len), bs(b.store.begin(), b.store.begin() + b.len);
        int var = (int)(op.arg(2) % 4);
        bool want, got;
        if (var < 2) {
            opname = var ? "aws_byte_buf_eq_ignore_case" : "aws_byte_buf_eq";
            want = var ? lower(as) == lower(bs) : as == bs;
            got = var ? aws_byte_buf_eq_ignore_case(&a.b, &b.b) : aws_byte_buf_eq(&a.b, &b.b);
        } else {
            opname = var == 3 ? "aws_byte_buf_eq_c_str_ignore_case" : "aws_byte_buf_eq_c_str";
            std::string z = op.arg(3) % 2 ? until_nul(as) : flip_case(until_nul(bs));
            const char *cs = (const char *)temp_array(z + std::string(1, '\0'));
            want = var == 3 ? lower(as) == lower(z) : as == z;
            got = var == 3 ? aws_byte_buf_eq_c_str_ignore_case(&a.b, cs) : aws_byte_buf_eq_c_str(&a.b, cs);
        }
        PBT_CHECK(got == want, "%s: %d, expected %d", opname, (int)got, (int)want);
        return true;
    }
    case MEM_ZEROED: {
        opname = "aws_is_mem_zeroed";
        if (x.phantom) return false;
        std::string c = view(x);
        bool want = true;
        for (char ch : c) want &= ch == 0;
        if (c.empty() && !x.c.ptr) return false;
        PBT_CHECK(aws_is_mem_zeroed(x.c.ptr, x.c.len) == want, "aws_is_mem_zeroed over %zu bytes: expected %d", c.size(), (int)want);
        return true;
    }
    default: { // STRING_LIFE: aws_string made from a cursor / buffer, compared, handed back securely
        opname = "aws_string new/destroy_secure";
        std::string c;
        struct aws_string *str;
        int var = (int)(op.arg(2) % 3);
        if (var == 0 && !x.phantom) c = view(x), str = aws_string_new_from_cursor(A, &x.c);
        else if (var == 1) {
            BufSlot &b = bufs[op.arg(1) % NB];
            c.assign(b.store.begin(), b.store.begin() + b.len);
            str = aws_string_new_from_buf(A, &b.b);
        } else {
            c = until_nul(op.b);
            str = aws_string_new_from_c_str(A, (const char *)temp_array(c + std::string(1, '\0')));
        }
        PBT_CHECK(str && aws_string_is_valid(str) && str->len == c.size(), "aws_string_new: length %zu, expected %zu", str ? str->len : 0, c.size());
        PBT_CHECK(memcmp(aws_string_bytes(str), c.data(), c.size()) == 0 && aws_string_bytes(str)[c.size()] == 0, "aws_string_new: bytes / terminator");
        struct aws_byte_cursor sc = aws_byte_cursor_from_string(str);
        PBT_CHECK(sc.ptr == aws_string_bytes(str) && sc.len == c.size(), "aws_byte_cursor_from_string");
        if (!x.phantom) PBT_CHECK(aws_string_eq_byte_cursor(str, &x.c) == (view(x) == c), "aws_string_eq_byte_cursor");
        rels.clear();
        bool secure = op.arg(3) % 4 != 0;
        if (secure) aws_string_destroy_secure(str);
        else aws_string_destroy(str);
        PBT_CHECK(rels.size() == 1 && rels[0].p == (void *)str, "string destroy: expected exactly one release");
        if (secure) {
            size_t o = offsetof(struct aws_string, bytes);
            PBT_CHECK(rels[0].bytes.size() >= o + c.size() && aws_is_mem_zeroed(rels[0].bytes.data() + o, c.size()), "aws_string_destroy_secure handed the string back without zeroing its %zu bytes", c.size());
            if (!c.empty()) nsecure++, ctx.tag("string_secure");
        }
        return true;
    }
    }
}

// ---------------------------------------------------------------- one case
static void run(const Case &c, Ctx &ctx) {
    galloc::reset();
    World w(ctx);
    w.A = c.c(6) % 4 == 3 ? galloc::basic() : galloc::full(); // both aws_mem_realloc paths
    World *wp = &w;
    galloc::S().on_release = [wp](void *p, size_t n) { // no PBT_CHECK here: called from inside the library
        Rel r;
        r.p = p;
        r.n = n;
        r.zero = aws_is_mem_zeroed(p, n);
        r.bytes.assign((const char *)p, n);
        wp->rels.push_back(std::move(r));
    };
    w.check_world();
    for (int i = 0; i < NB; i++) { // initial shape of the three buffers: zeroed, owned (x3), static empty, static full
        uint64_t kind = c.c(2 * i) % 6, capi = c.c(2 * i + 1);
        if (kind >= 1 && kind <= 3) w.step(mkop(B_INIT, {(uint64_t)i, 0, 0, capi, 0}));
        else if (kind >= 4) w.step(mkop(B_FROM_ARRAY, {(uint64_t)i, kind - 4, 0, capi, capi * 77 + i}));
        // initial fill: nothing, full, one short, two short, half, 3 bytes
        static const uint64_t FILL[] = {3, 0, 1, 7, 5, 5}, FILLK[] = {0, 0, 0, 0, 3, 1};
        if (kind != 5) w.step(mkop(B_WRITE_U8_N, {(uint64_t)i, 0, FILL[c.c(7 + i) % 6], FILLK[c.c(7 + i) % 6], 0x41 + (uint64_t)i}));
    }
    for (int j = 0; j < NC - 1; j++) // cursors 0..2 start as text / hex digits / arbitrary bytes, cursor 3 as {NULL,0}
        w.step(mkop(CUR_PATTERN, {(uint64_t)j, 0, 5, 3 + (c.c(10) * (j + 1)) % 37, c.c(10) * 3 + (uint64_t)(j == 0 ? 1 : j == 1 ? 2 : 0)}));
    w.nfailed = w.ngrow = w.nalias = w.nhuge = w.nsecure = 0; // the set-up does not count
    ctx.tags.clear();
    for (auto &b : w.bufs) ctx.tag(b.kind == K_STATIC ? "static_buffer" : b.kind == K_OWNED ? "owned_buffer" : "zeroed_buffer");
    for (auto &op : c.ops) w.step(op);
    unsigned nfailed = w.nfailed, nsecure = w.nsecure;
    for (int i = 0; i < NB; i++) w.step(mkop(i % 2 ? B_CLEAN_UP_SECURE : B_CLEAN_UP, {(uint64_t)i}));
    PBT_CHECK(galloc::live_blocks() == 0, "storage not released by clean_up: %zu blocks", galloc::live_blocks());

    if (nfailed && (w.ngrow || w.nalias || w.nhuge)) ctx.nontrivial = true;
    if (w.ngrow) ctx.tag("has_grow");
    if (w.nalias) ctx.tag("has_alias");
    if (w.nhuge) ctx.tag("huge_size_ops");
    if (nsecure) ctx.tag("secure_release_observed");
    if (w.A == galloc::basic()) ctx.tag("allocator_without_realloc");
}

int main(int argc, char **argv) {
    Spec sp{"C01", "c01_bytebuf", gen_case, run,
            "generated command sequences (<=40) over 3 buffers (zeroed/owned/static with guard bytes) and 4 cursors (exact-size arrays, views into "
            "buffers, NULL, phantom huge-length views); non-trivial = >=1 command that reported failure and >=1 growing, self-aliasing or "
            "huge-size (>= SIZE_MAX/2 - 4) command; distinct by hash of the serialised case"};
    return pbt_main(argc, argv, sp);
}

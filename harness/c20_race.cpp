// C20 — second engine: the same statement on FREE-RUNNING threads under ThreadSanitizer.
//
// The controlled scheduler (c20_threads) decides at lock / condition-variable / create / join / atomic operations.  A
// plain, unlocked access — `++s_unjoined_thread_count` with its lock calls removed — offers it no decision point, so a
// lost update there is invisible to it by construction (DESIGN 4.4).  Here the threads really run in parallel and the
// sanitizer's happens-before analysis is the oracle for "two threads touch the bookkeeping without synchronisation";
// the functional oracle (function once, at-exit callbacks once and on their thread, everything joined, count 0) is
// checked as well.  TSan reports do not depend on the actual timing, only on the absence of synchronisation between
// two accesses that both happen in the run, so a reported case reproduces from its replay file.
//
// A case: L launcher threads (joinable aws_threads started by main), each with a generated program:
//   LAUNCH_MANAGED(n at-exit callbacks, body kind)  |  PARTICIPATE (increment ... decrement pair)  |  COUNT  |  YIELD
// main joins the launchers (or not yet), calls aws_thread_join_all_managed, and checks.
// op = {launcher, kind, a, b}
#include "pbt.hpp"
#include "galloc.hpp"

#include <aws/common/common.h>
#include <aws/common/thread.h>
extern "C" {
#include <aws/common/private/thread_shared.h>
}

#include <atomic>
#include <memory>
#include <sched.h>

using namespace pbt;

enum { LAUNCH_MANAGED = 0, PARTICIPATE = 1, COUNT = 2, YIELD = 3, NKINDS = 4 };
static const int MAXL = 4;

static Case gen_case() {
    Case c;
    // cfg: launchers 2..4; main joins the launchers and then calls join_all_managed (0), or calls join_all_managed
    // once while they are still launching and again after joining them (1); main launches 0..2 managed threads itself too
    c.cfg = {pick(2, MAXL), pick(0, 1), pick(0, 2)};
    c.ops = op_list(24, [] {
        uint64_t l = pick(0, MAXL - 1);
        switch (weighted({6, 2, 1, 1})) {
        case 0: return mkop(LAUNCH_MANAGED, {l, pick(0, 3), pick(0, 2)});
        case 1: return mkop(PARTICIPATE, {l, pick(0, 2)});
        case 2: return mkop(COUNT, {l});
        default: return mkop(YIELD, {l, pick(1, 3)});
        }
    });
    return c;
}

struct World;
struct Managed {
    World *w;
    struct aws_thread thread;
    int n_exit = 0, body = 0;
    std::atomic<int> fn_calls{0};
    std::atomic<int> exit_calls{0};
    std::atomic<int> exit_wrong_thread{0};
    std::atomic<bool> fn_done{false};
    aws_thread_id_t self;
    bool launched = false;
};
struct World {
    Ctx *ctx;
    std::vector<std::unique_ptr<Managed>> managed; // filled before any thread starts
    std::atomic<int> failures{0};
    std::atomic<size_t> max_count_seen{0};
};

static void exit_cb(void *arg) {
    Managed *m = (Managed *)arg;
    m->exit_calls++;
    if (!m->fn_done.load()) m->w->failures++; // an at-exit callback before the thread function returned
    aws_thread_id_t me = aws_thread_current_thread_id();
    if (!aws_thread_thread_id_equal(me, m->self)) m->exit_wrong_thread++;
}
static void managed_fn(void *arg) {
    Managed *m = (Managed *)arg;
    m->fn_calls++;
    m->self = aws_thread_current_thread_id();
    for (int i = 0; i < m->n_exit; i++)
        if (aws_thread_current_at_exit(exit_cb, m) != AWS_OP_SUCCESS) m->w->failures++;
    if (m->body == 1) sched_yield();
    if (m->body == 2) aws_thread_current_sleep(20000); // 20 us
    m->fn_done = true;
}

struct Launcher {
    World *w;
    struct aws_thread thread;
    std::vector<Op> prog;
    std::vector<Managed *> mine; // one per LAUNCH_MANAGED op, in order
};
static void launch_one(World &w, Managed *m) {
    struct aws_thread_options o = *aws_default_thread_options();
    o.join_strategy = AWS_TJS_MANAGED;
    if (aws_thread_init(&m->thread, galloc::full()) != AWS_OP_SUCCESS || aws_thread_launch(&m->thread, managed_fn, m, &o) != AWS_OP_SUCCESS)
        w.failures++;
    else
        m->launched = true;
}
static void launcher_fn(void *arg) {
    Launcher *l = (Launcher *)arg;
    World &w = *l->w;
    size_t next = 0;
    for (auto &op : l->prog) {
        switch (op.kind % NKINDS) {
        case LAUNCH_MANAGED: launch_one(w, l->mine[next++]); break;
        case PARTICIPATE:
            // what event-loop-group style owners do around work that must finish before join_all_managed returns
            aws_thread_increment_unjoined_count();
            for (uint64_t i = 0; i < op.arg(1); i++) sched_yield();
            aws_thread_decrement_unjoined_count();
            break;
        case COUNT: {
            size_t n = aws_thread_get_managed_thread_count();
            size_t prev = w.max_count_seen.load();
            while (n > prev && !w.max_count_seen.compare_exchange_weak(prev, n)) {
            }
            break;
        }
        default:
            for (uint64_t i = 0; i < op.arg(1); i++) sched_yield();
            break;
        }
    }
}

static void run(const Case &c, Ctx &ctx) {
    galloc::reset();
    World w;
    w.ctx = &ctx;
    int L = (int)(2 + c.c(0) % (MAXL - 1));
    bool join_launchers_first = c.c(1) % 2 == 0;
    int main_launches = (int)(c.c(2) % 3);

    std::vector<std::unique_ptr<Launcher>> ls;
    for (int i = 0; i < L; i++) {
        ls.emplace_back(new Launcher);
        ls.back()->w = &w;
    }
    size_t total_managed = 0, participations = 0;
    for (auto &op : c.ops) {
        Launcher &l = *ls[(size_t)(op.arg(0) % (uint64_t)L)];
        l.prog.push_back(op);
        if (op.kind % NKINDS == LAUNCH_MANAGED) {
            w.managed.emplace_back(new Managed);
            Managed *m = w.managed.back().get();
            m->w = &w;
            m->n_exit = (int)(op.arg(1) % 4);
            m->body = (int)(op.arg(2) % 3);
            l.mine.push_back(m);
            total_managed++;
        }
        if (op.kind % NKINDS == PARTICIPATE) participations++;
    }
    std::vector<Managed *> by_main;
    for (int i = 0; i < main_launches; i++) {
        w.managed.emplace_back(new Managed);
        Managed *m = w.managed.back().get();
        m->w = &w;
        m->n_exit = i;
        m->body = i % 3;
        by_main.push_back(m);
        total_managed++;
    }

    for (auto &l : ls) {
        PBT_CHECK(aws_thread_init(&l->thread, galloc::full()) == AWS_OP_SUCCESS);
        PBT_CHECK(aws_thread_launch(&l->thread, launcher_fn, l.get(), nullptr) == AWS_OP_SUCCESS, "launching a joinable thread failed");
    }
    for (Managed *m : by_main) launch_one(w, m);
    aws_thread_set_managed_join_timeout_ns(0);
    int rc = AWS_OP_SUCCESS;
    if (!join_launchers_first) {
        // join_all_managed while the launchers are still launching: it joins what has been started so far (whatever
        // that is) and must not disturb the rest; everything else is joined by the second call below
        rc = aws_thread_join_all_managed();
        PBT_CHECK(rc == AWS_OP_SUCCESS, "aws_thread_join_all_managed (concurrent with launches) failed");
    }
    for (auto &l : ls) PBT_CHECK(aws_thread_join(&l->thread) == AWS_OP_SUCCESS);
    rc = aws_thread_join_all_managed();
    for (auto &l : ls) aws_thread_clean_up(&l->thread);
    PBT_CHECK(rc == AWS_OP_SUCCESS, "aws_thread_join_all_managed failed");
    PBT_CHECK(w.failures.load() == 0, "%d launch / at-exit registration failures or early at-exit callbacks", w.failures.load());
    size_t cnt = aws_thread_get_managed_thread_count();
    PBT_CHECK(cnt == 0, "managed thread count is %zu after join_all_managed returned (%zu managed threads, %zu participations)", cnt, total_managed,
              participations);
    for (size_t i = 0; i < w.managed.size(); i++) {
        Managed &m = *w.managed[i];
        PBT_CHECK(m.launched, "managed thread %zu was not launched", i);
        PBT_CHECK(m.fn_calls.load() == 1, "managed thread %zu: function invoked %d times", i, m.fn_calls.load());
        PBT_CHECK(m.fn_done.load(), "join_all_managed returned while managed thread %zu was still running", i);
        PBT_CHECK(m.exit_calls.load() == m.n_exit, "managed thread %zu: %d at-exit callbacks registered, %d ran before join_all_managed returned", i, m.n_exit,
                  m.exit_calls.load());
        PBT_CHECK(m.exit_wrong_thread.load() == 0, "managed thread %zu: at-exit callback ran on another thread", i);
    }
    PBT_CHECK(w.max_count_seen.load() <= total_managed + participations + 1, "managed thread count %zu exceeds the %zu threads and participations of the case",
              w.max_count_seen.load(), total_managed + participations);
    const char *gm = nullptr;
    PBT_CHECK(galloc::check_all(&gm), "%s", gm ? gm : "");
    PBT_CHECK(galloc::live_blocks() == 0, "%zu blocks (%zu bytes) still allocated after every thread was joined", galloc::live_blocks(), galloc::live_bytes());

    int busy = 0;
    for (auto &l : ls)
        if (!l->mine.empty() || !l->prog.empty()) busy++;
    if (busy >= 2 && total_managed >= 2) ctx.nontrivial = true;
    ctx.tag(join_launchers_first ? "launchers_joined_first" : "join_all_concurrent_with_launches");
    if (participations) ctx.tag("count_participants");
    if (main_launches) ctx.tag("main_launches_too");
    ctx.tag("managed_" + std::to_string(std::min<size_t>(total_managed, 8)));
}

int main(int argc, char **argv) {
    aws_common_library_init(aws_default_allocator()); // initialises the (process-global) managed-thread list
    Spec sp{"C20", "c20_race", gen_case, run,
            "free-running threads under ThreadSanitizer: 2-4 launcher threads with generated programs (launch managed thread with 0-3 at-exit callbacks, "
            "increment/decrement participation, count query, yield), optionally main launching too; then join_all_managed. Oracle: no data race report, "
            "every function once, at-exit callbacks once on their own thread before join_all returns, count 0, no leak. Non-trivial = at least two "
            "launchers with work and at least two managed threads; distinct by hash of the serialised case"};
    return pbt_main(argc, argv, sp);
}

// C13 (part 1) — URI parser and builder: a URI assembled from components parses back to exactly those
// components, every view lies inside the object's own copy of the text, builder output re-parses to
// the options it was built from, query iteration agrees with a reference split and with the list form.
// See DESIGN.md section 5 / C13.
//
// A case is a set of component texts (ops, one per component kind) plus presence flags (cfg).  `run`
// first forces every text into the RFC 3986 alphabet of its component (identity for generated cases,
// it only matters for hand-written replay files), applies the constructed exclusions listed below,
// assembles   [scheme "://"] [userinfo "@"] host [":" port] path ["?" query]   and compares every
// accessor with the component it put in.
//
// Constructed exclusions (each counted with a tag):
//  * scheme-less inputs are an extension of this parser whose documented heuristic is "the first ':'
//    followed by '/' ends a scheme": for them no ":/" pair is emitted in path or query
//    (excl_schemeless_colon_slash) and no empty port directly before a path (excl_schemeless_emptyport_path);
//  * a string with nothing after the optional "scheme://" ("" and "s://") is rejected by the parser by an
//    explicit branch: an empty authority is only generated when a path or a query follows (excl_nothing_after_scheme);
//    a replay file with cfg[6] = 1 lifts this exclusion (used to document the parser's answer to "s://").
#include "pbt.hpp"
#include "galloc.hpp"

#include <aws/common/array_list.h>
#include <aws/common/common.h>
#include <aws/common/error.h>
#include <aws/common/uri.h>

using namespace pbt;

// ---------------------------------------------------------------- alphabets (RFC 3986)
static const std::string ALPHA = "abcdefghijklmnopqrstuvwxyzABCDEFGHIJKLMNOPQRSTUVWXYZ";
static const std::string DIGIT = "0123456789";
static const std::string UNRES = ALPHA + DIGIT + "-._~";
static const std::string SUBD = "!$&'()*+,;=";
static const std::string A_SCHEME = ALPHA + DIGIT + "+-.";
static const std::string A_USER = UNRES + SUBD + "%";        // userinfo without ':' (the user part)
static const std::string A_PASS = UNRES + SUBD + "%:";       // rest of userinfo
static const std::string A_REGNAME = UNRES + SUBD + "%";     // reg-name (IPv4 is a subset)
static const std::string A_IPLIT = UNRES + SUBD + "%:";      // inside "[" "]": IPv6address / IPvFuture / zone id
static const std::string A_PORT = DIGIT + ALPHA + "+-.";     // digits are the valid ones; the rest must be rejected
static const std::string A_PATH = UNRES + SUBD + "%:@/";     // *( "/" segment ), segment = *pchar
static const std::string A_QUERY = UNRES + SUBD + "%:@/?";   // *( pchar / "/" / "?" )

enum { K_SCHEME, K_USER, K_PASS, K_HOST, K_PORT, K_PATH, K_QUERY, NKINDS };
enum { CF_SCHEME, CF_UI, CF_HOSTKIND, CF_PORT, CF_QUERY, CF_MODE, NCFG, CF_STRICT = NCFG /* replay files only, never generated */ };
enum { H_REGNAME, H_IPV4, H_IPLIT, H_EMPTY };
enum { M_PARSE, M_BUILD_QS, M_BUILD_PARAMS };

static bool is_hex(char c) { return (c >= '0' && c <= '9') || (c >= 'a' && c <= 'f') || (c >= 'A' && c <= 'F'); }

// ---------------------------------------------------------------- generator
static std::string g_pct() {
    static const char *hx = "0123456789abcdefABCDEF";
    std::string s = "%";
    s.push_back(hx[pick(0, 21)]);
    s.push_back(hx[pick(0, 21)]);
    return s;
}
// text over `common`, with the characters of `hot` (structural characters legal in this component) over-represented
static std::string g_text(const std::string &common, const std::string &hot, size_t maxlen, bool pct) {
    size_t n;
    switch (weighted({12, 18, 70})) {
    case 0: n = 0; break;
    case 1: n = 1; break;
    default: n = (size_t)pick(2, maxlen); break;
    }
    std::string s;
    for (size_t i = 0; i < n; i++) {
        unsigned r = (unsigned)pick(0, 99);
        if (pct && r < 8) s += g_pct();
        else if (!hot.empty() && r < 40) s.push_back(hot[pick(0, hot.size() - 1)]);
        else s.push_back(common[pick(0, common.size() - 1)]);
    }
    return s;
}
static std::string g_scheme() {
    if (chance(40)) return one_of_v<std::string>({"http", "https", "ws", "s3", "a", "Z", "git+ssh", "x-y.z", "h2c"});
    std::string s(1, ALPHA[pick(0, ALPHA.size() - 1)]);
    s += g_text(A_SCHEME, "+-.", 6, false);
    return s;
}
static std::string g_ipv4() {
    std::string s;
    for (int i = 0; i < 4; i++) s += (i ? "." : "") + std::to_string(one_of({0, 1, 9, 10, 127, 192, 255, pick(0, 255)}));
    return s;
}
static std::string g_iplit() { // inside of the brackets, never empty
    switch (weighted({25, 45, 15, 15})) {
    case 0: return one_of_v<std::string>({"::", "::1", "1::", "fe80::1", "2001:db8:85a3:8d3:1319:8a2e:370:7348", "::ffff:1.2.3.4", "a:b:c:d:e:f:0:1"});
    case 1: {
        std::string s;
        size_t g = (size_t)pick(1, 8);
        for (size_t i = 0; i < g; i++) {
            if (i || chance(20)) s += chance(15) ? "::" : ":";
            size_t d = (size_t)pick(0, 4);
            for (size_t k = 0; k < d; k++) s.push_back("0123456789abcdefABCDEF"[pick(0, 21)]);
        }
        if (s.empty()) s = "::";
        return s;
    }
    case 2: return "fe80::" + std::to_string(pick(0, 9)) + "%25" + g_text(UNRES, "", 5, false) + "0"; // RFC 6874 zone id
    default: return "v" + std::string(1, "0123456789abcdef"[pick(0, 15)]) + "." + g_text(UNRES + SUBD, ":", 8, false) + "x"; // IPvFuture
    }
}
static std::string g_port() {
    switch (weighted({14, 8, 26, 6, 8, 8, 10, 10, 10})) {
    case 0: return "";
    case 1: return "0";
    case 2: return std::to_string(one_of({1, 9, 80, 443, 8080, 65535, pick(1, 65535)}));
    case 3: return std::to_string(one_of({65536, 100000, 2147483647ull, 2147483648ull, 4294967294ull, pick(65536, 4294967295ull)}));
    case 4: return "4294967295";
    case 5: return one_of_v<std::string>({"4294967296", "4294967297", "9999999999", "10000000000", "8589934591", "42949672950"});
    case 6:
        if (chance(25)) { // very long out-of-range numbers: 255..258 and 512 nines, "80" followed by 254..256 zeros
            size_t n = (size_t)one_of({255, 256, 257, 258, 512, 513});
            return chance(50) ? std::string(n, '9') : "80" + std::string(n - 2, '0');
        }
        return one_of_v<std::string>({"18446744073709551615", "18446744073709551616", "99999999999999999999", "10000000000000000000",
                                      "18446744073709551695", "184467440737095516150", "36893488147419103231"});
    case 7: { // leading zeros, up to and across 255/256/257 characters of port text (a length kept in a narrow type wraps there)
        std::string z((size_t)one_of({1, 2, 5, 9, 10, 11, 19, 20, 25, 250, 254, 255, 256, 257, 300, 510, 512}), '0');
        return z + one_of_v<std::string>({"", "0", "7", "80", "65535", "4294967295", "4294967296", "18446744073709551616"});
    }
    default: { // not a number
        std::string d = std::to_string(pick(0, 99999));
        switch (pick(0, 5)) {
        case 0: return d + "a";
        case 1: return "x" + d;
        case 2: return "-" + d;
        case 3: return "+" + d;
        case 4: return d + "." + d;
        default: return g_text(ALPHA, "fFeE", 4, false) + "z";
        }
    }
    }
}
static std::string g_path() {
    size_t segs;
    switch (weighted({22, 12, 66})) {
    case 0: return "";
    case 1: return "/";
    default: segs = (size_t)pick(1, 4); break;
    }
    std::string s;
    for (size_t i = 0; i < segs; i++) s += "/" + g_text(UNRES + SUBD, ":@", 7, true);
    if (chance(15)) s += "/";
    return s;
}
static std::string g_query() {
    static const std::string KEYC = UNRES + "!$'()*+,;";        // sub-delims without '&' and '='
    static const std::string VALC = UNRES + "!$'()*+,;=";
    size_t n = (size_t)weighted({15, 15, 20, 20, 15, 15}); // 0..5 pairs
    std::string q;
    for (size_t i = 0; i < n; i++) {
        if (i) q += "&";
        switch (weighted({22, 20, 34, 9, 9, 6})) {
        case 0: break;                                                        // empty pair ("&&", leading/trailing '&')
        case 1: q += g_text(KEYC, "/?:@", 5, true); break;                   // no '='
        case 2: q += g_text(KEYC, "/?:@", 5, true) + "=" + g_text(VALC, "/?:@", 6, true); break;
        case 3: q += g_text(KEYC, "/?:@", 4, true) + "="; break;
        case 4: q += "=" + g_text(VALC, "/?:@", 4, true); break;
        default: q += g_text(KEYC, "", 3, false) + "=" + g_text(VALC, "=", 3, false) + "=" + g_text(VALC, "/", 3, false); break;
        }
    }
    if (chance(10)) q += g_text(A_QUERY, "&=/?", 10, true); // unstructured tail over the full query alphabet
    return q;
}

static Case gen_case() {
    Case c;
    c.cfg.assign(NCFG, 0);
    c.cfg[CF_SCHEME] = chance(72);
    c.cfg[CF_UI] = weighted({55, 20, 25});
    c.cfg[CF_HOSTKIND] = weighted({45, 12, 28, 15});
    c.cfg[CF_PORT] = chance(60);
    c.cfg[CF_QUERY] = chance(65);
    c.cfg[CF_MODE] = weighted({70, 15, 15});
    c.ops.push_back(mkop(K_SCHEME, {}, g_scheme()));
    c.ops.push_back(mkop(K_USER, {}, g_text(UNRES + SUBD, "", 6, true)));
    c.ops.push_back(mkop(K_PASS, {}, g_text(UNRES + SUBD, ":", 6, true)));
    std::string host;
    switch (c.cfg[CF_HOSTKIND]) {
    case H_REGNAME: host = chance(30) ? one_of_v<std::string>({"h", "example.com", "www.test.com", "a-b.c_d~e", "localhost"})
                                      : g_text(UNRES + SUBD, ".-", chance(5) ? 80 : 12, true) + "h"; break;
    case H_IPV4: host = g_ipv4(); break;
    case H_IPLIT: host = g_iplit(); break;
    default: break;
    }
    c.ops.push_back(mkop(K_HOST, {}, host));
    c.ops.push_back(mkop(K_PORT, {}, g_port()));
    c.ops.push_back(mkop(K_PATH, {}, g_path()));
    c.ops.push_back(mkop(K_QUERY, {}, g_query()));
    return c;
}

// ---------------------------------------------------------------- making every case a valid program
static std::string force(const std::string &s, const std::string &alphabet) {
    std::string o = s;
    bool pct = alphabet.find('%') != std::string::npos;
    for (size_t i = 0; i < o.size(); i++)
        if (alphabet.find(o[i]) == std::string::npos || o[i] == '\0') o[i] = alphabet[(unsigned char)o[i] % alphabet.size()];
    if (pct)
        for (size_t i = 0; i < o.size(); i++)
            if (o[i] == '%' && !(i + 2 < o.size() && is_hex(o[i + 1]) && is_hex(o[i + 2]))) o[i] = '_';
    return o;
}

// ---------------------------------------------------------------- reference
struct RefPort {
    bool ok;
    uint32_t v;
};
static RefPort ref_port(const std::string &t) { // absent/empty -> 0; decimal <= UINT32_MAX; anything else is malformed
    if (t.empty()) return {true, 0};
    for (char ch : t)
        if (ch < '0' || ch > '9') return {false, 0};
    size_t i = 0;
    while (i < t.size() && t[i] == '0') i++;
    std::string d = t.substr(i);
    if (d.size() > 10) return {false, 0};
    uint64_t v = 0;
    for (char ch : d) v = v * 10 + (uint64_t)(ch - '0');
    if (v > 0xFFFFFFFFull) return {false, 0};
    return {true, (uint32_t)v};
}
typedef std::pair<std::string, std::string> KV;
static std::vector<KV> ref_params(const std::string &q, bool keep_empty, size_t *empty_pairs = nullptr, size_t *no_eq = nullptr) {
    std::vector<KV> out;
    size_t pos = 0;
    for (;;) {
        size_t amp = q.find('&', pos);
        std::string piece = q.substr(pos, amp == std::string::npos ? std::string::npos : amp - pos);
        if (piece.empty()) {
            if (empty_pairs) ++*empty_pairs;
            if (keep_empty) out.push_back({"", ""});
        } else {
            size_t eq = piece.find('=');
            if (eq == std::string::npos) {
                if (no_eq) ++*no_eq;
                out.push_back({piece, ""});
            } else
                out.push_back({piece.substr(0, eq), piece.substr(eq + 1)});
        }
        if (amp == std::string::npos) break;
        pos = amp + 1;
    }
    return out;
}

static std::string cur(const struct aws_byte_cursor &c) { return c.len ? std::string((const char *)c.ptr, c.len) : std::string(); }
static std::string cur(const struct aws_byte_cursor *c) { return cur(*c); }

struct Expect {
    std::string text, scheme, authority, userinfo, user, password, host, path, query, path_and_query;
    uint32_t port = 0;
    bool query_present = false;
};

// every accessor against the expectation; every view inside the object's own text
static void check_uri(const struct aws_uri &u, const Expect &e, const char *what) {
    const char *T = e.text.c_str();
    PBT_CHECK(u.uri_str.buffer != nullptr && u.uri_str.len == e.text.size() && memcmp(u.uri_str.buffer, e.text.data(), e.text.size()) == 0,
              "%s \"%s\": the object's text is \"%s\"", what, T, std::string((const char *)u.uri_str.buffer, u.uri_str.buffer ? u.uri_str.len : 0).c_str());
    PBT_CHECK(galloc::is_live(u.uri_str.buffer), "%s \"%s\": uri_str is not a block of the given allocator", what, T);
    PBT_CHECK(u.uri_str.len <= u.uri_str.capacity, "%s \"%s\": len %zu > capacity %zu", what, T, u.uri_str.len, u.uri_str.capacity);
    const uint8_t *lo = u.uri_str.buffer, *hi = u.uri_str.buffer + u.uri_str.len;
    struct {
        const char *name;
        const struct aws_byte_cursor *got;
        const std::string *want;
    } f[] = {{"scheme", aws_uri_scheme(&u), &e.scheme},
             {"authority", aws_uri_authority(&u), &e.authority},
             {"userinfo", &u.userinfo, &e.userinfo},
             {"user", &u.user, &e.user},
             {"password", &u.password, &e.password},
             {"host_name", aws_uri_host_name(&u), &e.host},
             {"path", aws_uri_path(&u), &e.path},
             {"query_string", aws_uri_query_string(&u), &e.query},
             {"path_and_query", aws_uri_path_and_query(&u), &e.path_and_query}};
    for (auto &x : f) {
        if (x.got->ptr != nullptr || x.got->len != 0)
            PBT_CHECK(x.got->ptr != nullptr && x.got->ptr >= lo && x.got->len <= (size_t)(hi - x.got->ptr) && x.got->ptr <= hi,
                      "%s \"%s\": %s view (offset %td, length %zu) is not inside the object's text of %zu bytes", what, T, x.name,
                      x.got->ptr ? x.got->ptr - lo : (ptrdiff_t)-1, x.got->len, u.uri_str.len);
        PBT_CHECK(cur(x.got) == *x.want, "%s \"%s\": %s is \"%s\", built from \"%s\"", what, T, x.name, cur(x.got).c_str(), x.want->c_str());
    }
    PBT_CHECK(aws_uri_port(&u) == e.port, "%s \"%s\": port is %u, built from %u", what, T, aws_uri_port(&u), e.port);
}

static bool inside(const struct aws_byte_cursor &c, const uint8_t *lo, const uint8_t *hi) {
    return c.ptr != nullptr && c.ptr >= lo && c.ptr <= hi && c.len <= (size_t)(hi - c.ptr);
}

// query iteration of a parsed uri: uri form, plain form, list forms, all against the reference split
static void check_query_iteration(const struct aws_uri &u, const Expect &e, const std::vector<KV> &want) {
    const char *T = e.text.c_str();
    const uint8_t *lo = u.uri_str.buffer, *hi = u.uri_str.buffer + u.uri_str.len;
    for (int form = 0; form < 2; form++) {
        struct aws_uri_param p;
        AWS_ZERO_STRUCT(p);
        size_t i = 0;
        while (form == 0 ? aws_uri_query_string_next_param(&u, &p) : aws_query_string_next_param(u.query_string, &p)) {
            PBT_CHECK(i < want.size(), "\"%s\": iteration (form %d) yields a %zu. pair \"%s\"=\"%s\", the query \"%s\" has %zu", T, form, i + 1,
                      cur(p.key).c_str(), cur(p.value).c_str(), e.query.c_str(), want.size());
            PBT_CHECK(cur(p.key) == want[i].first && cur(p.value) == want[i].second,
                      "\"%s\": pair %zu (form %d) is \"%s\"=\"%s\", the query \"%s\" has \"%s\"=\"%s\" there", T, i, form, cur(p.key).c_str(),
                      cur(p.value).c_str(), e.query.c_str(), want[i].first.c_str(), want[i].second.c_str());
            PBT_CHECK(inside(p.key, lo, hi) && inside(p.value, lo, hi), "\"%s\": pair %zu points outside the object's text", T, i);
            i++;
            PBT_CHECK(i <= e.query.size() + 2, "\"%s\": iteration does not end", T);
        }
        PBT_CHECK(i == want.size(), "\"%s\": iteration (form %d) ended after %zu pairs, the query \"%s\" has %zu", T, form, i, e.query.c_str(), want.size());
    }
    for (int form = 0; form < 2; form++) {
        struct aws_array_list l;
        PBT_CHECK(aws_array_list_init_dynamic(&l, galloc::full(), form ? 0 : 2, sizeof(struct aws_uri_param)) == AWS_OP_SUCCESS);
        int rc = form == 0 ? aws_uri_query_string_params(&u, &l) : aws_query_string_params(u.query_string, &l);
        size_t n = aws_array_list_length(&l);
        bool ok = rc == AWS_OP_SUCCESS && n == want.size();
        size_t bad = SIZE_MAX;
        for (size_t i = 0; ok && i < n; i++) {
            struct aws_uri_param p;
            aws_array_list_get_at(&l, &p, i);
            if (cur(p.key) != want[i].first || cur(p.value) != want[i].second || !inside(p.key, lo, hi) || !inside(p.value, lo, hi)) {
                ok = false;
                bad = i;
            }
        }
        aws_array_list_clean_up(&l);
        PBT_CHECK(ok, "\"%s\": list form %d (rc %d, %zu entries, first bad entry %zd) disagrees with the reference split of \"%s\" (%zu pairs)", T, form,
                  rc, n, (ssize_t)bad, e.query.c_str(), want.size());
    }
}

static void run(const Case &c, Ctx &ctx) {
    galloc::reset();
    aws_reset_error();
    std::string t[NKINDS];
    bool have[NKINDS] = {false};
    for (auto &op : c.ops) {
        int k = op.kind % NKINDS;
        if (k < 0) k += NKINDS;
        if (!have[k]) {
            have[k] = true;
            t[k] = op.b;
        }
    }
    bool has_scheme = c.c(CF_SCHEME) % 2 == 1;
    unsigned ui = (unsigned)(c.c(CF_UI) % 3);
    unsigned hk = (unsigned)(c.c(CF_HOSTKIND) % 4);
    bool port_present = c.c(CF_PORT) % 2 == 1;
    bool query_present = c.c(CF_QUERY) % 2 == 1;
    unsigned mode = (unsigned)(c.c(CF_MODE) % 3);

    // ---- components in their alphabets
    std::string scheme, user, password, host, hosttext, port, path, query;
    if (has_scheme) {
        scheme = force(t[K_SCHEME], A_SCHEME);
        if (scheme.empty() || ALPHA.find(scheme[0]) == std::string::npos) scheme = "s" + scheme;
    }
    if (mode != M_PARSE) ui = 0; // the builder has no user-info option
    if (ui >= 1) user = force(t[K_USER], A_USER);
    if (ui == 2) password = force(t[K_PASS], A_PASS);
    switch (hk) {
    case H_REGNAME:
    case H_IPV4: hosttext = host = force(t[K_HOST], A_REGNAME); break;
    case H_IPLIT:
        host = force(t[K_HOST], A_IPLIT);
        if (host.empty()) host = "::";
        hosttext = "[" + host + "]";
        break;
    default: break;
    }
    if (port_present) port = force(t[K_PORT], A_PORT);
    path = force(t[K_PATH], A_PATH);
    if (!path.empty() && path[0] != '/') path = "/" + path;
    if (query_present) query = force(t[K_QUERY], A_QUERY);

    RefPort rp = ref_port(port);
    if (mode != M_PARSE) {
        // builder contract: numeric port, 0 = no port; query_string only emitted when non-empty
        if (!rp.ok) rp = {true, 0};
        port_present = rp.v != 0;
        port = port_present ? std::to_string(rp.v) : "";
        if (mode == M_BUILD_QS && query.empty()) query_present = false;
    }

    // ---- constructed exclusions
    if (!has_scheme) {
        if (port_present && port.empty() && !path.empty()) {
            port_present = false;
            ctx.tag("excl_schemeless_emptyport_path");
        }
        bool hit = false;
        for (std::string *s : {&path, &query})
            for (size_t i = 0; i + 1 < s->size(); i++)
                if ((*s)[i] == ':' && (*s)[i + 1] == '/') {
                    (*s)[i] = ';';
                    hit = true;
                }
        if (hit) ctx.tag("excl_schemeless_colon_slash");
    }
    std::vector<KV> build_params;
    if (mode == M_BUILD_PARAMS) {
        // the builder writes key '=' value joined by '&'; the query text it must produce is derived from the pairs
        if (query_present) build_params = ref_params(query, true);
        std::string q;
        for (size_t i = 0; i < build_params.size(); i++) q += (i ? "&" : "") + build_params[i].first + "=" + build_params[i].second;
        query = q;
        query_present = !build_params.empty();
    }
    std::string userinfo = ui == 2 ? user + ":" + password : user;
    std::string authority = (ui ? userinfo + "@" : "") + hosttext + (port_present ? ":" + port : "");
    // cfg[6] = 1 (hand-written replay files only) keeps "" / "s://" and expects the components it was assembled from
    // "" (no component at all) is not a URI; "s://" is the listed known finding uri-scheme-only-rejected and is
    // excluded only while known_findings.json lists it (VERIF_KNOWN), so that the search continues behind it
    static const bool scheme_only_known = getenv("VERIF_KNOWN") && strstr(getenv("VERIF_KNOWN"), "uri-scheme-only-rejected");
    if (authority.empty() && path.empty() && !query_present && c.c(CF_STRICT) % 2 == 0 && (scheme.empty() || scheme_only_known)) {
        path = "/";
        ctx.tag(scheme.empty() ? "excl_empty_string" : "excluded_known_scheme_only");
    }

    Expect e;
    e.scheme = scheme;
    e.authority = authority;
    e.userinfo = userinfo;
    e.user = user;
    e.password = password;
    e.host = host;
    e.port = rp.ok ? rp.v : 0;
    e.path = path;
    e.query = query;
    e.query_present = query_present;
    e.path_and_query = path + (query_present ? "?" + query : "");
    e.text = (has_scheme ? scheme + "://" : "") + authority + e.path_and_query;
    const char *T = e.text.c_str();
    if (ctx.replay)
        printf("uri \"%s\"  mode %u  scheme \"%s\" userinfo \"%s\" host \"%s\" port \"%s\"%s path \"%s\" query \"%s\"%s\n", T, mode, scheme.c_str(),
               userinfo.c_str(), host.c_str(), port.c_str(), port_present ? "" : " (absent)", path.c_str(), query.c_str(), query_present ? "" : " (absent)");

    size_t empty_pairs = 0, no_eq = 0;
    std::vector<KV> want_params;
    if (query_present) want_params = ref_params(query, false, &empty_pairs, &no_eq);

    struct aws_uri u;
    memset(&u, 0x5A, sizeof u);
    bool expect_error = !rp.ok;

    if (mode == M_PARSE) {
        // exact-size heap copy of the text (no terminator): a read past the cursor is an ASan report
        char *in = (char *)malloc(e.text.size() ? e.text.size() : 1);
        memcpy(in, e.text.data(), e.text.size());
        struct aws_byte_cursor incur = aws_byte_cursor_from_array(in, e.text.size());
        int rc = aws_uri_init_parse(&u, galloc::full(), &incur);
        int err = aws_last_error();
        // the object must hold its own copy: the caller's text goes away now
        memset(in, '#', e.text.size());
        free(in);
        if (expect_error) {
            PBT_CHECK(rc == AWS_OP_ERR, "\"%s\": port \"%s\" is not a decimal number <= 4294967295 but the parse succeeded with port %u", T, port.c_str(),
                      rc == AWS_OP_SUCCESS ? aws_uri_port(&u) : 0);
            PBT_CHECK(err == AWS_ERROR_MALFORMED_INPUT_STRING, "\"%s\": bad port reported as %s", T, aws_error_name(err));
            ctx.tag("port_rejected");
        } else {
            PBT_CHECK(rc == AWS_OP_SUCCESS, "\"%s\": parse failed with %s", T, aws_error_name(err));
            check_uri(u, e, "parse");
            check_query_iteration(u, e, want_params);
            aws_uri_clean_up(&u);
        }
    } else {
        struct aws_uri_builder_options o;
        AWS_ZERO_STRUCT(o);
        o.scheme = aws_byte_cursor_from_array(scheme.data(), scheme.size());
        o.host_name = aws_byte_cursor_from_array(hosttext.data(), hosttext.size());
        o.port = rp.v;
        o.path = aws_byte_cursor_from_array(path.data(), path.size());
        struct aws_array_list plist;
        bool have_list = false;
        if (mode == M_BUILD_PARAMS) {
            PBT_CHECK(aws_array_list_init_dynamic(&plist, galloc::full(), build_params.size(), sizeof(struct aws_uri_param)) == AWS_OP_SUCCESS);
            have_list = true;
            for (auto &kv : build_params) {
                struct aws_uri_param p;
                p.key = aws_byte_cursor_from_array(kv.first.data(), kv.first.size());
                p.value = aws_byte_cursor_from_array(kv.second.data(), kv.second.size());
                aws_array_list_push_back(&plist, &p);
            }
            o.query_params = &plist;
            want_params = build_params; // "k=v" with both empty is the text "=", a non-empty pair
        } else {
            o.query_string = aws_byte_cursor_from_array(query.data(), query.size());
        }
        int rc = aws_uri_init_from_builder_options(&u, galloc::full(), &o);
        int err = aws_last_error();
        if (have_list) aws_array_list_clean_up(&plist);
        PBT_CHECK(rc == AWS_OP_SUCCESS, "builder for \"%s\" failed with %s", T, aws_error_name(err));
        Expect eb = e;
        if (mode == M_BUILD_PARAMS && !build_params.empty()) {
            // How a pair is written is the builder's choice as long as it reads back as that pair ("k=" and "k" both mean
            // (k, "")): the query text is taken from the result, after checking that it is '&'-joined renderings of the pairs.
            std::string prefix = (has_scheme ? scheme + "://" : "") + authority + path + "?";
            std::string got((const char *)u.uri_str.buffer, u.uri_str.buffer ? u.uri_str.len : 0);
            PBT_CHECK(got.size() > prefix.size() && got.compare(0, prefix.size(), prefix) == 0, "build \"%s\": the builder produced \"%s\"", T, got.c_str());
            std::string q = got.substr(prefix.size());
            std::vector<std::string> pieces;
            for (size_t pos = 0;;) {
                size_t amp = q.find('&', pos);
                pieces.push_back(q.substr(pos, amp == std::string::npos ? std::string::npos : amp - pos));
                if (amp == std::string::npos) break;
                pos = amp + 1;
            }
            PBT_CHECK(pieces.size() == build_params.size(), "build \"%s\": %zu parameters given, query \"%s\" has %zu pieces", T, build_params.size(), q.c_str(),
                      pieces.size());
            for (size_t i = 0; i < pieces.size(); i++) {
                const KV &kv = build_params[i];
                bool ok = pieces[i] == kv.first + "=" + kv.second || (kv.second.empty() && !kv.first.empty() && pieces[i] == kv.first);
                PBT_CHECK(ok, "build \"%s\": parameter %zu (\"%s\", \"%s\") was written as \"%s\"", T, i, kv.first.c_str(), kv.second.c_str(), pieces[i].c_str());
            }
            eb.query = q;
            eb.path_and_query = path + "?" + q;
            eb.text = prefix + q;
            if (q != query) ctx.tag("builder_pair_without_equals");
        }
        if (mode == M_BUILD_PARAMS && build_params.empty() && u.uri_str.len == e.text.size() + 1 && u.uri_str.buffer[e.text.size()] == '?') {
            // an empty (non-NULL) parameter list: the builder may or may not append a bare '?'; both texts mean "no parameters"
            eb.text += "?";
            eb.path_and_query += "?";
            ctx.tag("builder_empty_list_qmark");
        }
        check_uri(u, eb, "build");
        check_query_iteration(u, eb, want_params);
        const char *m = nullptr;
        PBT_CHECK(galloc::check_all(&m), "builder for \"%s\": %s", T, m ? m : "");
        // the produced text re-parses identically
        struct aws_uri v;
        struct aws_byte_cursor again = aws_byte_cursor_from_buf(&u.uri_str);
        PBT_CHECK(aws_uri_init_parse(&v, galloc::full(), &again) == AWS_OP_SUCCESS, "builder output \"%s\" does not parse: %s", eb.text.c_str(),
                  aws_error_name(aws_last_error()));
        check_uri(v, eb, "re-parse of builder output");
        aws_uri_clean_up(&v);
        aws_uri_clean_up(&u);
        ctx.tag(mode == M_BUILD_QS ? "builder_query_string" : "builder_query_params");
    }
    const char *m = nullptr;
    PBT_CHECK(galloc::check_all(&m), "\"%s\": %s", T, m ? m : "");

    // ---- distribution
    unsigned present = (has_scheme ? 1 : 0) + (ui ? 1 : 0) + (!host.empty() ? 1 : 0) + (port_present ? 1 : 0) + (!path.empty() ? 1 : 0) + (query_present ? 1 : 0);
    unsigned empties = (ui && userinfo.empty() ? 1 : 0) + (ui == 2 && (user.empty() || password.empty()) ? 1 : 0) + (host.empty() ? 1 : 0) +
                       (port_present && port.empty() ? 1 : 0) + (path.empty() ? 1 : 0) + (query_present && query.empty() ? 1 : 0);
    if (!expect_error && ((present >= 4 && empties >= 1) || (empty_pairs >= 1 && no_eq >= 1))) ctx.nontrivial = true;
    if (!has_scheme) ctx.tag("schemeless_cases");
    if (hk == H_IPLIT) ctx.tag(port_present ? "ip_literal_with_port" : "ip_literal_no_port");
    if (host.empty()) ctx.tag("empty_host");
    if (authority.empty()) ctx.tag("empty_authority");
    if (ui == 2) ctx.tag("user_password");
    if (ui && userinfo.empty()) ctx.tag("empty_userinfo");
    if (port_present && port.empty()) ctx.tag("empty_port");
    if (port_present && rp.ok && port.size() > 1 && port[0] == '0') ctx.tag("port_leading_zeros");
    if (rp.ok && rp.v == 0xFFFFFFFFu) ctx.tag("port_uint32_max");
    if (path.empty() && query_present) ctx.tag("query_directly_after_authority");
    if (query_present && query.find('/') != std::string::npos) ctx.tag(path.empty() ? "slash_in_query_no_path" : "slash_in_query");
    if (query_present && query.find('?') != std::string::npos) ctx.tag("qmark_in_query");
    if (query_present && query.empty()) ctx.tag("empty_query");
    if (empty_pairs && no_eq) ctx.tag("query_empty_pair_and_no_eq");
    if (path.find(':') != std::string::npos || path.find('@') != std::string::npos) ctx.tag("colon_or_at_in_path");
}

int main(int argc, char **argv) {
    aws_common_library_init(aws_default_allocator()); // error names in messages
    Spec sp{"C13", "c13_uri_parse", gen_case, run,
            "URI texts assembled from generated components over their RFC 3986 alphabets (scheme, user[:password], reg-name/IPv4/bracketed "
            "literal/empty host, 9 port classes, '/'-rooted path, structured query incl. '/' and '?'), 70% parsed, 30% through the builder; "
            "non-trivial = accepted URI with >=4 components present and >=1 empty component, or a query with >=1 empty pair and >=1 pair "
            "without '='; distinct by hash of the serialised case"};
    return pbt_main(argc, argv, sp);
}

// C03 — small-block allocator, threaded part: 2-3 threads with their own command lists plus hand-over
// (a block acquired by one thread is released / reallocated by another) on an allocator created
// multi-threaded, under the controlled scheduler (DESIGN.md section 4 and section 5 / C03).
//
// Decision points inside an SBA call: lock of the bin mutex (before it is taken), unlock of the bin mutex
// (taken *before* the model releases it, i.e. still inside the critical section) and — added by this
// harness through --wrap=posix_memalign/free — the page allocation and the page free, both of which sit
// inside the critical section.  --wrap=aws_mutex_lock/unlock only *observes* which thread is inside a
// bin's critical section (for the non-trivial rule and the contention counters).
#include "pbt.hpp"
#include "galloc.hpp"
#include "detsched/sched_glue.hpp"

#include <aws/common/allocator.h>
#include <aws/common/error.h>
#include <aws/common/mutex.h>

#include <pthread.h>

using namespace pbt;

static size_t PAGE = 4096; // both are re-read from the allocator in run(): the geometry is not part of the property
static size_t HDR = 32;
static const int MAXT = 3;

struct Blk {
    uint8_t *p;
    size_t req;
    size_t cls; // 0 = served by the parent allocator
    uint32_t serial;
    int acquired_by;
    std::string shadow;
};
struct PageInfo {
    size_t cls = 0;
};

struct World {
    Ctx *ctx = nullptr;
    const Case *c = nullptr;
    struct aws_allocator *sba = nullptr;
    int nth = 2;
    bool release_own_at_end = false;
    // harness-side shared state: exactly one thread runs at a time and is only preempted at decision points,
    // none of which lies inside the harness' own bookkeeping
    std::map<uintptr_t, PageInfo> pages;
    uint64_t page_allocs = 0, page_frees = 0;
    bool page_freed_with_siblings = false;
    std::vector<Blk> table[MAXT], inbox[MAXT];
    std::map<uintptr_t, size_t> imap; // every live block of every thread: start -> requested size
    uint32_t serial = 0;
    std::map<const void *, int> holder; // bin mutex -> scheduler thread inside its critical section
    bool switch_in_cs = false, contended = false, switch_at_page_point = false;
    int small_ops = 0, handovers = 0, foreign_release = 0, cross = 0;
    // cumulative class sums: acquisitions started / completed, releases started / completed (see METRIC)
    size_t A_s = 0, A_d = 0, R_s = 0, R_d = 0;
    int metric_bounded = 0;
    int threads_with_small_ops = 0;
};
static World *W = nullptr;

// ---- interposition (observation + two extra decision points) -------------------------------------------
extern "C" int __real_posix_memalign(void **, size_t, size_t);
extern "C" void __real_free(void *);
extern "C" int __real_aws_mutex_lock(struct aws_mutex *);
extern "C" int __real_aws_mutex_unlock(struct aws_mutex *);

static void page_point() {
    // VERIF_C03_NO_PAGE_POINTS=1 removes these two decision points (used once to show which mutants they make visible)
    static const bool off = getenv("VERIF_C03_NO_PAGE_POINTS") != nullptr;
    if (off || !ds::active() || ds::self() < 0) return;
    uint64_t s0 = ds::stats().switches;
    ds::point();
    if (W && ds::stats().switches != s0) {
        W->switch_at_page_point = true;
        if (!W->holder.empty()) W->switch_in_cs = true;
    }
}

extern "C" int __wrap_posix_memalign(void **out, size_t align, size_t size) {
    bool is_page = W && align == size && align >= 1024 && (align & (align - 1)) == 0;
    if (is_page) page_point(); // "nothing free to use, allocate a page": inside the bin's critical section
    int rc = __real_posix_memalign(out, align, size);
    if (is_page && rc == 0) {
        W->page_allocs++;
        W->pages[(uintptr_t)*out] = PageInfo();
    }
    return rc;
}
extern "C" void __wrap_free(void *p) {
    if (W && p && !W->pages.empty()) {
        auto it = W->pages.find((uintptr_t)p);
        if (it != W->pages.end()) {
            auto b = W->imap.lower_bound((uintptr_t)p);
            if (b != W->imap.end() && b->first < (uintptr_t)p + PAGE)
                W->ctx->note_fail(fmt("page %p returned to the system while the live block %p (+%zu) is inside it", p,
                                      (void *)b->first, b->second));
            if (it->second.cls)
                for (auto &kv : W->pages)
                    if (kv.first != it->first && kv.second.cls == it->second.cls) W->page_freed_with_siblings = true;
            W->page_frees++;
            W->pages.erase(it);
            page_point(); // the page is out of the bin's lists, the lock is still held
        }
    }
    __real_free(p);
}
extern "C" int __wrap_aws_mutex_lock(struct aws_mutex *m) {
    if (!(W && ds::active() && ds::self() >= 0)) return __real_aws_mutex_lock(m);
    if (W->holder.count(m)) W->contended = true; // somebody is inside: this call is going to block
    int rc = __real_aws_mutex_lock(m);
    W->holder[m] = ds::self();
    return rc;
}
extern "C" int __wrap_aws_mutex_unlock(struct aws_mutex *m) {
    if (!(W && ds::active() && ds::self() >= 0)) return __real_aws_mutex_unlock(m);
    uint64_t s0 = ds::stats().switches;
    int rc = __real_aws_mutex_unlock(m); // its decision point comes before the mutex is given up
    if (ds::stats().switches != s0) W->switch_in_cs = true;
    W->holder.erase(m);
    return rc;
}

// ---- generator ------------------------------------------------------------------------------------------
enum { ACQ = 0, CALLOC = 1, REALLOC = 2, REL = 3, GIVE = 4, YIELD = 5, METRIC = 6, BURST = 7, NKINDS = 8 };

static const uint64_t HOT[] = {24, 32, 64, 100, 128, 200, 256, 257, 400, 512, 512, 513, 600};
static const uint64_t EDGE[] = {1, 31, 32, 33, 63, 64, 65, 127, 128, 129, 255, 256, 257, 511, 512, 513, 600, 4096, 5000};

static Case gen_case() {
    Case c;
    uint64_t nth = pick(2, 3);
    uint64_t hot1 = HOT[pick(0, sizeof HOT / sizeof HOT[0] - 1)], hot2 = HOT[pick(0, sizeof HOT / sizeof HOT[0] - 1)];
    c.cfg = {nth, pick(0, 1), pick(0, 2)};
    auto size = [=]() -> uint64_t {
        switch (weighted({45, 25, 20, 10})) {
        case 0: return hot1;
        case 1: return hot2;
        case 2: return EDGE[pick(0, sizeof EDGE / sizeof EDGE[0] - 1)];
        default: return pick(1, 2048);
        }
    };
    c.ops = op_list(70, [=] {
        uint64_t t = pick(0, nth - 1);
        switch (weighted({32, 5, 14, 24, 10, 5, 3, 7})) {
        case 0: return mkop(ACQ, {t, size()});
        case 1: {
            uint64_t total = size(), num = one_of({1, 2, 4, 8});
            if (total % num) num = 1;
            return mkop(CALLOC, {t, num, total / num});
        }
        case 2: return mkop(REALLOC, {t, pick(0, 100), size()});
        case 3: return mkop(REL, {t, weighted({3, 3, 4}), pick(0, 100)});
        case 4: return mkop(GIVE, {t, pick(0, 100), pick(0, 1)});
        case 5: return mkop(YIELD, {t, pick(1, 3)});
        case 6: return mkop(METRIC, {t});
        default: return mkop(BURST, {t, chance(70) ? hot1 : hot2, pick(2, 9)});
        }
    });
    c.ops.push_back(dsg::gen_schedule(300));
    return c;
}

// ---- oracle ---------------------------------------------------------------------------------------------
static size_t class_of(size_t n) {
    for (size_t c = 32; c <= 512; c *= 2)
        if (n <= c) return c;
    return 0;
}
// never produces 0x75, the first byte of AWS_SBA_TAG_VALUE in memory
static inline uint8_t pat(uint32_t serial, size_t i) {
    uint8_t v = (uint8_t)(serial * 131u + i * 7u + (i >> 8) * 13u + 1u);
    return v == 0x75 ? 0x76 : v;
}

// placement, alignment and disjointness of a new / moved / resized block; records failures, never throws
static bool place(World &w, uint8_t *p, size_t n, const char *what, size_t *cls_out) {
    Ctx &ctx = *w.ctx;
    if (!p) {
        ctx.note_fail(fmt("%s(%zu) returned NULL", what, n));
        return false;
    }
    if ((uintptr_t)p & 15) {
        ctx.note_fail(fmt("%s(%zu) returned %p which is not 16-byte aligned", what, n, (void *)p));
        return false;
    }
    size_t cls;
    uintptr_t base;
    size_t bsize;
    if (galloc::containing(p, &base, &bsize) && (uintptr_t)p + n <= base + bsize) {
        cls = 0;
    } else {
        uintptr_t pg = (uintptr_t)p & ~(uintptr_t)(PAGE - 1);
        auto it = w.pages.find(pg);
        if (it == w.pages.end()) {
            ctx.note_fail(fmt("%s(%zu) returned %p: neither inside a parent block nor inside a live page", what, n, (void *)p));
            return false;
        }
        if (!((uintptr_t)p >= pg + HDR && (uintptr_t)p + n <= pg + PAGE)) {
            ctx.note_fail(fmt("%s(%zu) returned %p (+%zu) which leaves the usable part of its page %p", what, n, (void *)p, n, (void *)pg));
            return false;
        }
        cls = class_of(n);
        if (!cls) {
            ctx.note_fail(fmt("%s(%zu): a request above the largest size class was carved from a page", what, n));
            return false;
        }
        if (!it->second.cls) it->second.cls = cls;
    }
    auto nx = w.imap.lower_bound((uintptr_t)p);
    if (nx != w.imap.end() && (uintptr_t)p + n > nx->first) {
        ctx.note_fail(fmt("t%d: %s(%zu) returned [%p,+%zu) which overlaps the live block [%p,+%zu)", ds::self(), what, n, (void *)p, n,
                          (void *)nx->first, nx->second));
        return false;
    }
    if (nx != w.imap.begin()) {
        --nx;
        if (nx->first + nx->second > (uintptr_t)p) {
            ctx.note_fail(fmt("t%d: %s(%zu) returned [%p,+%zu) which overlaps the live block [%p,+%zu)", ds::self(), what, n, (void *)p,
                              n, (void *)nx->first, nx->second));
            return false;
        }
    }
    *cls_out = cls;
    return true;
}
static void fill(World &w, Blk &b) {
    b.serial = ++w.serial;
    b.shadow.resize(b.req);
    for (size_t i = 0; i < b.req; i++) b.shadow[i] = (char)pat(b.serial, i);
    memcpy(b.p, b.shadow.data(), b.req);
}
static bool intact(World &w, const Blk &b, const char *when) {
    if (memcmp(b.p, b.shadow.data(), b.req) == 0) return true;
    size_t i = 0;
    while (i < b.req && b.p[i] == (uint8_t)b.shadow[i]) i++;
    w.ctx->note_fail(fmt("%s: contents of live block #%u [%p,+%zu, class %zu, acquired by thread %d] changed at byte %zu", when, b.serial,
                         (void *)b.p, b.req, b.cls, b.acquired_by, i));
    return false;
}
static void adopt(World &w, int t, uint8_t *p, size_t n, size_t cls) {
    Blk b{p, n, cls, 0, t, std::string()};
    fill(w, b);
    w.imap[(uintptr_t)p] = n;
    if (cls) w.small_ops++;
    w.A_d += cls;
    w.A_s += cls - class_of(n); // the class actually used (differs from the estimate only if the allocator mis-classes)
    w.table[t].push_back(std::move(b));
}
static void do_release(World &w, int t, size_t i) {
    Blk b = std::move(w.table[t][i]);
    w.table[t].erase(w.table[t].begin() + (long)i);
    if (!intact(w, b, "before release")) return;
    w.imap.erase((uintptr_t)b.p); // from here on the memory may be handed out again
    if (b.cls) w.small_ops++;
    if (b.acquired_by != t) w.foreign_release++;
    w.R_s += b.cls;
    aws_mem_release(w.sba, b.p);
    w.R_d += b.cls;
}
static void do_realloc(World &w, int t, size_t i, size_t n) {
    Ctx &ctx = *w.ctx;
    // the block leaves the table for the duration of the call (the table may be reshuffled by a hand-over meanwhile)
    Blk old = std::move(w.table[t][i]);
    w.table[t].erase(w.table[t].begin() + (long)i);
    if (!intact(w, old, "before realloc")) return;
    w.imap.erase((uintptr_t)old.p);
    void *ptr = old.p;
    size_t est = std::max(old.cls, class_of(n));
    w.R_s += old.cls;
    w.A_s += est;
    int rc = aws_mem_realloc(w.sba, &ptr, old.req, n);
    if (rc != AWS_OP_SUCCESS || !ptr) {
        ctx.note_fail(fmt("realloc(%zu -> %zu) failed", old.req, n));
        return;
    }
    uint8_t *p = (uint8_t *)ptr;
    size_t cls = 0;
    if (p == old.p) {
        size_t capacity = old.cls;
        if (!old.cls) {
            uintptr_t base;
            size_t bsize = 0;
            if (!(galloc::containing(p, &base, &bsize) && base == (uintptr_t)p)) {
                ctx.note_fail("parent-served block vanished during realloc");
                return;
            }
            capacity = bsize;
        }
        if (n > capacity) {
            ctx.note_fail(fmt("realloc(%zu -> %zu) kept the block in place although it only holds %zu bytes", old.req, n, capacity));
            return;
        }
        size_t dummy;
        if (!place(w, p, n, "realloc", &dummy)) return;
        cls = old.cls;
        if (old.req > 512 && n <= 512) w.cross++;
    } else {
        if (!place(w, p, n, "realloc", &cls)) return;
        if (old.req <= 512 && n > 512) w.cross++;
    }
    size_t keep = std::min(old.req, n);
    if (memcmp(p, old.shadow.data(), keep) != 0) {
        size_t k = 0;
        while (k < keep && p[k] == (uint8_t)old.shadow[k]) k++;
        ctx.note_fail(fmt("realloc(%zu -> %zu, %s) lost the old contents at byte %zu of %zu", old.req, n, p == old.p ? "in place" : "moved",
                          k, keep));
        return;
    }
    if (old.cls || cls) w.small_ops++;
    w.A_d += cls;
    w.A_s += cls - est;
    w.R_d += old.cls;
    Blk b{p, n, cls, 0, old.acquired_by, std::string()};
    fill(w, b);
    w.imap[(uintptr_t)p] = n;
    w.table[t].push_back(std::move(b));
}

struct Arg {
    World *w;
    int t;
};

static void *worker(void *vp) {
    Arg *a = (Arg *)vp;
    World &w = *a->w;
    Ctx &ctx = *w.ctx;
    int t = a->t;
    bool did_small = false;
    auto take_inbox = [&] {
        for (auto &b : w.inbox[t]) {
            w.handovers++;
            w.table[t].push_back(std::move(b));
        }
        w.inbox[t].clear();
    };
    for (auto &op : w.c->ops) {
        if (op.kind == dsg::SCHED_OP || (int)(op.arg(0) % (uint64_t)w.nth) != t) continue;
        if (ctx.failed) return nullptr;
        take_inbox();
        int before = w.small_ops;
        switch (op.kind % NKINDS) {
        case ACQ: {
            size_t n = (size_t)std::min<uint64_t>(std::max<uint64_t>(op.arg(1, 1), 1), 6000);
            w.A_s += class_of(n);
            uint8_t *p = (uint8_t *)aws_mem_acquire(w.sba, n);
            size_t cls;
            if (place(w, p, n, "acquire", &cls)) adopt(w, t, p, n, cls);
            break;
        }
        case BURST: {
            size_t n = (size_t)std::min<uint64_t>(std::max<uint64_t>(op.arg(1, 1), 1), 600);
            size_t k = 1 + (size_t)(op.arg(2, 1) % 9);
            for (size_t i = 0; i < k && !ctx.failed; i++) {
                w.A_s += class_of(n);
                uint8_t *p = (uint8_t *)aws_mem_acquire(w.sba, n);
                size_t cls;
                if (place(w, p, n, "acquire", &cls)) adopt(w, t, p, n, cls);
            }
            break;
        }
        case CALLOC: {
            size_t num = (size_t)std::min<uint64_t>(std::max<uint64_t>(op.arg(1, 1), 1), 64);
            size_t size = (size_t)std::min<uint64_t>(std::max<uint64_t>(op.arg(2, 1), 1), 6000);
            if (num * size > 8192) num = 1;
            size_t n = num * size;
            w.A_s += class_of(num * size);
            uint8_t *p = (uint8_t *)aws_mem_calloc(w.sba, num, size);
            size_t cls;
            if (!place(w, p, n, "calloc", &cls)) break;
            bool zero = true;
            for (size_t i = 0; i < n; i++)
                if (p[i]) {
                    ctx.note_fail(fmt("calloc(%zu,%zu): byte %zu is 0x%02x", num, size, i, p[i]));
                    zero = false;
                    break;
                }
            if (zero) adopt(w, t, p, n, cls);
            break;
        }
        case REALLOC: {
            if (w.table[t].empty()) break;
            size_t n = (size_t)std::min<uint64_t>(std::max<uint64_t>(op.arg(2, 1), 1), 6000);
            do_realloc(w, t, (size_t)(op.arg(1) % w.table[t].size()), n);
            break;
        }
        case REL: {
            if (w.table[t].empty()) break;
            size_t sz = w.table[t].size();
            switch (op.arg(1) % 3) {
            case 0: do_release(w, t, sz - 1); break;
            case 1: do_release(w, t, 0); break;
            default: do_release(w, t, (size_t)(op.arg(2) % sz)); break;
            }
            break;
        }
        case GIVE: {
            if (w.table[t].empty()) break;
            size_t i = (size_t)(op.arg(1) % w.table[t].size());
            int to = (t + 1 + (int)(op.arg(2) % (uint64_t)(w.nth - 1))) % w.nth;
            Blk b = std::move(w.table[t][i]);
            w.table[t].erase(w.table[t].begin() + (long)i);
            if (intact(w, b, "before hand-over")) w.inbox[to].push_back(std::move(b));
            break;
        }
        case YIELD:
            for (uint64_t k = 0; k < 1 + op.arg(1) % 3; k++) ds::point();
            break;
        case METRIC: {
            // concurrent readers of the metrics take every bin lock in turn; the sum is not a snapshot, so only
            // its plausibility is checked: whole chunks, and never more than the pages could hold
            // Every block whose acquisition had completed before the call and whose release had not begun by its
            // end is live for the whole call and must be counted; a block can only be counted if its acquisition
            // had begun by the end and its release had not completed at the start.  (Harness bookkeeping is atomic
            // with respect to the scheduler: there is no decision point between a library call and its model update.)
            size_t a_d0 = w.A_d, r_d0 = w.R_d;
            size_t act = aws_small_block_allocator_bytes_active(w.sba);
            size_t lo = a_d0 > w.R_s ? a_d0 - w.R_s : 0, hi = w.A_s - r_d0;
            if (act % 32) ctx.note_fail(fmt("bytes_active %zu is not a multiple of the smallest class", act));
            if (act < lo || act > hi)
                ctx.note_fail(fmt("t%d: concurrent bytes_active returned %zu; blocks live during the whole call sum to %zu, blocks live at any "
                                  "time during it to %zu", t, act, lo, hi));
            w.metric_bounded++;
            (void)aws_small_block_allocator_bytes_reserved(w.sba);
            break;
        }
        }
        if (w.small_ops != before) did_small = true;
        // every block this thread owns is intact after every command of this thread
        for (auto &b : w.table[t])
            if (!intact(w, b, "after a command of the owning thread")) return nullptr;
    }
    take_inbox();
    if (w.release_own_at_end)
        while (!w.table[t].empty() && !ctx.failed) do_release(w, t, w.table[t].size() - 1);
    if (did_small) w.threads_with_small_ops++;
    return nullptr;
}

static void run(const Case &c, Ctx &ctx) {
    galloc::reset();
    dsg::install();
    World w;
    w.ctx = &ctx;
    w.c = &c;
    W = &w;
    struct Unhook {
        ~Unhook() { W = nullptr; }
    } unhook;
    w.nth = 2 + (int)(c.c(0, 2) % 2);
    w.release_own_at_end = c.c(1) % 2 == 1;
    w.sba = aws_small_block_allocator_new(galloc::full(), true);
    PBT_CHECK(w.sba != nullptr);
    {
        size_t ps = aws_small_block_allocator_page_size(w.sba), av = aws_small_block_allocator_page_size_available(w.sba);
        PBT_CHECK(ps >= 1024 && (ps & (ps - 1)) == 0 && av < ps && av >= ps / 2, "page geometry %zu / %zu available cannot be observed by this harness", ps, av);
        PAGE = ps;
        HDR = ps - av;
    }
    size_t parent_baseline = galloc::live_blocks();

    ds::Config cfg = dsg::to_config(dsg::find_schedule(c), 60000);
    ds::run(cfg, [&] {
        Arg args[MAXT];
        pthread_t th[MAXT];
        for (int i = 0; i < w.nth; i++) {
            args[i] = Arg{&w, i};
            pthread_create(&th[i], nullptr, worker, &args[i]);
        }
        for (int i = 0; i < w.nth; i++) pthread_join(th[i], nullptr);
    });
    PBT_CHECK(!ctx.failed, "%s", ctx.msg.c_str());
    for (auto &ti : ds::threads())
        if (ti.id != 0) PBT_CHECK(ti.done && ti.joins == 1, "thread t%d: done=%d joins=%d", ti.id, ti.done, ti.joins);
    PBT_CHECK(w.holder.empty(), "a bin mutex is still held after every thread finished");

    // ---- quiescence: everything the threads left behind, on the main thread -------------------------------
    std::vector<Blk> rest;
    for (int t = 0; t < w.nth; t++) {
        for (auto &b : w.table[t]) rest.push_back(std::move(b));
        for (auto &b : w.inbox[t]) rest.push_back(std::move(b));
        w.table[t].clear();
        w.inbox[t].clear();
    }
    PBT_CHECK(rest.size() == w.imap.size(), "harness bookkeeping: %zu blocks, %zu intervals", rest.size(), w.imap.size());
    size_t expect_active = 0;
    for (auto &b : rest) {
        PBT_CHECK(intact(w, b, "at quiescence"), "%s", ctx.msg.c_str());
        expect_active += b.cls;
    }
    size_t act = aws_small_block_allocator_bytes_active(w.sba);
    PBT_CHECK(act == expect_active, "at quiescence: bytes_active %zu, sum of the size classes of the live small blocks %zu", act,
              expect_active);
    size_t res = aws_small_block_allocator_bytes_reserved(w.sba);
    PBT_CHECK(res == w.pages.size() * PAGE, "at quiescence: bytes_reserved %zu but %zu pages are alive", res, w.pages.size());
    const char *m = nullptr;
    PBT_CHECK(galloc::check_all(&m), "at quiescence: %s", m ? m : "");

    size_t order = (size_t)(c.c(2) % 3);
    while (!rest.empty()) {
        size_t i = order == 0 ? rest.size() - 1 : order == 1 ? 0 : (rest.size() * 7 + 3) % rest.size();
        Blk b = std::move(rest[i]);
        rest.erase(rest.begin() + (long)i);
        w.imap.erase((uintptr_t)b.p);
        w.foreign_release++;
        aws_mem_release(w.sba, b.p);
        PBT_CHECK(!ctx.failed, "%s", ctx.msg.c_str());
        for (auto &o : rest) PBT_CHECK(intact(w, o, "after a release by the main thread"), "%s", ctx.msg.c_str());
    }
    act = aws_small_block_allocator_bytes_active(w.sba);
    PBT_CHECK(act == 0, "everything released but bytes_active is %zu", act);
    res = aws_small_block_allocator_bytes_reserved(w.sba);
    PBT_CHECK(res <= 5 * PAGE && res == w.pages.size() * PAGE, "everything released: bytes_reserved %zu, %zu pages alive", res, w.pages.size());
    std::map<size_t, int> per;
    for (auto &kv : w.pages)
            if (kv.second.cls) per[kv.second.cls]++; // a page no block was ever seen in has no known class: it only counts towards the total
    for (auto &kv : per) PBT_CHECK(kv.second <= 1, "everything released but class %zu keeps %d pages", kv.first, kv.second);
    PBT_CHECK(galloc::live_blocks() == parent_baseline, "everything released but %zu parent blocks are outstanding (baseline %zu)",
              galloc::live_blocks(), parent_baseline);
    aws_small_block_allocator_destroy(w.sba);
    PBT_CHECK(!ctx.failed, "%s", ctx.msg.c_str());
    PBT_CHECK(w.pages.empty(), "destroy left %zu pages allocated", w.pages.size());
    PBT_CHECK(galloc::check_all(&m), "%s", m ? m : "");
    PBT_CHECK(galloc::live_blocks() == 0, "destroy left %zu parent blocks (%zu bytes)", galloc::live_blocks(), galloc::live_bytes());

    if (w.switch_in_cs) ctx.tag("switch_inside_bin_critical_section");
    if (w.switch_at_page_point) ctx.tag("switch_at_page_alloc_or_free");
    if (w.contended) ctx.tag("lock_contended");
    if (w.handovers) ctx.tag("handover_between_threads");
    if (w.cross) ctx.tag("realloc_across_512");
    if (w.page_freed_with_siblings) ctx.tag("page_freed_while_same_class_pages_live");
    if (w.page_frees) ctx.tag("page_freed_during_threads_or_drain");
    if (w.nth == 3) ctx.tag("three_threads");
    if (ds::stats().switches >= 6) ctx.tag("switches_ge_6");
    ctx.nontrivial = w.switch_in_cs && w.threads_with_small_ops >= 2;
}

int main(int argc, char **argv) {
    Spec sp{"C03", "c03_sba_mt", gen_case, run,
            "2-3 threads, <=70 commands (acquire/calloc/realloc/release/burst/hand-over/yield/metric reads) around 1-2 hot sizes per "
            "case on a multi-threaded allocator, under generated schedules (walk / bounded preemption / PCT) with decision points at "
            "bin-mutex lock/unlock and at page allocation/free; non-trivial = a context switch happened while a thread was inside a "
            "bin's critical section and >=2 threads operated on small blocks",
            /*isolate=*/true};
    return pbt_main(argc, argv, sp);
}

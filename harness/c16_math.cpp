// C16 — overflow-checked arithmetic and time-unit conversion are exact or flagged.
//
// Three implementation variants of the add/multiply helpers run side by side in this one TU:
//   "builtin"  — what <aws/common/math.h> selects on this platform (math.gcc_overflow.inl + math.gcc_builtin.inl),
//   "portable" — math.fallback.inl, included a second time under renaming macros (fb_ prefix),
//   "x64asm"   — math.gcc_x64_asm.inl, included a third time under renaming macros (asm_ prefix).
// clock.inl is re-included under each renaming as well, so aws_timestamp_convert_u64 is exercised on top of every
// variant's saturating multiply/add.  All of them are compiled from <VERIF_REPO>/include at build time (no copies).
// Oracle: unsigned __int128 reference arithmetic and bit-by-bit definitions.  See DESIGN.md section 5 / C16.
#include "pbt.hpp"

#include <aws/common/clock.h>
#include <aws/common/error.h>
#include <aws/common/math.h>

#include <cfloat>
#include <cmath>

#if !defined(__x86_64__)
#    error "c16_math runs the x86-64 inline-assembly variant; x86-64 only"
#endif
#if !defined(AWS_COMMON_MATH_GCC_OVERFLOW_INL) || !defined(AWS_COMMON_MATH_GCC_BUILTIN_INL)
#    error "expected <aws/common/math.h> to select the compiler-builtin variant by default"
#endif
#if defined(AWS_COMMON_MATH_FALLBACK_INL) || defined(AWS_COMMON_MATH_GCC_X64_ASM_INL)
#    error "portable / asm variant already included by the default path; side-by-side renaming would be a no-op"
#endif
static_assert(sizeof(size_t) == 8 && SIZE_BITS == 64, "size_t forms are compared with the 64-bit forms");

// ---- prototypes for the renamed variants (the .inl files call some helpers before defining them) --------------
#define C16_PROTO_ARITH(P)                                                                                             \
    static inline uint64_t P##aws_mul_u64_saturating(uint64_t a, uint64_t b);                                          \
    static inline int P##aws_mul_u64_checked(uint64_t a, uint64_t b, uint64_t *r);                                     \
    static inline uint32_t P##aws_mul_u32_saturating(uint32_t a, uint32_t b);                                          \
    static inline int P##aws_mul_u32_checked(uint32_t a, uint32_t b, uint32_t *r);                                     \
    static inline uint64_t P##aws_add_u64_saturating(uint64_t a, uint64_t b);                                          \
    static inline int P##aws_add_u64_checked(uint64_t a, uint64_t b, uint64_t *r);                                     \
    static inline uint32_t P##aws_add_u32_saturating(uint32_t a, uint32_t b);                                          \
    static inline int P##aws_add_u32_checked(uint32_t a, uint32_t b, uint32_t *r);                                     \
    static inline uint64_t P##aws_timestamp_convert_u64(uint64_t t, uint64_t o, uint64_t n, uint64_t *r);              \
    static inline uint64_t P##aws_timestamp_convert(                                                                   \
        uint64_t t, enum aws_timestamp_unit f, enum aws_timestamp_unit to, uint64_t *r);
#define C16_PROTO_BITS(P)                                                                                              \
    static inline size_t P##aws_clz_u32(uint32_t n);                                                                   \
    static inline size_t P##aws_clz_i32(int32_t n);                                                                    \
    static inline size_t P##aws_clz_u64(uint64_t n);                                                                   \
    static inline size_t P##aws_clz_i64(int64_t n);                                                                    \
    static inline size_t P##aws_clz_size(size_t n);                                                                    \
    static inline size_t P##aws_ctz_u32(uint32_t n);                                                                   \
    static inline size_t P##aws_ctz_i32(int32_t n);                                                                    \
    static inline size_t P##aws_ctz_u64(uint64_t n);                                                                   \
    static inline size_t P##aws_ctz_i64(int64_t n);                                                                    \
    static inline size_t P##aws_ctz_size(size_t n);
extern "C" {
C16_PROTO_ARITH(fb_)
C16_PROTO_BITS(fb_)
C16_PROTO_ARITH(asm_)
}

// ---- portable variant: math.fallback.inl + clock.inl under fb_ names -------------------------------------------
#define aws_mul_u64_saturating fb_aws_mul_u64_saturating
#define aws_mul_u64_checked fb_aws_mul_u64_checked
#define aws_mul_u32_saturating fb_aws_mul_u32_saturating
#define aws_mul_u32_checked fb_aws_mul_u32_checked
#define aws_add_u64_saturating fb_aws_add_u64_saturating
#define aws_add_u64_checked fb_aws_add_u64_checked
#define aws_add_u32_saturating fb_aws_add_u32_saturating
#define aws_add_u32_checked fb_aws_add_u32_checked
#define aws_clz_u32 fb_aws_clz_u32
#define aws_clz_i32 fb_aws_clz_i32
#define aws_clz_u64 fb_aws_clz_u64
#define aws_clz_i64 fb_aws_clz_i64
#define aws_clz_size fb_aws_clz_size
#define aws_ctz_u32 fb_aws_ctz_u32
#define aws_ctz_i32 fb_aws_ctz_i32
#define aws_ctz_u64 fb_aws_ctz_u64
#define aws_ctz_i64 fb_aws_ctz_i64
#define aws_ctz_size fb_aws_ctz_size
#define aws_timestamp_convert_u64 fb_aws_timestamp_convert_u64
#define aws_timestamp_convert fb_aws_timestamp_convert
#include <aws/common/math.fallback.inl>
#undef AWS_COMMON_CLOCK_INL
#include <aws/common/clock.inl>
#undef aws_mul_u64_saturating
#undef aws_mul_u64_checked
#undef aws_mul_u32_saturating
#undef aws_mul_u32_checked
#undef aws_add_u64_saturating
#undef aws_add_u64_checked
#undef aws_add_u32_saturating
#undef aws_add_u32_checked
#undef aws_clz_u32
#undef aws_clz_i32
#undef aws_clz_u64
#undef aws_clz_i64
#undef aws_clz_size
#undef aws_ctz_u32
#undef aws_ctz_i32
#undef aws_ctz_u64
#undef aws_ctz_i64
#undef aws_ctz_size
#undef aws_timestamp_convert_u64
#undef aws_timestamp_convert
#ifndef AWS_COMMON_MATH_FALLBACK_INL
#    error "math.fallback.inl was not compiled"
#endif

// ---- x86-64 inline-assembly variant: math.gcc_x64_asm.inl + clock.inl under asm_ names --------------------------
#define aws_mul_u64_saturating asm_aws_mul_u64_saturating
#define aws_mul_u64_checked asm_aws_mul_u64_checked
#define aws_mul_u32_saturating asm_aws_mul_u32_saturating
#define aws_mul_u32_checked asm_aws_mul_u32_checked
#define aws_add_u64_saturating asm_aws_add_u64_saturating
#define aws_add_u64_checked asm_aws_add_u64_checked
#define aws_add_u32_saturating asm_aws_add_u32_saturating
#define aws_add_u32_checked asm_aws_add_u32_checked
#define aws_timestamp_convert_u64 asm_aws_timestamp_convert_u64
#define aws_timestamp_convert asm_aws_timestamp_convert
#include <aws/common/math.gcc_x64_asm.inl>
#undef AWS_COMMON_CLOCK_INL
#include <aws/common/clock.inl>
#undef aws_mul_u64_saturating
#undef aws_mul_u64_checked
#undef aws_mul_u32_saturating
#undef aws_mul_u32_checked
#undef aws_add_u64_saturating
#undef aws_add_u64_checked
#undef aws_add_u32_saturating
#undef aws_add_u32_checked
#undef aws_timestamp_convert_u64
#undef aws_timestamp_convert
#ifndef AWS_COMMON_MATH_GCC_X64_ASM_INL
#    error "math.gcc_x64_asm.inl was not compiled"
#endif

using namespace pbt;
typedef unsigned __int128 u128;

static const uint64_t M64 = UINT64_MAX;
static const uint32_t M32 = UINT32_MAX;
static const uint64_t FREQ_MAX = 1000000000ull; // the property quantifies over frequencies up to 10^9

// ---- variant tables ------------------------------------------------------------------------------------------
struct ArithV {
    const char *name;
    decltype(&aws_mul_u64_saturating) mul64s;
    decltype(&aws_mul_u64_checked) mul64c;
    decltype(&aws_mul_u32_saturating) mul32s;
    decltype(&aws_mul_u32_checked) mul32c;
    decltype(&aws_add_u64_saturating) add64s;
    decltype(&aws_add_u64_checked) add64c;
    decltype(&aws_add_u32_saturating) add32s;
    decltype(&aws_add_u32_checked) add32c;
    decltype(&aws_timestamp_convert_u64) conv;
    decltype(&aws_timestamp_convert) conv_unit;
};
static const ArithV ARITH[] = {
    {"builtin", aws_mul_u64_saturating, aws_mul_u64_checked, aws_mul_u32_saturating, aws_mul_u32_checked,
     aws_add_u64_saturating, aws_add_u64_checked, aws_add_u32_saturating, aws_add_u32_checked,
     aws_timestamp_convert_u64, aws_timestamp_convert},
    {"portable", fb_aws_mul_u64_saturating, fb_aws_mul_u64_checked, fb_aws_mul_u32_saturating, fb_aws_mul_u32_checked,
     fb_aws_add_u64_saturating, fb_aws_add_u64_checked, fb_aws_add_u32_saturating, fb_aws_add_u32_checked,
     fb_aws_timestamp_convert_u64, fb_aws_timestamp_convert},
    {"x64asm", asm_aws_mul_u64_saturating, asm_aws_mul_u64_checked, asm_aws_mul_u32_saturating, asm_aws_mul_u32_checked,
     asm_aws_add_u64_saturating, asm_aws_add_u64_checked, asm_aws_add_u32_saturating, asm_aws_add_u32_checked,
     asm_aws_timestamp_convert_u64, asm_aws_timestamp_convert},
};
// The asm configuration of math.inl takes clz/ctz from math.gcc_builtin.inl, i.e. the same code as "builtin".
struct BitsV {
    const char *name;
    decltype(&aws_clz_u32) clz_u32;
    decltype(&aws_clz_i32) clz_i32;
    decltype(&aws_clz_u64) clz_u64;
    decltype(&aws_clz_i64) clz_i64;
    decltype(&aws_clz_size) clz_size;
    decltype(&aws_ctz_u32) ctz_u32;
    decltype(&aws_ctz_i32) ctz_i32;
    decltype(&aws_ctz_u64) ctz_u64;
    decltype(&aws_ctz_i64) ctz_i64;
    decltype(&aws_ctz_size) ctz_size;
};
static const BitsV BITS[] = {
    {"builtin", aws_clz_u32, aws_clz_i32, aws_clz_u64, aws_clz_i64, aws_clz_size, aws_ctz_u32, aws_ctz_i32, aws_ctz_u64,
     aws_ctz_i64, aws_ctz_size},
    {"portable", fb_aws_clz_u32, fb_aws_clz_i32, fb_aws_clz_u64, fb_aws_clz_i64, fb_aws_clz_size, fb_aws_ctz_u32,
     fb_aws_ctz_i32, fb_aws_ctz_u64, fb_aws_ctz_i64, fb_aws_ctz_size},
};

// ---- boundary sets and exact near-MAX factor pairs (built once, deterministic) ----------------------------------
static std::vector<uint64_t> make_boundary(int w) {
    const uint64_t MAX = w == 64 ? M64 : (uint64_t)M32;
    std::set<uint64_t> base = {0, 1, 2, MAX - 1, MAX};
    for (int k = 1; k < w; k++) {
        uint64_t p = 1ull << k;
        base.insert(p - 1);
        base.insert(p);
        base.insert(p + 1);
    }
    std::set<uint64_t> all = base;
    for (uint64_t b : base)
        if (b >= 2) {
            all.insert(MAX / b);
            all.insert(MAX / b + 1);
        }
    return std::vector<uint64_t>(all.begin(), all.end());
}
// all (d, T/d) with both factors <= MAX, for T in MAX-2 .. MAX+3
static std::vector<std::pair<uint64_t, uint64_t>> make_near(u128 MAX, const std::vector<std::vector<uint64_t>> &primes) {
    std::vector<std::pair<uint64_t, uint64_t>> out;
    for (size_t i = 0; i < primes.size(); i++) {
        u128 T = MAX - 2 + i, prod = 1;
        std::set<u128> divs = {1};
        for (uint64_t p : primes[i]) {
            prod *= p;
            std::set<u128> more;
            for (u128 d : divs) more.insert(d * p);
            divs.insert(more.begin(), more.end());
        }
        if (prod != T) {
            fprintf(stderr, "c16_math: internal factor table is wrong (entry %zu)\n", i);
            abort();
        }
        for (u128 d : divs)
            if (d <= MAX && T / d <= MAX && T % d == 0) out.emplace_back((uint64_t)d, (uint64_t)(T / d));
    }
    return out;
}
static const std::vector<uint64_t> &B64() {
    static const std::vector<uint64_t> v = make_boundary(64);
    return v;
}
static const std::vector<uint64_t> &B32() {
    static const std::vector<uint64_t> v = make_boundary(32);
    return v;
}
static const std::vector<std::pair<uint64_t, uint64_t>> &NEAR64() {
    static const auto v = make_near(
        (u128)M64, {{13, 3889, 364870227143809ull},
                    {2, 7, 7, 73, 127, 337, 92737, 649657},
                    {3, 5, 17, 257, 641, 65537, 6700417},
                    std::vector<uint64_t>(64, 2),
                    {274177, 67280421310721ull},
                    {2, 3, 3, 3, 19, 43, 5419, 77158673929ull}});
    return v;
}
static const std::vector<std::pair<uint64_t, uint64_t>> &NEAR32() {
    static const auto v = make_near((u128)M32, {{9241, 464773},
                                                 {2, 2147483647},
                                                 {3, 5, 17, 257, 65537},
                                                 std::vector<uint64_t>(32, 2),
                                                 {641, 6700417},
                                                 {2, 3, 715827883}});
    return v;
}

// ---- generator ---------------------------------------------------------------------------------------------------
enum { K_PAIR64, K_PAIR32, K_CONV, K_FP, K_VARARGS, NKINDS };
static const uint64_t UNITS[4] = {AWS_TIMESTAMP_SECS, AWS_TIMESTAMP_MILLIS, AWS_TIMESTAMP_MICROS, AWS_TIMESTAMP_NANOS};

static uint64_t gen_val(int w) {
    const uint64_t MAX = w == 64 ? M64 : (uint64_t)M32;
    switch (weighted({40, 20, 25, 15})) {
    case 0: return one_of_v(w == 64 ? B64() : B32());
    case 1: return any_u64() & MAX;
    case 2: {
        unsigned k = (unsigned)pick(0, w);
        return k == 0 ? 0 : (any_u64() & MAX) >> (w - k);
    }
    default: return pick(0, 300);
    }
}
static Op gen_pair(int w) {
    const uint64_t MAX = w == 64 ? M64 : (uint64_t)M32;
    uint64_t a = gen_val(w), b;
    int64_t d = (int64_t)pick(0, 4) - 2;
    switch (weighted({30, 20, 20, 15, 15})) {
    case 0: b = gen_val(w); break;
    case 1: b = (MAX - a + (uint64_t)d) & MAX; break; // exact sum MAX+d (or an unrelated pair when that wraps)
    case 2: {                                         // exact product in MAX-2 .. MAX+3
        auto pr = one_of_v(w == 64 ? NEAR64() : NEAR32());
        a = pr.first;
        b = pr.second;
        break;
    }
    case 3: // product next to MAX: b = floor(MAX/a) + {-1,0,1,2}
        if (a == 0) a = 3;
        b = (MAX / a + (uint64_t)((int64_t)pick(0, 3) - 1)) & MAX;
        break;
    default: b = (a + (uint64_t)d) & MAX; break; // difference in -2..2
    }
    if (chance(50)) std::swap(a, b);
    return mkop(w == 64 ? K_PAIR64 : K_PAIR32, {a, b});
}
// frequencies of real tick sources (RTC crystal, audio, TSC/ACPI/HPET style counters, video clocks): ratios between them
// and the four units are mostly inexact in binary floating point and their products sit high in 64 bits
static const uint64_t COUNTER_FREQS[] = {32768,    44100,    48000,    60,       1024,     1193182,  3579545,  14318180, 19200000,
                                         24000000, 25000000, 26000000, 27000000, 33333333, 38400000, 3000000,  100000000, 90000,
                                         999999937, 10000019};
static uint64_t gen_freq() {
    switch (weighted({40, 10, 20, 15, 10, 12})) {
    case 5: return COUNTER_FREQS[pick(0, sizeof COUNTER_FREQS / sizeof COUNTER_FREQS[0] - 1)];
    case 0: return UNITS[pick(0, 3)];
    case 1: return pick(1, 64);
    case 2: return pick(1, FREQ_MAX);
    case 3: {
        unsigned k = (unsigned)pick(0, 29);
        uint64_t f = 1 + (any_u64() & ((1ull << k) - 1)) + (k ? (1ull << (k - 1)) : 0);
        return f > FREQ_MAX ? FREQ_MAX : f;
    }
    default: return FREQ_MAX - pick(0, 3);
    }
}
static Op gen_conv() {
    uint64_t oldf = gen_freq(), newf = gen_freq();
    switch (weighted({60, 25, 15})) {
    case 0: break;
    case 1: { // old is a multiple of new: the documented remainder applies
        uint64_t k = one_of({2, 3, 7, 10, 60, 1000, 1000000, pick(2, 5000)});
        if (newf * k > FREQ_MAX) newf = FREQ_MAX / k / pick(1, 3);
        if (newf == 0) newf = 1;
        oldf = newf * k;
        break;
    }
    default: oldf = newf; break;
    }
    uint64_t ticks = gen_val(64);
    int64_t d = (int64_t)pick(0, 6) - 3;
    switch (weighted({35, 30, 20, 15})) {
    case 0: break;
    case 1: { // result next to UINT64_MAX: ticks = floor(2^64 * old / new) + d
        u128 t = (((u128)1) << 64) * oldf / newf;
        if (t <= M64 && t >= 8) ticks = (uint64_t)t + (uint64_t)d;
        else ticks = M64 - pick(0, 3);
        break;
    }
    case 2: { // whole part fits but whole + fractional part crosses UINT64_MAX
        if (newf > oldf) {
            uint64_t q = M64 / newf, m = M64 % newf;
            u128 r0 = (((u128)m + 1) * oldf + newf - 1) / newf;
            if (r0 < oldf) {
                ticks = q * oldf + (uint64_t)r0 + (uint64_t)((int64_t)pick(0, 2) - 1);
                break;
            }
        }
        ticks = M64 / (newf > oldf ? newf / oldf : 1) + (uint64_t)d;
        break;
    }
    default: // next to a multiple of the ratio
        if (newf < oldf) ticks = (ticks / (oldf / newf)) * (oldf / newf) + (uint64_t)d;
        break;
    }
    return mkop(K_CONV, {ticks, oldf, newf});
}
static const double FP_SPECIAL[] = {0.0,     -0.0,         1.0,          -1.0,      0.5,      DBL_MIN,  -DBL_MIN, DBL_MAX,
                                    -DBL_MAX, 4.9e-324,     -4.9e-324,    INFINITY,  -INFINITY, FLT_MAX,  -FLT_MAX, FLT_MIN,
                                    1.4e-45,  1.0 + DBL_EPSILON, 1.0 - DBL_EPSILON / 2, 3.0, 1e300, -1e300, 16777217.0};
static uint64_t dbits(double d) {
    uint64_t u;
    memcpy(&u, &d, 8);
    return u;
}
static double bitsd(uint64_t u) {
    double d;
    memcpy(&d, &u, 8);
    return d;
}
static float bitsf(uint32_t u) {
    float f;
    memcpy(&f, &u, 4);
    return f;
}
static Op gen_fp() {
    auto one = []() -> uint64_t {
        switch (weighted({50, 30, 20})) {
        case 0: return dbits(FP_SPECIAL[pick(0, sizeof FP_SPECIAL / sizeof *FP_SPECIAL - 1)]);
        case 1: return any_u64();
        default: return dbits((double)(int64_t)gen_val(64));
        }
    };
    uint64_t a = one(), b = one();
    if (chance(25)) b = a + (uint64_t)((int64_t)pick(0, 2) - 1); // neighbours (+-1 ulp) and equal values
    return mkop(K_FP, {a, b});
}
static Op gen_varargs() {
    Op o;
    o.kind = K_VARARGS;
    unsigned n = (unsigned)pick(0, 6);
    uint64_t sum = 0;
    for (unsigned i = 0; i < n; i++) {
        uint64_t v = chance(50) ? pick(0, 1000) : gen_val(64);
        if (i + 1 == n && chance(50)) v = M64 - sum + (uint64_t)((int64_t)pick(0, 4) - 2); // total next to SIZE_MAX
        sum += v;
        o.a.push_back(v);
    }
    return o;
}
static Case gen_case() {
    Case c;
    // cfg[0]: 0 = one row (both operand orders) of the boundary cross product per width, 1 = the whole cross product
    c.cfg = {pick(0, 1999) == 0 ? 1u : 0u, pick(0, B64().size() - 1), pick(0, B32().size() - 1)};
    c.ops = op_list(40, [] {
        switch (weighted({32, 28, 28, 7, 5})) {
        case 0: return gen_pair(64);
        case 1: return gen_pair(32);
        case 2: return gen_conv();
        case 3: return gen_fp();
        default: return gen_varargs();
        }
    });
    return c;
}

// ---- reference definitions --------------------------------------------------------------------------------------
static std::string d128(u128 v) {
    if (v == 0) return "0";
    std::string s;
    while (v) {
        s.insert(s.begin(), (char)('0' + (int)(v % 10)));
        v /= 10;
    }
    return s;
}
static size_t ref_clz(uint64_t x, int w) { // number of zero bits above the highest set bit; w for 0
    size_t n = 0;
    for (int i = w - 1; i >= 0 && !((x >> i) & 1); i--) n++;
    return n;
}
static size_t ref_ctz(uint64_t x, int w) {
    size_t n = 0;
    for (int i = 0; i < w && !((x >> i) & 1); i++) n++;
    return n;
}
static int ref_popcount(uint64_t x) {
    int n = 0;
    for (int i = 0; i < 64; i++) n += (int)((x >> i) & 1);
    return n;
}

struct Tally {
    uint64_t pairs = 0, convs = 0;
    bool nt = false;
};

#define ERR_IS_OVERFLOW(rc) ((rc) == AWS_OP_ERR && aws_last_error() == AWS_ERROR_OVERFLOW_DETECTED)

// ---- checks -----------------------------------------------------------------------------------------------------
static void check_unary64(uint64_t x) {
    size_t lz = ref_clz(x, 64), tz = ref_ctz(x, 64);
    for (const BitsV &v : BITS) {
        size_t g;
        PBT_CHECK((g = v.clz_u64(x)) == lz, "[%s] aws_clz_u64(%" PRIu64 ") = %zu, expected %zu", v.name, x, g, lz);
        PBT_CHECK((g = v.clz_i64((int64_t)x)) == lz, "[%s] aws_clz_i64(%" PRId64 ") = %zu, expected %zu", v.name, (int64_t)x, g, lz);
        PBT_CHECK((g = v.clz_size((size_t)x)) == lz, "[%s] aws_clz_size(%" PRIu64 ") = %zu, expected %zu", v.name, x, g, lz);
        PBT_CHECK((g = v.ctz_u64(x)) == tz, "[%s] aws_ctz_u64(%" PRIu64 ") = %zu, expected %zu", v.name, x, g, tz);
        PBT_CHECK((g = v.ctz_i64((int64_t)x)) == tz, "[%s] aws_ctz_i64(%" PRId64 ") = %zu, expected %zu", v.name, (int64_t)x, g, tz);
        PBT_CHECK((g = v.ctz_size((size_t)x)) == tz, "[%s] aws_ctz_size(%" PRIu64 ") = %zu, expected %zu", v.name, x, g, tz);
    }
    bool p2 = ref_popcount(x) == 1;
    PBT_CHECK(aws_is_power_of_two((size_t)x) == p2, "aws_is_power_of_two(%" PRIu64 ") != %d", x, (int)p2);
    // smallest power of two >= x, error when that is 2^64
    size_t want = 0;
    for (int k = 0; k < 64; k++)
        if ((((uint64_t)1) << k) >= x) {
            want = ((size_t)1) << k;
            break;
        }
    size_t r = 0x5A5A5A5A5A5A5A5Aull;
    aws_reset_error();
    int rc = aws_round_up_to_power_of_two((size_t)x, &r);
    if (want == 0)
        PBT_CHECK(ERR_IS_OVERFLOW(rc), "aws_round_up_to_power_of_two(%" PRIu64 ") rc=%d r=%zu err=%d, expected overflow error", x, rc,
                  r, aws_last_error());
    else
        PBT_CHECK(rc == AWS_OP_SUCCESS && r == want, "aws_round_up_to_power_of_two(%" PRIu64 ") rc=%d r=%zu, expected %zu", x, rc, r,
                  want);
}
static void check_unary32(uint32_t x) {
    size_t lz = ref_clz(x, 32), tz = ref_ctz(x, 32);
    for (const BitsV &v : BITS) {
        size_t g;
        PBT_CHECK((g = v.clz_u32(x)) == lz, "[%s] aws_clz_u32(%u) = %zu, expected %zu", v.name, x, g, lz);
        PBT_CHECK((g = v.clz_i32((int32_t)x)) == lz, "[%s] aws_clz_i32(%d) = %zu, expected %zu", v.name, (int32_t)x, g, lz);
        PBT_CHECK((g = v.ctz_u32(x)) == tz, "[%s] aws_ctz_u32(%u) = %zu, expected %zu", v.name, x, g, tz);
        PBT_CHECK((g = v.ctz_i32((int32_t)x)) == tz, "[%s] aws_ctz_i32(%d) = %zu, expected %zu", v.name, (int32_t)x, g, tz);
    }
}

static std::string show(double v) { return fmt("%a", v); }
static std::string show(float v) { return fmt("%a", (double)v); }
static std::string show(uint64_t v) { return fmt("%" PRIu64, v); }
static std::string show(int64_t v) { return fmt("%" PRId64, v); }
static std::string show(uint32_t v) { return fmt("%u", v); }
static std::string show(int32_t v) { return fmt("%d", v); }
static std::string show(uint16_t v) { return fmt("%u", (unsigned)v); }
static std::string show(int16_t v) { return fmt("%d", (int)v); }
static std::string show(uint8_t v) { return fmt("%u", (unsigned)v); }
static std::string show(int8_t v) { return fmt("%d", (int)v); }
// min is a lower bound of both arguments and equal to one of them; max dually (definition, not the implementation's
// expression; for floating point "equal" is numeric equality, so either zero is accepted for min(+0,-0))
template <class T, class F, class G> static void check_minmax(const char *ty, F fmin, G fmax, T a, T b) {
    T lo = fmin(a, b), hi = fmax(a, b);
    PBT_CHECK(lo <= a && lo <= b && (lo == a || lo == b), "aws_min_%s(%s, %s) = %s", ty, show(a).c_str(), show(b).c_str(),
              show(lo).c_str());
    PBT_CHECK(hi >= a && hi >= b && (hi == a || hi == b), "aws_max_%s(%s, %s) = %s", ty, show(a).c_str(), show(b).c_str(),
              show(hi).c_str());
}
static void check_fp(uint64_t abits, uint64_t bbits, bool *special) {
    double a = bitsd(abits), b = bitsd(bbits);
    if (!std::isnan(a) && !std::isnan(b)) { // ordering of NaN is not defined mathematically: not asserted
        check_minmax<double>("double", aws_min_double, aws_max_double, a, b);
        if (special && (std::isinf(a) || std::isinf(b) || a == b || std::fpclassify(a) == FP_SUBNORMAL)) *special = true;
        if ((std::isinf(a) || std::fabs(a) <= FLT_MAX) && (std::isinf(b) || std::fabs(b) <= FLT_MAX))
            check_minmax<float>("float", aws_min_float, aws_max_float, (float)a, (float)b);
    }
    float fa = bitsf((uint32_t)abits), fb = bitsf((uint32_t)bbits);
    if (!std::isnan(fa) && !std::isnan(fb)) check_minmax<float>("float", aws_min_float, aws_max_float, fa, fb);
    fa = bitsf((uint32_t)(abits >> 32)), fb = bitsf((uint32_t)(bbits >> 32));
    if (!std::isnan(fa) && !std::isnan(fb)) check_minmax<float>("float", aws_min_float, aws_max_float, fa, fb);
}

static void check_asm_inlined(uint32_t a, uint32_t b, uint64_t e, uint64_t f);
static void check_pair64(uint64_t a, uint64_t b, Tally &t) {
    t.pairs++;
    check_asm_inlined((uint32_t)a, (uint32_t)(b >> 7), a, b);
    const u128 s = (u128)a + b, p = (u128)a * b;
    const bool so = s > M64, po = p > M64;
    for (const ArithV &v : ARITH) {
        uint64_t r = 0x5A5A5A5A5A5A5A5Aull;
        aws_reset_error();
        int rc = v.add64c(a, b, &r);
        if (so)
            PBT_CHECK(ERR_IS_OVERFLOW(rc), "[%s] aws_add_u64_checked(%" PRIu64 ", %" PRIu64 ") rc=%d err=%d, exact sum %s needs an overflow error",
                      v.name, a, b, rc, aws_last_error(), d128(s).c_str());
        else
            PBT_CHECK(rc == AWS_OP_SUCCESS && r == (uint64_t)s, "[%s] aws_add_u64_checked(%" PRIu64 ", %" PRIu64 ") rc=%d r=%" PRIu64 ", exact sum %s",
                      v.name, a, b, rc, r, d128(s).c_str());
        uint64_t g = v.add64s(a, b);
        PBT_CHECK(g == (so ? M64 : (uint64_t)s), "[%s] aws_add_u64_saturating(%" PRIu64 ", %" PRIu64 ") = %" PRIu64 ", exact sum %s", v.name, a, b,
                  g, d128(s).c_str());
        r = 0x5A5A5A5A5A5A5A5Aull;
        aws_reset_error();
        rc = v.mul64c(a, b, &r);
        if (po)
            PBT_CHECK(ERR_IS_OVERFLOW(rc), "[%s] aws_mul_u64_checked(%" PRIu64 ", %" PRIu64 ") rc=%d err=%d, exact product %s needs an overflow error",
                      v.name, a, b, rc, aws_last_error(), d128(p).c_str());
        else
            PBT_CHECK(rc == AWS_OP_SUCCESS && r == (uint64_t)p, "[%s] aws_mul_u64_checked(%" PRIu64 ", %" PRIu64 ") rc=%d r=%" PRIu64 ", exact product %s",
                      v.name, a, b, rc, r, d128(p).c_str());
        g = v.mul64s(a, b);
        PBT_CHECK(g == (po ? M64 : (uint64_t)p), "[%s] aws_mul_u64_saturating(%" PRIu64 ", %" PRIu64 ") = %" PRIu64 ", exact product %s", v.name, a,
                  b, g, d128(p).c_str());
    }
    // subtraction (one implementation, math.inl)
    {
        uint64_t r = 0x5A5A5A5A5A5A5A5Aull;
        aws_reset_error();
        int rc = aws_sub_u64_checked(a, b, &r);
        if (a < b)
            PBT_CHECK(ERR_IS_OVERFLOW(rc), "aws_sub_u64_checked(%" PRIu64 ", %" PRIu64 ") rc=%d err=%d, negative difference needs an overflow error", a, b,
                      rc, aws_last_error());
        else
            PBT_CHECK(rc == AWS_OP_SUCCESS && r == a - b, "aws_sub_u64_checked(%" PRIu64 ", %" PRIu64 ") rc=%d r=%" PRIu64, a, b, rc, r);
        uint64_t g = aws_sub_u64_saturating(a, b);
        PBT_CHECK(g == (a < b ? 0 : a - b), "aws_sub_u64_saturating(%" PRIu64 ", %" PRIu64 ") = %" PRIu64, a, b, g);
    }
    // size_t forms (dispatch to the 64-bit forms on this platform)
    {
        size_t r = 0x5A5A5A5A5A5A5A5Aull;
        aws_reset_error();
        int rc = aws_add_size_checked((size_t)a, (size_t)b, &r);
        if (so) PBT_CHECK(ERR_IS_OVERFLOW(rc), "aws_add_size_checked(%" PRIu64 ", %" PRIu64 ") rc=%d: overflow not reported", a, b, rc);
        else PBT_CHECK(rc == AWS_OP_SUCCESS && r == (size_t)s, "aws_add_size_checked(%" PRIu64 ", %" PRIu64 ") rc=%d r=%zu", a, b, rc, r);
        size_t g = aws_add_size_saturating((size_t)a, (size_t)b);
        PBT_CHECK(g == (so ? SIZE_MAX : (size_t)s), "aws_add_size_saturating(%" PRIu64 ", %" PRIu64 ") = %zu", a, b, g);
        r = 0x5A5A5A5A5A5A5A5Aull;
        aws_reset_error();
        rc = aws_mul_size_checked((size_t)a, (size_t)b, &r);
        if (po) PBT_CHECK(ERR_IS_OVERFLOW(rc), "aws_mul_size_checked(%" PRIu64 ", %" PRIu64 ") rc=%d: overflow not reported", a, b, rc);
        else PBT_CHECK(rc == AWS_OP_SUCCESS && r == (size_t)p, "aws_mul_size_checked(%" PRIu64 ", %" PRIu64 ") rc=%d r=%zu", a, b, rc, r);
        g = aws_mul_size_saturating((size_t)a, (size_t)b);
        PBT_CHECK(g == (po ? SIZE_MAX : (size_t)p), "aws_mul_size_saturating(%" PRIu64 ", %" PRIu64 ") = %zu", a, b, g);
        r = 0x5A5A5A5A5A5A5A5Aull;
        aws_reset_error();
        rc = aws_sub_size_checked((size_t)a, (size_t)b, &r);
        if (a < b) PBT_CHECK(ERR_IS_OVERFLOW(rc), "aws_sub_size_checked(%" PRIu64 ", %" PRIu64 ") rc=%d: underflow not reported", a, b, rc);
        else PBT_CHECK(rc == AWS_OP_SUCCESS && r == (size_t)(a - b), "aws_sub_size_checked(%" PRIu64 ", %" PRIu64 ") rc=%d r=%zu", a, b, rc, r);
        g = aws_sub_size_saturating((size_t)a, (size_t)b);
        PBT_CHECK(g == (a < b ? 0 : (size_t)(a - b)), "aws_sub_size_saturating(%" PRIu64 ", %" PRIu64 ") = %zu", a, b, g);
    }
    check_minmax<uint64_t>("u64", aws_min_u64, aws_max_u64, a, b);
    check_minmax<int64_t>("i64", aws_min_i64, aws_max_i64, (int64_t)a, (int64_t)b);
    check_minmax<uint64_t>("size", aws_min_size, aws_max_size, a, b);
    check_unary64(b);
}

// The inline-assembly variants are also exercised *inlined* into code where several results are live at once and
// are stored to memory: an asm statement whose constraints do not match its template (a hard-coded register, a
// missing clobber) still works when the function is called out of line through a pointer - the operand then
// happens to sit in the return register - and only goes wrong under a different register allocation.
__attribute__((noinline, flatten)) static void asm_inlined_context(uint32_t a, uint32_t b, uint64_t e, uint64_t f, uint32_t *o32,
                                                                    uint64_t *o64, int *rcs) {
    // a value that has to stay in eax across the inlined code: the register allocator must then give the asm operands
    // other registers (a template that silently assumes eax/rax is caught; so is a clobber it does not declare)
    uint32_t keep = a ^ 0x9E3779B9u;
    __asm__ volatile("" : "+a"(keep));
    uint32_t r1 = asm_aws_add_u32_saturating(a, b);
    __asm__ volatile("" : "+a"(keep));
    uint32_t r2 = asm_aws_add_u32_saturating(b, a);
    __asm__ volatile("" : "+a"(keep));
    rcs[4] = keep == (a ^ 0x9E3779B9u) ? 0 : 1;
    uint32_t r3 = asm_aws_mul_u32_saturating(a, b);
    uint64_t r4 = asm_aws_add_u64_saturating(e, f);
    uint64_t r5 = asm_aws_mul_u64_saturating(e, f);
    uint32_t c32a = 0x5A5A5A5Au, c32m = 0x5A5A5A5Au;
    uint64_t c64a = 0x5A5A5A5A5A5A5A5Aull, c64m = 0x5A5A5A5A5A5A5A5Aull;
    rcs[0] = asm_aws_add_u32_checked(a, b, &c32a);
    rcs[1] = asm_aws_mul_u32_checked(a, b, &c32m);
    rcs[2] = asm_aws_add_u64_checked(e, f, &c64a);
    rcs[3] = asm_aws_mul_u64_checked(e, f, &c64m);
    o32[0] = r1;
    o32[1] = r2;
    o32[2] = r3;
    o32[3] = c32a;
    o32[4] = c32m;
    o64[0] = r4;
    o64[1] = r5;
    o64[2] = c64a;
    o64[3] = c64m;
}
static void check_asm_inlined(uint32_t a, uint32_t b, uint64_t e, uint64_t f) {
    uint32_t o32[5];
    uint64_t o64[4];
    int rcs[5];
    asm_inlined_context(a, b, e, f, o32, o64, rcs);
    PBT_CHECK(rcs[4] == 0, "[x64asm, inlined] aws_add_u32_saturating(%u, %u) clobbered a register it does not declare", a, b);
    const uint64_t s32 = (uint64_t)a + b, p32 = (uint64_t)a * b;
    const u128 s64 = (u128)e + f, p64 = (u128)e * f;
    PBT_CHECK(o32[0] == (s32 > M32 ? M32 : (uint32_t)s32) && o32[1] == o32[0], "[x64asm, inlined] aws_add_u32_saturating(%u, %u) = %u / %u", a, b, o32[0], o32[1]);
    PBT_CHECK(o32[2] == (p32 > M32 ? M32 : (uint32_t)p32), "[x64asm, inlined] aws_mul_u32_saturating(%u, %u) = %u", a, b, o32[2]);
    PBT_CHECK(o64[0] == (s64 > M64 ? M64 : (uint64_t)s64), "[x64asm, inlined] aws_add_u64_saturating(%" PRIu64 ", %" PRIu64 ") = %" PRIu64, e, f, o64[0]);
    PBT_CHECK(o64[1] == (p64 > M64 ? M64 : (uint64_t)p64), "[x64asm, inlined] aws_mul_u64_saturating(%" PRIu64 ", %" PRIu64 ") = %" PRIu64, e, f, o64[1]);
    PBT_CHECK((rcs[0] == AWS_OP_SUCCESS) == (s32 <= M32) && (s32 > M32 || o32[3] == (uint32_t)s32), "[x64asm, inlined] aws_add_u32_checked(%u, %u) rc=%d r=%u", a, b, rcs[0], o32[3]);
    PBT_CHECK((rcs[1] == AWS_OP_SUCCESS) == (p32 <= M32) && (p32 > M32 || o32[4] == (uint32_t)p32), "[x64asm, inlined] aws_mul_u32_checked(%u, %u) rc=%d r=%u", a, b, rcs[1], o32[4]);
    PBT_CHECK((rcs[2] == AWS_OP_SUCCESS) == (s64 <= M64) && (s64 > M64 || o64[2] == (uint64_t)s64), "[x64asm, inlined] aws_add_u64_checked(%" PRIu64 ", %" PRIu64 ") rc=%d", e, f, rcs[2]);
    PBT_CHECK((rcs[3] == AWS_OP_SUCCESS) == (p64 <= M64) && (p64 > M64 || o64[3] == (uint64_t)p64), "[x64asm, inlined] aws_mul_u64_checked(%" PRIu64 ", %" PRIu64 ") rc=%d", e, f, rcs[3]);
}

static void check_pair32(uint32_t a, uint32_t b, Tally &t) {
    t.pairs++;
    check_asm_inlined(a, b, ((uint64_t)a << 32) | b, ((uint64_t)b << 31) | a);
    const uint64_t s = (uint64_t)a + b, p = (uint64_t)a * b;
    const bool so = s > M32, po = p > M32;
    for (const ArithV &v : ARITH) {
        uint32_t r = 0x5A5A5A5Au;
        aws_reset_error();
        int rc = v.add32c(a, b, &r);
        if (so)
            PBT_CHECK(ERR_IS_OVERFLOW(rc), "[%s] aws_add_u32_checked(%u, %u) rc=%d err=%d, exact sum %" PRIu64 " needs an overflow error", v.name, a, b,
                      rc, aws_last_error(), s);
        else
            PBT_CHECK(rc == AWS_OP_SUCCESS && r == (uint32_t)s, "[%s] aws_add_u32_checked(%u, %u) rc=%d r=%u, exact sum %" PRIu64, v.name, a, b, rc, r, s);
        uint32_t g = v.add32s(a, b);
        PBT_CHECK(g == (so ? M32 : (uint32_t)s), "[%s] aws_add_u32_saturating(%u, %u) = %u, exact sum %" PRIu64, v.name, a, b, g, s);
        r = 0x5A5A5A5Au;
        aws_reset_error();
        rc = v.mul32c(a, b, &r);
        if (po)
            PBT_CHECK(ERR_IS_OVERFLOW(rc), "[%s] aws_mul_u32_checked(%u, %u) rc=%d err=%d, exact product %" PRIu64 " needs an overflow error", v.name, a,
                      b, rc, aws_last_error(), p);
        else
            PBT_CHECK(rc == AWS_OP_SUCCESS && r == (uint32_t)p, "[%s] aws_mul_u32_checked(%u, %u) rc=%d r=%u, exact product %" PRIu64, v.name, a, b, rc, r,
                      p);
        g = v.mul32s(a, b);
        PBT_CHECK(g == (po ? M32 : (uint32_t)p), "[%s] aws_mul_u32_saturating(%u, %u) = %u, exact product %" PRIu64, v.name, a, b, g, p);
    }
    {
        uint32_t r = 0x5A5A5A5Au;
        aws_reset_error();
        int rc = aws_sub_u32_checked(a, b, &r);
        if (a < b)
            PBT_CHECK(ERR_IS_OVERFLOW(rc), "aws_sub_u32_checked(%u, %u) rc=%d err=%d, negative difference needs an overflow error", a, b, rc,
                      aws_last_error());
        else
            PBT_CHECK(rc == AWS_OP_SUCCESS && r == a - b, "aws_sub_u32_checked(%u, %u) rc=%d r=%u", a, b, rc, r);
        uint32_t g = aws_sub_u32_saturating(a, b);
        PBT_CHECK(g == (a < b ? 0 : a - b), "aws_sub_u32_saturating(%u, %u) = %u", a, b, g);
    }
    check_minmax<uint32_t>("u32", aws_min_u32, aws_max_u32, a, b);
    check_minmax<int32_t>("i32", aws_min_i32, aws_max_i32, (int32_t)a, (int32_t)b);
    check_minmax<int32_t>("int", aws_min_int, aws_max_int, (int)a, (int)b);
    check_minmax<uint16_t>("u16", aws_min_u16, aws_max_u16, (uint16_t)a, (uint16_t)b);
    check_minmax<int16_t>("i16", aws_min_i16, aws_max_i16, (int16_t)a, (int16_t)b);
    check_minmax<uint16_t>("u16", aws_min_u16, aws_max_u16, (uint16_t)(a >> 16), (uint16_t)(b >> 16));
    check_minmax<int16_t>("i16", aws_min_i16, aws_max_i16, (int16_t)(a >> 16), (int16_t)(b >> 16));
    check_minmax<uint8_t>("u8", aws_min_u8, aws_max_u8, (uint8_t)a, (uint8_t)b);
    check_minmax<int8_t>("i8", aws_min_i8, aws_max_i8, (int8_t)a, (int8_t)b);
    check_minmax<uint8_t>("u8", aws_min_u8, aws_max_u8, (uint8_t)(a >> 24), (uint8_t)(b >> 24));
    check_minmax<int8_t>("i8", aws_min_i8, aws_max_i8, (int8_t)(a >> 24), (int8_t)(b >> 24));
    check_unary32(b);
}

static bool is_unit(uint64_t f) { return f == UNITS[0] || f == UNITS[1] || f == UNITS[2] || f == UNITS[3]; }

// returns true when the whole-seconds part alone exceeds UINT64_MAX
static bool check_conv(uint64_t ticks, uint64_t oldf, uint64_t newf, Tally &t, Ctx *ctx) {
    t.convs++;
    const u128 exact = (u128)ticks * newf / oldf; // < 2^94
    const uint64_t want = exact > M64 ? M64 : (uint64_t)exact;
    const bool rem_defined = newf < oldf && oldf % newf == 0;
    const uint64_t want_rem = rem_defined ? ticks % (oldf / newf) : 0;
    for (const ArithV &v : ARITH) {
        uint64_t g = v.conv(ticks, oldf, newf, NULL);
        PBT_CHECK(g == want, "[%s] aws_timestamp_convert_u64(%" PRIu64 ", %" PRIu64 ", %" PRIu64 ", NULL) = %" PRIu64 ", expected %" PRIu64 " (exact %s)",
                  v.name, ticks, oldf, newf, g, want, d128(exact).c_str());
        uint64_t rem = 0; // clock.h: callers zero it first
        g = v.conv(ticks, oldf, newf, &rem);
        PBT_CHECK(g == want, "[%s] aws_timestamp_convert_u64(%" PRIu64 ", %" PRIu64 ", %" PRIu64 ", &rem) = %" PRIu64 ", expected %" PRIu64 " (exact %s)",
                  v.name, ticks, oldf, newf, g, want, d128(exact).c_str());
        PBT_CHECK(rem == want_rem, "[%s] aws_timestamp_convert_u64(%" PRIu64 ", %" PRIu64 ", %" PRIu64 ") remainder %" PRIu64 ", expected %" PRIu64, v.name,
                  ticks, oldf, newf, rem, want_rem);
        if (is_unit(oldf) && is_unit(newf)) {
            rem = 0;
            g = v.conv_unit(ticks, (enum aws_timestamp_unit)oldf, (enum aws_timestamp_unit)newf, &rem);
            PBT_CHECK(g == want && rem == want_rem, "[%s] aws_timestamp_convert(%" PRIu64 ", %" PRIu64 ", %" PRIu64 ") = %" PRIu64 " rem %" PRIu64 ", expected %" PRIu64 " rem %" PRIu64,
                      v.name, ticks, oldf, newf, g, rem, want, want_rem);
            g = v.conv_unit(ticks, (enum aws_timestamp_unit)oldf, (enum aws_timestamp_unit)newf, NULL);
            PBT_CHECK(g == want, "[%s] aws_timestamp_convert(%" PRIu64 ", %" PRIu64 ", %" PRIu64 ", NULL) = %" PRIu64 ", expected %" PRIu64, v.name, ticks, oldf,
                      newf, g, want);
            if (oldf == newf) PBT_CHECK(g == ticks, "[%s] aws_timestamp_convert with equal units is not the identity", v.name);
        }
    }
    const bool whole_sat = (u128)(ticks / oldf) * newf > M64;
    if (ctx) {
        if (whole_sat) ctx->tag("conv_whole_part_saturates");
        else if (exact > M64) ctx->tag("conv_only_sum_saturates");
        if (exact >= M64 - 2 && exact <= (u128)M64 + 2) ctx->tag("conv_result_within2_of_max");
        if (want_rem != 0) ctx->tag("conv_remainder_nonzero");
        if (rem_defined) ctx->tag("conv_remainder_defined");
        if (is_unit(oldf) && is_unit(newf)) ctx->tag(oldf == newf ? "conv_same_unit" : "conv_unit_to_unit");
        else ctx->tag("conv_arbitrary_freq");
    }
    return whole_sat;
}

static uint64_t norm_freq(uint64_t f) { return f == 0 ? 1 : (f > FREQ_MAX ? 1 + (f - 1) % FREQ_MAX : f); }

static void count_tag(Ctx &ctx, const char *what, uint64_t n) { // exact total = sum over k of 2^k * count(tag k)
    for (int k = 0; k < 40; k++)
        if ((n >> k) & 1) ctx.tag(fmt("%s:2^%02d", what, k));
}

// ---- the inline-assembly variant with compile-time constant operands, as gcc compiles it (c16_asm_consts.c) ----
extern "C" {
struct c16k_row {
    uint64_t a, b;
    uint64_t add_sat, mul_sat, add_val, mul_val;
    int add_rc, mul_rc;
};
size_t c16k_table64(struct c16k_row *out);
size_t c16k_table32(struct c16k_row *out);
}
static void check_constant_operand_tables() {
    static struct c16k_row rows[128];
    for (int width = 64; width >= 32; width -= 32) {
        size_t n = width == 64 ? c16k_table64(rows) : c16k_table32(rows);
        PBT_CHECK(n == 81, "constant-operand table has %zu rows", n);
        const unsigned __int128 MAX = width == 64 ? (unsigned __int128)UINT64_MAX : (unsigned __int128)UINT32_MAX;
        for (size_t i = 0; i < n; i++) {
            const c16k_row &r = rows[i];
            unsigned __int128 sum = (unsigned __int128)r.a + r.b, prod = (unsigned __int128)r.a * r.b;
            uint64_t ws = sum > MAX ? (uint64_t)MAX : (uint64_t)sum, wp = prod > MAX ? (uint64_t)MAX : (uint64_t)prod;
            PBT_CHECK(r.add_sat == ws, "[x64asm, gcc, literal operands] aws_add_u%d_saturating(%" PRIu64 ", %" PRIu64 ") = %" PRIu64 ", expected %" PRIu64,
                      width, r.a, r.b, r.add_sat, ws);
            PBT_CHECK(r.mul_sat == wp, "[x64asm, gcc, literal operands] aws_mul_u%d_saturating(%" PRIu64 ", %" PRIu64 ") = %" PRIu64 ", expected %" PRIu64,
                      width, r.a, r.b, r.mul_sat, wp);
            PBT_CHECK((r.add_rc == AWS_OP_SUCCESS) == (sum <= MAX), "[x64asm, gcc, literal operands] aws_add_u%d_checked(%" PRIu64 ", %" PRIu64 ") rc %d",
                      width, r.a, r.b, r.add_rc);
            PBT_CHECK((r.mul_rc == AWS_OP_SUCCESS) == (prod <= MAX), "[x64asm, gcc, literal operands] aws_mul_u%d_checked(%" PRIu64 ", %" PRIu64 ") rc %d",
                      width, r.a, r.b, r.mul_rc);
            if (sum <= MAX)
                PBT_CHECK(r.add_val == (uint64_t)sum, "[x64asm, gcc, literal operands] aws_add_u%d_checked(%" PRIu64 ", %" PRIu64 ") stored %" PRIu64,
                          width, r.a, r.b, r.add_val);
            if (prod <= MAX)
                PBT_CHECK(r.mul_val == (uint64_t)prod, "[x64asm, gcc, literal operands] aws_mul_u%d_checked(%" PRIu64 ", %" PRIu64 ") stored %" PRIu64,
                          width, r.a, r.b, r.mul_val);
        }
    }
}

static void run(const Case &c, Ctx &ctx) {
    Tally t;
    const auto &b64 = B64();
    const auto &b32 = B32();
    const bool full = c.c(0) % 2 == 1;

    // 1. deterministic part: the boundary cross product (one row in both orders, or all of it)
    if (full) {
        check_constant_operand_tables();
        for (uint64_t a : b64)
            for (uint64_t b : b64) check_pair64(a, b, t);
        for (uint64_t a : b32)
            for (uint64_t b : b32) check_pair32((uint32_t)a, (uint32_t)b, t);
        for (unsigned a = 0; a < 256; a++) // 8-bit min/max exhaustively
            for (unsigned b = 0; b < 256; b++) {
                check_minmax<uint8_t>("u8", aws_min_u8, aws_max_u8, (uint8_t)a, (uint8_t)b);
                check_minmax<int8_t>("i8", aws_min_i8, aws_max_i8, (int8_t)a, (int8_t)b);
            }
        // conversions: boundary ticks x every ordered pair of units
        for (uint64_t tk : b64)
            for (uint64_t of : UNITS)
                for (uint64_t nf : UNITS) check_conv(tk, of, nf, t, nullptr);
        ctx.tag("full_cross_product");
    } else {
        uint64_t a = b64[c.c(1) % b64.size()];
        for (uint64_t b : b64) {
            check_pair64(a, b, t);
            check_pair64(b, a, t);
        }
        uint32_t a32 = (uint32_t)b32[c.c(2) % b32.size()];
        for (uint64_t b : b32) {
            check_pair32(a32, (uint32_t)b, t);
            check_pair32((uint32_t)b, a32, t);
        }
        for (uint64_t of : UNITS)
            for (uint64_t nf : UNITS) check_conv(a, of, nf, t, nullptr);
    }

    // 2. generated part
    for (const Op &op : c.ops) {
        switch (op.kind % NKINDS) {
        case K_PAIR64: {
            uint64_t a = op.arg(0), b = op.arg(1);
            check_pair64(a, b, t);
            check_unary64(a);
            u128 s = (u128)a + b, p = (u128)a * b;
            bool sn = s >= M64 - 2 && s <= (u128)M64 + 2, pn = p >= M64 - 2 && p <= (u128)M64 + 2;
            if (sn) ctx.tag("u64_sum_within2_of_max");
            if (pn) ctx.tag("u64_product_within2_of_max");
            if (p > M64) ctx.tag("u64_product_overflows");
            if (s > M64) ctx.tag("u64_sum_overflows");
            if (a < b) ctx.tag("u64_difference_negative");
            if ((a > b ? a - b : b - a) <= 2) ctx.tag("u64_difference_within2_of_zero");
            if (a > (((uint64_t)1) << 63) || b > (((uint64_t)1) << 63)) ctx.tag("round_up_above_2^63");
            if (sn || pn) t.nt = true;
            break;
        }
        case K_PAIR32: {
            uint32_t a = (uint32_t)op.arg(0), b = (uint32_t)op.arg(1);
            check_pair32(a, b, t);
            check_unary32(a);
            uint64_t s = (uint64_t)a + b, p = (uint64_t)a * b;
            bool sn = s >= (uint64_t)M32 - 2 && s <= (uint64_t)M32 + 2, pn = p >= (uint64_t)M32 - 2 && p <= (uint64_t)M32 + 2;
            if (sn) ctx.tag("u32_sum_within2_of_max");
            if (pn) ctx.tag("u32_product_within2_of_max");
            if (p > M32) ctx.tag("u32_product_overflows");
            if (s > M32) ctx.tag("u32_sum_overflows");
            if (a < b) ctx.tag("u32_difference_negative");
            if ((a > b ? a - b : b - a) <= 2) ctx.tag("u32_difference_within2_of_zero");
            if (sn || pn) t.nt = true;
            break;
        }
        case K_CONV: {
            // zero frequencies are a fatal assert (caller obligation); frequencies above 10^9 are outside the property
            if (check_conv(op.arg(0), norm_freq(op.arg(1)), norm_freq(op.arg(2)), t, &ctx)) t.nt = true;
            break;
        }
        case K_FP: {
            bool special = false;
            check_fp(op.arg(0), op.arg(1), &special);
            if (special) ctx.tag("fp_inf_equal_or_subnormal");
            break;
        }
        default: { // aws_add_size_checked_varargs (source/math.c): sum of up to 6 size_t values
            size_t n = op.a.size() > 6 ? 6 : op.a.size();
            u128 sum = 0;
            size_t x[6] = {0, 0, 0, 0, 0, 0};
            for (size_t i = 0; i < n; i++) {
                x[i] = (size_t)op.a[i];
                sum += x[i];
            }
            size_t r = 0x5A5A5A5A5A5A5A5Aull;
            aws_reset_error();
            int rc = aws_add_size_checked_varargs(n, &r, x[0], x[1], x[2], x[3], x[4], x[5]);
            if (sum > M64) {
                PBT_CHECK(ERR_IS_OVERFLOW(rc), "aws_add_size_checked_varargs of %zu values with exact sum %s: rc=%d err=%d", n, d128(sum).c_str(), rc,
                          aws_last_error());
                ctx.tag("varargs_overflows");
            } else
                PBT_CHECK(rc == AWS_OP_SUCCESS && r == (size_t)sum, "aws_add_size_checked_varargs of %zu values: rc=%d r=%zu, exact sum %s", n, rc, r,
                          d128(sum).c_str());
            break;
        }
        }
    }
    ctx.nontrivial = t.nt;
    count_tag(ctx, "operand_pairs", t.pairs);
    count_tag(ctx, "conversions", t.convs);
    if (ctx.replay) printf("c16_math: %" PRIu64 " operand pairs, %" PRIu64 " conversions checked on 3 variants\n", t.pairs, t.convs);
}

int main(int argc, char **argv) {
    Spec sp{"C16", "c16_math", gen_case, run,
            "each case = one row (both operand orders) of the exhaustive boundary cross product per width (or, cfg[0]=1, the whole "
            "cross product: this is also replayed from regress/C16 on every run) + <=40 generated operand pairs / conversions / "
            "fp pairs / varargs sums, every pair evaluated on the builtin, portable and x86-64-asm variants against unsigned "
            "__int128; 'evaluations' counts cases, the number of operand pairs is sum_k 2^k * classes['operand_pairs:2^k'] "
            "(likewise 'conversions:2^k'); non-trivial = a GENERATED pair whose exact sum or product is within 2 of the type's "
            "MAX on either side, or a generated conversion whose whole part saturates (the deterministic rows do not count); "
            "distinct by hash of the serialised case"};
    return pbt_main(argc, argv, sp);
}

// C09 (intrusive linked list) — exact order under push/pop at both ends, insert before/after, remove, swap_nodes
// (adjacent or not, same or different lists), swap_contents and move_all_front/back; forward and backward walks
// are mirror images; a removed node is fully detached.
// Model: two std::vector<int> of node ids + where[id] (which list, or detached).  See DESIGN.md section 5 / C09.
//
// Caller obligations respected here (AWS_PRECONDITIONs of the library, commands are skipped/redirected otherwise):
//   * a node is pushed/inserted only while it is not in any list
//   * pop/front/back only on a non-empty list
//   * remove / swap_nodes only on nodes that are in a list (never on a sentinel)
//   * insert_before's reference is a linked node or a tail sentinel, insert_after's a linked node or a head sentinel
//   * swap_contents / move_all_* only between two different lists
#include "pbt.hpp"

#include <aws/common/linked_list.h>

using namespace pbt;

static const int NN = 12;

enum {
    PUSH_BACK, PUSH_FRONT, POP_BACK, POP_FRONT, INSERT_BEFORE, INSERT_AFTER, REMOVE, SWAP_NODES, SWAP_CONTENTS,
    MOVE_ALL_BACK, MOVE_ALL_FRONT, FRONT_BACK, EMPTY, NKINDS
};

static Case gen_case() {
    Case c;
    c.cfg = {pick(0, 6), pick(0, 6)}; // nodes pushed to list 0 / list 1 before the commands start
    c.ops = op_list(60, [] {
        uint64_t l = pick(0, 1);
        switch (weighted({12, 10, 5, 5, 9, 9, 8, 22, 5, 6, 6, 2, 1})) {
        case PUSH_BACK: return mkop(PUSH_BACK, {l, pick(0, NN - 1)});
        case PUSH_FRONT: return mkop(PUSH_FRONT, {l, pick(0, NN - 1)});
        case POP_BACK: return mkop(POP_BACK, {l});
        case POP_FRONT: return mkop(POP_FRONT, {l});
        case INSERT_BEFORE: return mkop(INSERT_BEFORE, {l, pick(0, NN - 1), pick(0, 23), pick(0, 7)});
        case INSERT_AFTER: return mkop(INSERT_AFTER, {l, pick(0, NN - 1), pick(0, 23), pick(0, 7)});
        case REMOVE: return mkop(REMOVE, {pick(0, 23)});
        case SWAP_NODES: return mkop(SWAP_NODES, {pick(0, 23), pick(0, 6), pick(0, 23)});
        case SWAP_CONTENTS: return mkop(SWAP_CONTENTS, {l});
        case MOVE_ALL_BACK: return mkop(MOVE_ALL_BACK, {l});
        case MOVE_ALL_FRONT: return mkop(MOVE_ALL_FRONT, {l});
        case FRONT_BACK: return mkop(FRONT_BACK, {l});
        default: return mkop(EMPTY, {l});
        }
    });
    return c;
}

struct N {
    struct aws_linked_list_node node; // first member: a node pointer is the address of its N
    int id;
};

static void run(const Case &c, Ctx &ctx) {
    struct aws_linked_list lst[2];
    N pool[NN];
    int where[NN];
    std::vector<int> m[2];
    bool adjacent_swap = false, splice_nonempty = false;

    for (int i = 0; i < NN; i++) {
        pool[i].id = i;
        memset(&pool[i].node, 0x5A, sizeof pool[i].node);
        aws_linked_list_node_reset(&pool[i].node);
        where[i] = -1;
    }
    memset(lst, 0x5A, sizeof lst);
    aws_linked_list_init(&lst[0]);
    aws_linked_list_init(&lst[1]);

    auto id_of = [&](const struct aws_linked_list_node *p, const char *after, const char *what) -> int {
        const N *n = (const N *)p;
        PBT_CHECK(p != nullptr, "after %s: %s reached a NULL pointer", after, what);
        PBT_CHECK(n >= pool && n < pool + NN && ((const char *)n - (const char *)pool) % sizeof(N) == 0,
                  "after %s: %s reached a pointer that is neither a node of the pool nor the expected sentinel", after, what);
        return n->id;
    };
    auto show = [](const std::vector<int> &v) {
        std::string s = "[";
        for (size_t i = 0; i < v.size(); i++) s += (i ? " " : "") + std::to_string(v[i]);
        return s + "]";
    };
    auto validate = [&](const char *after) {
        for (int k = 0; k < 2; k++) {
            const struct aws_linked_list *L = &lst[k];
            // raw pointer walks first (bounded, so a corrupted list is reported rather than looped over)
            std::vector<int> fwd, bwd;
            const struct aws_linked_list_node *prev = &L->head;
            const struct aws_linked_list_node *p = L->head.next;
            PBT_CHECK(L->head.prev == nullptr && L->tail.next == nullptr, "after %s: list %d sentinel outer pointers are not NULL", after, k);
            for (int steps = 0; p != &L->tail; steps++) {
                PBT_CHECK(steps <= NN, "after %s: forward walk of list %d does not reach the tail", after, k);
                fwd.push_back(id_of(p, after, "forward walk"));
                PBT_CHECK(p->prev == prev, "after %s: list %d: node %d's prev does not point at its predecessor", after, k, fwd.back());
                prev = p;
                p = p->next;
            }
            PBT_CHECK(L->tail.prev == prev, "after %s: list %d: tail.prev is not the last node of the forward walk", after, k);
            PBT_CHECK(fwd == m[k], "after %s: list %d forward walk %s, reference %s", after, k, show(fwd).c_str(), show(m[k]).c_str());
            p = L->tail.prev;
            for (int steps = 0; p != &L->head; steps++) {
                PBT_CHECK(steps <= NN, "after %s: backward walk of list %d does not reach the head", after, k);
                bwd.push_back(id_of(p, after, "backward walk"));
                p = p->prev;
            }
            std::reverse(bwd.begin(), bwd.end());
            PBT_CHECK(bwd == m[k], "after %s: list %d backward walk (reversed) %s, reference %s", after, k, show(bwd).c_str(), show(m[k]).c_str());
            // the library's own view
            PBT_CHECK(aws_linked_list_is_valid(L) && aws_linked_list_is_valid_deep(L), "after %s: list %d is_valid/is_valid_deep false", after, k);
            PBT_CHECK(aws_linked_list_empty(L) == m[k].empty(), "after %s: list %d empty() disagrees with the reference", after, k);
            std::vector<int> api_f, api_b;
            for (const struct aws_linked_list_node *it = aws_linked_list_begin(L); it != aws_linked_list_end(L); it = aws_linked_list_next(it))
                api_f.push_back(((const N *)it)->id);
            for (const struct aws_linked_list_node *it = aws_linked_list_rbegin(L); it != aws_linked_list_rend(L); it = aws_linked_list_prev(it))
                api_b.push_back(((const N *)it)->id);
            std::reverse(api_b.begin(), api_b.end());
            PBT_CHECK(api_f == m[k] && api_b == m[k], "after %s: list %d begin/next or rbegin/prev iteration differs from the reference", after, k);
            if (!m[k].empty()) {
                PBT_CHECK(aws_linked_list_front(L) == &pool[m[k].front()].node, "after %s: list %d front()", after, k);
                PBT_CHECK(aws_linked_list_back(L) == &pool[m[k].back()].node, "after %s: list %d back()", after, k);
            }
        }
        size_t linked = 0;
        for (int i = 0; i < NN; i++) {
            if (where[i] < 0) {
                PBT_CHECK(pool[i].node.next == nullptr && pool[i].node.prev == nullptr, "after %s: detached node %d still has a next/prev pointer", after, i);
                PBT_CHECK(!aws_linked_list_node_is_in_list(&pool[i].node), "after %s: detached node %d reports being in a list", after, i);
            } else {
                linked++;
                PBT_CHECK(aws_linked_list_node_is_in_list(&pool[i].node), "after %s: linked node %d reports not being in a list", after, i);
            }
        }
        PBT_CHECK(linked == m[0].size() + m[1].size(), "harness bookkeeping");
    };
    auto detached = [&](uint64_t sel) -> int {
        for (int k = 0; k < NN; k++) {
            int i = (int)((sel + k) % NN);
            if (where[i] < 0) return i;
        }
        return -1;
    };
    auto linked_at = [&](uint64_t sel) -> int { // any linked node, or -1
        size_t tot = m[0].size() + m[1].size();
        if (!tot) return -1;
        size_t r = (size_t)(sel % tot);
        return r < m[0].size() ? m[0][r] : m[1][r - m[0].size()];
    };
    auto pos_of = [&](int id) -> size_t {
        auto &v = m[where[id]];
        return (size_t)(std::find(v.begin(), v.end(), id) - v.begin());
    };

    for (int k = 0; k < 2; k++)
        for (uint64_t i = 0; i < c.c(k) % 7; i++) {
            int n = detached(k * 6 + i);
            aws_linked_list_push_back(&lst[k], &pool[n].node);
            m[k].push_back(n);
            where[n] = k;
        }
    validate("init");

    for (auto &op : c.ops) {
        int kind = op.kind % NKINDS;
        const char *name = "?";
        if (ctx.replay) fprintf(stderr, "op %d args %" PRIu64 " %" PRIu64 " %" PRIu64 " %" PRIu64 "  L0=%s L1=%s\n", kind, op.arg(0), op.arg(1), op.arg(2),
                                op.arg(3), show(m[0]).c_str(), show(m[1]).c_str());
        switch (kind) {
        case PUSH_BACK:
        case PUSH_FRONT: {
            name = kind == PUSH_BACK ? "push_back" : "push_front";
            int k = (int)(op.arg(0) % 2), n = detached(op.arg(1));
            if (n < 0) break;
            if (kind == PUSH_BACK) {
                aws_linked_list_push_back(&lst[k], &pool[n].node);
                m[k].push_back(n);
            } else {
                aws_linked_list_push_front(&lst[k], &pool[n].node);
                m[k].insert(m[k].begin(), n);
            }
            where[n] = k;
            break;
        }
        case POP_BACK:
        case POP_FRONT: {
            name = kind == POP_BACK ? "pop_back" : "pop_front";
            int k = (int)(op.arg(0) % 2);
            if (m[k].empty()) break; // popping an empty list is a precondition violation
            int want = kind == POP_BACK ? m[k].back() : m[k].front();
            struct aws_linked_list_node *got = kind == POP_BACK ? aws_linked_list_pop_back(&lst[k]) : aws_linked_list_pop_front(&lst[k]);
            PBT_CHECK(got == &pool[want].node, "%s returned a different node than the reference's %s", name, kind == POP_BACK ? "last" : "first");
            PBT_CHECK(got->next == nullptr && got->prev == nullptr, "%s: the popped node is not fully detached", name);
            if (kind == POP_BACK) m[k].pop_back();
            else m[k].erase(m[k].begin());
            where[want] = -1;
            if (m[k].empty()) ctx.tag("pop_last_element");
            break;
        }
        case INSERT_BEFORE:
        case INSERT_AFTER: {
            name = kind == INSERT_BEFORE ? "insert_before" : "insert_after";
            int n = detached(op.arg(1));
            if (n < 0) break;
            int ref = op.arg(3) % 8 == 0 ? -1 : linked_at(op.arg(2));
            if (ref < 0) { // relative to a sentinel: before the tail == push_back, after the head == push_front
                int k = (int)(op.arg(0) % 2);
                if (kind == INSERT_BEFORE) {
                    aws_linked_list_insert_before(&lst[k].tail, &pool[n].node);
                    m[k].push_back(n);
                } else {
                    aws_linked_list_insert_after(&lst[k].head, &pool[n].node);
                    m[k].insert(m[k].begin(), n);
                }
                where[n] = k;
                ctx.tag("insert_at_sentinel");
            } else {
                int k = where[ref];
                size_t pos = pos_of(ref);
                if (kind == INSERT_BEFORE) {
                    aws_linked_list_insert_before(&pool[ref].node, &pool[n].node);
                    m[k].insert(m[k].begin() + (ptrdiff_t)pos, n);
                } else {
                    aws_linked_list_insert_after(&pool[ref].node, &pool[n].node);
                    m[k].insert(m[k].begin() + (ptrdiff_t)pos + 1, n);
                }
                where[n] = k;
                ctx.tag("insert_at_node");
            }
            break;
        }
        case REMOVE: {
            name = "remove";
            int n = linked_at(op.arg(0));
            if (n < 0) break;
            int k = where[n];
            size_t pos = pos_of(n);
            aws_linked_list_remove(&pool[n].node);
            PBT_CHECK(pool[n].node.next == nullptr && pool[n].node.prev == nullptr, "remove: node %d is not fully detached", n);
            if (pos > 0 && pos + 1 < m[k].size()) ctx.tag("remove_middle");
            m[k].erase(m[k].begin() + (ptrdiff_t)pos);
            where[n] = -1;
            break;
        }
        case SWAP_NODES: {
            name = "swap_nodes";
            int a = linked_at(op.arg(0));
            if (a < 0) break;
            int ka = where[a];
            size_t ia = pos_of(a);
            int b = a;
            switch (op.arg(1) % 7) {
            case 0: b = a; break;
            case 1: b = ia + 1 < m[ka].size() ? m[ka][ia + 1] : ia > 0 ? m[ka][ia - 1] : a; break; // a directly before b
            case 2: b = ia > 0 ? m[ka][ia - 1] : ia + 1 < m[ka].size() ? m[ka][ia + 1] : a; break; // a directly after b
            case 3: b = m[ka].front(); break;
            case 4: b = m[ka].back(); break;
            case 5:
                if (!m[1 - ka].empty()) {
                    b = m[1 - ka][op.arg(2) % m[1 - ka].size()];
                    break;
                }
                /* fall through */
            default: b = linked_at(op.arg(2)); break;
            }
            int kb = where[b];
            size_t ib = pos_of(b);
            aws_linked_list_swap_nodes(&pool[a].node, &pool[b].node);
            m[ka][ia] = b;
            m[kb][ib] = a;
            where[a] = kb;
            where[b] = ka;
            if (a == b) ctx.tag("swap_same_node");
            else if (ka != kb) ctx.tag("swap_across_lists");
            else if (ia + 1 == ib) {
                adjacent_swap = true;
                ctx.tag("swap_adjacent_a_before_b");
            } else if (ib + 1 == ia) {
                adjacent_swap = true;
                ctx.tag("swap_adjacent_b_before_a");
            } else ctx.tag("swap_distant");
            if (a != b && ka == kb && ((ia == 0 && ib + 1 == m[ka].size()) || (ib == 0 && ia + 1 == m[ka].size()))) ctx.tag("swap_first_last");
            if (a != b && ka == kb && m[ka].size() == 2) ctx.tag("swap_only_two_nodes");
            break;
        }
        case SWAP_CONTENTS: {
            name = "swap_contents";
            int k = (int)(op.arg(0) % 2);
            aws_linked_list_swap_contents(&lst[k], &lst[1 - k]);
            std::swap(m[0], m[1]);
            for (int i = 0; i < NN; i++)
                if (where[i] >= 0) where[i] = 1 - where[i];
            if (m[0].empty() != m[1].empty()) ctx.tag("swap_contents_one_empty");
            else if (!m[0].empty()) ctx.tag("swap_contents_both_nonempty");
            break;
        }
        case MOVE_ALL_BACK:
        case MOVE_ALL_FRONT: {
            name = kind == MOVE_ALL_BACK ? "move_all_back" : "move_all_front";
            int d = (int)(op.arg(0) % 2), s = 1 - d;
            if (!m[d].empty() && !m[s].empty()) {
                splice_nonempty = true;
                ctx.tag(kind == MOVE_ALL_BACK ? "move_all_back_into_nonempty" : "move_all_front_into_nonempty");
            } else if (m[s].empty()) ctx.tag("move_all_from_empty");
            if (kind == MOVE_ALL_BACK) {
                aws_linked_list_move_all_back(&lst[d], &lst[s]);
                m[d].insert(m[d].end(), m[s].begin(), m[s].end());
            } else {
                aws_linked_list_move_all_front(&lst[d], &lst[s]);
                m[d].insert(m[d].begin(), m[s].begin(), m[s].end());
            }
            for (int id : m[s]) where[id] = d;
            m[s].clear();
            break;
        }
        case FRONT_BACK: {
            name = "front/back";
            int k = (int)(op.arg(0) % 2);
            if (m[k].empty()) break;
            PBT_CHECK(aws_linked_list_front(&lst[k]) == &pool[m[k].front()].node, "front() is not the reference's first node");
            PBT_CHECK(aws_linked_list_back(&lst[k]) == &pool[m[k].back()].node, "back() is not the reference's last node");
            break;
        }
        default: {
            name = "empty";
            int k = (int)(op.arg(0) % 2);
            PBT_CHECK(aws_linked_list_empty(&lst[k]) == m[k].empty(), "empty() disagrees with the reference");
            break;
        }
        }
        validate(name);
    }
    if (adjacent_swap && splice_nonempty) ctx.nontrivial = true;
}

int main(int argc, char **argv) {
    Spec sp{"C09", "c09_linked", gen_case, run,
            "generated command sequences (<=60) over two intrusive lists sharing a pool of 12 nodes; non-trivial = >=1 swap_nodes of two "
            "adjacent nodes of one list and >=1 move_all_front/back from a non-empty list into a non-empty list; distinct by hash of the "
            "serialised case"};
    return pbt_main(argc, argv, sp);
}

// C14 — second engine for the threaded clauses: FREE-RUNNING logging threads under ThreadSanitizer.
//
// c14_bg runs the background channel, the foreground channel and the no-alloc logger under the controlled scheduler, which
// preempts only at lock / condition-variable / atomic operations.  A send, a write or a format whose lock calls were
// removed has no decision point inside it any more and runs atomically there; only a race detector on really parallel
// threads sees it (DESIGN 4.4 / 9.4 e).  Here 2-4 threads log generated messages through one logger; the oracle is
// "no data race report" plus the statement itself: after clean-up every accepted line is there exactly once, whole,
// newline-terminated, and each thread's lines are in the order that thread logged them.
//
// cfg = {logger kind (0 standard: default formatter + background channel + file writer; 1 no-alloc; 2 formatter + foreground
//        channel + harness writer), threads 2..4}
// op  = {thread, payload length 0..200, level 1..6}
#include "pbt.hpp"
#include "galloc.hpp"

#include <aws/common/common.h>
#include <aws/common/log_channel.h>
#include <aws/common/log_formatter.h>
#include <aws/common/log_writer.h>
#include <aws/common/logging.h>
#include <aws/common/string.h>

#include <memory>
#include <mutex>
#include <thread>

using namespace pbt;

enum { STANDARD = 0, NOALLOC = 1, FOREGROUND = 2 };
static const int MAXT = 4;

static Case gen_case() {
    Case c;
    c.cfg = {weighted({5, 3, 2}), pick(0, 2), pick(2, 6)};
    c.ops = op_list(40, [] { return mkop(0, {pick(0, MAXT - 1), chance(70) ? pick(0, 40) : pick(0, 200), pick(1, 6)}); });
    return c;
}

static std::string payload(int t, int seq, size_t len) {
    std::string s = fmt("T%d-%04d-", t, seq);
    for (size_t i = 0; i < len; i++) s.push_back((char)('a' + (t * 7 + seq * 3 + i) % 26));
    return s + "$";
}

// harness writer for the foreground pipeline: the channel serialises the calls, so the vector needs no lock of its own
// (if the channel fails to, that is the race to be reported)
struct Rec {
    std::vector<std::string> lines;
};
static int writer_write(struct aws_log_writer *w, const struct aws_string *out) {
    ((Rec *)w->impl)->lines.emplace_back((const char *)aws_string_bytes(out), out->len);
    return AWS_OP_SUCCESS;
}
static void writer_clean_up(struct aws_log_writer *) {}
static struct aws_log_writer_vtable writer_vt = {writer_write, writer_clean_up};

struct Msg {
    size_t len;
    int level;
};

static void run(const Case &c, Ctx &ctx) {
    galloc::reset();
    int kind = (int)(c.c(0) % 3);
    int T = (int)(2 + c.c(1) % 3);
    int active = (int)(2 + c.c(2) % 5); // active level 2..6: calls above it must produce nothing
    struct aws_allocator *alloc = galloc::full();

    std::vector<std::vector<Msg>> prog((size_t)T);
    for (auto &op : c.ops) prog[(size_t)(op.arg(0) % (uint64_t)T)].push_back(Msg{(size_t)(op.arg(1) % 201), (int)(1 + op.arg(2) % 6)});

    Rec rec;
    struct aws_log_writer writer = {&writer_vt, alloc, &rec};
    struct aws_log_formatter formatter;
    struct aws_log_channel channel;
    struct aws_logger logger;
    FILE *file = nullptr;
    char *filebuf = nullptr;
    size_t filesz = 0;
    if (kind == FOREGROUND) {
        struct aws_log_formatter_standard_options fo = {AWS_DATE_FORMAT_ISO_8601};
        PBT_CHECK(aws_log_formatter_init_default(&formatter, alloc, &fo) == AWS_OP_SUCCESS);
        PBT_CHECK(aws_log_channel_init_foreground(&channel, alloc, &writer) == AWS_OP_SUCCESS);
        PBT_CHECK(aws_logger_init_from_external(&logger, alloc, &formatter, &channel, &writer, (enum aws_log_level)active) == AWS_OP_SUCCESS);
    } else {
        file = open_memstream(&filebuf, &filesz);
        PBT_CHECK(file != nullptr);
        struct aws_logger_standard_options lo = {(enum aws_log_level)active, nullptr, file};
        if (kind == NOALLOC) PBT_CHECK(aws_logger_init_noalloc(&logger, alloc, &lo) == AWS_OP_SUCCESS);
        else PBT_CHECK(aws_logger_init_standard(&logger, alloc, &lo) == AWS_OP_SUCCESS);
    }

    {
        std::vector<std::thread> run;
        for (int t = 0; t < T; t++)
            run.emplace_back([&, t] {
                int seq = 0;
                for (auto &m : prog[(size_t)t]) {
                    std::string s = payload(t, seq++, m.len);
                    // through the logger's own entry point, as AWS_LOGF does after its level test
                    if ((int)logger.vtable->get_log_level(&logger, AWS_LS_COMMON_GENERAL) >= m.level)
                        logger.vtable->log(&logger, (enum aws_log_level)m.level, AWS_LS_COMMON_GENERAL, "%s", s.c_str());
                }
            });
        for (auto &r : run) r.join();
    }
    aws_logger_clean_up(&logger); // flushes everything accepted (background channel) and stops its thread
    if (kind == FOREGROUND) { // a pipeline made from external parts does not own them
        aws_log_channel_clean_up(&channel);
        aws_log_formatter_clean_up(&formatter);
    }

    std::vector<std::string> lines;
    if (kind == FOREGROUND) lines = rec.lines;
    else {
        fflush(file);
        std::string all(filebuf ? filebuf : "", filesz);
        PBT_CHECK(all.empty() || all.back() == '\n', "output does not end in a newline");
        PBT_CHECK(all.find('\0') == std::string::npos, "output contains a NUL byte");
        size_t pos = 0;
        while (pos < all.size()) {
            size_t nl = all.find('\n', pos);
            lines.push_back(all.substr(pos, nl - pos + 1));
            pos = nl + 1;
        }
        fclose(file);
        free(filebuf);
    }

    std::vector<int> next((size_t)T, 0); // next sequence number expected from each thread among the ACCEPTED ones
    std::vector<std::vector<int>> accepted((size_t)T);
    size_t expected_total = 0;
    for (int t = 0; t < T; t++)
        for (size_t i = 0; i < prog[(size_t)t].size(); i++)
            if (prog[(size_t)t][i].level <= active) accepted[(size_t)t].push_back((int)i), expected_total++;
    for (auto &ln : lines) {
        PBT_CHECK(!ln.empty() && ln.back() == '\n' && ln.find('\n') == ln.size() - 1, "line without exactly one newline at its end: [%s]",
                  ln.substr(0, 120).c_str());
        size_t at = ln.find(" - T");
        PBT_CHECK(at != std::string::npos && ln[0] == '[', "line without prefix / message: [%s]", ln.substr(0, 120).c_str());
        int t = -1, seq = -1;
        PBT_CHECK(sscanf(ln.c_str() + at + 3, "T%d-%d-", &t, &seq) == 2 && t >= 0 && t < T, "unreadable message in [%s]", ln.substr(0, 120).c_str());
        size_t k = (size_t)next[(size_t)t];
        PBT_CHECK(k < accepted[(size_t)t].size(), "thread %d: more lines than it logged (sequence %d)", t, seq);
        int want = accepted[(size_t)t][k];
        PBT_CHECK(seq == want, "thread %d: line %d arrived where its line %d was expected (lost, duplicated or out of order)", t, seq, want);
        const Msg &m = prog[(size_t)t][(size_t)want];
        std::string msg = payload(t, want, m.len);
        PBT_CHECK(ln.compare(at + 3, std::string::npos, msg + "\n") == 0, "thread %d line %d is torn: got [%s], logged [%s]", t, want,
                  ln.substr(at + 3, 80).c_str(), msg.substr(0, 80).c_str());
        next[(size_t)t]++;
    }
    PBT_CHECK(lines.size() == expected_total, "%zu lines reached the writer, %zu calls were at or below the active level", lines.size(), expected_total);
    const char *gm = nullptr;
    PBT_CHECK(galloc::check_all(&gm), "%s", gm ? gm : "");
    PBT_CHECK(galloc::live_blocks() == 0, "%zu blocks (%zu bytes) still allocated after clean-up", galloc::live_blocks(), galloc::live_bytes());

    int busy = 0;
    for (auto &a : accepted)
        if (a.size() >= 2) busy++;
    if (busy >= 2) ctx.nontrivial = true;
    ctx.tag(kind == STANDARD ? "standard_logger" : kind == NOALLOC ? "noalloc_logger" : "foreground_pipeline");
    ctx.tag("threads_" + std::to_string(T));
    if (expected_total < c.ops.size()) ctx.tag("some_calls_filtered");
}

int main(int argc, char **argv) {
    Spec sp{"C14", "c14_race", gen_case, run,
            "free-running threads under ThreadSanitizer: 2-4 threads log generated messages (0-200 bytes, levels 1-6 against an active level 2-6) through "
            "one standard logger (background channel + file writer), one no-alloc logger or one formatter + foreground channel pipeline; then clean-up. "
            "Oracle: no data race report; every call at or below the level is one whole newline-terminated line, none lost or duplicated, each thread's "
            "lines in its own order, nothing above the level, nothing leaked. Non-trivial = at least two threads with two or more accepted lines; "
            "distinct by hash of the serialised case"};
    return pbt_main(argc, argv, sp);
}

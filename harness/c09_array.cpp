// C09 (array list) — an array list holds exactly the element sequence a reference sequence would hold.
// Model: std::vector<std::string> per list (two lists of one item size, for copy / swap_contents).
// See DESIGN.md section 5 / C09.
//
// Caller obligations respected here (fatal preconditions of the library; such commands are skipped or
// redirected, never passed on):
//   * aws_array_list_swap: both indices < length               -> skipped on an empty list, indices taken mod length
//   * aws_array_list_copy: from->data != NULL, equal item size  -> skipped when the source has no storage
//   * aws_array_list_swap_contents: both dynamic, same allocator, same item size, a != b -> skipped otherwise
//   * aws_array_list_init_static: item_count > 0
//   * every other call needs an initialised list                -> clean_up is always followed by a re-init
//   * out-of-memory is fatal: "huge" indices are only those whose (index+1)*item_size overflows size_t, which the
//     checked arithmetic must refuse before any allocation
#include "pbt.hpp"
#include "galloc.hpp"

#include <aws/common/array_list.h>
#include <aws/common/error.h>

#include <memory>

using namespace pbt;

static const size_t SIZES[] = {1, 3, 8, 127, 128, 129, 300};
static const size_t NSIZES = 7;
static const size_t G = 320; // guard bytes around caller-provided storage (> largest item)

// ---- a second allocator whose blocks end exactly at an ASan redzone (galloc's blocks are followed by a
// 64-byte canary, so a *read* a few bytes past the end of a small block would go unnoticed there) ----------
namespace tight {
static std::map<void *, size_t> &live() {
    static std::map<void *, size_t> *m = new std::map<void *, size_t>();
    return *m;
}
static void *acq(struct aws_allocator *, size_t n) {
    if (n > (64u << 20)) {
        fprintf(stderr, "tight: request of %zu bytes — generator bug\n", n);
        abort();
    }
    void *p = malloc(n);
    if (!p) abort();
    memset(p, 0xA5, n);
    live()[p] = n;
    return p;
}
static void rel(struct aws_allocator *, void *p) {
    if (!p) return;
    auto it = live().find(p);
    if (it == live().end()) {
        fprintf(stderr, "tight: release of %p which is not a live block\n", p);
        abort();
    }
    live().erase(it);
    free(p);
}
static struct aws_allocator *get() {
    static struct aws_allocator a = {acq, rel, nullptr, nullptr, nullptr};
    return &a;
}
static void reset() {
    for (auto &kv : live()) free(kv.first);
    live().clear();
}
static bool is_live(const void *p, size_t *sz) {
    auto it = live().find((void *)p);
    if (it == live().end()) return false;
    *sz = it->second;
    return true;
}
} // namespace tight

static int cmp_first(const void *a, const void *b) {
    return (int)*(const unsigned char *)a - (int)*(const unsigned char *)b;
}

enum {
    PUSH_BACK, PUSH_FRONT, POP_BACK, POP_FRONT, POP_FRONT_N, FRONT, BACK, GET_AT, GET_AT_PTR, SET_AT, ERASE, SWAP,
    SORT, COPY, SHRINK, CLEAR, SWAP_CONTENTS, ENSURE, LENCAP, REINIT, NKINDS
};
// index classes (resolved against the current length inside run)
enum { IX_WITHIN, IX_LAST, IX_AT_LEN, IX_BEYOND, IX_ZERO, IX_HUGE, NIX };

static uint64_t gen_ix() { return weighted({34, 12, 14, 16, 8, 5}); }
static uint64_t gen_key() { return chance(60) ? pick(0, 5) : pick(0, 255); }
static uint64_t gen_mode() { return weighted({62, 22, 16}); } // dynamic, static, static over initialised elements

static Case gen_case() {
    Case c;
    c.cfg = {pick(0, NSIZES - 1), gen_mode(), pick(0, 10), gen_mode(), pick(0, 10), pick(0, 2), pick(0, 1), pick(0, 8), pick(0, 5)};
    c.ops = op_list(60, [] {
        uint64_t l = chance(70) ? 0 : 1;
        switch (weighted({20, 10, 3, 3, 6, 2, 2, 3, 3, 10, 10, 6, 3, 6, 4, 1, 3, 4, 1, 1})) {
        case PUSH_BACK: return mkop(PUSH_BACK, {l, gen_key()});
        case PUSH_FRONT: return mkop(PUSH_FRONT, {l, gen_key()});
        case POP_BACK: return mkop(POP_BACK, {l});
        case POP_FRONT: return mkop(POP_FRONT, {l});
        case POP_FRONT_N: return mkop(POP_FRONT_N, {l, weighted({1, 1, 6, 1, 1, 1}), pick(0, 40)});
        case FRONT: return mkop(FRONT, {l});
        case BACK: return mkop(BACK, {l});
        case GET_AT: return mkop(GET_AT, {l, gen_ix(), pick(0, 400)});
        case GET_AT_PTR: return mkop(GET_AT_PTR, {l, gen_ix(), pick(0, 400)});
        case SET_AT: return mkop(SET_AT, {l, gen_key(), gen_ix(), pick(0, 400)});
        case ERASE: return mkop(ERASE, {l, gen_ix(), pick(0, 400)});
        case SWAP: return mkop(SWAP, {l, pick(0, 400), pick(0, 400), pick(0, 5)});
        case SORT: return mkop(SORT, {l});
        case COPY: return mkop(COPY, {l});
        case SHRINK: return mkop(SHRINK, {l});
        case CLEAR: return mkop(CLEAR, {l});
        case SWAP_CONTENTS: return mkop(SWAP_CONTENTS, {l});
        case ENSURE: return mkop(ENSURE, {l, gen_ix(), pick(0, 400)});
        case LENCAP: return mkop(LENCAP, {l});
        default: return mkop(REINIT, {l, gen_mode(), pick(0, 10), pick(0, 1)});
        }
    });
    return c;
}

static std::string make_elem(size_t S, unsigned key, uint32_t id) {
    std::string e(S, '\0');
    for (size_t i = 0; i < S; i++) e[i] = (char)((id * 2654435761u >> ((i % 4) * 8)) ^ (i * 31) ^ (id >> 3) ^ (i >> 7));
    if (S >= 5) memcpy(&e[1], &id, 4);
    if (S >= 2) e[S - 1] = (char)(0x80 | (id & 0x7f)); // last byte never looks like fill (0x00/0xDD/0xA5/0xEE stay possible but rare)
    e[0] = (char)key;
    return e;
}

// index whose (index+1)*S overflows size_t: must be refused before any allocation
static size_t huge_index(uint64_t k, size_t S) {
    switch (k % 4) {
    case 0: return SIZE_MAX;
    case 1: return SIZE_MAX / S;
    case 2: return S > 1 ? SIZE_MAX / S + 1 + (size_t)((k / 4) % 97) : SIZE_MAX;
    default: return S > 1 ? SIZE_MAX - 1 : SIZE_MAX;
    }
}

struct L {
    struct aws_array_list list;
    int mode = 0;   // 0 dynamic, 1 static, 2 static over already-initialised elements
    size_t cap = 0; // static: capacity in items; dynamic: initial allocation
    std::unique_ptr<unsigned char[]> arena;
    size_t arena_len = 0;
    bool rear_guard = true;
    std::vector<std::string> m; // the reference sequence
};

static void run(const Case &c, Ctx &ctx) {
    galloc::reset();
    tight::reset();
    const size_t S = SIZES[c.c(0) % NSIZES];
    const unsigned akind = (unsigned)(c.c(5) % 3);
    struct aws_allocator *A = akind == 0 ? galloc::full() : akind == 1 ? galloc::basic() : tight::get();
    const bool rear_guard_cfg = c.c(6) % 2 == 0;
    uint32_t next_id = 1;
    L ls[2];
    bool grew = false, shifted = false, copied_or_swapped = false;

    auto block_size = [&](const void *p, size_t *sz) { return akind == 2 ? tight::is_live(p, sz) : galloc::is_live(p, sz); };

    auto init = [&](L &x, uint64_t modesel, uint64_t capsel) {
        x.m.clear();
        x.mode = (int)(modesel % 3);
        if (x.mode == 0) {
            x.cap = capsel % 7;
            PBT_CHECK(aws_array_list_init_dynamic(&x.list, A, x.cap, S) == AWS_OP_SUCCESS, "init_dynamic(%zu,%zu)", x.cap, S);
            PBT_CHECK(aws_array_list_capacity(&x.list) == x.cap, "init_dynamic: capacity %zu, asked %zu",
                      aws_array_list_capacity(&x.list), x.cap);
            x.arena.reset();
            return;
        }
        x.cap = 1 + capsel % 10;
        x.rear_guard = rear_guard_cfg;
        // without a rear guard the storage ends exactly at an ASan redzone: any access past it aborts
        x.arena_len = G + x.cap * S + (x.rear_guard ? G : 0);
        x.arena.reset(new unsigned char[x.arena_len]);
        memset(x.arena.get(), 0xEE, x.arena_len);
        if (x.mode == 1) {
            aws_array_list_init_static(&x.list, x.arena.get() + G, x.cap, S);
        } else {
            for (size_t i = 0; i < x.cap; i++) {
                std::string e = make_elem(S, (unsigned)((capsel * 7 + i * 3) % 6), next_id++);
                memcpy(x.arena.get() + G + i * S, e.data(), S);
                x.m.push_back(e);
            }
            aws_array_list_init_static_from_initialized(&x.list, x.arena.get() + G, x.cap, S);
            ctx.tag("static_from_initialized");
        }
    };

    auto validate = [&](L &x, const char *after) {
        const struct aws_array_list *l = &x.list;
        PBT_CHECK(aws_array_list_is_valid(l), "after %s", after);
        size_t n = aws_array_list_length(l);
        PBT_CHECK(n == x.m.size(), "after %s: length %zu, reference %zu", after, n, x.m.size());
        size_t capn = aws_array_list_capacity(l);
        PBT_CHECK(capn >= n, "after %s: capacity %zu < length %zu", after, capn, n);
        PBT_CHECK(l->item_size == S, "after %s: item size changed", after);
        if (x.mode == 0) {
            PBT_CHECK(l->alloc == A, "after %s: allocator changed", after);
            if (l->data) {
                size_t bs = 0;
                PBT_CHECK(block_size(l->data, &bs), "after %s: storage %p is not a live block of the list's allocator", after, l->data);
                PBT_CHECK(bs >= l->current_size, "after %s: capacity claims %zu bytes, block has %zu", after, l->current_size, bs);
            }
        } else {
            PBT_CHECK(l->alloc == nullptr, "after %s: static list got an allocator", after);
            PBT_CHECK(l->data == x.arena.get() + G, "after %s: static storage pointer moved", after);
            PBT_CHECK(capn == x.cap, "after %s: static capacity %zu, was %zu", after, capn, x.cap);
            for (size_t i = 0; i < G; i++) {
                PBT_CHECK(x.arena[i] == 0xEE, "after %s: wrote before the caller's array (guard byte %zu)", after, i);
                if (x.rear_guard)
                    PBT_CHECK(x.arena[G + x.cap * S + i] == 0xEE, "after %s: wrote past the caller's array (guard byte %zu)", after, i);
            }
        }
        std::string out(S, '\x77');
        for (size_t i = 0; i < n; i++) {
            PBT_CHECK(aws_array_list_get_at(l, &out[0], i) == AWS_OP_SUCCESS, "after %s: get_at(%zu) failed, length %zu", after, i, n);
            if (out != x.m[i]) {
                size_t d = 0;
                while (d < S && out[d] == x.m[i][d]) d++;
                PBT_CHECK(false, "after %s: element %zu of %zu differs from the reference at byte %zu (have %02x, want %02x; item size %zu)",
                          after, i, n, d, (unsigned char)out[d], (unsigned char)x.m[i][d], S);
            }
        }
        aws_reset_error();
        PBT_CHECK(aws_array_list_get_at(l, &out[0], n) == AWS_OP_ERR && aws_last_error() == AWS_ERROR_INVALID_INDEX,
                  "after %s: get_at(length) did not raise INVALID_INDEX", after);
        if (akind != 2) {
            const char *m = nullptr;
            PBT_CHECK(galloc::check_all(&m), "after %s: %s", after, m ? m : "");
        }
    };
    auto validate_both = [&](const char *after) {
        validate(ls[0], after);
        validate(ls[1], after);
    };
    auto same_fields = [](const struct aws_array_list &a, const struct aws_array_list &b) {
        return a.alloc == b.alloc && a.current_size == b.current_size && a.length == b.length && a.item_size == b.item_size &&
               a.data == b.data;
    };
    auto index_of = [&](uint64_t cls, uint64_t k, size_t len, bool *huge) -> size_t {
        *huge = false;
        switch (cls % NIX) {
        case IX_WITHIN: return len ? (size_t)(k % len) : 0;
        case IX_LAST: return len ? len - 1 : 0;
        case IX_AT_LEN: return len;
        case IX_BEYOND: return len + 1 + (size_t)(k % 5);
        case IX_ZERO: return 0;
        default: *huge = true; ctx.tag("huge_size_ops"); return huge_index(k, S);
        }
    };
    auto note_growth = [&](L &x, size_t old_cap, size_t old_len, const char *what) {
        size_t nc = aws_array_list_capacity(&x.list);
        PBT_CHECK(nc >= old_cap, "%s reduced the capacity from %zu to %zu", what, old_cap, nc);
        if (x.mode == 0 && nc > old_cap && old_len > 0) {
            grew = true;
            ctx.tag("growth_with_elements");
        }
    };

    init(ls[0], c.c(1), c.c(2));
    init(ls[1], c.c(3), c.c(4));
    validate_both("init");
    for (int k = 0; k < 2; k++) { // optional prefill through push_back, so that early commands already see a populated list
        L &x = ls[k];
        size_t want = (size_t)(c.c(7 + k) % 9);
        for (size_t i = 0; i < want && (x.mode == 0 || x.m.size() < x.cap); i++) {
            std::string e = make_elem(S, (unsigned)((i * 5 + k) % 7), next_id++);
            size_t cap0 = aws_array_list_capacity(&x.list), len0 = x.m.size();
            PBT_CHECK(aws_array_list_push_back(&x.list, e.data()) == AWS_OP_SUCCESS, "prefill push_back failed");
            x.m.push_back(e);
            if (x.mode == 0 && aws_array_list_capacity(&x.list) > cap0 && len0 > 0) grew = true;
        }
    }
    validate_both("prefill");

    for (auto &op : c.ops) {
        int kind = op.kind % NKINDS;
        L &x = ls[op.arg(0) % 2];
        L &y = ls[1 - op.arg(0) % 2];
        struct aws_array_list *l = &x.list;
        const size_t len = x.m.size();
        const size_t cap0 = aws_array_list_capacity(l);
        const struct aws_array_list before = x.list;
        const bool is_static = x.mode != 0;
        const char *name = "?";
        aws_reset_error();
        if (ctx.replay)
            fprintf(stderr, "op %d list %d (len %zu cap %zu mode %d) args %" PRIu64 " %" PRIu64 " %" PRIu64 "\n", kind,
                    (int)(op.arg(0) % 2), len, cap0, x.mode, op.arg(1), op.arg(2), op.arg(3));
        switch (kind) {
        case PUSH_BACK:
        case PUSH_FRONT: {
            name = kind == PUSH_BACK ? "push_back" : "push_front";
            std::string e = make_elem(S, (unsigned)(op.arg(1) % 256), next_id++);
            int rc = kind == PUSH_BACK ? aws_array_list_push_back(l, e.data()) : aws_array_list_push_front(l, e.data());
            if (is_static && len >= x.cap) {
                PBT_CHECK(rc == AWS_OP_ERR, "%s on a full static list succeeded", name);
                PBT_CHECK(aws_last_error() == AWS_ERROR_LIST_EXCEEDS_MAX_SIZE, "%s on a full static list raised %d, documented LIST_EXCEEDS_MAX_SIZE",
                          name, aws_last_error());
                PBT_CHECK(same_fields(before, x.list), "refused %s changed the list", name);
                ctx.tag("static_full_push");
            } else {
                PBT_CHECK(rc == AWS_OP_SUCCESS, "%s failed with error %d (length %zu, capacity %zu)", name, aws_last_error(), len, cap0);
                if (kind == PUSH_BACK) x.m.push_back(e);
                else x.m.insert(x.m.begin(), e);
                note_growth(x, cap0, len, name);
            }
            break;
        }
        case POP_BACK:
        case POP_FRONT: {
            name = kind == POP_BACK ? "pop_back" : "pop_front";
            int rc = kind == POP_BACK ? aws_array_list_pop_back(l) : aws_array_list_pop_front(l);
            if (len == 0) {
                PBT_CHECK(rc == AWS_OP_ERR && aws_last_error() == AWS_ERROR_LIST_EMPTY, "%s on an empty list: rc %d error %d", name, rc, aws_last_error());
                PBT_CHECK(same_fields(before, x.list), "refused %s changed the list", name);
            } else {
                PBT_CHECK(rc == AWS_OP_SUCCESS, "%s failed on a list of %zu", name, len);
                if (kind == POP_BACK) x.m.pop_back();
                else x.m.erase(x.m.begin());
            }
            break;
        }
        case POP_FRONT_N: {
            name = "pop_front_n";
            size_t n;
            switch (op.arg(1) % 6) {
            case 0: n = 0; break;
            case 1: n = 1; break;
            case 2: n = len > 1 ? 1 + (size_t)(op.arg(2) % (len - 1)) : 1; break; // partial whenever possible
            case 3: n = len; break;
            case 4: n = len + 1 + (size_t)(op.arg(2) % 3); break;
            default: n = SIZE_MAX - (size_t)(op.arg(2) % 2); break;
            }
            aws_array_list_pop_front_n(l, n);
            if (n >= len) x.m.clear();
            else x.m.erase(x.m.begin(), x.m.begin() + (ptrdiff_t)n);
            if (n > 0 && n < len) {
                shifted = true;
                ctx.tag("pop_front_n_partial");
            }
            if (n > len) ctx.tag("pop_front_n_beyond_length");
            break;
        }
        case FRONT:
        case BACK: {
            name = kind == FRONT ? "front" : "back";
            std::string out(S, '\x77');
            int rc = kind == FRONT ? aws_array_list_front(l, &out[0]) : aws_array_list_back(l, &out[0]);
            if (len == 0) {
                PBT_CHECK(rc == AWS_OP_ERR && aws_last_error() == AWS_ERROR_LIST_EMPTY, "%s on an empty list: rc %d error %d", name, rc, aws_last_error());
            } else {
                PBT_CHECK(rc == AWS_OP_SUCCESS, "%s failed on a list of %zu", name, len);
                PBT_CHECK(out == (kind == FRONT ? x.m.front() : x.m.back()), "%s returned other bytes than the reference's %s element", name,
                          kind == FRONT ? "first" : "last");
            }
            PBT_CHECK(same_fields(before, x.list), "%s changed the list", name);
            break;
        }
        case GET_AT:
        case GET_AT_PTR: {
            name = kind == GET_AT ? "get_at" : "get_at_ptr";
            bool huge;
            size_t idx = index_of(op.arg(1), op.arg(2), len, &huge);
            std::string out(S, '\x77');
            void *p = nullptr;
            int rc = kind == GET_AT ? aws_array_list_get_at(l, &out[0], idx) : aws_array_list_get_at_ptr(l, &p, idx);
            if (idx < len) {
                PBT_CHECK(rc == AWS_OP_SUCCESS, "%s(%zu) failed, length %zu", name, idx, len);
                if (kind == GET_AT) PBT_CHECK(out == x.m[idx], "get_at(%zu) returned other bytes than the reference", idx);
                else {
                    PBT_CHECK(p == (unsigned char *)l->data + idx * S, "get_at_ptr(%zu) is not the address of element %zu", idx, idx);
                    PBT_CHECK(memcmp(p, x.m[idx].data(), S) == 0, "get_at_ptr(%zu) points at other bytes than the reference", idx);
                }
            } else {
                PBT_CHECK(rc == AWS_OP_ERR && aws_last_error() == AWS_ERROR_INVALID_INDEX, "%s(%zu) with length %zu: rc %d error %d", name, idx, len, rc,
                          aws_last_error());
                ctx.tag("get_beyond_length");
            }
            PBT_CHECK(same_fields(before, x.list), "%s changed the list", name);
            break;
        }
        case SET_AT: {
            name = "set_at";
            bool huge;
            size_t idx = index_of(op.arg(2), op.arg(3), len, &huge);
            std::string e = make_elem(S, (unsigned)(op.arg(1) % 256), next_id++);
            int rc = aws_array_list_set_at(l, e.data(), idx);
            if (huge) {
                PBT_CHECK(rc == AWS_OP_ERR, "set_at(%zu) succeeded although (index+1)*%zu overflows", idx, S);
                PBT_CHECK(same_fields(before, x.list), "refused set_at changed the list");
            } else if (is_static && idx >= x.cap) {
                PBT_CHECK(rc == AWS_OP_ERR, "set_at(%zu) on a static list of capacity %zu succeeded", idx, x.cap);
                PBT_CHECK(aws_last_error() == AWS_ERROR_INVALID_INDEX, "set_at past a static list raised %d, documented INVALID_INDEX", aws_last_error());
                PBT_CHECK(same_fields(before, x.list), "refused set_at changed the list");
                ctx.tag("static_set_at_refused");
            } else {
                PBT_CHECK(rc == AWS_OP_SUCCESS, "set_at(%zu) failed with error %d (length %zu)", idx, aws_last_error(), len);
                if (idx < len) x.m[idx] = e;
                else {
                    PBT_CHECK(aws_array_list_length(l) == idx + 1, "set_at(%zu) on length %zu left length %zu", idx, len, aws_array_list_length(l));
                    // elements len..idx-1 are unspecified: adopt them once, they must be stable from now on
                    for (size_t i = len; i < idx; i++) {
                        std::string gap(S, '\x77');
                        PBT_CHECK(aws_array_list_get_at(l, &gap[0], i) == AWS_OP_SUCCESS, "gap element %zu not readable", i);
                        x.m.push_back(gap);
                    }
                    x.m.push_back(e);
                    if (idx > len) ctx.tag("set_at_gap");
                }
                note_growth(x, cap0, len, name);
            }
            break;
        }
        case ERASE: {
            name = "erase";
            bool huge;
            size_t idx = index_of(op.arg(1), op.arg(2), len, &huge);
            int rc = aws_array_list_erase(l, idx);
            if (idx < len) {
                PBT_CHECK(rc == AWS_OP_SUCCESS, "erase(%zu) failed, length %zu", idx, len);
                x.m.erase(x.m.begin() + (ptrdiff_t)idx);
                if (idx > 0 && idx + 1 < len) {
                    shifted = true;
                    ctx.tag("erase_middle");
                    if (len == cap0) ctx.tag("erase_middle_full");
                }
            } else {
                PBT_CHECK(rc == AWS_OP_ERR && aws_last_error() == AWS_ERROR_INVALID_INDEX, "erase(%zu) with length %zu: rc %d error %d", idx, len, rc,
                          aws_last_error());
                PBT_CHECK(same_fields(before, x.list), "refused erase changed the list");
            }
            break;
        }
        case SWAP: {
            name = "swap";
            if (len == 0) break; // indices must be < length (fatal precondition)
            size_t a = (size_t)(op.arg(1) % len), b = (size_t)(op.arg(2) % len);
            switch (op.arg(3) % 6) {
            case 0: b = a; break;
            case 1: b = (a + 1) % len; break;
            case 2: a = 0; b = len - 1; break;
            default: break;
            }
            aws_array_list_swap(l, a, b);
            std::swap(x.m[a], x.m[b]);
            if (a != b) {
                copied_or_swapped = true;
                ctx.tag("swap_distinct");
            }
            PBT_CHECK(same_fields(before, x.list), "swap changed length/capacity/storage");
            break;
        }
        case SORT: {
            name = "sort";
            aws_array_list_sort(l, cmp_first);
            PBT_CHECK(aws_array_list_length(l) == len, "sort changed the length");
            std::vector<std::string> have;
            std::string out(S, '\x77');
            for (size_t i = 0; i < len; i++) {
                PBT_CHECK(aws_array_list_get_at(l, &out[0], i) == AWS_OP_SUCCESS, "get_at(%zu) after sort", i);
                have.push_back(out);
            }
            for (size_t i = 1; i < len; i++)
                PBT_CHECK(cmp_first(have[i - 1].data(), have[i].data()) <= 0, "after sort: elements %zu and %zu are out of order", i - 1, i);
            std::vector<std::string> s1 = have, s2 = x.m;
            std::sort(s1.begin(), s1.end());
            std::sort(s2.begin(), s2.end());
            PBT_CHECK(s1 == s2, "after sort: the elements are not a permutation of the previous contents");
            if (have != x.m) ctx.tag("sort_reordered");
            x.m = have; // qsort is not stable: adopt the order among equal keys
            break;
        }
        case COPY: {
            name = "copy";
            if (!l->data) { // copying from a list without storage is a fatal precondition
                ctx.tag("copy_skipped_no_storage");
                break;
            }
            const struct aws_array_list ybefore = y.list;
            bool y_static = y.mode != 0;
            size_t ycap_bytes = y.list.current_size;
            int rc = aws_array_list_copy(l, &y.list);
            if (y_static && ycap_bytes < len * S) {
                PBT_CHECK(rc == AWS_OP_ERR && aws_last_error() == AWS_ERROR_DEST_COPY_TOO_SMALL, "copy of %zu items into a static list of %zu: rc %d error %d",
                          len, y.cap, rc, aws_last_error());
                PBT_CHECK(same_fields(ybefore, y.list), "refused copy changed the destination");
                ctx.tag("copy_static_too_small");
            } else {
                PBT_CHECK(rc == AWS_OP_SUCCESS, "copy of %zu items failed with error %d", len, aws_last_error());
                if (ycap_bytes < len * S) ctx.tag("copy_reallocates");
                if (y_static && ycap_bytes == len * S && len) ctx.tag("copy_static_exact_fit");
                y.m = x.m;
                if (len) {
                    copied_or_swapped = true;
                    ctx.tag("copy_nonempty");
                }
            }
            PBT_CHECK(same_fields(before, x.list), "copy changed the source list");
            break;
        }
        case SHRINK: {
            name = "shrink_to_fit";
            int rc = aws_array_list_shrink_to_fit(l);
            if (is_static) {
                PBT_CHECK(rc == AWS_OP_ERR && aws_last_error() == AWS_ERROR_LIST_STATIC_MODE_CANT_SHRINK, "shrink_to_fit on a static list: rc %d error %d", rc,
                          aws_last_error());
                PBT_CHECK(same_fields(before, x.list), "refused shrink_to_fit changed the list");
            } else {
                PBT_CHECK(rc == AWS_OP_SUCCESS, "shrink_to_fit failed with error %d", aws_last_error());
                PBT_CHECK(aws_array_list_capacity(l) == len, "shrink_to_fit left capacity %zu for %zu elements", aws_array_list_capacity(l), len);
                if (len && cap0 > len) ctx.tag("shrink_nonempty");
            }
            break;
        }
        case CLEAR: {
            name = "clear";
            aws_array_list_clear(l);
            x.m.clear();
            PBT_CHECK(aws_array_list_capacity(l) == cap0 && l->data == before.data, "clear changed the capacity (%zu -> %zu) or the storage", cap0,
                      aws_array_list_capacity(l));
            break;
        }
        case SWAP_CONTENTS: {
            name = "swap_contents";
            if (x.mode != 0 || y.mode != 0) break; // only between dynamic lists (same allocator, same item size)
            const struct aws_array_list ybefore = y.list;
            aws_array_list_swap_contents(l, &y.list);
            PBT_CHECK(same_fields(x.list, ybefore) && same_fields(y.list, before), "swap_contents did not exchange the two lists exactly");
            std::swap(x.m, y.m);
            std::swap(x.cap, y.cap);
            if (!x.m.empty() || !y.m.empty()) ctx.tag("swap_contents_nonempty");
            break;
        }
        case ENSURE: {
            name = "ensure_capacity";
            bool huge;
            size_t idx = index_of(op.arg(1), op.arg(2), len, &huge);
            int rc = aws_array_list_ensure_capacity(l, idx);
            if (huge) {
                PBT_CHECK(rc == AWS_OP_ERR, "ensure_capacity(%zu) succeeded although (index+1)*%zu overflows", idx, S);
                PBT_CHECK(same_fields(before, x.list), "refused ensure_capacity changed the list");
            } else if (is_static && idx >= x.cap) {
                PBT_CHECK(rc == AWS_OP_ERR && aws_last_error() == AWS_ERROR_INVALID_INDEX, "ensure_capacity(%zu) on static capacity %zu: rc %d error %d", idx,
                          x.cap, rc, aws_last_error());
                PBT_CHECK(same_fields(before, x.list), "refused ensure_capacity changed the list");
            } else {
                PBT_CHECK(rc == AWS_OP_SUCCESS, "ensure_capacity(%zu) failed with error %d", idx, aws_last_error());
                PBT_CHECK(aws_array_list_capacity(l) > idx, "ensure_capacity(%zu) left capacity %zu", idx, aws_array_list_capacity(l));
                PBT_CHECK(aws_array_list_length(l) == len, "ensure_capacity changed the length");
                note_growth(x, cap0, len, name);
            }
            break;
        }
        case LENCAP: {
            name = "length/capacity";
            PBT_CHECK(aws_array_list_length(l) == len, "length %zu, reference %zu", aws_array_list_length(l), len);
            PBT_CHECK(aws_array_list_capacity(l) >= len, "capacity below length");
            break;
        }
        default: { // REINIT: clean_up (plain or secure), then initialise again
            name = "clean_up+init";
            void *old = x.mode == 0 ? l->data : nullptr;
            if (op.arg(3) % 2) aws_array_list_clean_up_secure(l);
            else aws_array_list_clean_up(l);
            PBT_CHECK(l->alloc == nullptr && l->data == nullptr && l->length == 0 && l->current_size == 0 && l->item_size == 0,
                      "clean_up did not reset the list");
            if (old) {
                size_t bs;
                PBT_CHECK(!block_size(old, &bs), "clean_up did not release the list's storage");
            }
            if (x.mode != 0) { // the caller's storage is the caller's: still intact around the edges
                for (size_t i = 0; i < G; i++) PBT_CHECK(x.arena[i] == 0xEE, "clean_up wrote before the caller's array");
            }
            init(x, op.arg(1), op.arg(2));
            ctx.tag("reinit");
            break;
        }
        }
        validate_both(name);
    }
    for (auto &x : ls) {
        void *old = x.mode == 0 ? x.list.data : nullptr;
        aws_array_list_clean_up(&x.list);
        size_t bs;
        if (old) PBT_CHECK(!block_size(old, &bs), "clean_up did not release the list's storage");
    }
    if (grew && shifted && copied_or_swapped && S >= 128) ctx.nontrivial = true;
    if (S >= 128) ctx.tag("item_ge_128");
    if (S > 128) ctx.tag("item_gt_128");
    if (ls[0].mode != 0 || ls[1].mode != 0) ctx.tag("has_static_list");
    if (akind == 2) ctx.tag("asan_tight_allocator");
}

int main(int argc, char **argv) {
    Spec sp{"C09", "c09_array", gen_case, run,
            "generated command sequences (<=60) over two array lists of one item size in {1,3,8,127,128,129,300} (dynamic with initial "
            "allocation 0-6, static over guarded caller storage of 1-10 items, static over initialised elements); non-trivial = item size "
            ">=128 and >=1 growth of a non-empty dynamic list and >=1 middle erase or partial pop_front_n and >=1 copy of a non-empty list "
            "or swap of two distinct indices; distinct by hash of the serialised case"};
    return pbt_main(argc, argv, sp);
}

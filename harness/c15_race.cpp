// C15 — second engine: one acquirer and one releaser thread FREE-RUNNING under ThreadSanitizer.
//
// c15_ring explores the interleavings of the two threads' atomic operations under sequential consistency.  What it cannot
// see is a head / tail access that is no longer atomic or no longer ordered (a release store turned relaxed or plain): the
// interleavings stay the same, only the ordering guarantee that makes "released" mean "the releaser is done with these
// bytes" is gone.  Here the acquirer fills every buffer it gets and the releaser reads every buffer back before releasing
// it; the only synchronisation from the releaser back to the acquirer is the ring's own tail store / load, so re-using
// bytes the releaser may still be reading is a data race report (or a damaged pattern).
//
// The hand-over from acquirer to releaser is a release/acquire counter over a pre-sized array: it orders acquirer ->
// releaser only, never the other way round.
//
// cfg = {ring size index, releaser lag}    op = {kind (0 exact, 1 up-to), requested, minimum}
#include "pbt.hpp"
#include "galloc.hpp"

#include <aws/common/byte_buf.h>
#include <aws/common/error.h>
#include <aws/common/ring_buffer.h>

#include <atomic>
#include <sched.h>
#include <thread>

using namespace pbt;

static const size_t RINGS[] = {8, 16, 31, 32, 33, 64, 100, 128};

static Case gen_case() {
    Case c;
    c.cfg = {pick(0, 7), pick(0, 3)};
    c.ops = op_list(80, [] {
        uint64_t frac = weighted({5, 3, 1}); // small, medium, near the whole ring
        return mkop(chance(40) ? 1 : 0, {frac, pick(1, 1000), pick(1, 1000)});
    });
    return c;
}

struct Handed {
    uint8_t *p;
    size_t n;
    uint32_t serial;
};
static uint8_t pat(uint32_t serial, size_t i) {
    return (uint8_t)(serial * 37u + i * 11u + 5u);
}

static void run(const Case &c, Ctx &ctx) {
    galloc::reset();
    size_t size = RINGS[c.c(0) % 8];
    int lag = (int)(c.c(1) % 4);
    struct aws_ring_buffer ring;
    PBT_CHECK(aws_ring_buffer_init(&ring, galloc::full(), size) == AWS_OP_SUCCESS);
    const uint8_t *base = ring.allocation;

    std::vector<Handed> handed(c.ops.size());
    std::atomic<size_t> published{0};
    std::atomic<bool> acquirer_done{false}, starving{false};
    std::string acq_err, rel_err;
    size_t acquired = 0, refused = 0, up_to_short = 0;

    std::thread acquirer([&] {
        uint32_t serial = 0;
        for (auto &op : c.ops) {
            size_t limit = op.arg(0) % 3 == 0 ? size / 4 + 1 : op.arg(0) % 3 == 1 ? size / 2 + 1 : size;
            size_t want = 1 + op.arg(1) % limit;
            size_t minimum = 1 + op.arg(2) % want;
            struct aws_byte_buf b;
            AWS_ZERO_STRUCT(b);
            int rc = AWS_OP_ERR;
            for (int tries = 0; tries < 2000 && rc != AWS_OP_SUCCESS; tries++) {
                rc = op.kind % 2 ? aws_ring_buffer_acquire_up_to(&ring, minimum, want, &b) : aws_ring_buffer_acquire(&ring, want, &b);
                if (rc != AWS_OP_SUCCESS) {
                    if (aws_last_error() != AWS_ERROR_OOM) {
                        acq_err = fmt("acquire(%zu) on a ring of %zu failed with error %d, not AWS_ERROR_OOM", want, size, aws_last_error());
                        acquirer_done = true;
                        return;
                    }
                    starving = true; // the releaser has to catch up
                    sched_yield();
                }
            }
            starving = false;
            if (rc != AWS_OP_SUCCESS) {
                refused++;
                continue;
            }
            bool ok_size = op.kind % 2 ? (b.capacity >= minimum && b.capacity <= want) : b.capacity == want;
            if (!ok_size || b.len != 0 || b.buffer < base || b.buffer + b.capacity > base + size) {
                acq_err = fmt("%s(%zu, min %zu) on a ring of %zu returned [%td,+%zu) len %zu", op.kind % 2 ? "acquire_up_to" : "acquire", want, minimum, size,
                              b.buffer - base, b.capacity, b.len);
                acquirer_done = true;
                return;
            }
            if (op.kind % 2 && b.capacity < want) up_to_short++;
            for (size_t i = 0; i < b.capacity; i++) b.buffer[i] = pat(serial, i);
            size_t k = published.load(std::memory_order_relaxed);
            handed[k] = Handed{b.buffer, b.capacity, serial};
            published.store(k + 1, std::memory_order_release);
            serial++;
            acquired++;
        }
        acquirer_done = true;
    });
    std::thread releaser([&] {
        size_t next = 0;
        for (;;) {
            bool done = acquirer_done.load(); // read before `published`: once it is set, no further buffer is published
            size_t have = published.load(std::memory_order_acquire);
            if (next >= have) {
                if (done) break;
                sched_yield();
                continue;
            }
            // stay `lag` buffers behind while the acquirer is working, unless it is waiting for space
            if (!done && !starving.load() && have - next <= (size_t)lag) {
                sched_yield();
                continue;
            }
            Handed h = handed[next++];
            for (size_t i = 0; i < h.n; i++)
                if (h.p[i] != pat(h.serial, i)) {
                    if (rel_err.empty())
                        rel_err = fmt("buffer #%u [%td,+%zu) was overwritten at byte %zu before it was released: a later buffer overlaps it", h.serial,
                                      h.p - base, h.n, i);
                    break;
                }
            struct aws_byte_buf b = aws_byte_buf_from_empty_array(h.p, h.n);
            aws_ring_buffer_release(&ring, &b);
        }
    });
    acquirer.join();
    releaser.join();
    PBT_CHECK(acq_err.empty(), "%s", acq_err.c_str());
    PBT_CHECK(rel_err.empty(), "%s", rel_err.c_str());
    // everything released: the whole ring is available again
    struct aws_byte_buf whole;
    AWS_ZERO_STRUCT(whole);
    PBT_CHECK(aws_ring_buffer_acquire(&ring, size, &whole) == AWS_OP_SUCCESS && whole.capacity == size && whole.buffer == base,
              "everything was released but acquire(%zu) on a ring of %zu failed or is not the whole ring", size, size);
    aws_ring_buffer_release(&ring, &whole);
    aws_ring_buffer_clean_up(&ring);
    PBT_CHECK(galloc::live_blocks() == 0, "clean_up left %zu blocks", galloc::live_blocks());

    if (acquired >= 6) ctx.nontrivial = true;
    if (refused) ctx.tag("request_never_fitted");
    if (up_to_short) ctx.tag("up_to_returned_less");
    ctx.tag("lag_" + std::to_string(lag));
}

int main(int argc, char **argv) {
    Spec sp{"C15", "c15_race", gen_case, run,
            "free-running acquirer and releaser threads under ThreadSanitizer: up to 80 exact / up-to requests (a quarter, a half or all of the ring) on "
            "rings of 8-128 bytes; the acquirer fills every buffer, the releaser (0-3 buffers behind) reads it back and releases in order; the hand-over "
            "orders acquirer -> releaser only. Oracle: no data race report; sizes and bounds as requested; no pattern damaged before release; the whole "
            "ring available at the end. Non-trivial = at least six buffers handed out; distinct by hash of the serialised case"};
    return pbt_main(argc, argv, sp);
}

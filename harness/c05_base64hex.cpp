// C05 — base64 / hex codecs: exact, canonical, length predictions exact, decoders strict, and the
// vectorised (AVX2) and the portable implementation agree on every input.
//
// Two builds of source/encoding.c are linked side by side: the default one (USE_SIMD_ENCODING; takes the
// AVX2 path when the CPU has it) and one compiled without USE_SIMD_ENCODING whose exported symbols carry a
// pt_ prefix (engine/build.py: build_portable_encoding).  Every input goes through both, and through a
// reference codec written here as a bit stream with an arithmetically computed alphabet (no tables).
// See DESIGN.md section 5 / C05.
#include "pbt.hpp"
#include "galloc.hpp"

#include <aws/common/byte_buf.h>
#include <aws/common/encoding.h>
#include <aws/common/error.h>

using namespace pbt;

extern "C" {
int pt_aws_hex_compute_encoded_len(size_t to_encode_len, size_t *encoded_length);
int pt_aws_hex_encode(const struct aws_byte_cursor *to_encode, struct aws_byte_buf *output);
int pt_aws_hex_encode_append_dynamic(const struct aws_byte_cursor *to_encode, struct aws_byte_buf *output);
int pt_aws_hex_compute_decoded_len(size_t to_decode_len, size_t *decoded_len);
int pt_aws_hex_decode(const struct aws_byte_cursor *to_decode, struct aws_byte_buf *output);
int pt_aws_base64_compute_encoded_len(size_t to_encode_len, size_t *encoded_len);
int pt_aws_base64_compute_decoded_len(const struct aws_byte_cursor *to_decode, size_t *decoded_len);
int pt_aws_base64_encode(const struct aws_byte_cursor *to_encode, struct aws_byte_buf *output);
int pt_aws_base64_decode(const struct aws_byte_cursor *to_decode, struct aws_byte_buf *output);
bool aws_common_private_has_avx2(void);
}

typedef int (*codec_fn)(const struct aws_byte_cursor *, struct aws_byte_buf *);
typedef int (*len_fn)(size_t, size_t *);
typedef int (*curlen_fn)(const struct aws_byte_cursor *, size_t *);

struct Impl {
    const char *name;
    len_fn hex_enc_len, hex_dec_len, b64_enc_len;
    curlen_fn b64_dec_len;
    codec_fn hex_enc, hex_enc_dyn, hex_dec, b64_enc, b64_dec;
};
static const Impl IMPLS[2] = {
    {"default(simd)", aws_hex_compute_encoded_len, aws_hex_compute_decoded_len, aws_base64_compute_encoded_len,
     aws_base64_compute_decoded_len, aws_hex_encode, aws_hex_encode_append_dynamic, aws_hex_decode, aws_base64_encode,
     aws_base64_decode},
    {"portable(pt_)", pt_aws_hex_compute_encoded_len, pt_aws_hex_compute_decoded_len, pt_aws_base64_compute_encoded_len,
     pt_aws_base64_compute_decoded_len, pt_aws_hex_encode, pt_aws_hex_encode_append_dynamic, pt_aws_hex_decode,
     pt_aws_base64_encode, pt_aws_base64_decode},
};

// ------------------------------------------------------------------ reference codec (bit stream, no tables)
static char b64ch(unsigned v) {
    if (v < 26) return (char)('A' + v);
    if (v < 52) return (char)('a' + (v - 26));
    if (v < 62) return (char)('0' + (v - 52));
    return v == 62 ? '+' : '/';
}
static int b64val(unsigned char c) {
    if (c >= 'A' && c <= 'Z') return c - 'A';
    if (c >= 'a' && c <= 'z') return c - 'a' + 26;
    if (c >= '0' && c <= '9') return c - '0' + 52;
    if (c == '+') return 62;
    if (c == '/') return 63;
    return -1;
}
static std::string ref_b64_encode(const std::string &raw) {
    std::string o;
    unsigned acc = 0;
    int nb = 0;
    for (unsigned char ch : raw) {
        acc = (acc << 8) | ch;
        nb += 8;
        while (nb >= 6) {
            o.push_back(b64ch((acc >> (nb - 6)) & 63));
            nb -= 6;
        }
        acc &= (1u << nb) - 1;
    }
    if (nb > 0) o.push_back(b64ch((acc << (6 - nb)) & 63));
    while (o.size() % 4) o.push_back('=');
    return o;
}
struct RefB64 {
    bool len_ok = true;   // length is 0 or a multiple of 4 (the length predictor's only requirement)
    size_t predicted = 0; // documented prediction: 3*len/4 minus the number of trailing '=' (at most 2)
    bool accept = false;  // RFC 4648 canonical: alphabet, '=' only as the last one/two characters, zero trailing bits
    std::string out;
};
static RefB64 ref_b64_decode(const std::string &t) {
    RefB64 r;
    size_t n = t.size();
    if (n == 0) {
        r.accept = true;
        return r;
    }
    if (n % 4) {
        r.len_ok = false;
        return r;
    }
    size_t pad = t[n - 1] == '=' ? (t[n - 2] == '=' ? 2 : 1) : 0;
    r.predicted = n / 4 * 3 - pad;
    unsigned acc = 0;
    int nb = 0;
    for (size_t i = 0; i < n - pad; i++) {
        int v = b64val((unsigned char)t[i]);
        if (v < 0) return r;
        acc = (acc << 6) | (unsigned)v;
        nb += 6;
        if (nb >= 8) {
            r.out.push_back((char)((acc >> (nb - 8)) & 0xFF));
            nb -= 8;
        }
        acc &= (1u << nb) - 1;
    }
    if (acc != 0) { // left-over bits of the last character must be zero
        r.out.clear();
        return r;
    }
    r.accept = true;
    return r;
}
static char hexch(unsigned v) { return (char)(v < 10 ? '0' + v : 'a' + (v - 10)); }
static int hexval(unsigned char c) {
    if (c >= '0' && c <= '9') return c - '0';
    if (c >= 'a' && c <= 'f') return c - 'a' + 10;
    if (c >= 'A' && c <= 'F') return c - 'A' + 10;
    return -1;
}
static std::string ref_hex_encode(const std::string &raw) {
    std::string o;
    for (unsigned char ch : raw) {
        o.push_back(hexch(ch / 16));
        o.push_back(hexch(ch % 16));
    }
    return o;
}
struct RefHex {
    bool accept = true;
    std::string out;
};
static RefHex ref_hex_decode(const std::string &t) {
    RefHex r;
    unsigned acc = 0;
    size_t have = t.size() % 2; // an odd-length text is read as if it had a leading '0'
    for (unsigned char c : t) {
        int v = hexval(c);
        if (v < 0) {
            r.accept = false;
            r.out.clear();
            return r;
        }
        acc = acc * 16 + (unsigned)v;
        if (++have == 2) {
            r.out.push_back((char)acc);
            acc = 0;
            have = 0;
        }
    }
    return r;
}

// ------------------------------------------------------------------ calling the library
static const size_t G = 64;          // guard bytes on both sides of the output capacity
static const uint8_t GUARD = 0xC7;
static const uint8_t FILLS[2] = {0x5A, 0xA5};
static uint8_t pre_byte(size_t i) { return (uint8_t)(0x31 + i * 5); }

// input in an exact-size heap block: an over-read of the input is an ASan report
struct In {
    uint8_t *p;
    size_t n;
    const std::string &orig;
    explicit In(const std::string &s) : n(s.size()), orig(s) {
        p = (uint8_t *)malloc(n ? n : 1);
        if (n) memcpy(p, s.data(), n);
    }
    ~In() { free(p); }
    In(const In &) = delete;
    bool intact() const { return n == 0 || memcmp(p, orig.data(), n) == 0; }
};

struct Res {
    int rc = 0, err = 0;
    size_t len = 0;
    std::string area; // the whole capacity after the call
};

static Res call(const char *what, const Impl &im, codec_fn f, const In &in, size_t cap, size_t prior, uint8_t fill) {
    std::vector<uint8_t> arena(G + cap + G, GUARD);
    memset(arena.data() + G, fill, cap);
    for (size_t i = 0; i < prior; i++) arena[G + i] = pre_byte(i);
    struct aws_byte_buf out = aws_byte_buf_from_empty_array(arena.data() + G, cap);
    out.len = prior;
    const uint8_t *expect_buffer = out.buffer;
    struct aws_byte_cursor cur = aws_byte_cursor_from_array(in.p, in.n);
    aws_reset_error();
    Res r;
    r.rc = f(&cur, &out);
    r.err = r.rc ? aws_last_error() : 0;
    r.len = out.len;
    PBT_CHECK(r.rc == AWS_OP_SUCCESS || r.rc == AWS_OP_ERR, "%s %s: return value %d", im.name, what, r.rc);
    for (size_t i = 0; i < G; i++)
        PBT_CHECK(arena[i] == GUARD && arena[G + cap + i] == GUARD, "%s %s: wrote outside the output capacity (%s guard, offset %zu)",
                  im.name, what, arena[i] != GUARD ? "front" : "rear", i);
    PBT_CHECK(out.buffer == expect_buffer && out.capacity == cap && out.allocator == nullptr,
              "%s %s: changed buffer/capacity/allocator of a fixed-capacity output", im.name, what);
    PBT_CHECK(cur.ptr == in.p && cur.len == in.n && in.intact(), "%s %s: modified its input", im.name, what);
    PBT_CHECK(r.len <= cap, "%s %s: reports len %zu > capacity %zu", im.name, what, r.len, cap);
    r.area.assign((const char *)arena.data() + G, cap);
    return r;
}

enum { CAP_EXACT, CAP_MINUS1, CAP_ZERO, CAP_PLUS1, CAP_PLUS40, NCAP };
static const char *CAP_NAMES[NCAP] = {"exact", "exact-1", "zero", "exact+1", "exact+40"};
static const char *SWEEP_NAMES[4] = {"b64enc", "b64dec", "hexdec", "hexenc"};
static size_t cap_for(uint64_t mode, size_t exact, size_t floor_) {
    size_t c;
    switch (mode % NCAP) {
    case CAP_EXACT: c = exact; break;
    case CAP_MINUS1: c = exact ? exact - 1 : 0; break;
    case CAP_ZERO: c = 0; break;
    case CAP_PLUS1: c = exact + 1; break;
    default: c = exact + 40; break;
    }
    return c < floor_ ? floor_ : c;
}

// the two runs (different pre-fill) of one implementation must agree, and every reported byte must have been written
static void fill_independence(const char *what, const Impl &im, const Res &a, const Res &b, size_t from) {
    PBT_CHECK(a.rc == b.rc && a.err == b.err && a.len == b.len,
              "%s %s: outcome depends on the previous content of the output buffer (rc %d/%d err %d/%d len %zu/%zu)", im.name,
              what, a.rc, b.rc, a.err, b.err, a.len, b.len);
    if (a.rc != AWS_OP_SUCCESS) return;
    for (size_t k = from; k < a.len; k++) {
        PBT_CHECK(!((uint8_t)a.area[k] == FILLS[0] && (uint8_t)b.area[k] == FILLS[1]),
                  "%s %s: reports %zu output bytes but byte %zu was never written", im.name, what, a.len, k);
        PBT_CHECK(a.area[k] == b.area[k], "%s %s: output byte %zu depends on the previous content of the buffer", im.name, what, k);
    }
}
static void untouched(const char *what, const Impl &im, const Res &r, size_t prior, uint8_t fill) {
    PBT_CHECK(r.len == prior, "%s %s: failed with SHORT_BUFFER but changed len %zu -> %zu", im.name, what, prior, r.len);
    for (size_t k = 0; k < r.area.size(); k++)
        PBT_CHECK((uint8_t)r.area[k] == (k < prior ? pre_byte(k) : fill), "%s %s: failed with SHORT_BUFFER but wrote output byte %zu",
                  im.name, what, k);
}
static void same_on_both_paths(const char *what, const Res &s, const Res &p) {
    PBT_CHECK(s.rc == p.rc, "%s: default build returns %d, portable build returns %d", what, s.rc, p.rc);
    PBT_CHECK(s.err == p.err, "%s: default build raises error %d, portable build %d", what, s.err, p.err);
    PBT_CHECK(s.len == p.len, "%s: default build reports len %zu, portable build %zu", what, s.len, p.len);
    if (s.rc == AWS_OP_SUCCESS)
        PBT_CHECK(s.area.compare(0, s.len, p.area, 0, p.len) == 0, "%s: the two builds produced different bytes", what);
}

static std::string show(const std::string &s) {
    std::string o;
    for (unsigned char c : s.substr(0, 80)) o += (c >= 0x20 && c < 0x7f) ? std::string(1, (char)c) : fmt("\\x%02x", c);
    if (s.size() > 80) o += "...";
    return o;
}

// ------------------------------------------------------------------ the four checks
static void check_b64_decode(const std::string &text, uint64_t capmode, const std::string *must_be = nullptr) {
    RefB64 ref = ref_b64_decode(text);
    size_t n = text.size();
    size_t exact = ref.len_ok ? ref.predicted : (n / 4 + 1) * 3;
    size_t cap = cap_for(capmode, exact, 0);
    bool is_short = ref.len_ok && cap < ref.predicted;
    if (must_be) PBT_CHECK(ref.accept && ref.out == *must_be, "harness: reference decoder does not invert the reference encoder");
    In in(text);
    Res first[2], pred[2];
    for (int i = 0; i < 2; i++) {
        const Impl &im = IMPLS[i];
        struct aws_byte_cursor cur = aws_byte_cursor_from_array(in.p, in.n);
        size_t dl = 0xDEADBEEF;
        aws_reset_error();
        int lrc = im.b64_dec_len(&cur, &dl);
        int lerr = lrc ? aws_last_error() : 0;
        if (!ref.len_ok) {
            PBT_CHECK(lrc == AWS_OP_ERR && lerr == AWS_ERROR_INVALID_BASE64_STR,
                      "%s base64_compute_decoded_len(len %zu, not a multiple of 4): rc %d err %d", im.name, n, lrc, lerr);
        } else if (ref.accept) {
            PBT_CHECK(lrc == AWS_OP_SUCCESS && dl == ref.predicted, "%s base64_compute_decoded_len(\"%s\"): rc %d value %zu, expected %zu",
                      im.name, show(text).c_str(), lrc, dl, ref.predicted);
        } else { // malformed text: nothing will be produced, so any prediction (or a refusal) is acceptable - but the same on both builds
            PBT_CHECK(lrc == AWS_OP_SUCCESS || lerr == AWS_ERROR_INVALID_BASE64_STR, "%s base64_compute_decoded_len(\"%s\"): rc %d err %d", im.name,
                      show(text).c_str(), lrc, lerr);
        }
        pred[i].rc = lrc;
        pred[i].err = lerr;
        pred[i].len = lrc ? 0 : dl;
        Res r[2];
        for (int f = 0; f < 2; f++) r[f] = call("base64_decode", im, im.b64_dec, in, cap, 0, FILLS[f]);
        fill_independence("base64_decode", im, r[0], r[1], 0);
        first[i] = r[0];
        const Res &a = r[0];
        if (!ref.len_ok) {
            PBT_CHECK(a.rc == AWS_OP_ERR && a.err == AWS_ERROR_INVALID_BASE64_STR, "%s base64_decode accepted a text of length %zu: rc %d err %d",
                      im.name, n, a.rc, a.err);
        } else if (is_short) {
            PBT_CHECK(a.rc == AWS_OP_ERR, "%s base64_decode(\"%s\") succeeded with capacity %zu < %zu", im.name, show(text).c_str(), cap,
                      ref.predicted);
            PBT_CHECK(a.err == AWS_ERROR_SHORT_BUFFER || (!ref.accept && a.err == AWS_ERROR_INVALID_BASE64_STR),
                      "%s base64_decode with capacity %zu < %zu raised %d", im.name, cap, ref.predicted, a.err);
            if (a.err == AWS_ERROR_SHORT_BUFFER)
                for (int f = 0; f < 2; f++) untouched("base64_decode", im, r[f], 0, FILLS[f]);
        } else if (ref.accept) {
            PBT_CHECK(a.rc == AWS_OP_SUCCESS, "%s base64_decode rejected the canonical text \"%s\" (err %d)", im.name, show(text).c_str(), a.err);
            PBT_CHECK(a.len == ref.out.size(), "%s base64_decode(\"%s\"): len %zu, expected %zu", im.name, show(text).c_str(), a.len,
                      ref.out.size());
            PBT_CHECK(a.len == dl, "%s base64_compute_decoded_len predicted %zu, decode produced %zu", im.name, dl, a.len);
            PBT_CHECK(a.area.compare(0, a.len, ref.out) == 0, "%s base64_decode(\"%s\"): wrong bytes", im.name, show(text).c_str());
        } else {
            PBT_CHECK(a.rc == AWS_OP_ERR, "%s base64_decode accepted \"%s\", which is not well-formed base64 (reported len %zu)", im.name,
                      show(text).c_str(), a.len);
            bool own_prediction_short = lrc == AWS_OP_SUCCESS && dl > cap;
            PBT_CHECK(a.err == AWS_ERROR_INVALID_BASE64_STR || (own_prediction_short && a.err == AWS_ERROR_SHORT_BUFFER),
                      "%s base64_decode(\"%s\") raised %d, expected INVALID_BASE64_STR", im.name, show(text).c_str(), a.err);
        }
    }
    same_on_both_paths(("base64_compute_decoded_len(\"" + show(text) + "\")").c_str(), pred[0], pred[1]);
    same_on_both_paths(("base64_decode(\"" + show(text) + "\")").c_str(), first[0], first[1]);
}

static void check_b64_encode(const std::string &raw, uint64_t capmode, size_t prior) {
    size_t n = raw.size();
    std::string text = ref_b64_encode(raw);
    size_t E = 4 * ((n + 2) / 3);
    PBT_CHECK(text.size() == E, "harness: reference encoder length");
    size_t cap = cap_for(capmode, prior + E, prior);
    bool is_short = cap < prior + E;
    In in(raw);
    Res first[2];
    for (int i = 0; i < 2; i++) {
        const Impl &im = IMPLS[i];
        size_t el = 0xDEADBEEF;
        PBT_CHECK(im.b64_enc_len(n, &el) == AWS_OP_SUCCESS && el == E, "%s base64_compute_encoded_len(%zu) = %zu, expected %zu", im.name, n,
                  el, E);
        Res r[2];
        for (int f = 0; f < 2; f++) r[f] = call("base64_encode", im, im.b64_enc, in, cap, prior, FILLS[f]);
        fill_independence("base64_encode", im, r[0], r[1], prior);
        first[i] = r[0];
        for (int f = 0; f < 2; f++) {
            const Res &a = r[f];
            if (is_short) {
                PBT_CHECK(a.rc == AWS_OP_ERR && a.err == AWS_ERROR_SHORT_BUFFER,
                          "%s base64_encode(%zu bytes) into capacity %zu with len %zu: rc %d err %d, expected SHORT_BUFFER", im.name, n, cap,
                          prior, a.rc, a.err);
                untouched("base64_encode", im, a, prior, FILLS[f]);
            } else {
                PBT_CHECK(a.rc == AWS_OP_SUCCESS, "%s base64_encode(%zu bytes) failed with %d although capacity %zu >= %zu+%zu", im.name, n,
                          a.err, cap, prior, E);
                PBT_CHECK(a.len == prior + E, "%s base64_encode(%zu bytes): len %zu, expected %zu+%zu (predicted %zu)", im.name, n, a.len,
                          prior, E, el);
                for (size_t k = 0; k < prior; k++)
                    PBT_CHECK((uint8_t)a.area[k] == pre_byte(k), "%s base64_encode overwrote existing content at %zu", im.name, k);
                PBT_CHECK(a.area.compare(prior, E, text) == 0, "%s base64_encode(%s): got \"%s\", canonical is \"%s\"", im.name,
                          hex(raw.substr(0, 40)).c_str(), show(a.area.substr(prior, E)).c_str(), show(text).c_str());
            }
        }
    }
    same_on_both_paths("base64_encode", first[0], first[1]);
    check_b64_decode(text, CAP_EXACT, &raw); // round trip through both decoders
}

static void check_hex_decode(const std::string &text, uint64_t capmode, const std::string *must_be = nullptr) {
    RefHex ref = ref_hex_decode(text);
    size_t n = text.size();
    size_t D = n / 2 + n % 2;
    size_t cap = cap_for(capmode, D, 0);
    bool is_short = cap < D;
    if (must_be) PBT_CHECK(ref.accept && ref.out == *must_be, "harness: reference hex decoder does not invert the reference encoder");
    if (ref.accept) PBT_CHECK(ref.out.size() == D, "harness: reference hex decoder length");
    In in(text);
    Res first[2];
    for (int i = 0; i < 2; i++) {
        const Impl &im = IMPLS[i];
        size_t dl = 0xDEADBEEF;
        PBT_CHECK(im.hex_dec_len(n, &dl) == AWS_OP_SUCCESS && dl == D, "%s hex_compute_decoded_len(%zu) = %zu, expected %zu", im.name, n, dl, D);
        Res r[2];
        for (int f = 0; f < 2; f++) r[f] = call("hex_decode", im, im.hex_dec, in, cap, 0, FILLS[f]);
        fill_independence("hex_decode", im, r[0], r[1], 0);
        first[i] = r[0];
        const Res &a = r[0];
        if (is_short) {
            PBT_CHECK(a.rc == AWS_OP_ERR, "%s hex_decode(\"%s\") succeeded with capacity %zu < %zu", im.name, show(text).c_str(), cap, D);
            PBT_CHECK(a.err == AWS_ERROR_SHORT_BUFFER || (!ref.accept && a.err == AWS_ERROR_INVALID_HEX_STR),
                      "%s hex_decode with capacity %zu < %zu raised %d", im.name, cap, D, a.err);
            if (a.err == AWS_ERROR_SHORT_BUFFER)
                for (int f = 0; f < 2; f++) untouched("hex_decode", im, r[f], 0, FILLS[f]);
        } else if (ref.accept) {
            PBT_CHECK(a.rc == AWS_OP_SUCCESS, "%s hex_decode rejected \"%s\" (err %d)", im.name, show(text).c_str(), a.err);
            PBT_CHECK(a.len == D && a.len == dl, "%s hex_decode(\"%s\"): len %zu, expected %zu (predicted %zu)", im.name, show(text).c_str(),
                      a.len, D, dl);
            PBT_CHECK(a.area.compare(0, a.len, ref.out) == 0, "%s hex_decode(\"%s\"): wrong bytes", im.name, show(text).c_str());
        } else {
            PBT_CHECK(a.rc == AWS_OP_ERR, "%s hex_decode accepted \"%s\", which contains a non-hex character", im.name, show(text).c_str());
            PBT_CHECK(a.err == AWS_ERROR_INVALID_HEX_STR, "%s hex_decode(\"%s\") raised %d, expected INVALID_HEX_STR", im.name,
                      show(text).c_str(), a.err);
        }
    }
    same_on_both_paths(("hex_decode(\"" + show(text) + "\")").c_str(), first[0], first[1]);
}

static void check_hex_encode(const std::string &raw, uint64_t capmode) {
    size_t n = raw.size();
    std::string text = ref_hex_encode(raw);
    size_t E = 2 * n;
    size_t cap = cap_for(capmode, E, 0);
    bool is_short = cap < E;
    In in(raw);
    Res first[2];
    for (int i = 0; i < 2; i++) {
        const Impl &im = IMPLS[i];
        size_t el = 0xDEADBEEF;
        PBT_CHECK(im.hex_enc_len(n, &el) == AWS_OP_SUCCESS && el == E, "%s hex_compute_encoded_len(%zu) = %zu, expected %zu", im.name, n, el, E);
        Res r[2];
        for (int f = 0; f < 2; f++) r[f] = call("hex_encode", im, im.hex_enc, in, cap, 0, FILLS[f]); // "assumes the buffer is empty"
        fill_independence("hex_encode", im, r[0], r[1], 0);
        first[i] = r[0];
        for (int f = 0; f < 2; f++) {
            const Res &a = r[f];
            if (is_short) {
                PBT_CHECK(a.rc == AWS_OP_ERR && a.err == AWS_ERROR_SHORT_BUFFER, "%s hex_encode(%zu bytes) into capacity %zu: rc %d err %d", im.name,
                          n, cap, a.rc, a.err);
                untouched("hex_encode", im, a, 0, FILLS[f]);
            } else {
                PBT_CHECK(a.rc == AWS_OP_SUCCESS, "%s hex_encode(%zu bytes) failed with %d although capacity %zu >= %zu", im.name, n, a.err, cap, E);
                PBT_CHECK(a.len == E, "%s hex_encode(%zu bytes): len %zu, expected %zu", im.name, n, a.len, E);
                PBT_CHECK(a.area.compare(0, E, text) == 0, "%s hex_encode(%s): got \"%s\", canonical is \"%s\"", im.name,
                          hex(raw.substr(0, 40)).c_str(), show(a.area.substr(0, E)).c_str(), show(text).c_str());
            }
        }
    }
    same_on_both_paths("hex_encode", first[0], first[1]);
    check_hex_decode(text, CAP_EXACT, &raw);
}

// aws_hex_encode_append_dynamic: appends after the existing content and grows the buffer
static void check_hex_append_dynamic(const std::string &raw, uint64_t capmode, size_t prior) {
    size_t n = raw.size();
    std::string text = ref_hex_encode(raw);
    size_t cap0 = cap_for(capmode, prior + 2 * n, prior);
    In in(raw);
    for (int i = 0; i < 2; i++) {
        const Impl &im = IMPLS[i];
        struct aws_byte_buf out;
        PBT_CHECK(aws_byte_buf_init(&out, galloc::full(), cap0) == AWS_OP_SUCCESS);
        for (size_t k = 0; k < prior; k++) out.buffer[k] = pre_byte(k);
        out.len = prior;
        struct aws_byte_cursor cur = aws_byte_cursor_from_array(in.p, in.n);
        aws_reset_error();
        int rc = im.hex_enc_dyn(&cur, &out);
        PBT_CHECK(rc == AWS_OP_SUCCESS, "%s hex_encode_append_dynamic(%zu bytes, len %zu, capacity %zu) failed with %d", im.name, n, prior, cap0,
                  aws_last_error());
        const char *m = nullptr;
        PBT_CHECK(galloc::check_all(&m), "%s hex_encode_append_dynamic: %s", im.name, m ? m : "");
        PBT_CHECK(out.len == prior + 2 * n, "%s hex_encode_append_dynamic(%zu bytes): len %zu, expected %zu+%zu", im.name, n, out.len, prior, 2 * n);
        PBT_CHECK(out.capacity >= out.len && (out.len == 0 || out.buffer != nullptr), "%s hex_encode_append_dynamic: capacity %zu < len %zu",
                  im.name, out.capacity, out.len);
        for (size_t k = 0; k < prior; k++)
            PBT_CHECK(out.buffer[k] == pre_byte(k), "%s hex_encode_append_dynamic lost existing content at %zu", im.name, k);
        PBT_CHECK(2 * n == 0 || memcmp(out.buffer + prior, text.data(), 2 * n) == 0, "%s hex_encode_append_dynamic(%s): got \"%s\", canonical is \"%s\"",
                  im.name, hex(raw.substr(0, 40)).c_str(), show(std::string((char *)out.buffer + prior, 2 * n)).c_str(), show(text).c_str());
        PBT_CHECK(in.intact(), "%s hex_encode_append_dynamic modified its input", im.name);
        aws_byte_buf_clean_up(&out);
        PBT_CHECK(galloc::live_blocks() == 0, "harness: buffer storage not released");
    }
}

// length predictors and the checked arithmetic in front of the encoders for lengths no real buffer can have.
// Only calls that must fail before touching the input are made (a one-byte dummy stands behind the cursor).
static void check_lengths(uint64_t n64, Ctx &ctx) {
    size_t n = (size_t)n64;
    unsigned __int128 b64 = (unsigned __int128)4 * (((unsigned __int128)n + 2) / 3);
    unsigned __int128 hx = (unsigned __int128)2 * n;
    const unsigned __int128 MAXS = (unsigned __int128)SIZE_MAX;
    uint8_t dummy = 'A';
    for (int i = 0; i < 2; i++) {
        const Impl &im = IMPLS[i];
        size_t v = 0xDEADBEEF;
        aws_reset_error();
        int rc = im.b64_enc_len(n, &v);
        if (b64 > MAXS)
            PBT_CHECK(rc == AWS_OP_ERR && aws_last_error() == AWS_ERROR_OVERFLOW_DETECTED, "%s base64_compute_encoded_len(%zu): rc %d value %zu, the true length does not fit size_t",
                      im.name, n, rc, v);
        else
            PBT_CHECK(rc == AWS_OP_SUCCESS && v == (size_t)b64, "%s base64_compute_encoded_len(%zu): rc %d value %zu, expected %zu", im.name, n, rc,
                      v, (size_t)b64);
        v = 0xDEADBEEF;
        aws_reset_error();
        rc = im.hex_enc_len(n, &v);
        if (hx > MAXS)
            PBT_CHECK(rc == AWS_OP_ERR && aws_last_error() == AWS_ERROR_OVERFLOW_DETECTED, "%s hex_compute_encoded_len(%zu): rc %d value %zu, the true length does not fit size_t",
                      im.name, n, rc, v);
        else
            PBT_CHECK(rc == AWS_OP_SUCCESS && v == (size_t)hx, "%s hex_compute_encoded_len(%zu): rc %d value %zu, expected %zu", im.name, n, rc, v,
                      (size_t)hx);
        v = 0xDEADBEEF;
        aws_reset_error();
        rc = im.hex_dec_len(n, &v);
        if (n != SIZE_MAX) // at SIZE_MAX the true value 2^63 fits, the function reports overflow: either is a correct refusal/answer
            PBT_CHECK(rc == AWS_OP_SUCCESS && v == n / 2 + n % 2, "%s hex_compute_decoded_len(%zu): rc %d value %zu", im.name, n, rc, v);
        else
            PBT_CHECK((rc == AWS_OP_SUCCESS && v == n / 2 + n % 2) || (rc == AWS_OP_ERR && aws_last_error() == AWS_ERROR_OVERFLOW_DETECTED),
                      "%s hex_compute_decoded_len(SIZE_MAX): rc %d value %zu", im.name, rc, v);

        if (n < ((size_t)1 << 32)) continue;
        // encoders/decoder with a phantom input of n bytes and a 16-byte output: must refuse before reading anything
        ctx.tag("huge_size_ops");
        struct Ph {
            const char *what;
            codec_fn f;
            bool overflow;
        } ph[] = {{"base64_encode", im.b64_enc, b64 > MAXS}, {"hex_encode", im.hex_enc, hx > MAXS}, {"hex_decode", im.hex_dec, n == SIZE_MAX}};
        for (auto &x : ph) {
            uint8_t area[16 + 2 * 8];
            memset(area, GUARD, sizeof area);
            struct aws_byte_buf out = aws_byte_buf_from_empty_array(area + 8, 16);
            struct aws_byte_cursor cur;
            cur.ptr = &dummy;
            cur.len = n;
            aws_reset_error();
            rc = x.f(&cur, &out);
            int err = aws_last_error();
            PBT_CHECK(rc == AWS_OP_ERR, "%s %s(input len %zu, capacity 16) succeeded", im.name, x.what, n);
            PBT_CHECK(err == (x.overflow ? AWS_ERROR_OVERFLOW_DETECTED : AWS_ERROR_SHORT_BUFFER), "%s %s(input len %zu, capacity 16) raised %d",
                      im.name, x.what, n, err);
            PBT_CHECK(out.len == 0, "%s %s(input len %zu) failed but set len %zu", im.name, x.what, n, out.len);
            for (size_t k = 0; k < sizeof area; k++) PBT_CHECK(area[k] == GUARD, "%s %s(input len %zu) failed but wrote output", im.name, x.what, n);
        }
        // append_dynamic must refuse 2n > SIZE_MAX (and len + 2n > SIZE_MAX) before trying to allocate
        size_t prior = 7;
        if (hx > MAXS || hx + prior > MAXS) {
            struct aws_byte_buf out;
            PBT_CHECK(aws_byte_buf_init(&out, galloc::full(), 8) == AWS_OP_SUCCESS);
            out.len = prior;
            struct aws_byte_cursor cur;
            cur.ptr = &dummy;
            cur.len = n;
            aws_reset_error();
            rc = im.hex_enc_dyn(&cur, &out);
            PBT_CHECK(rc == AWS_OP_ERR && aws_last_error() == AWS_ERROR_OVERFLOW_DETECTED, "%s hex_encode_append_dynamic(input len %zu): rc %d err %d",
                      im.name, n, rc, aws_last_error());
            PBT_CHECK(out.len == prior && out.capacity == 8, "%s hex_encode_append_dynamic(input len %zu) failed but changed the buffer", im.name, n);
            aws_byte_buf_clean_up(&out);
        }
    }
}

// ------------------------------------------------------------------ deterministic sweeps over the final quantum
static std::string pattern_bytes(size_t n, uint64_t seed) {
    std::string s(n, '\0');
    uint64_t x = seed * 6364136223846793005ull + 1442695040888963407ull;
    for (size_t i = 0; i < n; i++) {
        x = x * 6364136223846793005ull + 1442695040888963407ull;
        s[i] = (char)(x >> 56);
    }
    return s;
}
// which: 0 = base64 encode (+ round trip), 1 = base64 decode, 2 = hex decode, 3 = hex encode (+ round trip).
// `back` = distance of the varied position from the end (0 = last byte/char).
static void sweep_row(unsigned which, size_t len, size_t back, uint64_t seed) {
    std::string raw = pattern_bytes(len, seed);
    switch (which % 4) {
    case 0:
    case 3: {
        if (len == 0) {
            which % 4 == 0 ? check_b64_encode(raw, CAP_EXACT, 0) : check_hex_encode(raw, CAP_EXACT);
            return;
        }
        size_t p = len - 1 - back % std::min<size_t>(len, 3);
        for (unsigned v = 0; v < 256; v++) {
            raw[p] = (char)v;
            which % 4 == 0 ? check_b64_encode(raw, CAP_EXACT, 0) : check_hex_encode(raw, CAP_EXACT);
        }
        return;
    }
    case 1: {
        std::string t = ref_b64_encode(raw);
        if (t.empty()) return;
        size_t p = t.size() - 1 - back % 4;
        for (unsigned v = 0; v < 256; v++) {
            t[p] = (char)v;
            check_b64_decode(t, CAP_EXACT);
        }
        return;
    }
    default: {
        std::string t = ref_hex_encode(raw);
        if (seed & 1 && !t.empty()) t.erase(0, 1); // odd length: leading nibble
        if (t.empty()) return;
        size_t p = (back % 4 == 3) ? 0 : t.size() - 1 - back % std::min<size_t>(t.size(), 3);
        for (unsigned v = 0; v < 256; v++) {
            t[p] = (char)v;
            check_hex_decode(t, CAP_EXACT);
        }
        return;
    }
    }
}
static void full_sweep(Ctx &ctx) {
    // every length 0..100 (all residues mod 3, 4, 24, 32 and both AVX2 loop boundaries), every position of the final
    // quantum, every byte value
    for (size_t len = 0; len <= 100; len++) {
        for (size_t back = 0; back < 3 && back < std::max<size_t>(len, 1); back++) sweep_row(0, len, back, len);
        for (size_t back = 0; back < 4; back++) sweep_row(1, len, back, len + 1000);
    }
    for (size_t len = 0; len <= 40; len++) {
        for (size_t back = 0; back < 3 && back < std::max<size_t>(len, 1); back++) sweep_row(3, len, back, len);
        for (size_t back = 0; back < 4; back++) {
            sweep_row(2, len, back, 2 * len);
            sweep_row(2, len, back, 2 * len + 1);
        }
    }
    ctx.tag("full_sweep");
    ctx.nontrivial = true;
}

// ------------------------------------------------------------------ generator
enum { B64_ENC, B64_DEC, HEX_ENC, HEX_DEC, HEX_DYN, LENGTHS, SWEEP, NKINDS };
enum { M_NONE, M_REPLACE, M_PAD_MOVED, M_PAD_ADDED, M_PAD_REMOVED, M_LENGTH, M_TRAILING_BITS, M_CONCAT, M_RANDOM, M_CASE, NMUT };
static const char *MUT_NAMES[NMUT] = {"canonical", "one_char_replaced", "padding_moved", "padding_added", "padding_removed",
                                      "length_changed", "nonzero_trailing_bits", "concatenated", "random_text", "hex_upper_case"};

static size_t gen_len() {
    switch (weighted({24, 18, 18, 14, 16, 10})) {
    case 0: return pick(0, 12);
    case 1: return pick(19, 28);
    case 2: return pick(29, 36);
    case 3: return one_of({45, 46, 47, 48, 49, 50, 55, 56, 57, 63, 64, 65, 71, 72, 73, 95, 96, 97, 98});
    case 4: return pick(0, 200);
    default: return pick(200, 700);
    }
}
static std::string gen_raw(size_t n) {
    if (n <= 48) return bytes(n, n);
    // long inputs: pseudo-random body, generated tail (the final quantum and the last SIMD stride are what matter)
    std::string s = pattern_bytes(n, any_u64());
    std::string tail = bytes(8, 8);
    s.replace(n - 8, 8, tail);
    if (chance(20)) s.replace(0, 4, bytes(4, 4, 0xFC, 0xFF)); // '/' '+' heavy start
    return s;
}
static unsigned char gen_odd_char() {
    switch (weighted({35, 15, 25, 25})) {
    case 0: return (unsigned char)pick(0, 255);
    case 1: return '=';
    case 2: return (unsigned char)b64ch((unsigned)pick(0, 63));
    default:
        return (unsigned char)one_of({'A' - 1, 'Z' + 1, 'a' - 1, 'z' + 1, '0' - 1, '9' + 1, '+' - 1, '+' + 1, '.', '-', '_', 0, 0x80, 0xFF,
                                      '=' | 0x80, 'A' | 0x80, ' ', '\n', '\r', '<', '>', 'g', 'G', 'f' + 1, 'F' + 1});
    }
}
static uint64_t gen_capmode() { return weighted({50, 14, 8, 14, 14}); }

static Op gen_b64_dec() {
    size_t n = gen_len();
    unsigned mut = (unsigned)weighted({20, 30, 9, 8, 6, 8, 11, 4, 4});
    if (mut == M_TRAILING_BITS && n % 3 == 0) n += pick(1, 2);
    if ((mut == M_PAD_REMOVED) && n % 3 == 0) n += pick(1, 2);
    std::string t = ref_b64_encode(gen_raw(n));
    uint64_t fin = 0;
    size_t L = t.size();
    switch (mut) {
    case M_REPLACE:
        if (L) {
            size_t p = chance(60) ? L - 1 - pick(0, 3) : pick(0, L - 1);
            t[p] = (char)gen_odd_char();
            fin = p + 4 >= L;
        }
        break;
    case M_PAD_MOVED:
        if (L) {
            fin = 1;
            size_t pads = (t[L - 1] == '=') + (L >= 2 && t[L - 2] == '=');
            switch (pick(0, 3)) {
            case 0: // '=' before a non-'=' inside the final quantum ("AA=A", "A=AA", "=AAA", "AA=A" from "AA==")
                if (pads == 0) t[L - 2 - pick(0, 2)] = '=';
                else std::swap(t[L - pads - 1 - pick(0, 3 - pads)], t[L - 1]);
                break;
            case 1: // padding in the last position of an earlier quantum
                if (L >= 8) {
                    t[4 * pick(0, L / 4 - 2) + 3] = '=';
                    fin = 0;
                } else
                    t[0] = '=';
                break;
            case 2: std::rotate(t.begin() + (L - 4), t.begin() + (L - 1), t.end()); break; // last char to the front of the quantum
            default: std::reverse(t.begin() + (L - 4), t.end()); break;
            }
        }
        break;
    case M_PAD_ADDED:
        fin = 1;
        switch (pick(0, 4)) {
        case 0: t += "="; break;
        case 1: t += "=="; break;
        case 2: t += "===="; break;
        case 3:
            if (L) t.replace(L - 3, 3, "===");
            break;
        default:
            if (L) t.replace(L - 4, 4, "====");
            else t = "====";
            break;
        }
        break;
    case M_PAD_REMOVED:
        fin = 1;
        if (L && t[L - 1] == '=') t.pop_back();
        if (!t.empty() && t.back() == '=' && chance(50)) t.pop_back();
        break;
    case M_LENGTH:
        switch (pick(0, 2)) {
        case 0:
            for (uint64_t k = pick(1, 3); k && !t.empty(); k--) t.pop_back();
            break;
        case 1:
            for (uint64_t k = pick(1, 3); k; k--) t.push_back(b64ch((unsigned)pick(0, 63)));
            break;
        default:
            if (L) t.erase(0, 1);
            break;
        }
        break;
    case M_TRAILING_BITS: {
        fin = 1;
        if (t[L - 2] == '=') { // "xy==": the low 4 bits of y are not output
            unsigned v = (unsigned)b64val((unsigned char)t[L - 3]);
            t[L - 3] = b64ch((v & 0x30) | (unsigned)pick(1, 15));
        } else { // "xyz=": the low 2 bits of z are not output
            unsigned v = (unsigned)b64val((unsigned char)t[L - 2]);
            t[L - 2] = b64ch((v & 0x3C) | (unsigned)pick(1, 3));
        }
        break;
    }
    case M_CONCAT: {
        size_t n1 = gen_len() % 40;
        if (n1 % 3 == 0) n1++;
        t = ref_b64_encode(gen_raw(n1)) + t;
        break;
    }
    case M_RANDOM: {
        size_t q = pick(0, 12) * 4;
        t.clear();
        for (size_t i = 0; i < q; i++) t.push_back(chance(8) ? '=' : b64ch((unsigned)pick(0, 63)));
        fin = 1;
        break;
    }
    default: break;
    }
    return mkop(B64_DEC, {gen_capmode(), mut, fin}, t);
}

static Op gen_hex_dec() {
    size_t n = gen_len() % 80;
    std::string t = ref_hex_encode(gen_raw(n));
    unsigned mut = (unsigned)weighted({20, 35, 25, 20});
    uint64_t fin = 0;
    switch (mut) {
    case 0: mut = M_NONE; break;
    case 1:
        mut = M_REPLACE;
        if (!t.empty()) {
            size_t p = chance(50) ? t.size() - 1 - pick(0, std::min<size_t>(t.size(), 2) - 1) : pick(0, t.size() - 1);
            t[p] = (char)gen_odd_char();
            fin = p + 2 >= t.size();
        }
        break;
    case 2: // upper / mixed case: well-formed
        mut = M_CASE;
        for (auto &ch : t)
            if (ch >= 'a' && chance(60)) ch = (char)(ch - 32);
        break;
    default: // odd length: leading nibble
        mut = M_LENGTH;
        if (!t.empty()) chance(50) ? (void)t.erase(0, 1) : t.pop_back();
        else t = std::string(1, (char)gen_odd_char());
        if (chance(30) && !t.empty()) t[0] = (char)gen_odd_char();
        break;
    }
    return mkop(HEX_DEC, {gen_capmode(), mut, fin}, t);
}

static uint64_t gen_huge() {
    const uint64_t M = UINT64_MAX;
    switch (weighted({30, 20, 20, 15, 15})) {
    case 0: return M - pick(0, 8);
    case 1: return M / 4 * 3 - 4 + pick(0, 8);         // 4*ceil(n/3) crosses 2^64 here
    case 2: return (1ull << 63) - 4 + pick(0, 8);       // 2n crosses 2^64 here
    case 3: return (1ull << pick(32, 63)) + pick(0, 3) - 1;
    default: return any_u64();
    }
}

static Case gen_case() {
    Case c;
    c.cfg = {0};
    c.ops = op_list(10, [] {
        switch (weighted({22, 34, 10, 14, 6, 8, 6})) {
        case 0: return mkop(B64_ENC, {gen_capmode(), one_of({0, 0, 1, 7})}, gen_raw(gen_len()));
        case 1: return gen_b64_dec();
        case 2: return mkop(HEX_ENC, {gen_capmode()}, gen_raw(gen_len() % 120));
        case 3: return gen_hex_dec();
        case 4: return mkop(HEX_DYN, {gen_capmode(), one_of({0, 1, 7})}, gen_raw(gen_len() % 120));
        case 5: return mkop(LENGTHS, {gen_huge()});
        default: return mkop(SWEEP, {pick(0, 3), gen_len() % 110, pick(0, 3), pick(0, 1000)});
        }
    });
    return c;
}

static void run(const Case &c, Ctx &ctx) {
    galloc::reset();
    if (aws_common_private_has_avx2()) ctx.tag("default_build_on_avx2_path");
    else ctx.tag("default_build_on_portable_path(no AVX2: differential is vacuous)");
    if (c.c(0) & 1) {
        full_sweep(ctx);
        return;
    }
    for (auto &op : c.ops) {
        switch (((op.kind % NKINDS) + NKINDS) % NKINDS) {
        case B64_ENC: {
            size_t prior = op.arg(1) == 7 ? 7 : op.arg(1) % 2;
            check_b64_encode(op.b, op.arg(0), prior);
            ctx.tag(fmt("b64enc:len%%3=%zu", op.b.size() % 3));
            ctx.tag(op.b.size() >= 32 ? "b64enc:simd_main_loop" : op.b.size() >= 25 ? "b64enc:25..31" : "b64enc:short");
            if (prior) ctx.tag("b64enc:appending");
            ctx.tag(fmt("cap:%s", CAP_NAMES[op.arg(0) % NCAP]));
            if (op.b.size() >= 25) ctx.nontrivial = true;
            break;
        }
        case B64_DEC: {
            check_b64_decode(op.b, op.arg(0));
            unsigned mut = (unsigned)(op.arg(1) % NMUT);
            ctx.tag(fmt("b64dec:%s", MUT_NAMES[mut]));
            ctx.tag(op.b.size() > 32 ? "b64dec:simd_main_loop" : "b64dec:tail_only");
            RefB64 ref = ref_b64_decode(op.b);
            ctx.tag(ref.accept ? "b64dec:well_formed" : "b64dec:malformed");
            if (mut != M_NONE && op.arg(2)) ctx.tag("b64dec:mutation_in_final_quantum");
            if ((mut != M_NONE && op.arg(2)) || op.b.size() > 32) ctx.nontrivial = true;
            break;
        }
        case HEX_ENC:
            check_hex_encode(op.b, op.arg(0));
            ctx.tag("hexenc");
            if (op.b.size() >= 25) ctx.nontrivial = true;
            break;
        case HEX_DEC: {
            check_hex_decode(op.b, op.arg(0));
            unsigned mut = (unsigned)(op.arg(1) % NMUT);
            ctx.tag(fmt("hexdec:%s", MUT_NAMES[mut]));
            if (op.b.size() % 2) ctx.tag("hexdec:odd_length");
            if (mut != M_NONE && op.arg(2)) ctx.nontrivial = true;
            break;
        }
        case HEX_DYN: {
            size_t prior = op.arg(1) == 7 ? 7 : op.arg(1) % 2;
            check_hex_append_dynamic(op.b, op.arg(0), prior);
            ctx.tag("hexenc:append_dynamic");
            break;
        }
        case LENGTHS:
            check_lengths(op.arg(0), ctx);
            ctx.tag("length_predictors");
            break;
        default:
            sweep_row((unsigned)op.arg(0), (size_t)(op.arg(1) % 110), (size_t)op.arg(2), op.arg(3));
            ctx.tag(fmt("sweep256:%s", SWEEP_NAMES[op.arg(0) % 4]));
            ctx.nontrivial = true;
            break;
        }
    }
    const char *m = nullptr;
    PBT_CHECK(galloc::check_all(&m), "%s", m ? m : "");
}

int main(int argc, char **argv) {
    unsetenv("AWS_COMMON_AVX2"); // the library's own switch would silently turn the default build into a second portable one
    Spec sp{"C05", "c05_base64hex", gen_case, run,
            "cases of <=10 operations: encode / decode of generated byte strings (lengths over all residues mod 3,4,24,32 and the AVX2 "
            "loop boundaries), decode of canonical encodings mutated in one of 8 ways, output capacity in {exact, exact-1, 0, exact+1, "
            "exact+40}, existing length in {0,1,7}; non-trivial = an input of >=25 bytes (>32 characters for decode) or a mutation inside "
            "the final quantum or a 256-value sweep of one final-quantum position; distinct by hash of the serialised case"};
    return pbt_main(argc, argv, sp);
}

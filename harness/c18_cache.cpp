// C18 (part 2) — FIFO / LIFO / LRU caches: never more than max_items, the entry just put is retained, and on
// overflow exactly the entry named by the policy is evicted.  Model: std::vector<Entry{id,key*,value*}> in
// policy order (front = oldest insertion / least recent use; put of an existing key replaces the value and moves the
// entry to the back for all three caches, because they sit on the linked hash table).  See DESIGN.md section 5 / C18.
//
// Key objects are individually allocated {id}; equality compares id, so equal-but-pointer-distinct keys exist.
// Destructor callbacks only count; the harness owns the storage until the end of the case.
//
// Caller obligations enforced here (never handed to the library):
//  * max_items >= 1 (AWS_ASSERT(max_items) in the constructors);
//  * aws_lru_cache_use_lru_element / get_mru_element only on an LRU cache (cache->impl is NULL for the others);
//  * a value object is put once, except that without a value destructor the value currently cached under a key may be
//    put again under that key; a key pointer the cache has destroyed is never used again.
// The harness reads the public struct fields cache->table / cache->max_items to compare the whole content after
// every step without disturbing the LRU order (aws_cache_find on an LRU cache counts as a use).
#include "pbt.hpp"
#include "galloc.hpp"

#include <aws/common/cache.h>
#include <aws/common/error.h>
#include <aws/common/fifo_cache.h>
#include <aws/common/lifo_cache.h>
#include <aws/common/lru_cache.h>

#include <memory>

using namespace pbt;

struct Key {
    uint32_t id;
    int destroyed = 0;
    int expect = 0;
};
struct Val {
    uint32_t serial;
    int destroyed = 0;
    int expect = 0;
};

static Ctx *g_ctx = nullptr;
static int g_hash_plan = 0;

static uint64_t hash_key(const void *p) {
    const Key *k = (const Key *)p;
    if (k->destroyed && g_ctx) g_ctx->note_fail(fmt("hash function called on a key (id %u) that was already destroyed", k->id));
    switch (g_hash_plan) {
    case 0: return (uint64_t)k->id * 0x9E3779B97F4A7C15ull + 0x1234567;
    case 1: return 7;
    case 2: return k->id % 3;
    default: return k->id;
    }
}
static bool eq_key(const void *a, const void *b) {
    const Key *x = (const Key *)a, *y = (const Key *)b;
    if ((x->destroyed || y->destroyed) && g_ctx)
        g_ctx->note_fail(fmt("equality called on a destroyed key (ids %u/%u)", x->id, y->id));
    return x->id == y->id;
}
static void destroy_key(void *p) { ((Key *)p)->destroyed++; }
static int g_null_val_destroyed = 0; // value-destructor calls for entries that hold a NULL value
static void destroy_val(void *p) {
    if (p) ((Val *)p)->destroyed++; // entries may hold a NULL value (a cache used as a bounded set)
    else g_null_val_destroyed++;
}

enum { FIFO, LIFO, LRU };
enum { PUT, FIND, REMOVE, CLEAR, COUNT, USE_LRU, GET_MRU, NKINDS };
static const char *KIND_NAME[] = {"fifo", "lifo", "lru"};

static Case gen_case() {
    Case c;
    // cfg: kind, max_items (1..8, biased to small), key dtor, value dtor, hash plan, extra ids beyond max_items
    uint64_t cap = weighted({5, 4, 4, 3, 2, 2, 1, 1}) + 1;
    c.cfg = {pick(0, 2), cap, pick(0, 1), pick(0, 1), pick(0, 3), pick(0, 5)};
    c.ops = op_list(60, [] {
        switch (weighted({46, 18, 10, 2, 2, 7, 4})) {
        case 0: return mkop(PUT, {weighted({2, 3, 6, 2}), pick(0, 15), pick(0, 2), pick(0, 4)}); // id selector, x, key mode
        case 1: return mkop(FIND, {weighted({3, 4, 1, 3}), pick(0, 15)});
        case 2: return mkop(REMOVE, {weighted({3, 3, 1, 3}), pick(0, 15), pick(0, 2)});
        case 3: return mkop(CLEAR);
        case 4: return mkop(COUNT);
        case 5: return mkop(USE_LRU);
        default: return mkop(GET_MRU);
        }
    });
    return c;
}

struct Entry {
    uint32_t id;
    Key *key;
    Val *val;
};

static void run(const Case &c, Ctx &ctx) {
    galloc::reset();
    g_ctx = &ctx;
    const int kind = (int)(c.c(0) % 3);
    const size_t cap = 1 + (size_t)((c.c(1) + 7) % 8); // cfg value 1..8 maps to itself; anything else stays in 1..8
    const bool kd = c.c(2) % 2, vd = c.c(3) % 2;
    g_hash_plan = (int)(c.c(4) % 4);
    const unsigned U = (unsigned)(cap + 1 + c.c(5) % 6);

    std::vector<std::unique_ptr<Key>> keys;
    std::vector<std::unique_ptr<Val>> vals;
    std::vector<Entry> model;
    uint32_t serial = 0;
    bool touched_victim = false, evict_after_touch = false;
    unsigned evictions = 0;

    aws_hash_callback_destroy_fn *kdf = kd ? destroy_key : nullptr, *vdf = vd ? destroy_val : nullptr;
    struct aws_cache *cache = kind == FIFO   ? aws_cache_new_fifo(galloc::full(), hash_key, eq_key, kdf, vdf, cap)
                              : kind == LIFO ? aws_cache_new_lifo(galloc::full(), hash_key, eq_key, kdf, vdf, cap)
                                             : aws_cache_new_lru(galloc::full(), hash_key, eq_key, kdf, vdf, cap);
    PBT_CHECK(cache != nullptr, "cache constructor failed");
    PBT_CHECK(cache->max_items == cap);

    auto index_of = [&](uint32_t id) -> int {
        for (size_t i = 0; i < model.size(); i++)
            if (model[i].id == id) return (int)i;
        return -1;
    };
    // the entry the policy would evict if a new key were put into a full cache now
    auto victim_index = [&]() -> int {
        if (model.empty()) return -1;
        return kind == LIFO ? (int)model.size() - 1 : 0;
    };
    auto select_id = [&](uint64_t sel, uint64_t x) -> uint32_t {
        size_t n = model.size();
        switch (sel % 4) {
        case 1: return n ? model[(size_t)victim_index()].id : (uint32_t)(x % U);
        case 2:
            for (unsigned d = 0; d < U; d++) {
                uint32_t id = (uint32_t)((x + d) % U);
                if (index_of(id) < 0) return id;
            }
            return (uint32_t)(x % U);
        case 3: return n ? model[x % n].id : (uint32_t)(x % U);
        default: return (uint32_t)(x % U);
        }
    };
    int null_val_expect = 0;
    g_null_val_destroyed = 0;
    auto displaced = [&](const Entry &e, bool key_too) {
        if (kd && key_too) e.key->expect++;
        if (vd && e.val) e.val->expect++;
        if (vd && !e.val) null_val_expect++; // "destructors run exactly once per displaced entry": also when the value is NULL
    };
    auto note_touch = [&](int at, const char *tagname) {
        if (at >= 0 && at == victim_index() && model.size() == cap) {
            touched_victim = true;
            ctx.tag(tagname);
        }
    };
    auto invariants = [&](const char *after) {
        PBT_CHECK(!ctx.failed, "after %s: %s", after, ctx.msg.c_str());
        size_t n = aws_cache_get_element_count(cache);
        PBT_CHECK(n <= cap, "after %s: %s cache holds %zu entries, max_items is %zu", after, KIND_NAME[kind], n, cap);
        PBT_CHECK(n == model.size(), "after %s: %s cache holds %zu entries, reference holds %zu", after, KIND_NAME[kind], n, model.size());
        const struct aws_linked_list *list = aws_linked_hash_table_get_iteration_list(&cache->table);
        size_t i = 0;
        for (const struct aws_linked_list_node *nd = aws_linked_list_begin(list); nd != aws_linked_list_end(list);
             nd = aws_linked_list_next(nd), i++) {
            PBT_CHECK(i < model.size(), "after %s: cache list is longer than the reference (%zu)", after, model.size());
            const struct aws_linked_hash_table_node *ln = AWS_CONTAINER_OF(nd, struct aws_linked_hash_table_node, node);
            PBT_CHECK(ln->key != nullptr, "after %s: position %zu has a null key", after, i);
            PBT_CHECK(((const Key *)ln->key)->id == model[i].id,
                      "after %s: %s cache (max %zu) holds id %u at position %zu, reference says id %u — wrong entry evicted / wrong order",
                      after, KIND_NAME[kind], cap, ((const Key *)ln->key)->id, i, model[i].id);
            PBT_CHECK(ln->value == model[i].val, "after %s: id %u does not hold the value of its last put (#%u)", after, model[i].id,
                      model[i].val ? model[i].val->serial : 0);
            PBT_CHECK(ln->key == model[i].key, "after %s: id %u does not hold the key pointer of its last put", after, model[i].id);
        }
        PBT_CHECK(i == model.size(), "after %s: cache list has %zu entries, reference has %zu", after, i, model.size());
        for (uint32_t id = 0; id < U; id++) { // lookup side (does not count as a use: goes below the cache vtable)
            Key probe;
            probe.id = id;
            void *v = (void *)0x1;
            PBT_CHECK(aws_linked_hash_table_find(&cache->table, &probe, &v) == AWS_OP_SUCCESS);
            int at = index_of(id);
            if (at < 0)
                PBT_CHECK(v == nullptr, "after %s: id %u can still be looked up although it is not (any more) in the %s cache", after, id,
                          KIND_NAME[kind]);
            else
                PBT_CHECK(v == model[at].val, "after %s: lookup of retained id %u returned %s", after, id, v ? "a different value" : "NULL");
            PBT_CHECK(probe.destroyed == 0, "after %s: the cache destroyed the caller's lookup key", after);
        }
        PBT_CHECK(!ctx.failed, "after %s: %s", after, ctx.msg.c_str());
        for (auto &k : keys)
            PBT_CHECK(k->destroyed == k->expect, "after %s: key object of id %u destroyed %d time(s), expected %d", after, k->id,
                      k->destroyed, k->expect);
        for (auto &v : vals)
            PBT_CHECK(v->destroyed == v->expect, "after %s: value #%u destroyed %d time(s), expected %d", after, v->serial,
                      v->destroyed, v->expect);
        PBT_CHECK(g_null_val_destroyed == null_val_expect, "after %s: the value destructor ran %d time(s) for entries with a NULL value, %d such entries were displaced",
                  after, g_null_val_destroyed, null_val_expect);
        const char *m = nullptr;
        PBT_CHECK(galloc::check_all(&m), "%s", m ? m : "");
    };

    invariants("new");
    for (auto &op : c.ops) {
        switch (op.kind % NKINDS) {
        case PUT: {
            uint32_t id = select_id(op.arg(0), op.arg(1));
            int at = index_of(id);
            bool same_ptr = at >= 0 && op.arg(2) % 3 == 2;
            Key *k;
            if (same_ptr)
                k = model[at].key;
            else {
                keys.emplace_back(new Key());
                k = keys.back().get();
                k->id = id;
            }
            // every fifth put stores a NULL value (negative-cache entry / cache used as a bounded set): present, value NULL
            Val *v = nullptr;
            if (at >= 0 && !vd && model[at].val && op.arg(3) % 5 == 3) {
                // the value object already cached under this key is put again (possibly under an equal but distinct
                // key object): still a put - the entry is displaced and re-inserted like any other
                v = model[at].val;
                ctx.tag("reput_same_value_pointer");
            } else if (op.arg(3) % 5 != 4) {
                vals.emplace_back(new Val());
                v = vals.back().get();
                v->serial = ++serial;
            } else {
                ctx.tag("null_value_entry");
            }
            if (at >= 0) note_touch(at, "victim_overwritten");
            int rc = aws_cache_put(cache, k, v);
            PBT_CHECK(rc == AWS_OP_SUCCESS, "put failed: %s", aws_error_name(aws_last_error()));
            if (at >= 0) {
                displaced(model[at], !same_ptr);
                model.erase(model.begin() + at);
                ctx.tag(same_ptr ? "overwrite_same_pointer" : "overwrite_distinct_pointer");
            }
            model.push_back(Entry{id, k, v});
            if (model.size() > cap) { // overflow: the policy names exactly one victim
                size_t vi = kind == LIFO ? model.size() - 2 : 0;
                displaced(model[vi], true);
                model.erase(model.begin() + (long)vi);
                evictions++;
                ctx.tag("overflow_eviction");
                if (touched_victim) evict_after_touch = true;
            }
            // the entry just put is retained, with the new value
            {
                Key probe;
                probe.id = id;
                void *got = nullptr;
                PBT_CHECK(aws_linked_hash_table_find(&cache->table, &probe, &got) == AWS_OP_SUCCESS);
                PBT_CHECK(got == v, "%s cache (max %zu) does not retain the entry that was just put (id %u): %s", KIND_NAME[kind], cap, id,
                          got ? "old value" : "absent");
                PBT_CHECK(aws_cache_get_element_count(cache) == model.size(), "%s cache (max %zu): %zu entries after put of id %u, reference %zu",
                          KIND_NAME[kind], cap, aws_cache_get_element_count(cache), id, model.size());
            }
            invariants("put");
            break;
        }
        case FIND: {
            uint32_t id = select_id(op.arg(0), op.arg(1));
            int at = index_of(id);
            if (at >= 0) note_touch(at, "victim_found");
            Key probe;
            probe.id = id;
            void *v = (void *)0x1;
            int rc = aws_cache_find(cache, &probe, &v);
            PBT_CHECK(rc == AWS_OP_SUCCESS, "find returned an error");
            if (at < 0)
                PBT_CHECK(v == nullptr, "find of absent id %u returned a value", id);
            else {
                PBT_CHECK(v == model[at].val, "find of id %u returned %s", id, v ? "another value" : "NULL");
                if (kind == LRU) { // a lookup is a use
                    Entry e = model[at];
                    model.erase(model.begin() + at);
                    model.push_back(e);
                }
            }
            PBT_CHECK(probe.destroyed == 0, "find destroyed the caller's key");
            invariants("find");
            break;
        }
        case REMOVE: {
            uint32_t id = select_id(op.arg(0), op.arg(1));
            int at = index_of(id);
            Key probe;
            probe.id = id;
            const void *arg = &probe;
            if (at >= 0 && op.arg(2) % 3 == 2) arg = model[at].key;
            int rc = aws_cache_remove(cache, arg);
            PBT_CHECK(rc == AWS_OP_SUCCESS, "remove returned an error");
            if (at >= 0) {
                displaced(model[at], true);
                model.erase(model.begin() + at);
                ctx.tag("remove_present");
            }
            PBT_CHECK(probe.destroyed == 0, "remove destroyed the caller's key");
            invariants("remove");
            break;
        }
        case CLEAR:
            aws_cache_clear(cache);
            for (auto &e : model) displaced(e, true);
            model.clear();
            invariants("clear");
            break;
        case COUNT:
            PBT_CHECK(aws_cache_get_element_count(cache) == model.size());
            break;
        case USE_LRU: {
            if (kind != LRU) break; // only defined for LRU caches
            void *v = aws_lru_cache_use_lru_element(cache);
            if (model.empty())
                PBT_CHECK(v == nullptr, "use_lru_element on an empty cache returned a value");
            else {
                if (model.size() == cap) {
                    touched_victim = true;
                    ctx.tag("victim_used_via_use_lru");
                }
                PBT_CHECK(v == model[0].val, "use_lru_element did not return the least recently used value (id %u)", model[0].id);
                Entry e = model[0];
                model.erase(model.begin());
                model.push_back(e);
            }
            invariants("use_lru_element");
            break;
        }
        default: {
            if (kind != LRU) break;
            void *v = aws_lru_cache_get_mru_element(cache);
            if (model.empty())
                PBT_CHECK(v == nullptr, "get_mru_element on an empty cache returned a value");
            else
                PBT_CHECK(v == model.back().val, "get_mru_element did not return the most recently used value (id %u)", model.back().id);
            invariants("get_mru_element");
            break;
        }
        }
    }
    aws_cache_destroy(cache);
    for (auto &e : model) displaced(e, true);
    model.clear();
    PBT_CHECK(!ctx.failed, "%s", ctx.msg.c_str());
    for (auto &k : keys)
        PBT_CHECK(k->destroyed == k->expect, "after destroy: key object of id %u destroyed %d time(s), expected %d", k->id, k->destroyed,
                  k->expect);
    for (auto &v : vals)
        PBT_CHECK(v->destroyed == v->expect, "after destroy: value #%u destroyed %d time(s), expected %d", v->serial, v->destroyed,
                  v->expect);
    PBT_CHECK(g_null_val_destroyed == null_val_expect, "after destroy: the value destructor ran %d time(s) for entries with a NULL value, %d such entries were displaced",
              g_null_val_destroyed, null_val_expect);
    const char *m = nullptr;
    PBT_CHECK(galloc::check_all(&m), "%s", m ? m : "");
    PBT_CHECK(galloc::live_blocks() == 0, "destroy left %zu allocator blocks", galloc::live_blocks());

    ctx.nontrivial = evict_after_touch || (cap == 1 && evictions >= 1);
    ctx.tag(KIND_NAME[kind]);
    if (cap == 1) ctx.tag("capacity_1");
    if (evict_after_touch) ctx.tag(std::string("evict_after_victim_touch_") + KIND_NAME[kind]);
    ctx.tag(kd ? (vd ? "dtor_both" : "dtor_key_only") : (vd ? "dtor_value_only" : "dtor_none"));
    g_ctx = nullptr;
}

int main(int argc, char **argv) {
    Spec sp{"C18", "c18_cache", gen_case, run,
            "generated op sequences (<=60 ops) over put (new id / existing id / the would-be victim; fresh equal key object or the "
            "stored pointer) / find / remove / clear / count / use_lru_element / get_mru_element on a FIFO, LIFO or LRU cache with "
            "max_items 1-8, 4 hash plans, destructors on/off; non-trivial = >=1 overflow eviction after >=1 overwrite, find or "
            "use_lru of the would-be victim of a full cache, or max_items 1 with >=1 overflow eviction; distinct by hash of the "
            "serialised case"};
    return pbt_main(argc, argv, sp);
}

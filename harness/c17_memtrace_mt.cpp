// C17 — memory tracer, threaded part: 2-3 threads use one tracer under the controlled scheduler.
// See DESIGN.md section 5 / C17 and section 4.
//
// Oracle.  Every thread announces an operation before it enters the library (its possible partial
// effects on the byte total and on the count) and retires it, together with the update of the
// reference live map, right after the call returns.  Harness code contains no schedule point, so
// announcement / retirement are atomic with respect to the other threads.  A query whose call was not
// overlapped by any announcement or retirement must return  reference + (one partial effect of every
// operation in flight); with nothing in flight that is exact equality (a quiescent point).  Exact
// equality is also asserted at harness barriers and after all workers have been joined.
// Per thread: contents of its own blocks (pattern, calloc zero, realloc prefix) at every step,
// including blocks handed over by another thread.
#include "pbt.hpp"
#include "galloc.hpp"
#include "detsched/sched_glue.hpp"

#include <aws/common/allocator.h>
#include <aws/common/error.h>
#include <aws/common/logging.h>

#include <cstdarg>
#include <pthread.h>

using namespace pbt;

enum { ACQ = 0, CALLOC = 1, REALLOC = 2, REL = 3, GIVE = 4, DUMP = 5, QUERY = 6, YIELD = 7, BARRIER = 8, NKINDS = 9 };
enum { R_GROW = 0, R_SHRINK = 1, R_SAME = 2, R_ZERO = 3, R_FROM_NULL = 4, NMODES = 5 };
static const int NS = 10;
static const size_t MAXSZ = 1024;
static const size_t FRAMES[] = {0, 1, 8, 200};
static const int MAXBAR = 3;

static uint64_t gen_size() {
    return chance(70) ? one_of({1, 2, 8, 16, 17, 64, 100, 255, 256, 512, 1000, 1024}) : pick(1, 1024);
}

// The engine's schedule generator (mostly sparse switching) for 40 % of the cases; otherwise schedules whose
// switch density is sized to this program: an operation takes 4-12 decisions (atomic add, clock, two lock/unlock
// pairs, then the three decisions of the two queries), and an overlap needs a switch inside one of them.
static Op gen_sched(size_t nops) {
    if (chance(40)) return dsg::gen_schedule(700);
    Op o;
    o.kind = dsg::SCHED_OP;
    size_t approx = 60 + nops * 14;
    if (chance(60)) {
        o.a.push_back(ds::WALK);
        unsigned pct = (unsigned)one_of({15, 30, 50});
        for (size_t i = 0; i < approx; i++) o.a.push_back(chance(pct) ? pick(1, 3) : 0);
    } else {
        o.a.push_back(ds::PREEMPT);
        size_t k = (size_t)pick(3, 10);
        for (size_t i = 0; i < k; i++) {
            o.a.push_back(pick(8, approx));
            o.a.push_back(pick(1, 3));
        }
    }
    return o;
}

static Case gen_case() {
    Case c;
    uint64_t nth = pick(2, 3);
    // cfg: threads, wrapped allocator (0 galloc::full, 1 galloc::basic, 2 arena with realloc/calloc, 3 arena acquire/release only),
    //      level, frames index, logger (0 null logger, 1 recording), arena realloc policy (0 keeps when not growing, 1 always moves)
    c.cfg = {nth, (uint64_t)weighted({15, 15, 40, 30}), (uint64_t)weighted({8, 50, 42}), pick(0, 3), pick(0, 1), pick(0, 1)};
    c.ops = op_list(60, [=] {
        uint64_t t = pick(0, nth - 1);
        switch (weighted({22, 8, 26, 18, 10, 4, 6, 4, 2})) {
        case 0: return mkop(ACQ, {t, pick(0, 15), gen_size()});
        case 1: return mkop(CALLOC, {t, pick(0, 15), one_of({1, 2, 3, 4, 8}), one_of({1, 3, 8, 32, 100})});
        case 2: return mkop(REALLOC, {t, pick(0, 15), (uint64_t)weighted({35, 25, 15, 10, 15}), gen_size()});
        case 3: return mkop(REL, {t, pick(0, 15)});
        case 4: return mkop(GIVE, {t, pick(0, 15), pick(1, 2)});
        case 5: return mkop(DUMP, {t});
        case 6: return mkop(QUERY, {t});
        case 7: return mkop(YIELD, {t, pick(1, 3)});
        default: return mkop(BARRIER);
        }
    });
    c.ops.push_back(gen_sched(c.ops.size()));
    return c;
}

// ---- arena allocator: fixed cells, lowest free cell first, so that an address freed by one thread is
// ---- handed to the next request of any thread immediately (ASan's quarantine prevents that with malloc)
namespace arena {
static const int N = 32;
static const size_t CAP = 1024, G = 32;
struct St {
    unsigned char mem[N][CAP + 2 * G];
    size_t size[N];
    bool used[N];
    bool ever[N];
    int live;
    int policy;
    uint64_t reused;
    bool bad;
    char msg[160];
};
static St S;
static void fail(const char *what, const void *p) {
    if (!S.bad) {
        S.bad = true;
        snprintf(S.msg, sizeof S.msg, "arena: %s (%p)", what, p);
    }
}
static void reset(int policy) {
    memset(&S, 0, sizeof S);
    S.policy = policy;
}
static int index_of(const void *p) {
    const unsigned char *q = (const unsigned char *)p;
    if (q < &S.mem[0][0] || q >= &S.mem[0][0] + sizeof S.mem) return -1;
    size_t off = (size_t)(q - &S.mem[0][0]);
    int i = (int)(off / (CAP + 2 * G));
    return off % (CAP + 2 * G) == G ? i : -1;
}
static void *acq(struct aws_allocator *, size_t n) {
    if (n > CAP) {
        fprintf(stderr, "arena: request of %zu bytes — generator bug\n", n);
        abort();
    }
    for (int i = 0; i < N; i++)
        if (!S.used[i]) {
            S.used[i] = true;
            if (S.ever[i]) S.reused++;
            S.ever[i] = true;
            S.size[i] = n;
            S.live++;
            memset(S.mem[i], 0xC7, G);
            memset(S.mem[i] + G, 0xA5, n);
            memset(S.mem[i] + G + n, 0xC9, G);
            return S.mem[i] + G;
        }
    fprintf(stderr, "arena: out of cells — generator bug\n");
    abort();
}
static bool guards_ok(int i) {
    for (size_t k = 0; k < G; k++)
        if (S.mem[i][k] != 0xC7 || S.mem[i][G + S.size[i] + k] != 0xC9) return false;
    return true;
}
static void rel(struct aws_allocator *, void *p) {
    if (!p) return;
    int i = index_of(p);
    if (i < 0 || !S.used[i]) {
        fail("release of a pointer that is not a live block (double free / foreign pointer)", p);
        return;
    }
    if (!guards_ok(i)) fail("guard bytes damaged, seen at release", p);
    memset(S.mem[i] + G, 0xDD, S.size[i]);
    S.used[i] = false;
    S.live--;
}
static void *re(struct aws_allocator *a, void *old, size_t oldsize, size_t newsize) {
    if (!old) return acq(a, newsize);
    int i = index_of(old);
    if (i < 0 || !S.used[i]) {
        fail("realloc of a pointer that is not a live block", old);
        return acq(a, newsize);
    }
    (void)oldsize;
    if (S.policy == 0 && newsize <= S.size[i]) return old;
    void *n = acq(a, newsize);
    memcpy(n, old, S.size[i] < newsize ? S.size[i] : newsize);
    rel(a, old);
    return n;
}
static void *cal(struct aws_allocator *a, size_t num, size_t size) {
    void *p = acq(a, num * size);
    memset(p, 0, num * size);
    return p;
}
static bool is_live(const void *p, size_t *size) {
    int i = index_of(p);
    if (i < 0 || !S.used[i]) return false;
    *size = S.size[i];
    return true;
}
static bool check_all() {
    for (int i = 0; i < N; i++)
        if (S.used[i] && !guards_ok(i)) fail("guard bytes damaged", S.mem[i] + G);
    return !S.bad;
}
static struct aws_allocator *full() {
    static struct aws_allocator a = {acq, rel, re, cal, nullptr};
    return &a;
}
static struct aws_allocator *basic() {
    static struct aws_allocator a = {acq, rel, nullptr, nullptr, nullptr};
    return &a;
}
} // namespace arena

// ---- world -------------------------------------------------------------------------------------------
enum { EMPTY = 0, BUSY = 1, LIVE = 2 };
struct Slot {
    void *p = nullptr;
    size_t size = 0;
    uint32_t serial = 0;
    int owner = -1, maker = -1;
    int state = EMPTY;
    bool counted = false; // part of the reference totals (stays true while an operation on the block is in flight)
};
struct Inflight {
    bool on = false;
    int nb = 0, nc = 0;
    long long db[3], dc[3]; // possible partial effects on bytes / count
};
struct World {
    Ctx *ctx;
    const Case *c;
    struct aws_allocator *tr = nullptr;
    int level = 0, nth = 2, akind = 0;
    bool recording = false;
    Slot s[NS];
    Inflight inf[4];
    uint64_t epoch = 0;
    uint32_t serial = 0;
    int arrived[MAXBAR] = {0};
    unsigned moved = 0, kept = 0, overlapped = 0, handovers = 0, foreign_ops = 0;
    unsigned exact_checks = 0, set_checks = 0, skipped_checks = 0, barrier_checks = 0, dumps_live = 0;
};

struct Rec {
    bool hdr = false;
    size_t hdr_bytes = 0, hdr_count = 0, lines = 0;
};
static Rec g_rec;
static int rec_log(struct aws_logger *, enum aws_log_level, aws_log_subject_t, const char *format, ...) {
    char buf[8192];
    va_list ap;
    va_start(ap, format);
    vsnprintf(buf, sizeof buf, format, ap);
    va_end(ap);
    g_rec.lines++;
    size_t a = 0, b = 0;
    if (sscanf(buf, "tracer: %zu bytes still allocated in %zu allocations", &a, &b) == 2) {
        g_rec.hdr = true;
        g_rec.hdr_bytes = a;
        g_rec.hdr_count = b;
    }
    return AWS_OP_SUCCESS;
}
static enum aws_log_level rec_level(struct aws_logger *, aws_log_subject_t) { return AWS_LL_TRACE; }
static void rec_cleanup(struct aws_logger *) {}
static int rec_set_level(struct aws_logger *, enum aws_log_level) { return AWS_OP_SUCCESS; }
static struct aws_logger_vtable g_rec_vt = {rec_log, rec_level, rec_cleanup, rec_set_level};
static struct aws_logger g_rec_logger = {&g_rec_vt, nullptr, nullptr};

static inline unsigned char pat(uint32_t serial, size_t i) { return (unsigned char)(serial * 131u + i * 7u + (i >> 8) * 13u + 1u); }
static void fill(const Slot &b) {
    unsigned char *q = (unsigned char *)b.p;
    for (size_t i = 0; i < b.size; i++) q[i] = pat(b.serial, i);
}
static size_t first_diff(const void *p, uint32_t serial, size_t n) {
    const unsigned char *q = (const unsigned char *)p;
    for (size_t i = 0; i < n; i++)
        if (q[i] != pat(serial, i)) return i;
    return n;
}

static bool wrapped_is_live(World &w, const void *p, size_t *size) {
    return w.akind >= 2 ? arena::is_live(p, size) : galloc::is_live(p, size);
}
static size_t ref_bytes(World &w) {
    size_t n = 0;
    for (auto &b : w.s)
        if (b.counted) n += b.size;
    return n;
}
static size_t ref_count(World &w) {
    size_t n = 0;
    for (auto &b : w.s) n += b.counted;
    return n;
}

static void begin_op(World &w, int t, std::initializer_list<long long> db, std::initializer_list<long long> dc) {
    Inflight &f = w.inf[t];
    f.on = true;
    f.nb = f.nc = 0;
    if (w.level != AWS_MEMTRACE_NONE) {
        for (auto v : db) f.db[f.nb++] = v;
        for (auto v : dc) f.dc[f.nc++] = v;
    } else {
        f.db[f.nb++] = 0;
        f.dc[f.nc++] = 0;
    }
    bool other = false;
    for (int u = 0; u < w.nth; u++)
        if (u != t && w.inf[u].on) other = true;
    if (other) w.overlapped++;
    w.epoch++;
}
static void end_op(World &w, int t) {
    w.inf[t].on = false;
    w.epoch++;
}

// is `got` = reference + one partial effect of every operation in flight (other than the caller's thread)?
static bool in_possible_set(World &w, int t, bool bytes, size_t got, bool *exact, std::string *descr) {
    long long base = w.level == AWS_MEMTRACE_NONE ? 0 : (long long)(bytes ? ref_bytes(w) : ref_count(w));
    std::vector<long long> poss{base};
    *exact = true;
    for (int u = 0; u < w.nth; u++) {
        if (u == t || !w.inf[u].on) continue;
        *exact = false;
        const Inflight &f = w.inf[u];
        std::vector<long long> nx;
        for (auto p : poss)
            for (int k = 0; k < (bytes ? f.nb : f.nc); k++) nx.push_back(p + (bytes ? f.db[k] : f.dc[k]));
        poss.swap(nx);
    }
    for (auto p : poss)
        if (p == (long long)got) return true;
    std::sort(poss.begin(), poss.end());
    poss.erase(std::unique(poss.begin(), poss.end()), poss.end());
    *descr = "{";
    for (auto p : poss) *descr += std::to_string(p) + ",";
    *descr += "}";
    return false;
}

// both queries, by thread t (t = -1: nobody else exists any more)
static void check_queries(World &w, int t, const char *after) {
    Ctx &ctx = *w.ctx;
    for (int which = 0; which < 2; which++) {
        bool bytes = which == 0;
        uint64_t e0 = w.epoch;
        size_t got = bytes ? aws_mem_tracer_bytes(w.tr) : aws_mem_tracer_count(w.tr);
        if (w.epoch != e0) {
            w.skipped_checks++;
            continue;
        }
        bool exact = false;
        std::string d;
        if (!in_possible_set(w, t, bytes, got, &exact, &d))
            ctx.note_fail(fmt("t%d after %s: aws_mem_tracer_%s = %zu, but the live blocks %s %s (level %d, %zu live)", t, after,
                              bytes ? "bytes" : "count", got, exact ? "give exactly" : "and the operations in flight allow only", d.c_str(),
                              w.level, ref_count(w)));
        if (exact) w.exact_checks++;
        else w.set_checks++;
    }
}

static void check_own_blocks(World &w, int t, const char *after) {
    Ctx &ctx = *w.ctx;
    for (int i = 0; i < NS; i++) {
        Slot &b = w.s[i];
        if (b.state != LIVE || b.owner != t) continue;
        size_t real = 0;
        if (!wrapped_is_live(w, b.p, &real) || real < b.size) {
            ctx.note_fail(fmt("t%d after %s: block %d is not a live block of the wrapped allocator", t, after, i));
            continue;
        }
        size_t d = first_diff(b.p, b.serial, b.size);
        if (d != b.size) ctx.note_fail(fmt("t%d after %s: contents of block %d (size %zu, made by t%d) changed at byte %zu", t, after, i, b.size, b.maker, d));
    }
}

// k-th slot that thread t may use as an operand: its own live blocks, or any empty slot
static int pick_slot(World &w, int t, bool live, uint64_t k) {
    int cnt = 0;
    for (auto &b : w.s) cnt += live ? (b.state == LIVE && b.owner == t) : b.state == EMPTY;
    if (!cnt) return -1;
    k %= (uint64_t)cnt;
    for (int i = 0; i < NS; i++) {
        Slot &b = w.s[i];
        bool m = live ? (b.state == LIVE && b.owner == t) : b.state == EMPTY;
        if (m && k-- == 0) return i;
    }
    return -1;
}

static void exact_global_check(World &w, const char *where) {
    Ctx &ctx = *w.ctx;
    size_t eb = w.level == AWS_MEMTRACE_NONE ? 0 : ref_bytes(w), ec = w.level == AWS_MEMTRACE_NONE ? 0 : ref_count(w);
    size_t b = aws_mem_tracer_bytes(w.tr), n = aws_mem_tracer_count(w.tr);
    if (b != eb) ctx.note_fail(fmt("%s (no operation in flight): aws_mem_tracer_bytes = %zu, live blocks sum to %zu (%zu blocks, level %d)", where, b, eb, ref_count(w), w.level));
    if (n != ec) ctx.note_fail(fmt("%s (no operation in flight): aws_mem_tracer_count = %zu, %zu blocks are live (level %d)", where, n, ec, w.level));
}

static void barrier(World &w, int k) {
    if (w.arrived[k] == w.nth - 1) {
        // everybody else is spinning below: nothing is in flight
        exact_global_check(w, "at a barrier");
        w.barrier_checks++;
    }
    w.arrived[k]++;
    while (w.arrived[k] < w.nth && !w.ctx->failed) ds::point();
}

static void step(World &w, int t, const Op &op) {
    Ctx &ctx = *w.ctx;
    const char *what = "?";
    switch (op.kind) {
    case ACQ: {
        what = "acquire";
        int i = pick_slot(w, t, false, op.arg(1));
        if (i < 0) return;
        Slot &b = w.s[i];
        size_t n = (size_t)(1 + (op.arg(2, 1) - 1) % MAXSZ);
        b.state = BUSY;
        b.owner = t;
        begin_op(w, t, {0, (long long)n}, {0, 1});
        void *p = aws_mem_acquire(w.tr, n);
        b.p = p;
        b.size = n;
        b.serial = ++w.serial;
        b.maker = t;
        b.counted = true;
        b.state = LIVE;
        end_op(w, t);
        size_t real = 0;
        if (!p || !wrapped_is_live(w, p, &real) || real != n) {
            ctx.note_fail(fmt("t%d acquire(%zu) did not return a block of the wrapped allocator of that size", t, n));
            return;
        }
        fill(b);
        break;
    }
    case CALLOC: {
        what = "calloc";
        int i = pick_slot(w, t, false, op.arg(1));
        if (i < 0) return;
        Slot &b = w.s[i];
        size_t num = (size_t)(1 + (op.arg(2, 1) - 1) % 8), sz = (size_t)(1 + (op.arg(3, 1) - 1) % 128);
        size_t n = num * sz;
        b.state = BUSY;
        b.owner = t;
        begin_op(w, t, {0, (long long)n}, {0, 1});
        void *p = aws_mem_calloc(w.tr, num, sz);
        b.p = p;
        b.size = n;
        b.serial = ++w.serial;
        b.maker = t;
        b.counted = true;
        b.state = LIVE;
        end_op(w, t);
        size_t real = 0;
        if (!p || !wrapped_is_live(w, p, &real) || real != n) {
            ctx.note_fail(fmt("t%d calloc(%zu,%zu) did not return a block of the wrapped allocator of that size", t, num, sz));
            return;
        }
        for (size_t k = 0; k < n; k++)
            if (((unsigned char *)p)[k] != 0) {
                ctx.note_fail(fmt("t%d calloc(%zu,%zu): byte %zu is not zero", t, num, sz, k));
                break;
            }
        fill(b);
        break;
    }
    case REALLOC: {
        what = "realloc";
        int mode = (int)(op.arg(2) % NMODES);
        int i = mode == R_FROM_NULL ? pick_slot(w, t, false, op.arg(1)) : pick_slot(w, t, true, op.arg(1));
        if (i < 0) i = pick_slot(w, t, mode == R_FROM_NULL, op.arg(1));
        if (i < 0) return;
        Slot &b = w.s[i];
        bool had = b.state == LIVE;
        size_t old = had ? b.size : 0;
        uint64_t a = op.arg(3, 1);
        size_t nsz;
        if (!had) nsz = (size_t)(1 + (a - 1) % MAXSZ);
        else if (mode == R_GROW) nsz = old + 1 + (size_t)(a % 300);
        else if (mode == R_SHRINK) nsz = old > 1 ? 1 + (size_t)(a % (old - 1)) : old;
        else if (mode == R_SAME) nsz = old;
        else if (mode == R_ZERO) nsz = 0;
        else nsz = (size_t)(1 + (a - 1) % MAXSZ);
        if (nsz > MAXSZ) nsz = MAXSZ;
        void *oldp = b.p, *p = b.p;
        uint32_t oldserial = b.serial;
        if (had && b.maker != t) w.foreign_ops++;
        b.state = BUSY;
        b.owner = t;
        if (!had) begin_op(w, t, {0, (long long)nsz}, {0, 1});
        else if (nsz == 0) begin_op(w, t, {0, -(long long)old}, {0, -1});
        else begin_op(w, t, {0, -(long long)old, (long long)nsz - (long long)old}, {0, -1});
        int rc = aws_mem_realloc(w.tr, &p, old, nsz);
        if (nsz == 0) {
            b = Slot();
        } else {
            b.p = p;
            b.size = nsz;
            b.serial = ++w.serial;
            if (!had) b.maker = t;
            b.counted = true;
            b.state = LIVE;
        }
        end_op(w, t);
        if (rc != AWS_OP_SUCCESS) {
            ctx.note_fail(fmt("t%d realloc(%zu -> %zu) failed", t, old, nsz));
            return;
        }
        if (nsz == 0) {
            if (p) ctx.note_fail(fmt("t%d realloc to 0 left the pointer %p", t, p));
            break;
        }
        size_t real = 0;
        if (!p || !wrapped_is_live(w, p, &real) || real < nsz) {
            ctx.note_fail(fmt("t%d realloc(%zu -> %zu): result is not a block of the wrapped allocator with room for the new size", t, old, nsz));
            return;
        }
        size_t keep = old < nsz ? old : nsz;
        size_t d = first_diff(p, oldserial, keep);
        if (d != keep) ctx.note_fail(fmt("t%d realloc(%zu -> %zu) lost contents at byte %zu", t, old, nsz, d));
        if (had) {
            if (p != oldp) w.moved++;
            else w.kept++;
        }
        fill(b);
        break;
    }
    case REL: {
        what = "release";
        int i = pick_slot(w, t, true, op.arg(1));
        if (i < 0) return;
        Slot &b = w.s[i];
        void *p = b.p;
        if (b.maker != t) w.foreign_ops++;
        // the block may be reused by anybody from the moment release is entered: verify it now
        size_t d = first_diff(p, b.serial, b.size);
        if (d != b.size) ctx.note_fail(fmt("t%d before release: contents of block %d changed at byte %zu", t, i, d));
        b.state = BUSY;
        begin_op(w, t, {0, -(long long)b.size}, {0, -1});
        aws_mem_release(w.tr, p);
        b = Slot();
        end_op(w, t);
        size_t real = 0;
        (void)real;
        break;
    }
    case GIVE: {
        int i = pick_slot(w, t, true, op.arg(1));
        if (i < 0) return;
        int to = (int)((t + op.arg(2, 1) % (uint64_t)w.nth) % w.nth);
        if (to == t) return;
        w.s[i].owner = to; // the receiver verifies the pattern the giver wrote
        w.handovers++;
        return;
    }
    case DUMP: {
        what = "dump";
        bool live = w.level != AWS_MEMTRACE_NONE && ref_count(w) > 0;
        begin_op(w, t, {0}, {0}); // no effect on the figures; announced so that overlapping dumps / queries know
        g_rec.hdr = false;
        uint64_t e0 = w.epoch;
        aws_mem_tracer_dump(w.tr);
        bool undisturbed = w.epoch == e0;
        end_op(w, t);
        if (live) w.dumps_live++;
        if (w.recording && g_rec.hdr && undisturbed) {
            bool ex = false;
            std::string d;
            if (!in_possible_set(w, t, true, g_rec.hdr_bytes, &ex, &d))
                ctx.note_fail(fmt("t%d dump reports %zu bytes, possible: %s", t, g_rec.hdr_bytes, d.c_str()));
            if (!in_possible_set(w, t, false, g_rec.hdr_count, &ex, &d))
                ctx.note_fail(fmt("t%d dump reports %zu allocations, possible: %s", t, g_rec.hdr_count, d.c_str()));
        }
        break;
    }
    case QUERY:
        what = "query";
        check_queries(w, t, "query");
        break;
    case YIELD:
        for (uint64_t k = 0; k < 1 + op.arg(1) % 3; k++) ds::point();
        return;
    default: return;
    }
    check_own_blocks(w, t, what);
    check_queries(w, t, what);
    if (w.akind >= 2) {
        if (!arena::check_all()) ctx.note_fail(arena::S.msg);
    }
}

struct WA {
    World *w;
    int idx;
};

static void *worker(void *p) {
    WA *a = (WA *)p;
    World &w = *a->w;
    int t = a->idx, bar = 0;
    try {
        for (auto &op : w.c->ops) {
            if (w.ctx->failed) break;
            if (op.kind == dsg::SCHED_OP) continue;
            int kind = op.kind % NKINDS;
            if (kind == BARRIER) {
                if (bar < MAXBAR) barrier(w, bar++);
                continue;
            }
            if ((int)(op.arg(0) % (uint64_t)w.nth) != t) continue;
            Op o = op;
            o.kind = kind;
            step(w, t, o);
        }
    } catch (const Failure &f) {
        w.ctx->note_fail(f.msg);
    }
    return nullptr;
}

static void run(const Case &c, Ctx &ctx) {
    galloc::reset();
    dsg::install();
    aws_logger_set(nullptr);
    g_rec = Rec();
    World w;
    w.ctx = &ctx;
    w.c = &c;
    w.nth = (int)(2 + c.c(0) % 2);
    w.akind = (int)(c.c(1) % 4);
    w.level = (int)(c.c(2) % 3);
    size_t frames = FRAMES[c.c(3) % 4];
    w.recording = c.c(4) % 2 == 1;
    arena::reset((int)(c.c(5) % 2));
    struct aws_allocator *wrapped = w.akind == 0 ? galloc::full() : w.akind == 1 ? galloc::basic() : w.akind == 2 ? arena::full() : arena::basic();
    if (w.recording) aws_logger_set(&g_rec_logger);

    w.tr = aws_mem_tracer_new(wrapped, nullptr, (enum aws_mem_trace_level)w.level, frames);
    PBT_CHECK(w.tr != nullptr && w.tr != wrapped);

    ds::Config cfg = dsg::to_config(dsg::find_schedule(c), 60000);
    ds::run(cfg, [&] {
        pthread_t th[3];
        WA args[3];
        for (int i = 0; i < w.nth; i++) {
            args[i] = WA{&w, i};
            pthread_create(&th[i], nullptr, worker, &args[i]);
        }
        for (int i = 0; i < w.nth; i++) pthread_join(th[i], nullptr);
    });
    if (ctx.failed) return;
    for (auto &ti : ds::threads())
        if (ti.id != 0) PBT_CHECK(ti.done && ti.joins == 1, "thread t%d: done=%d joins=%d", ti.id, ti.done, ti.joins);
    for (int u = 0; u < 4; u++) PBT_CHECK(!w.inf[u].on, "operation of t%d still in flight after join", u);

    // all workers joined: exact equality, every block intact
    exact_global_check(w, "after all threads were joined");
    if (ctx.failed) return;
    for (int i = 0; i < NS; i++) {
        Slot &b = w.s[i];
        PBT_CHECK(b.state != BUSY, "slot %d still busy", i);
        if (b.state != LIVE) continue;
        size_t real = 0;
        PBT_CHECK(wrapped_is_live(w, b.p, &real) && real >= b.size, "block %d is not a live block of the wrapped allocator at the end", i);
        size_t d = first_diff(b.p, b.serial, b.size);
        PBT_CHECK(d == b.size, "contents of block %d changed at byte %zu (seen after join)", i, d);
    }

    uint64_t switches = ds::stats().switches;
    if (w.level != AWS_MEMTRACE_NONE && w.moved && w.kept && w.overlapped) ctx.nontrivial = true;
    ctx.tag(w.level == 0 ? "level_none" : w.level == 1 ? "level_bytes" : "level_stacks");
    ctx.tag(w.akind == 0 ? "alloc_galloc_full" : w.akind == 1 ? "alloc_galloc_basic" : w.akind == 2 ? "alloc_arena_full" : "alloc_arena_basic");
    ctx.tag(w.nth == 2 ? "threads_2" : "threads_3");
    if (w.overlapped) ctx.tag("ops_overlapped");
    if (w.overlapped >= 5) ctx.tag("ops_overlapped_ge5");
    if (w.moved) ctx.tag("realloc_moved");
    if (w.kept) ctx.tag("realloc_kept");
    if (w.handovers) ctx.tag("handover");
    if (w.foreign_ops) ctx.tag("realloc_or_release_by_non_maker");
    if (w.exact_checks) ctx.tag("query_exact");
    if (w.set_checks) ctx.tag("query_with_ops_in_flight");
    if (w.skipped_checks) ctx.tag("query_overlapped_skipped");
    if (w.barrier_checks) ctx.tag("barrier_check");
    if (w.dumps_live) ctx.tag("dump_with_live_blocks");
    if (arena::S.reused) ctx.tag("arena_address_reused");
    if (switches >= 4) ctx.tag("switches_ge_4");
    if (switches >= 20) ctx.tag("switches_ge_20");

    // release everything (single-threaded from here): both figures go back to zero
    for (int i = 0; i < NS; i++) {
        Slot &b = w.s[i];
        if (b.state != LIVE) continue;
        void *p = b.p;
        b = Slot();
        aws_mem_release(w.tr, p);
        exact_global_check(w, "final release");
        if (ctx.failed) return;
    }
    PBT_CHECK(aws_mem_tracer_bytes(w.tr) == 0 && aws_mem_tracer_count(w.tr) == 0, "everything released: bytes %zu count %zu",
              aws_mem_tracer_bytes(w.tr), aws_mem_tracer_count(w.tr));
    struct aws_allocator *back = aws_mem_tracer_destroy(w.tr);
    PBT_CHECK(back == wrapped, "aws_mem_tracer_destroy returned %p, the wrapped allocator is %p", (void *)back, (void *)wrapped);
    aws_logger_set(nullptr);
    if (w.akind >= 2) {
        PBT_CHECK(arena::check_all(), "%s", arena::S.msg);
        PBT_CHECK(arena::S.live == 0, "%d blocks of the wrapped allocator still held at the end", arena::S.live);
    } else {
        const char *m = nullptr;
        PBT_CHECK(galloc::check_all(&m), "%s", m ? m : "");
        PBT_CHECK(galloc::live_blocks() == 0, "%zu blocks of the wrapped allocator still held at the end", galloc::live_blocks());
    }
}

int main(int argc, char **argv) {
    Spec sp{"C17", "c17_memtrace_mt", gen_case, run,
            "2-3 threads, <=60 ops (acquire, calloc, realloc grow/shrink/same/to 0/from NULL, release, hand-over of a block to another "
            "thread, dump, queries, yields, <=3 barriers) on one tracer at level NONE/BYTES/STACKS over galloc full/basic or a cell arena "
            "that reuses freed addresses at once, under generated schedules (walk / bounded preemption / PCT); non-trivial = level != "
            "NONE, >=1 realloc moved and >=1 kept the block, and >=1 operation started while another thread's operation was in flight",
            /*isolate=*/true};
    return pbt_main(argc, argv, sp);
}

// C03 — second engine for the "many threads allocate and free concurrently" clause: FREE-RUNNING threads under
// ThreadSanitizer.  A bin whose lock / unlock calls were removed is atomic under the controlled scheduler (c03_sba_mt:
// no decision point inside the section) and only visible as a data race; see c17_race.cpp and DESIGN 4.4 / 9.4 (e).
// 2-4 threads run generated programs of acquire / calloc / realloc / release / query on thread-private blocks through one
// multi-threaded small-block allocator, optionally followed by a phase in which every thread releases its neighbour's
// blocks (so that chunks are freed by a thread that did not allocate them).
//
// op = {thread, kind, size index, slot}
#include "pbt.hpp"
#include "galloc.hpp"

#include <aws/common/allocator.h>
#include <aws/common/common.h>

#include <atomic>
#include <memory>
#include <thread>

using namespace pbt;

enum { ACQ = 0, CALLOC = 1, REALLOC = 2, REL = 3, QUERY = 4, NKINDS = 5 };
static const int MAXT = 4, SLOTS = 10;
// requests above the largest class are left to c03_sba / c03_sba_mt: on their release the allocator looks for its tag at the
// page-aligned address below the block, which is foreign memory that another thread may be writing - a race by design
static const size_t SIZES[] = {1, 16, 17, 32, 33, 64, 65, 100, 128, 129, 256, 257, 300, 512};
static const int NSIZES = 14;
static size_t class_of(size_t n) { // the size class of a request: smallest of 32..512 that holds it; 0 = parent
    for (size_t c = 32; c <= 512; c *= 2)
        if (n <= c) return c;
    return 0;
}

static Case gen_case() {
    Case c;
    // cfg: threads 2..4, second phase: every thread releases its neighbour's blocks
    c.cfg = {pick(0, 2), pick(0, 1)};
    c.ops = op_list(60, [] {
        uint64_t t = pick(0, MAXT - 1);
        // a thread mostly stays inside one or two size classes, so that threads meet in the same bin
        uint64_t sz = chance(60) ? pick(0, 4) : pick(0, NSIZES - 1);
        switch (weighted({6, 2, 3, 5, 1})) {
        case 0: return mkop(ACQ, {t, sz, pick(0, SLOTS - 1)});
        case 1: return mkop(CALLOC, {t, sz, pick(0, SLOTS - 1)});
        case 2: return mkop(REALLOC, {t, sz, pick(0, SLOTS - 1)});
        case 3: return mkop(REL, {t, 0, pick(0, SLOTS - 1)});
        default: return mkop(QUERY, {t});
        }
    });
    return c;
}

struct Blk {
    uint8_t *p = nullptr;
    size_t n = 0;
    size_t cls = 0; // size class of the chunk the block lives in (a shrinking realloc keeps the chunk)
};
struct Th {
    std::vector<Op> prog;
    Blk slot[SLOTS];
    std::string err;
};
static uint8_t pat(const void *p, size_t i) {
    return (uint8_t)(((uintptr_t)p >> 4) * 31 + i * 7 + 1);
}
static void fill(Blk &b, size_t from) {
    for (size_t i = from; i < b.n; i++) b.p[i] = pat(nullptr, i);
}
static bool intact(const Blk &b, size_t upto, size_t *where) {
    for (size_t i = 0; i < upto; i++)
        if (b.p[i] != pat(nullptr, i)) {
            *where = i;
            return false;
        }
    return true;
}

static void run_thread(struct aws_allocator *tr, Th *th) {
    for (auto &op : th->prog) {
        Blk &b = th->slot[op.arg(2) % SLOTS];
        size_t n = SIZES[op.arg(1) % NSIZES];
        size_t w = 0;
        switch (op.kind % NKINDS) {
        case ACQ:
        case CALLOC:
            if (b.p) break;
            b.p = (uint8_t *)(op.kind % NKINDS == ACQ ? aws_mem_acquire(tr, n) : aws_mem_calloc(tr, 1, n));
            b.n = n;
            b.cls = class_of(n);
            if (!b.p) {
                th->err = "acquire returned NULL";
                return;
            }
            if (op.kind % NKINDS == CALLOC)
                for (size_t i = 0; i < n; i++)
                    if (b.p[i]) {
                        th->err = fmt("calloc(%zu): byte %zu is not zero", n, i);
                        return;
                    }
            fill(b, 0);
            break;
        case REALLOC: {
            if (!b.p) break;
            void *p = b.p;
            if (aws_mem_realloc(tr, &p, b.n, n) != AWS_OP_SUCCESS || !p) {
                th->err = "realloc failed";
                return;
            }
            size_t keep = std::min(b.n, n);
            if ((uint8_t *)p != b.p) b.cls = class_of(n);
            else if (n > b.cls) {
                th->err = fmt("realloc(%zu -> %zu) kept the block in place although its chunk holds %zu bytes", b.n, n, b.cls);
                return;
            }
            b.p = (uint8_t *)p;
            b.n = n;
            if (!intact(b, keep, &w)) {
                th->err = fmt("realloc to %zu lost the old contents at byte %zu", n, w);
                return;
            }
            fill(b, keep);
            break;
        }
        case REL:
            if (!b.p) break;
            if (!intact(b, b.n, &w)) {
                th->err = fmt("block of %zu bytes damaged at byte %zu before its release", b.n, w);
                return;
            }
            aws_mem_release(tr, b.p);
            b = Blk{};
            break;
        case QUERY: {
            // other threads are in flight: only sanity (both figures cover at least this thread's own live blocks)
            size_t mine = 0;
            for (auto &s : th->slot)
                if (s.p) mine += s.cls;
            size_t active = aws_small_block_allocator_bytes_active(tr), reserved = aws_small_block_allocator_bytes_reserved(tr);
            if (active < mine) {
                th->err = fmt("bytes_active %zu while this thread alone holds small blocks of %zu class bytes", active, mine);
                return;
            }
            (void)reserved;
            break;
        }
        }
    }
}

static void run(const Case &c, Ctx &ctx) {
    galloc::reset();
    int T = (int)(2 + c.c(0) % 3);
    bool handover = c.c(1) % 2 == 1;
    struct aws_allocator *tr = aws_small_block_allocator_new(galloc::full(), true);
    PBT_CHECK(tr != nullptr);

    std::vector<std::unique_ptr<Th>> ths;
    for (int i = 0; i < T; i++) ths.emplace_back(new Th);
    for (auto &op : c.ops) ths[(size_t)(op.arg(0) % (uint64_t)T)]->prog.push_back(op);

    auto quiescent = [&](const char *when) {
        size_t eb = 0;
        std::vector<std::pair<uintptr_t, size_t>> iv;
        for (auto &t : ths)
            for (auto &s : t->slot)
                if (s.p) {
                    eb += s.cls;
                    iv.emplace_back((uintptr_t)s.p, s.n);
                    PBT_CHECK(((uintptr_t)s.p & 15) == 0, "%s: block %p is not 16-byte aligned", when, (void *)s.p);
                    size_t w = 0;
                    PBT_CHECK(intact(s, s.n, &w), "%s: live block of %zu bytes damaged at byte %zu", when, s.n, w);
                }
        std::sort(iv.begin(), iv.end());
        for (size_t i = 1; i < iv.size(); i++)
            PBT_CHECK(iv[i - 1].first + iv[i - 1].second <= iv[i].first, "%s: live blocks [%p,+%zu) and [%p,+%zu) overlap", when, (void *)iv[i - 1].first,
                      iv[i - 1].second, (void *)iv[i].first, iv[i].second);
        size_t b = aws_small_block_allocator_bytes_active(tr);
        PBT_CHECK(b == eb, "%s (all threads joined): bytes_active %zu, size classes of the live small blocks sum to %zu", when, b, eb);
    };
    {
        std::vector<std::thread> run;
        for (auto &t : ths) run.emplace_back(run_thread, tr, t.get());
        for (auto &r : run) r.join();
    }
    for (auto &t : ths) PBT_CHECK(t->err.empty(), "%s", t->err.c_str());
    quiescent("after the parallel phase");
    if (handover) {
        std::vector<std::thread> run;
        for (int i = 0; i < T; i++)
            run.emplace_back([&, i] {
                Th &other = *ths[(size_t)((i + 1) % T)];
                for (auto &s : other.slot)
                    if (s.p) {
                        aws_mem_release(tr, s.p);
                        s = Blk{};
                    }
            });
        for (auto &r : run) r.join();
        quiescent("after the hand-over phase");
        ctx.tag("handover_release");
    }
    for (auto &t : ths)
        for (auto &s : t->slot)
            if (s.p) {
                aws_mem_release(tr, s.p);
                s = Blk{};
            }
    PBT_CHECK(aws_small_block_allocator_bytes_active(tr) == 0, "everything released: bytes_active %zu", aws_small_block_allocator_bytes_active(tr));
    size_t page = aws_small_block_allocator_page_size(tr);
    PBT_CHECK(aws_small_block_allocator_bytes_reserved(tr) <= 5 * page, "everything released: bytes_reserved %zu (> one page of %zu per size class)",
              aws_small_block_allocator_bytes_reserved(tr), page);
    aws_small_block_allocator_destroy(tr);
    const char *gm = nullptr;
    PBT_CHECK(galloc::check_all(&gm), "%s", gm ? gm : "");
    PBT_CHECK(galloc::live_blocks() == 0, "%zu blocks (%zu bytes) of the parent allocator are still live after destroy", galloc::live_blocks(),
              galloc::live_bytes());

    int busy = 0;
    for (auto &t : ths)
        if (t->prog.size() >= 3) busy++;
    if (busy >= 2) ctx.nontrivial = true;
    ctx.tag("threads_" + std::to_string(T));
}

int main(int argc, char **argv) {
    Spec sp{"C03", "c03_race", gen_case, run,
            "free-running threads under ThreadSanitizer: 2-4 threads with generated programs of acquire / calloc / realloc / release / query on "
            "thread-private blocks (sizes around every class boundary) through one multi-threaded small-block allocator, "
            "optionally a second phase in which every thread releases its neighbour's blocks. Oracle: no data race report; blocks aligned, disjoint, "
            "contents kept; bytes_active exact whenever all threads are joined, zero at the end, at most one page per class reserved, parent balanced. "
            "Non-trivial = at least two threads with three or more operations; distinct by hash of the serialised case"};
    return pbt_main(argc, argv, sp);
}

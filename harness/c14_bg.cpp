// C14 (part B, threads) — with the background channel each thread's lines reach the writer in the
// order that thread logged them, none is lost, duplicated, torn or written after clean-up returns, and
// clean-up flushes everything already accepted.  Runs under the controlled scheduler.
#include "pbt.hpp"
#include "galloc.hpp"
#include "detsched/sched_glue.hpp"

#include <aws/common/common.h>
#include <aws/common/log_channel.h>
#include <aws/common/log_formatter.h>
#include <aws/common/log_writer.h>
#include <aws/common/logging.h>
#include <aws/common/string.h>

#include <pthread.h>

using namespace pbt;

enum { LINE = 0, YIELD = 1, WRITER_DELAY = 2 };
static const int MAXT = 4;

static Case gen_case() {
    Case c;
    uint64_t nt = pick(1, MAXT);
    // cfg: threads, logger (0..3 pipeline + background channel, 4 pipeline + foreground channel, 5 no-alloc logger
    // into a memory stream), main also logs (0/1), level
    c.cfg = {nt, pick(0, 5), pick(0, 1), pick(3, 6), chance(30) ? pick(1, 65535) : 0};
    c.ops = op_list(30, [=] {
        switch (weighted({6, 3, 2})) {
        case 0: return mkop(LINE, {pick(0, nt - 1), pick(1, 6), pick(0, 300), (uint64_t)(chance(6) ? 1 : 0)});
        case 1: return mkop(YIELD, {pick(0, nt - 1), pick(1, 4)});
        default: return mkop(WRITER_DELAY, {pick(0, 5)});
        }
    });
    c.ops.push_back(dsg::gen_schedule(600));
    return c;
}

struct Sent {
    int thread, seq, level;
    std::string msg;
    std::string tid;
};
struct World {
    Ctx *ctx;
    const Case *c;
    int nt;
    int level;
    struct aws_logger logger;
    std::vector<Sent> sent[MAXT + 1];
    std::vector<std::string> written;
    std::vector<int> written_on;
    std::vector<bool> written_in_cleanup; // the line reached the writer while aws_log_channel_clean_up was running
    bool cleaning = false;
    bool cleaned = false;
    std::vector<uint64_t> delays;
    size_t di = 0;
    size_t queued_at_cleanup = 0;
    uint64_t writer_fail_mask = 0;
    int writer_failures = 0;
    int format_failures = 0;
};
static World *W;

static std::string tid_repr() {
    pthread_t t = pthread_self();
    unsigned char b[sizeof t];
    memcpy(b, &t, sizeof t);
    std::string s;
    for (size_t i = sizeof t; i-- > 0;) s += fmt("%02x", b[i]);
    return s;
}

static int writer_write(struct aws_log_writer *, const struct aws_string *out) {
    World &w = *W;
    if (w.cleaned) w.ctx->note_fail("a line was written after aws_log_channel_clean_up returned");
    w.written.emplace_back((const char *)aws_string_bytes(out), out->len);
    w.written_on.push_back(ds::self());
    w.written_in_cleanup.push_back(w.cleaning);
    if (!w.delays.empty()) {
        uint64_t d = w.delays[w.di++ % w.delays.size()];
        for (uint64_t i = 0; i < d; i++) ds::point();
    }
    // a writer may fail for one line (disk full, ...): that must not cost any *other* accepted line
    if (w.writer_fail_mask && ((w.writer_fail_mask >> (w.written.size() % 16)) & 1)) {
        w.writer_failures++;
        return aws_raise_error(AWS_ERROR_FILE_WRITE_FAILURE);
    }
    return AWS_OP_SUCCESS;
}
static void writer_clean_up(struct aws_log_writer *) {}
static struct aws_log_writer_vtable writer_vt = {writer_write, writer_clean_up};

static void log_lines(World &w, int t) {
    std::string tid = tid_repr();
    int seq = 0;
    for (auto &op : w.c->ops) {
        if (op.kind == dsg::SCHED_OP || op.kind == WRITER_DELAY) continue;
        if ((int)(op.arg(0) % (uint64_t)w.nt) != t && t < w.nt) continue;
        if (t == w.nt && op.kind != LINE) continue; // main: logs a copy of every 3rd line op
        if (w.ctx->failed) break;
        if (op.kind == YIELD) {
            for (uint64_t i = 0; i < op.arg(1) % 5; i++) ds::point();
            continue;
        }
        int lv = (int)(1 + op.arg(1) % 6);
        std::string pad((size_t)(op.arg(2) % 301), (char)('a' + t));
        std::string msg = fmt("t%d:%d:", t, seq) + pad;
        if (t == w.nt && (seq % 3) != 0) {
            seq++;
            continue;
        }
        if (op.arg(3) % 2 == 1) {
            // a call whose arguments cannot be formatted (a wide string the "C" locale cannot convert makes vsnprintf
            // fail): no line is produced for it - and it must not disturb any later call
            static const wchar_t bad[] = {L'x', (wchar_t)0x100, 0};
            AWS_LOGF((enum aws_log_level)lv, AWS_LS_COMMON_GENERAL, "t%d:%d:%ls", t, seq, bad);
            w.format_failures++;
            seq++;
            continue;
        }
        AWS_LOGF((enum aws_log_level)lv, AWS_LS_COMMON_GENERAL, "t%d:%d:%s", t, seq, pad.c_str());
        if (lv <= w.level) w.sent[t].push_back(Sent{t, seq, lv, msg, tid});
        seq++;
    }
}
struct Arg {
    World *w;
    int t;
};
static void *sender(void *p) {
    Arg *a = (Arg *)p;
    log_lines(*a->w, a->t);
    return nullptr;
}

static const char *LEVELS[] = {"NONE", "FATAL", "ERROR", "WARN", "INFO", "DEBUG", "TRACE"};

static void run(const Case &c, Ctx &ctx) {
    galloc::reset();
    dsg::install();
    World w;
    W = &w;
    w.ctx = &ctx;
    w.c = &c;
    w.nt = (int)(1 + (c.c(0, 1) + MAXT - 1) % MAXT);
    w.level = (int)(3 + c.c(3) % 4);
    int kind = (int)(c.c(1) % 6);
    bool background = kind <= 3;
    bool noalloc = kind == 5;
    FILE *mem = nullptr;
    char *membuf = nullptr;
    size_t memsz = 0;
    bool main_logs = c.c(2) % 2 == 1;
    w.writer_fail_mask = c.c(4) & 0xffff;
    for (auto &op : c.ops)
        if (op.kind == WRITER_DELAY) w.delays.push_back(op.arg(0) % 6);
    struct aws_allocator *alloc = galloc::full();
    struct aws_log_writer writer = {&writer_vt, alloc, nullptr};
    struct aws_log_formatter formatter;
    struct aws_log_channel channel;
    int bg_thread = -1;

    ds::Config cfg = dsg::to_config(dsg::find_schedule(c), 80000);
    cfg.max_virtual_ns = 3600ull * 1000000000ull;
    ds::run(cfg, [&] {
        if (noalloc) {
            mem = open_memstream(&membuf, &memsz);
            struct aws_logger_standard_options lo = {(enum aws_log_level)w.level, nullptr, mem};
            if (!mem || aws_logger_init_noalloc(&w.logger, alloc, &lo) != AWS_OP_SUCCESS) return ctx.note_fail("no-alloc logger init failed");
        } else {
            struct aws_log_formatter_standard_options fo = {AWS_DATE_FORMAT_ISO_8601};
            if (aws_log_formatter_init_default(&formatter, alloc, &fo) != AWS_OP_SUCCESS) return ctx.note_fail("formatter init");
            int rc = background ? aws_log_channel_init_background(&channel, alloc, &writer) : aws_log_channel_init_foreground(&channel, alloc, &writer);
            if (rc != AWS_OP_SUCCESS) return ctx.note_fail("channel init failed");
            if (background) bg_thread = 1; // first thread created inside the run
            if (aws_logger_init_from_external(&w.logger, alloc, &formatter, &channel, &writer, (enum aws_log_level)w.level) != AWS_OP_SUCCESS)
                return ctx.note_fail("logger init failed");
        }
        aws_logger_set(&w.logger);
        pthread_t th[MAXT];
        Arg args[MAXT];
        for (int i = 0; i < w.nt; i++) {
            args[i] = Arg{&w, i};
            pthread_create(&th[i], nullptr, sender, &args[i]);
        }
        if (main_logs) log_lines(w, w.nt);
        for (int i = 0; i < w.nt; i++) pthread_join(th[i], nullptr);
        size_t total = 0;
        for (int t = 0; t <= w.nt; t++) total += w.sent[t].size();
        w.queued_at_cleanup = total - w.written.size();
        aws_logger_set(nullptr);
        if (noalloc) {
            // the no-alloc logger writes each line from the calling thread: everything is in the stream by now
            fflush(mem);
            size_t start = 0;
            for (size_t i = 0; i < memsz; i++)
                if (membuf[i] == '\n') {
                    w.written.emplace_back(membuf + start, i + 1 - start);
                    w.written_on.push_back(-1);
                    w.written_in_cleanup.push_back(false);
                    start = i + 1;
                }
            if (start != memsz) ctx.note_fail(fmt("the stream ends with %zu bytes that are not newline-terminated", memsz - start));
            w.cleaned = true;
            if (w.written.size() != total) ctx.note_fail(fmt("the no-alloc logger wrote %zu lines, %zu were accepted", w.written.size(), total));
            aws_logger_clean_up(&w.logger);
            fclose(mem);
            free(membuf);
            return;
        }
        w.cleaning = true;
        aws_log_channel_clean_up(&channel); // must flush everything already accepted
        w.cleaning = false;
        w.cleaned = true;
        size_t now_written = w.written.size();
        if (now_written != total) ctx.note_fail(fmt("clean-up returned with %zu of %zu accepted lines written", now_written, total));
        if (background) {
            auto th2 = ds::threads();
            if (th2.size() > 1 && (!th2[1].done || th2[1].joins != 1))
                ctx.note_fail(fmt("clean-up returned but the background thread: done=%d joins=%d", th2[1].done, th2[1].joins));
        }
        aws_logger_clean_up(&w.logger);
        aws_log_formatter_clean_up(&formatter);
    });
    if (ctx.failed) return;

    // exactly once, whole, per-thread order
    size_t next[MAXT + 1] = {0};
    for (size_t i = 0; i < w.written.size(); i++) {
        const std::string &line = w.written[i];
        PBT_CHECK(!line.empty() && line.back() == '\n' && line.find('\n') == line.size() - 1, "torn line: [%s]", line.substr(0, 120).c_str());
        PBT_CHECK(line.find('\0') == std::string::npos, "NUL in line");
        size_t dash = line.find(" - t");
        PBT_CHECK(dash != std::string::npos, "no message in line [%s]", line.substr(0, 120).c_str());
        int t = -1, seq = -1;
        PBT_CHECK(sscanf(line.c_str() + dash + 3, "t%d:%d:", &t, &seq) == 2 && t >= 0 && t <= w.nt, "unparsable message in [%s]", line.substr(0, 120).c_str());
        PBT_CHECK(next[t] < w.sent[t].size(), "thread %d: more lines written than accepted (duplicate?)", t);
        const Sent &s = w.sent[t][next[t]++];
        PBT_CHECK(s.seq == seq, "thread %d: line %d written where %d was next (lost, duplicated or reordered)", t, seq, s.seq);
        std::string expect_tail = " - " + s.msg + "\n";
        PBT_CHECK(line.size() > expect_tail.size() && line.compare(line.size() - expect_tail.size(), expect_tail.size(), expect_tail) == 0,
                  "message of t%d:%d torn or altered", t, seq);
        std::string lp = std::string("[") + LEVELS[s.level] + "] [";
        PBT_CHECK(line.compare(0, lp.size(), lp) == 0, "level prefix of t%d:%d wrong: [%s]", t, seq, line.substr(0, 40).c_str());
        PBT_CHECK(line.find("] [" + s.tid + "] [aws-c-common]") != std::string::npos, "thread id / subject of t%d:%d wrong: [%s]", t, seq,
                  line.substr(0, 100).c_str());
        // a sender must not do the writing itself; the statement leaves open whether what is still queued at clean-up is
        // written by the background thread or by the thread that cleans up
        if (background)
            PBT_CHECK(w.written_on[i] == bg_thread || w.written_in_cleanup[i], "line written on t%d outside clean-up, background thread is t%d",
                      w.written_on[i], bg_thread);
    }
    for (int t = 0; t <= w.nt; t++) PBT_CHECK(next[t] == w.sent[t].size(), "thread %d: %zu of %zu accepted lines written", t, next[t], w.sent[t].size());
    for (auto &ti : ds::threads())
        if (ti.id != 0) PBT_CHECK(ti.done && ti.joins == 1, "thread t%d: done=%d joins=%d at the end", ti.id, ti.done, ti.joins);
    const char *m = nullptr;
    PBT_CHECK(galloc::check_all(&m), "%s", m ? m : "");
    PBT_CHECK(galloc::live_blocks() == 0, "%zu blocks leaked (each line string must be destroyed exactly once)", galloc::live_blocks());
    if (w.queued_at_cleanup) ctx.tag("lines_queued_at_cleanup");
    ctx.tag(background ? "background" : noalloc ? "noalloc_logger_threads" : "foreground");
    if (ds::stats().switches >= 6) ctx.tag("switches_ge_6");
    if (w.writer_failures) ctx.tag("writer_failed_for_some_line");
    if (w.format_failures) ctx.tag("call_with_unformattable_argument");
    ctx.nontrivial = (background || noalloc) && w.written.size() >= 3 && (w.queued_at_cleanup > 0 || ds::stats().switches >= 6);
}

int main(int argc, char **argv) {
    aws_common_library_init(aws_default_allocator());
    Spec sp{"C14", "c14_bg", gen_case, run,
            "1..4 logging threads (+ optionally main) x <=30 tagged lines through AWS_LOGF into a background (80%) or foreground "
            "channel with a recording writer that may stall, clean-up after joining the senders; generated schedules; non-trivial = "
            "background channel, >=3 lines written, and lines still queued when clean-up was entered or >=6 context switches",
            /*isolate=*/true};
    return pbt_main(argc, argv, sp);
}

// C05 (UTF-8 part) — the verdict of the UTF-8 decoder and the code points it reports do not depend on how the text
// is split across aws_utf8_decoder_update() calls; one decoder object is reusable after finalize / reset.
//
// Oracle: the one-shot call aws_decode_utf8() is compared with the incremental decoder under a generated chunking, under
// byte-at-a-time chunking and under the mirrored chunking (same decoder object throughout the case).  No external
// validator is consulted.  Where the generator knows the class of the text by construction (harness-encoded scalar values
// <= U+10FFFF; or exactly one of: truncated tail, overlong form, surrogate, stray continuation byte, invalid lead byte,
// lead byte followed by a non-continuation byte) the documented RFC 3629 verdict is asserted as well; texts with code
// points above U+10FFFF and random byte strings carry no expectation (only invariance).  See DESIGN.md section 5 / C05.
#include "pbt.hpp"
#include "galloc.hpp"

#include <aws/common/byte_buf.h>
#include <aws/common/encoding.h>
#include <aws/common/error.h>

using namespace pbt;

// ------------------------------------------------------------------ harness-side encoder
static int natural_len(uint32_t cp) { return cp < 0x80 ? 1 : cp < 0x800 ? 2 : cp < 0x10000 ? 3 : 4; }
static std::string enc_cp(uint32_t cp, int len = 0) {
    if (!len) len = natural_len(cp);
    std::string o;
    switch (len) {
    case 1: o.push_back((char)cp); break;
    case 2:
        o.push_back((char)(0xC0 | (cp >> 6)));
        o.push_back((char)(0x80 | (cp & 0x3F)));
        break;
    case 3:
        o.push_back((char)(0xE0 | (cp >> 12)));
        o.push_back((char)(0x80 | ((cp >> 6) & 0x3F)));
        o.push_back((char)(0x80 | (cp & 0x3F)));
        break;
    default:
        o.push_back((char)(0xF0 | (cp >> 18)));
        o.push_back((char)(0x80 | ((cp >> 12) & 0x3F)));
        o.push_back((char)(0x80 | ((cp >> 6) & 0x3F)));
        o.push_back((char)(0x80 | (cp & 0x3F)));
        break;
    }
    return o;
}

// ------------------------------------------------------------------ generator
// op: a = {fail_at, expect, ncuts, cut_1..cut_ncuts, cp_1..cp_k}, b = text.
//   fail_at  0 = the callback always succeeds; k = the k-th callback invocation raises an error
//   expect   0 = none, 1 = valid by construction (cp_1..cp_k are the code points), 2 = invalid by construction
enum { EX_NONE, EX_VALID, EX_INVALID };
enum { D_NONE, D_TRUNCATED, D_OVERLONG, D_SURROGATE, D_STRAY_CONT, D_BAD_LEAD, D_BROKEN_CONT, D_ABOVE_MAX, D_RANDOM, ND };
static const char *D_NAMES[ND] = {"valid", "truncated_tail", "overlong", "surrogate", "stray_continuation", "invalid_lead_byte",
                                  "lead_then_non_continuation", "above_U+10FFFF", "random_bytes"};

static uint32_t gen_valid_cp() {
    switch (weighted({22, 20, 20, 18, 20})) {
    case 0: return (uint32_t)pick(0, 0x7F);
    case 1: return (uint32_t)pick(0x80, 0x7FF);
    case 2: {
        uint32_t v = (uint32_t)pick(0x800, 0xFFFF - 0x800);
        return v >= 0xD800 ? v + 0x800 : v;
    }
    case 3: return (uint32_t)pick(0x10000, 0x10FFFF);
    default: return (uint32_t)one_of({0, 0x7F, 0x80, 0x7FF, 0x800, 0xFFFF, 0x10000, 0x10FFFF, 0xD7FF, 0xE000, 0xFFFD, 0xFEFF, 0xFFF, 0x1000, 0x3FFFF, 0x40000});
    }
}

static Op gen_text() {
    size_t k = chance(85) ? pick(0, 6) : pick(0, 40);
    std::vector<std::string> pieces;
    std::vector<uint64_t> cps;
    for (size_t i = 0; i < k; i++) {
        uint32_t cp = gen_valid_cp();
        cps.push_back(cp);
        pieces.push_back(enc_cp(cp));
    }
    unsigned dmg = (unsigned)weighted({38, 10, 10, 8, 8, 6, 9, 5, 6});
    uint64_t expect = dmg == D_NONE ? EX_VALID : (dmg == D_ABOVE_MAX || dmg == D_RANDOM) ? EX_NONE : EX_INVALID;
    size_t at = pick(0, pieces.size()); // insertion index
    switch (dmg) {
    case D_TRUNCATED: { // an incomplete sequence at the very end
        uint32_t cp = (uint32_t)one_of({0x80, 0x7FF, 0x800, 0xFFFF, 0x10000, 0x10FFFF, pick(0x80, 0x10FFFF)});
        if (cp >= 0xD800 && cp <= 0xDFFF) cp = 0x20AC;
        std::string p = enc_cp(cp);
        p.resize(pick(1, p.size() - 1));
        pieces.push_back(p);
        break;
    }
    case D_OVERLONG: {
        uint32_t cp;
        int len;
        switch (pick(0, 2)) {
        case 0:
            cp = (uint32_t)one_of({0, 0x2F, 0x7F, pick(0, 0x7F)});
            len = (int)pick(2, 4);
            break;
        case 1:
            cp = (uint32_t)one_of({0x80, 0x7FF, pick(0x80, 0x7FF)});
            len = (int)pick(3, 4);
            break;
        default:
            cp = (uint32_t)one_of({0x800, 0xFFFF, 0xD7FF, 0xE000, pick(0x800, 0xD7FF)});
            len = 4;
            break;
        }
        pieces.insert(pieces.begin() + at, enc_cp(cp, len));
        break;
    }
    case D_SURROGATE: pieces.insert(pieces.begin() + at, enc_cp((uint32_t)one_of({0xD800, 0xDBFF, 0xDC00, 0xDFFF, pick(0xD800, 0xDFFF)}), 3)); break;
    case D_STRAY_CONT: pieces.insert(pieces.begin() + at, std::string(1, (char)pick(0x80, 0xBF))); break;
    case D_BAD_LEAD: pieces.insert(pieces.begin() + at, std::string(1, (char)pick(0xF8, 0xFF))); break;
    case D_BROKEN_CONT: {
        std::string p = enc_cp((uint32_t)one_of({0x80, 0x7FF, 0x800, 0xFFFD, 0x10000, 0x10FFFF, 0xE9, 0x20AC, 0x1F600}));
        size_t j = pick(1, p.size() - 1);
        p[j] = (char)(chance(50) ? pick(0x00, 0x7F) : pick(0xC0, 0xFF));
        p.resize(chance(50) ? j + 1 : p.size());
        pieces.insert(pieces.begin() + at, p);
        break;
    }
    case D_ABOVE_MAX: pieces.insert(pieces.begin() + at, enc_cp((uint32_t)one_of({0x110000, 0x1FFFFF, pick(0x110000, 0x1FFFFF)}), 4)); break;
    case D_RANDOM: pieces.insert(pieces.begin() + at, bytes(0, 12)); break;
    default: break;
    }
    std::string text;
    std::vector<size_t> inner; // positions strictly inside a multi-byte piece
    for (auto &p : pieces) {
        for (size_t j = 1; j < p.size(); j++) inner.push_back(text.size() + j);
        text += p;
    }
    size_t ncuts = weighted({10, 30, 25, 15, 10, 10});
    std::vector<uint64_t> cuts;
    for (size_t i = 0; i < ncuts; i++) {
        if (!cuts.empty() && chance(20)) cuts.push_back(cuts.back()); // empty chunk
        else if (!inner.empty() && chance(60)) cuts.push_back(inner[pick(0, inner.size() - 1)]);
        else cuts.push_back(pick(0, text.size()));
    }
    uint64_t fail_at = chance(12) ? pick(1, 8) : 0;
    Op op;
    op.kind = 0;
    op.a = {fail_at, expect, (uint64_t)cuts.size()};
    op.a.insert(op.a.end(), cuts.begin(), cuts.end());
    // a[3+ncuts] = damage class (statistics only), then the code points when valid by construction
    op.a.push_back(dmg);
    if (expect == EX_VALID) op.a.insert(op.a.end(), cps.begin(), cps.end());
    op.b = text;
    return op;
}

static Case gen_case() {
    Case c;
    c.cfg = {pick(0, 1)};
    c.ops = op_list(8, [] { return gen_text(); });
    return c;
}

// ------------------------------------------------------------------ running
struct Rec {
    std::vector<uint32_t> cps;
    uint64_t fail_at = 0;
};
static const int CALLBACK_ERROR = AWS_ERROR_INVALID_INDEX; // any code other than INVALID_UTF8
static int on_cp(uint32_t cp, void *ud) {
    Rec *r = (Rec *)ud;
    r->cps.push_back(cp);
    if (r->fail_at && r->cps.size() == r->fail_at) return aws_raise_error(CALLBACK_ERROR);
    return AWS_OP_SUCCESS;
}
struct Outcome {
    int rc = 0, err = 0;
    std::vector<uint32_t> cps;
};
// bytes handed to the library live in exact-size heap blocks: an over-read is an ASan report
struct In {
    uint8_t *p;
    size_t n;
    explicit In(const std::string &s) : n(s.size()) {
        p = (uint8_t *)malloc(n ? n : 1);
        if (n) memcpy(p, s.data(), n);
    }
    ~In() { free(p); }
    In(const In &) = delete;
};
typedef int (*oneshot_fn)(struct aws_byte_cursor, const struct aws_utf8_decoder_options *);
static Outcome one_shot(oneshot_fn f, const std::string &text, uint64_t fail_at, bool with_callback) {
    Rec rec;
    rec.fail_at = fail_at;
    struct aws_utf8_decoder_options opt = {on_cp, &rec};
    In in(text);
    aws_reset_error();
    Outcome o;
    o.rc = f(aws_byte_cursor_from_array(in.p, in.n), with_callback ? &opt : nullptr);
    o.err = o.rc ? aws_last_error() : 0;
    o.cps = rec.cps;
    return o;
}
static Outcome chunked(struct aws_utf8_decoder *dec, Rec *rec, const std::string &text, std::vector<size_t> cuts, bool null_for_empty) {
    if (rec) rec->cps.clear();
    std::sort(cuts.begin(), cuts.end());
    cuts.push_back(text.size());
    Outcome o;
    size_t prev = 0;
    bool failed = false;
    for (size_t b : cuts) {
        In in(text.substr(prev, b - prev));
        struct aws_byte_cursor cur = aws_byte_cursor_from_array(in.p, in.n);
        if (in.n == 0 && null_for_empty) cur.ptr = nullptr;
        aws_reset_error();
        int rc = aws_utf8_decoder_update(dec, cur);
        if (rc) {
            o.rc = rc;
            o.err = aws_last_error();
            failed = true;
            break;
        }
        prev = b;
    }
    if (!failed) {
        aws_reset_error();
        o.rc = aws_utf8_decoder_finalize(dec);
        o.err = o.rc ? aws_last_error() : 0;
    } else {
        aws_utf8_decoder_reset(dec); // documented way back to the initial state after a failed update
    }
    if (rec) o.cps = rec->cps;
    return o;
}
static std::string show_cps(const std::vector<uint32_t> &v) {
    std::string s;
    for (size_t i = 0; i < v.size() && i < 12; i++) s += fmt("%sU+%04X", i ? " " : "", v[i]);
    if (v.size() > 12) s += fmt(" ... (%zu)", v.size());
    return s;
}
static void same(const char *what, const std::string &text, const Outcome &ref, const Outcome &o) {
    PBT_CHECK(o.rc == ref.rc, "text %s: one-shot rc %d, %s rc %d (err %d)", hex(text).c_str(), ref.rc, what, o.rc, o.err);
    PBT_CHECK(o.err == ref.err, "text %s: one-shot raises %d, %s raises %d", hex(text).c_str(), ref.err, what, o.err);
    PBT_CHECK(o.cps == ref.cps, "text %s: one-shot reports [%s], %s reports [%s]", hex(text).c_str(), show_cps(ref.cps).c_str(), what,
              show_cps(o.cps).c_str());
}

static void run(const Case &c, Ctx &ctx) {
    galloc::reset();
    Rec rec;
    struct aws_utf8_decoder_options opt = {on_cp, &rec};
    struct aws_utf8_decoder *dec = aws_utf8_decoder_new(galloc::full(), &opt);
    struct aws_utf8_decoder *dec_plain = aws_utf8_decoder_new(galloc::full(), nullptr);
    PBT_CHECK(dec && dec_plain);
    bool null_for_empty = c.c(0) & 1;

    for (auto &op : c.ops) {
        const std::string &text = op.b;
        size_t n = text.size();
        uint64_t fail_at = op.arg(0);
        uint64_t expect = op.arg(1) % 3;
        size_t ncuts = (size_t)std::min<uint64_t>(op.arg(2), op.a.size() > 3 ? op.a.size() - 3 : 0);
        std::vector<size_t> cuts;
        for (size_t i = 0; i < ncuts; i++) cuts.push_back((size_t)(op.arg(3 + i) % (n + 1)));
        unsigned dmg = (unsigned)(op.arg(3 + ncuts) % ND);
        std::vector<uint32_t> want;
        for (size_t i = 4 + ncuts; i < op.a.size(); i++) want.push_back((uint32_t)op.a[i]);

        rec.fail_at = fail_at;
        Outcome ref = one_shot(aws_decode_utf8, text, fail_at, true);
        PBT_CHECK(ref.rc == AWS_OP_SUCCESS || ref.rc == AWS_OP_ERR, "aws_decode_utf8 returned %d", ref.rc);
        Outcome plain = one_shot(aws_decode_utf8, text, 0, false);
        if (fail_at == 0 || ref.cps.size() < fail_at) {
            PBT_CHECK(plain.rc == ref.rc && plain.err == ref.err, "text %s: verdict with a succeeding callback (rc %d err %d) differs from the verdict without callback (rc %d err %d)",
                      hex(text).c_str(), ref.rc, ref.err, plain.rc, plain.err);
        }

        // incremental, same decoder object re-used: generated chunking, byte-at-a-time, mirrored chunking
        same("the generated chunking", text, ref, chunked(dec, &rec, text, cuts, null_for_empty));
        std::vector<size_t> each;
        for (size_t i = 1; i < n; i++) each.push_back(i);
        same("byte-at-a-time chunking", text, ref, chunked(dec, &rec, text, each, null_for_empty));
        std::vector<size_t> mirrored;
        for (size_t p : cuts) mirrored.push_back(n - p);
        same("the mirrored chunking", text, ref, chunked(dec, &rec, text, mirrored, !null_for_empty));
        Outcome pc = chunked(dec_plain, nullptr, text, cuts, null_for_empty);
        PBT_CHECK(pc.rc == plain.rc && pc.err == plain.err, "text %s, no callback: one-shot rc %d err %d, generated chunking rc %d err %d", hex(text).c_str(),
                  plain.rc, plain.err, pc.rc, pc.err);

        // what the generator knows by construction
        if (expect == EX_VALID) {
            PBT_CHECK(plain.rc == AWS_OP_SUCCESS, "valid text %s rejected (err %d)", hex(text).c_str(), plain.err);
            if (fail_at == 0 || fail_at > want.size()) {
                PBT_CHECK(ref.rc == AWS_OP_SUCCESS, "valid text %s rejected (err %d)", hex(text).c_str(), ref.err);
                PBT_CHECK(ref.cps == want, "text %s: reported [%s], encoded [%s]", hex(text).c_str(), show_cps(ref.cps).c_str(), show_cps(want).c_str());
            } else {
                PBT_CHECK(ref.rc == AWS_OP_ERR && ref.err == CALLBACK_ERROR, "callback failed at code point %" PRIu64 " but the call returned rc %d err %d", fail_at,
                          ref.rc, ref.err);
                PBT_CHECK(ref.cps.size() == fail_at && std::equal(ref.cps.begin(), ref.cps.end(), want.begin()),
                          "text %s: callback failing at invocation %" PRIu64 " saw [%s], encoded [%s]", hex(text).c_str(), fail_at, show_cps(ref.cps).c_str(),
                          show_cps(want).c_str());
            }
        } else if (expect == EX_INVALID) {
            PBT_CHECK(plain.rc == AWS_OP_ERR && plain.err == AWS_ERROR_INVALID_UTF8, "text %s (%s) was not rejected with INVALID_UTF8: rc %d err %d", hex(text).c_str(),
                      D_NAMES[dmg], plain.rc, plain.err);
            PBT_CHECK(ref.rc == AWS_OP_ERR, "text %s (%s) accepted", hex(text).c_str(), D_NAMES[dmg]);
        }

        // statistics
        ctx.tag(fmt("text:%s", D_NAMES[dmg]));
        ctx.tag(plain.rc == AWS_OP_SUCCESS ? "verdict:valid" : "verdict:invalid");
        if (fail_at && ref.cps.size() >= fail_at) ctx.tag("callback_raised");
        bool inside = false, empty = false;
        std::vector<size_t> sorted = cuts;
        std::sort(sorted.begin(), sorted.end());
        for (size_t i = 0; i < sorted.size(); i++) {
            size_t p = sorted[i];
            if (p > 0 && p < n && ((unsigned char)text[p] & 0xC0) == 0x80 && (unsigned char)text[p - 1] >= 0x80) inside = true;
            if (p == 0 || p == n || (i && sorted[i - 1] == p)) empty = true;
        }
        if (inside) {
            ctx.tag("cut_inside_multibyte_sequence");
            ctx.nontrivial = true;
        }
        if (empty) ctx.tag("empty_chunk");
        if (ncuts == 0) ctx.tag("single_chunk");
    }
    aws_utf8_decoder_destroy(dec);
    aws_utf8_decoder_destroy(dec_plain);
    const char *m = nullptr;
    PBT_CHECK(galloc::check_all(&m), "%s", m ? m : "");
    PBT_CHECK(galloc::live_blocks() == 0, "decoder not released: %zu blocks live", galloc::live_blocks());
}

int main(int argc, char **argv) {
    Spec sp{"C05", "c05_utf8", gen_case, run,
            "cases of <=8 texts: harness-encoded code-point sequences (1-4 byte forms, all length boundaries), optionally damaged in one of 8 ways, "
            "each with 0-5 generated cut points (60% inside a multi-byte sequence, repeated cuts = empty chunks) and optionally a callback that "
            "fails at the k-th code point; non-trivial = a generated cut point inside a multi-byte sequence; distinct by hash of the serialised case"};
    return pbt_main(argc, argv, sp);
}

// C13 (part 2) — percent-coding and query-string iteration on raw byte strings.
//   decode(encode_path(x)) == x and decode(encode_param(x)) == x for all byte strings; encoded output is
//   unreserved characters, "%XX" with upper-case hex and (paths only) '/', and equals an independent
//   reference encoder; the bytes already in the output buffer are untouched, for every starting length and
//   capacity; a malformed '%' is reported as MALFORMED_INPUT_STRING; aws_query_string_next_param yields the
//   reference split (on '&', empty pieces dropped, key/value at the first '=') once, in order, and agrees
//   with aws_query_string_params.
// See DESIGN.md section 5 / C13.
//
// Caller obligations respected by construction: the output buffer is a valid dynamic buffer (it has an
// allocator: the coders call aws_byte_buf_reserve_relative, which refuses a buffer without one); the
// parameter list handed to aws_query_string_params is initialised with item size sizeof(aws_uri_param).
#include "pbt.hpp"
#include "galloc.hpp"

#include <aws/common/array_list.h>
#include <aws/common/common.h>
#include <aws/common/error.h>
#include <aws/common/uri.h>

using namespace pbt;

enum { ENC_PATH, ENC_PARAM, DECODE, ROUNDTRIP, QITER, NKINDS };

static bool is_unreserved(unsigned char c) {
    return (c >= 'a' && c <= 'z') || (c >= 'A' && c <= 'Z') || (c >= '0' && c <= '9') || c == '-' || c == '.' || c == '_' || c == '~';
}
static int hexval(unsigned char c) {
    if (c >= '0' && c <= '9') return c - '0';
    if (c >= 'a' && c <= 'f') return c - 'a' + 10;
    if (c >= 'A' && c <= 'F') return c - 'A' + 10;
    return -1;
}

// ---------------------------------------------------------------- reference coders
static std::string ref_encode(const std::string &in, bool path) {
    static const char *HX = "0123456789ABCDEF";
    std::string o;
    for (unsigned char ch : in) {
        if (is_unreserved(ch) || (path && ch == '/')) o.push_back((char)ch);
        else {
            o.push_back('%');
            o.push_back(HX[ch >> 4]);
            o.push_back(HX[ch & 15]);
        }
    }
    return o;
}
static bool ref_decode(const std::string &in, std::string &out) {
    out.clear();
    for (size_t i = 0; i < in.size(); i++) {
        if (in[i] != '%') {
            out.push_back(in[i]);
            continue;
        }
        if (i + 2 >= in.size()) return false; // needs two more characters
        int h = hexval((unsigned char)in[i + 1]), l = hexval((unsigned char)in[i + 2]);
        if (h < 0 || l < 0) return false;
        out.push_back((char)(h * 16 + l));
        i += 2;
    }
    return true;
}
typedef std::pair<std::string, std::string> KV;
static std::vector<KV> ref_params(const std::string &q, size_t *empty_pairs, size_t *no_eq) {
    std::vector<KV> out;
    size_t pos = 0;
    for (;;) {
        size_t amp = q.find('&', pos);
        std::string piece = q.substr(pos, amp == std::string::npos ? std::string::npos : amp - pos);
        if (piece.empty()) ++*empty_pairs;
        else {
            size_t eq = piece.find('=');
            if (eq == std::string::npos) {
                ++*no_eq;
                out.push_back({piece, ""});
            } else
                out.push_back({piece.substr(0, eq), piece.substr(eq + 1)});
        }
        if (amp == std::string::npos) break;
        pos = amp + 1;
    }
    return out;
}

// ---------------------------------------------------------------- generator
static std::string g_raw() {
    size_t n;
    switch (weighted({8, 10, 62, 15, 5})) {
    case 0: n = 0; break;
    case 1: n = 1; break;
    case 2: n = (size_t)pick(2, 24); break;
    case 3: n = (size_t)pick(25, 200); break;
    default: n = (size_t)pick(201, 1500); break;
    }
    unsigned style = (unsigned)weighted({30, 25, 15, 10, 10, 10});
    static const std::string UNR = "abcxyzABCXYZ0189-._~";
    // reserved and other characters, the neighbours of the alnum ranges ('/' ':' '@' '[' '`' '{'), controls, high bytes, NUL
    static const std::string EDGE = std::string("/ %+&=?#:@[]!$'()*,;\"<>\\^`{|}/:@[`{\x7f\x01\x1f\x80\xff") + std::string(1, '\0');
    std::string s;
    for (size_t i = 0; i < n; i++) {
        switch (style) {
        case 0: s.push_back((char)pick(0, 255)); break;
        case 1: s.push_back(chance(50) ? UNR[pick(0, UNR.size() - 1)] : EDGE[pick(0, EDGE.size() - 1)]); break;
        case 2: s.push_back((char)pick(0x20, 0x7e)); break;
        case 3: s.push_back(UNR[pick(0, UNR.size() - 1)]); break;
        case 4: s.push_back(EDGE[pick(0, EDGE.size() - 1)]); break;
        default: s.push_back(chance(25) ? '/' : chance(50) ? (char)pick(0x80, 0xff) : (char)pick('a', 'z')); break;
        }
    }
    return s;
}
static std::string g_encoded() { // text for the decoder: literals, well-formed escapes in both cases, and malformed ones
    static const char *HX = "0123456789abcdefABCDEF";
    static const std::string BAD = "gGxX/:@`%-. \x7f\xff";
    size_t n = (size_t)weighted({6, 10, 50, 30, 4});
    n = n == 0 ? 0 : n == 1 ? 1 : n == 2 ? (size_t)pick(2, 12) : n == 3 ? (size_t)pick(13, 80) : (size_t)pick(81, 600);
    bool malformed = chance(30);
    size_t bad_at = malformed ? (size_t)pick(0, n ? n - 1 : 0) : SIZE_MAX;
    std::string s;
    for (size_t i = 0; i < n; i++) {
        if (i == bad_at) {
            switch (pick(0, 4)) {
            case 0: s += "%"; s.push_back(BAD[pick(0, BAD.size() - 1)]); s.push_back(HX[pick(0, 21)]); break;
            case 1: s += "%"; s.push_back(HX[pick(0, 21)]); s.push_back(BAD[pick(0, BAD.size() - 1)]); break;
            case 2: s += "%%41"; break;
            case 3: if (i + 1 == n) { s += "%"; break; } // a lone '%' at the very end
                    s += "%"; s.push_back(BAD[pick(0, BAD.size() - 1)]); break;
            default: if (i + 1 == n) { s += "%"; s.push_back(HX[pick(0, 21)]); break; } // '%' + one digit at the very end
                    s += "%"; s.push_back(HX[pick(0, 21)]); s.push_back(BAD[pick(0, BAD.size() - 1)]); break;
            }
            continue;
        }
        unsigned r = (unsigned)pick(0, 99);
        if (r < 35) {
            s += "%";
            s.push_back(HX[pick(0, 21)]);
            s.push_back(HX[pick(0, 21)]);
        } else if (r < 45) s.push_back("+/&=?~._-"[pick(0, 8)]);
        else if (r < 50) s.push_back((char)pick(0, 255) == '%' ? 'p' : (char)pick(0, 255));
        else s.push_back((char)pick('a', 'z'));
    }
    if (malformed && chance(50)) s += one_of_v<std::string>({"%", "%4", "%f", "%G", "%%"});
    // a stray '%' drawn by the byte generator above would make a "well-formed" text malformed; the oracle decides from the text anyway
    return s;
}
static std::string g_query() {
    size_t n = (size_t)weighted({12, 14, 20, 20, 17, 17});
    static const std::string C = "abkvXY019-._~%/?:@+ ";
    auto word = [&](size_t maxlen, bool eq) {
        size_t m = (size_t)weighted({25, 35, 40});
        m = m == 2 ? (size_t)pick(2, maxlen) : m;
        std::string w;
        for (size_t i = 0; i < m; i++) w.push_back(chance(6) ? (eq ? '=' : ';') : chance(4) ? (char)pick(0, 255) : C[pick(0, C.size() - 1)]);
        for (auto &ch : w)
            if (ch == '&' || (!eq && ch == '=')) ch = ';';
        return w;
    };
    std::string q;
    for (size_t i = 0; i < n; i++) {
        if (i) q += "&";
        switch (weighted({24, 22, 32, 9, 9, 4})) {
        case 0: break;
        case 1: q += word(6, false); break;
        case 2: q += word(6, false) + "=" + word(7, true); break;
        case 3: q += word(5, false) + "="; break;
        case 4: q += "=" + word(5, true); break;
        default: q += "="; break;
        }
    }
    return q;
}

static Case gen_case() {
    Case c;
    c.cfg = {0};
    c.ops = op_list(10, [] {
        // a = {prior length class, capacity class, cursor flavour}
        std::initializer_list<uint64_t> a = {pick(0, 9), pick(0, 8), pick(0, 3)};
        switch (weighted({22, 22, 24, 16, 16})) {
        case 0: return mkop(ENC_PATH, a, g_raw());
        case 1: return mkop(ENC_PARAM, a, g_raw());
        case 2: return mkop(DECODE, a, g_encoded());
        case 3: return mkop(ROUNDTRIP, a, g_raw());
        default: return mkop(QITER, a, g_query());
        }
    });
    return c;
}

// ---------------------------------------------------------------- oracle
static const size_t PRIOR[] = {0, 0, 1, 2, 7, 16, 63, 64, 257, 1000};

struct Out {
    struct aws_byte_buf buf;
    std::string prior;
};
// a dynamic output buffer holding `prior` bytes already, with a capacity chosen relative to what the call will need
static void make_out(Out &o, uint64_t prior_class, uint64_t cap_class, size_t in_len) {
    size_t L = PRIOR[prior_class % 10];
    size_t extra;
    switch (cap_class % 9) {
    case 0: extra = 0; break;
    case 1: extra = 1; break;
    case 2: extra = in_len; break;
    case 3: extra = in_len ? in_len - 1 : 0; break;
    case 4: extra = 3 * in_len; break;
    case 5: extra = 3 * in_len ? 3 * in_len - 1 : 0; break;
    case 6: extra = 3 * in_len + 1; break;
    case 7: extra = in_len + 1; break;
    default: extra = 3 * in_len + 100; break;
    }
    PBT_CHECK(aws_byte_buf_init(&o.buf, galloc::full(), L + extra) == AWS_OP_SUCCESS);
    o.prior.resize(L);
    for (size_t i = 0; i < L; i++) o.prior[i] = (char)(i * 37 + 11);
    if (L) memcpy(o.buf.buffer, o.prior.data(), L);
    o.buf.len = L;
}
static void check_out(const Out &o, const char *what, const std::string &in) {
    const char *m = nullptr;
    PBT_CHECK(galloc::check_all(&m), "%s of %zu bytes [%s]: %s", what, in.size(), hex(in.substr(0, 40)).c_str(), m ? m : "");
    PBT_CHECK(o.buf.len <= o.buf.capacity, "%s: len %zu > capacity %zu", what, o.buf.len, o.buf.capacity);
    PBT_CHECK(o.buf.len >= o.prior.size() && (o.prior.empty() || memcmp(o.buf.buffer, o.prior.data(), o.prior.size()) == 0),
              "%s of [%s]: the %zu bytes that were in the buffer before the call changed (len now %zu)", what, hex(in.substr(0, 40)).c_str(), o.prior.size(),
              o.buf.len);
    PBT_CHECK(o.buf.buffer == nullptr || galloc::is_live(o.buf.buffer), "%s: buffer is not a live block of its allocator", what);
}
static std::string tail(const Out &o) {
    return o.buf.len > o.prior.size() ? std::string((const char *)o.buf.buffer + o.prior.size(), o.buf.len - o.prior.size()) : std::string();
}
// exact-size heap copy (a read past the cursor is an ASan report); empty input as {NULL,0} or as a zero-length view
struct In {
    char *p = nullptr;
    struct aws_byte_cursor c;
    In(const std::string &s, uint64_t flavour) {
        if (s.empty() && flavour % 2 == 0) {
            c.ptr = nullptr;
            c.len = 0;
            return;
        }
        p = (char *)malloc(s.size() ? s.size() : 1);
        memcpy(p, s.data(), s.size());
        c = aws_byte_cursor_from_array(p, s.size());
    }
    ~In() { free(p); }
};

static void check_alphabet(const std::string &enc, bool path, const std::string &in) {
    for (size_t i = 0; i < enc.size(); i++) {
        unsigned char ch = (unsigned char)enc[i];
        if (is_unreserved(ch) || (path && ch == '/')) continue;
        bool esc = ch == '%' && i + 2 < enc.size();
        if (esc) {
            unsigned char a = (unsigned char)enc[i + 1], b = (unsigned char)enc[i + 2];
            esc = ((a >= '0' && a <= '9') || (a >= 'A' && a <= 'F')) && ((b >= '0' && b <= '9') || (b >= 'A' && b <= 'F'));
        }
        PBT_CHECK(esc, "%s encoding of [%s] contains byte 0x%02x at offset %zu that is neither unreserved%s nor a %%XX escape with upper-case hex: \"%s\"",
                  path ? "path" : "param", hex(in.substr(0, 40)).c_str(), ch, i, path ? " nor '/'" : "", enc.substr(0, 120).c_str());
        i += 2;
    }
}

static std::string encode_checked(const std::string &in, bool path, const Op &op, bool *mixed) {
    Out o;
    make_out(o, op.arg(0), op.arg(1), in.size());
    In ic(in, op.arg(2));
    aws_reset_error();
    int rc = path ? aws_byte_buf_append_encoding_uri_path(&o.buf, &ic.c) : aws_byte_buf_append_encoding_uri_param(&o.buf, &ic.c);
    const char *what = path ? "encode_path" : "encode_param";
    PBT_CHECK(rc == AWS_OP_SUCCESS, "%s of [%s] failed: %s", what, hex(in.substr(0, 40)).c_str(), aws_error_name(aws_last_error()));
    check_out(o, what, in);
    std::string enc = tail(o), want = ref_encode(in, path);
    check_alphabet(enc, path, in);
    PBT_CHECK(enc == want, "%s of [%s] wrote \"%s\", the reference encoding is \"%s\"", what, hex(in.substr(0, 40)).c_str(), enc.substr(0, 150).c_str(),
              want.substr(0, 150).c_str());
    if (mixed) {
        bool esc = false, plain = false;
        for (unsigned char ch : in) (is_unreserved(ch) || (path && ch == '/') ? plain : esc) = true;
        *mixed = esc && plain && !o.prior.empty();
    }
    aws_byte_buf_clean_up(&o.buf);
    return enc;
}

static bool decode_checked(const std::string &text, const Op &op, std::string *out, Ctx &ctx) {
    Out o;
    make_out(o, op.arg(0) + 3, op.arg(1), text.size());
    In ic(text, op.arg(2));
    std::string want;
    bool ok = ref_decode(text, want);
    aws_reset_error();
    int rc = aws_byte_buf_append_decoding_uri(&o.buf, &ic.c);
    int err = aws_last_error();
    check_out(o, "decode", text);
    if (ok) {
        PBT_CHECK(rc == AWS_OP_SUCCESS, "decode of \"%s\" [%s] failed: %s", text.substr(0, 80).c_str(), hex(text.substr(0, 40)).c_str(), aws_error_name(err));
        std::string got = tail(o);
        PBT_CHECK(got == want, "decode of \"%s\" [%s] wrote [%s], expected [%s]", text.substr(0, 80).c_str(), hex(text.substr(0, 40)).c_str(),
                  hex(got.substr(0, 60)).c_str(), hex(want.substr(0, 60)).c_str());
        if (out) *out = got;
    } else {
        PBT_CHECK(rc == AWS_OP_ERR, "decode of \"%s\" [%s] succeeded although it contains a '%%' that is not followed by two hex digits",
                  text.substr(0, 80).c_str(), hex(text.substr(0, 40)).c_str());
        PBT_CHECK(err == AWS_ERROR_MALFORMED_INPUT_STRING, "decode of malformed \"%s\" reported %s", text.substr(0, 80).c_str(), aws_error_name(err));
        ctx.tag("decode_malformed");
    }
    aws_byte_buf_clean_up(&o.buf);
    return ok;
}

static void query_checked(const std::string &q, const Op &op, Ctx &ctx, bool *nt) {
    size_t empty_pairs = 0, no_eq = 0;
    std::vector<KV> want = ref_params(q, &empty_pairs, &no_eq);
    In ic(q, op.arg(2));
    const uint8_t *lo = ic.c.ptr, *hi = ic.c.ptr + ic.c.len;
    auto cs = [](const struct aws_byte_cursor &c) { return c.len ? std::string((const char *)c.ptr, c.len) : std::string(); };
    auto in = [&](const struct aws_byte_cursor &c) { return c.ptr != nullptr && c.ptr >= lo && c.ptr <= hi && c.len <= (size_t)(hi - c.ptr); };
    struct aws_uri_param p;
    AWS_ZERO_STRUCT(p);
    size_t i = 0;
    while (aws_query_string_next_param(ic.c, &p)) {
        PBT_CHECK(i < want.size(), "query [%s]: iteration yields a %zu. pair, the reference split has %zu", hex(q.substr(0, 60)).c_str(), i + 1, want.size());
        PBT_CHECK(cs(p.key) == want[i].first && cs(p.value) == want[i].second, "query \"%s\" [%s]: pair %zu is [%s]=[%s], reference [%s]=[%s]",
                  q.substr(0, 80).c_str(), hex(q.substr(0, 60)).c_str(), i, hex(cs(p.key)).c_str(), hex(cs(p.value)).c_str(), hex(want[i].first).c_str(),
                  hex(want[i].second).c_str());
        PBT_CHECK(in(p.key) && in(p.value), "query [%s]: pair %zu points outside the query string", hex(q.substr(0, 60)).c_str(), i);
        i++;
        PBT_CHECK(i <= q.size() + 2, "iteration does not end");
    }
    PBT_CHECK(i == want.size(), "query \"%s\" [%s]: iteration ended after %zu pairs, the reference split has %zu", q.substr(0, 80).c_str(),
              hex(q.substr(0, 60)).c_str(), i, want.size());
    struct aws_array_list l;
    PBT_CHECK(aws_array_list_init_dynamic(&l, galloc::full(), op.arg(1) % 4, sizeof(struct aws_uri_param)) == AWS_OP_SUCCESS);
    int rc = aws_query_string_params(ic.c, &l);
    size_t n = aws_array_list_length(&l);
    bool ok = rc == AWS_OP_SUCCESS && n == want.size();
    for (size_t k = 0; ok && k < n; k++) {
        struct aws_uri_param e;
        aws_array_list_get_at(&l, &e, k);
        ok = cs(e.key) == want[k].first && cs(e.value) == want[k].second && in(e.key) && in(e.value);
    }
    aws_array_list_clean_up(&l);
    PBT_CHECK(ok, "query \"%s\" [%s]: the list form (rc %d, %zu entries) disagrees with the iteration / reference split (%zu pairs)", q.substr(0, 80).c_str(),
              hex(q.substr(0, 60)).c_str(), rc, n, want.size());
    if (empty_pairs && no_eq) {
        *nt = true;
        ctx.tag("query_empty_pair_and_no_eq");
    }
    if (q.empty()) ctx.tag("query_empty_string");
}

static void run(const Case &c, Ctx &ctx) {
    galloc::reset();
    bool nt = false;
    for (auto &op : c.ops) {
        int k = op.kind % NKINDS;
        if (k < 0) k += NKINDS;
        switch (k) {
        case ENC_PATH:
        case ENC_PARAM: {
            bool mixed = false;
            encode_checked(op.b, k == ENC_PATH, op, &mixed);
            if (mixed) nt = true;
            if (PRIOR[op.arg(0) % 10]) ctx.tag("encode_into_nonempty_buffer");
            if (op.b.empty()) ctx.tag("encode_empty_input");
            break;
        }
        case DECODE: {
            bool ok = decode_checked(op.b, op, nullptr, ctx);
            if (ok && op.b.find('%') != std::string::npos) {
                ctx.tag("decode_with_escapes");
                nt = true;
            }
            break;
        }
        case ROUNDTRIP: {
            for (int path = 0; path < 2; path++) {
                bool mixed = false;
                std::string enc = encode_checked(op.b, path == 1, op, &mixed);
                std::string back;
                bool ok = decode_checked(enc, op, &back, ctx);
                PBT_CHECK(ok && back == op.b, "decode(encode_%s(x)) != x for x = [%s]: encoded \"%s\", decoded [%s]", path ? "path" : "param",
                          hex(op.b.substr(0, 40)).c_str(), enc.substr(0, 120).c_str(), hex(back.substr(0, 40)).c_str());
                if (mixed) nt = true;
            }
            ctx.tag("roundtrip");
            break;
        }
        default: query_checked(op.b, op, ctx, &nt); break;
        }
    }
    ctx.nontrivial = nt;
}

int main(int argc, char **argv) {
    aws_common_library_init(aws_default_allocator()); // error names in messages
    Spec sp{"C13", "c13_uri_codec", gen_case, run,
            "<=10 operations per case: path/param encoding of byte strings (all 256 values, range neighbours of the alnum classes, 0..1500 "
            "bytes), decoding of texts with well-formed escapes in both cases and malformed '%', encode->decode round trips, query iteration "
            "over raw strings; output buffers with 0..1000 prior bytes and 9 capacity classes around n and 3n; non-trivial = an encode of an "
            "input with both escaped and pass-through bytes into a buffer with prior content, a decode with >=1 escape, or a query with >=1 "
            "empty pair and >=1 pair without '='; distinct by hash of the serialised case"};
    return pbt_main(argc, argv, sp);
}

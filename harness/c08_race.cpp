// C08 — second engine: client threads and the scheduler thread FREE-RUNNING under ThreadSanitizer.
//
// c08_thread_sched explores interleavings at lock / condition-variable / atomic / clock operations.  A hand-over queue
// that is pushed to or swapped out without its mutex has no decision point inside the now unlocked section and is
// atomic there (DESIGN 4.4 / 9.4 e); on really parallel threads it is a data race.  1-3 client threads schedule
// (now / near future / far future) and cancel their own far tasks through one thread scheduler with real time; main
// then drops the last reference.  Oracle: no data race report, plus the statement: every task function invoked exactly
// once (RUN or CANCELED), RUN only on the scheduler thread and not before its time, nothing
// invoked after the final release returned, nothing leaked.
//
// cfg = {clients 1..3, main sleeps before the release 0..3}    op = {client, kind, delay class}
#include "pbt.hpp"
#include "galloc.hpp"

#include <aws/common/clock.h>
#include <aws/common/task_scheduler.h>
#include <aws/common/thread.h>
#include <aws/common/thread_scheduler.h>

#include <atomic>
#include <memory>
#include <thread>

using namespace pbt;

enum { SCHED_NOW = 0, SCHED_FUTURE = 1, CANCEL = 2, YIELD = 3, NKINDS = 4 };
// near delays elapse during the case (real clock); far ones (3 s, 5 s) do not - unless the case stalls.  Hour-long and
// "never" times are left to c08_thread_sched (virtual clock): the final release stores should_exit and notifies without
// holding the mutex, so a wake-up that falls between the scheduler thread's predicate test and its wait is lost and the
// release then lasts until the next task time or the 30 s idle time-out.  That is latency, not a violation of the
// statement (DESIGN 9.4 b), but in real time it must stay short: main schedules a sentinel one second ahead right
// before the release, which bounds any such wait.
static const uint64_t DELTAS[] = {0, 20000ull, 300000ull, 3000000000ull, 5000000000ull};
static const int MAXC = 3;

static Case gen_case() {
    Case c;
    c.cfg = {pick(0, 2), pick(0, 3)};
    c.ops = op_list(40, [] {
        uint64_t cl = pick(0, MAXC - 1);
        switch (weighted({5, 5, 3, 1})) {
        case 0: return mkop(SCHED_NOW, {cl});
        case 1: return mkop(SCHED_FUTURE, {cl, weighted({2, 3, 2, 4, 1})});
        case 2: return mkop(CANCEL, {cl, pick(0, 7)});
        default: return mkop(YIELD, {cl, pick(1, 3)});
        }
    });
    return c;
}

struct World;
struct TaskRec {
    struct aws_task task;
    World *w;
    int id;
    uint64_t when = 0;
    bool far = false;
    bool cancelled = false; // written by the owning client before the cancel call
    std::atomic<int> invocations{0};
    std::atomic<int> status{-1};
    std::atomic<uint64_t> ran_at{0};
    aws_thread_id_t ran_on;
};
struct World {
    std::vector<std::unique_ptr<TaskRec>> tasks; // created before the threads start; each is used by one client
    std::atomic<bool> all_done{false};
    std::atomic<int> after_done{0};
};

static void task_fn(struct aws_task *, void *arg, enum aws_task_status status) {
    TaskRec *t = (TaskRec *)arg;
    if (t->w->all_done.load()) t->w->after_done++;
    uint64_t now = 0;
    aws_high_res_clock_get_ticks(&now);
    t->ran_at = now;
    t->ran_on = aws_thread_current_thread_id();
    t->status = (int)status;
    t->invocations++;
}

static void run(const Case &c, Ctx &ctx) {
    galloc::reset();
    int ncl = (int)(1 + c.c(0) % 3);
    World w;
    struct aws_thread_scheduler *sched = aws_thread_scheduler_new(galloc::full(), nullptr);
    PBT_CHECK(sched != nullptr, "aws_thread_scheduler_new returned NULL");

    // one task record per scheduling op, assigned up front
    std::vector<std::vector<std::pair<Op, TaskRec *>>> prog((size_t)ncl);
    for (auto &op : c.ops) {
        int cl = (int)(op.arg(0) % (uint64_t)ncl);
        TaskRec *t = nullptr;
        if (op.kind % NKINDS == SCHED_NOW || op.kind % NKINDS == SCHED_FUTURE) {
            w.tasks.emplace_back(new TaskRec);
            t = w.tasks.back().get();
            t->w = &w;
            t->id = (int)w.tasks.size() - 1;
        }
        prog[(size_t)cl].emplace_back(op, t);
    }

    {
        std::vector<std::thread> run;
        for (int cl = 0; cl < ncl; cl++)
            run.emplace_back([&, cl] {
                std::vector<TaskRec *> my_far;
                for (auto &pr : prog[(size_t)cl]) {
                    const Op &op = pr.first;
                    TaskRec *t = pr.second;
                    switch (op.kind % NKINDS) {
                    case SCHED_NOW:
                        aws_task_init(&t->task, task_fn, t, "c08r");
                        aws_thread_scheduler_schedule_now(sched, &t->task);
                        break;
                    case SCHED_FUTURE: {
                        uint64_t now = 0;
                        aws_high_res_clock_get_ticks(&now);
                        int dc = (int)(op.arg(1) % 5);
                        t->when = now + DELTAS[dc];
                        t->far = dc >= 3;
                        if (t->far) my_far.push_back(t);
                        aws_task_init(&t->task, task_fn, t, "c08r");
                        aws_thread_scheduler_schedule_future(sched, &t->task, t->when);
                        break;
                    }
                    case CANCEL: {
                        std::vector<TaskRec *> cand;
                        for (TaskRec *f : my_far)
                            if (!f->cancelled) cand.push_back(f);
                        if (cand.empty()) break;
                        TaskRec *v = cand[op.arg(1) % cand.size()];
                        v->cancelled = true;
                        aws_thread_scheduler_cancel_task(sched, &v->task);
                        break;
                    }
                    default:
                        for (uint64_t i = 0; i < op.arg(1); i++) std::this_thread::yield();
                        break;
                    }
                }
            });
        for (auto &r : run) r.join();
    }
    uint64_t ms = c.c(1) % 4;
    if (ms) aws_thread_current_sleep(ms * 100000ull); // 0.1 .. 0.3 ms: lets some of the near tasks run
    TaskRec sentinel;
    sentinel.w = &w;
    sentinel.id = -1;
    {
        uint64_t now = 0;
        aws_high_res_clock_get_ticks(&now);
        sentinel.when = now + 1000000000ull;
        aws_task_init(&sentinel.task, task_fn, &sentinel, "c08r-sentinel");
        aws_thread_scheduler_schedule_future(sched, &sentinel.task, sentinel.when);
    }
    aws_thread_scheduler_release(sched); // the only reference: joins the scheduler thread, cancels what is pending
    w.all_done = true;
    PBT_CHECK(sentinel.invocations.load() == 1, "the task scheduled last was invoked %d times by the time the final release returned",
              sentinel.invocations.load());

    aws_thread_id_t sched_thread;
    bool have_sched_thread = false;
    size_t ran = 0, cancelled_pending = 0, cancelled_req = 0;
    for (auto &tp : w.tasks) {
        TaskRec &t = *tp;
        PBT_CHECK(t.invocations.load() == 1, "task %d was invoked %d times by the time the final release returned", t.id, t.invocations.load());
        int st = t.status.load();
        if (st == (int)AWS_TASK_STATUS_RUN_READY) {
            ran++;
            PBT_CHECK(t.ran_at.load() >= t.when, "task %d ran at %llu, before its time %llu", t.id, (unsigned long long)t.ran_at.load(),
                      (unsigned long long)t.when);
            if (!have_sched_thread) sched_thread = t.ran_on, have_sched_thread = true;
            PBT_CHECK(aws_thread_thread_id_equal(sched_thread, t.ran_on), "task %d ran on a different thread than other tasks", t.id);
            PBT_CHECK(!aws_thread_thread_id_equal(aws_thread_current_thread_id(), t.ran_on), "task %d ran on the main thread", t.id);
        } else {
            PBT_CHECK(st == (int)AWS_TASK_STATUS_CANCELED, "task %d invoked with status %d", t.id, st);
            if (t.cancelled) cancelled_req++;
            else cancelled_pending++;
        }
    }
    // nothing may be invoked after the release returned: give a stray scheduler thread a moment to show itself
    if (!w.tasks.empty() && c.c(1) % 2) aws_thread_current_sleep(50000);
    PBT_CHECK(w.after_done.load() == 0, "%d task invocation(s) after the final release returned", w.after_done.load());
    const char *gm = nullptr;
    PBT_CHECK(galloc::check_all(&gm), "%s", gm ? gm : "");
    PBT_CHECK(galloc::live_blocks() == 0, "%zu blocks (%zu bytes) still allocated after the final release", galloc::live_blocks(), galloc::live_bytes());

    if (ncl >= 2 && w.tasks.size() >= 4) ctx.nontrivial = true;
    if (ran) ctx.tag("some_ran");
    if (cancelled_pending) ctx.tag("pending_at_release");
    if (cancelled_req) ctx.tag("cancelled_by_request");
    ctx.tag("clients_" + std::to_string(ncl));
}

int main(int argc, char **argv) {
    Spec sp{"C08", "c08_race", gen_case, run,
            "free-running threads under ThreadSanitizer, real clock: 1-3 client threads schedule now / +0 / +20us / +300us / +3s / +5s and cancel their "
            "own far tasks through one thread scheduler, main sleeps 0-0.3 ms and drops the only reference. Oracle: no data race report; every task "
            "invoked exactly once before the release returns, RUN only on the scheduler thread and not before its time, nothing "
            "invoked afterwards, nothing leaked. Non-trivial = at least two clients and four tasks; distinct by hash of the serialised case"};
    return pbt_main(argc, argv, sp);
}

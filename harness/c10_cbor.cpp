// C10 — CBOR encoder and decoder round-trip every item sequence.
//
// A case is a list of encoder calls.  Two interpretations (cfg[0]):
//   mode 0 "sequence": the calls are issued exactly as generated (any counts, stray breaks, ...) and decoded
//                      element by element (peek_type + typed pop / consume_next_single_element);
//   mode 1 "nested"  : the calls are repaired inside run() into well-formed nested data items (frames with remaining
//                      counts, chunks only inside indefinite strings, breaks only where they close something, padding
//                      with null at the end) followed by a sentinel; on top of the element-wise pass,
//                      consume_next_whole_data_item is checked on every top-level item and on (a bounded number of)
//                      nested items against the item ends computed by the reference reader.
// The reference reader below parses RFC 8949 heads without libcbor.  See DESIGN.md section 5 / C10.
#include "pbt.hpp"
#include "galloc.hpp"

#include <aws/common/byte_buf.h>
#include <aws/common/cbor.h>
#include <aws/common/error.h>

#include <cfloat>
#include <cmath>

// exported by source/cbor.c (used by write_float itself), not declared in the public header
extern "C" void aws_cbor_encoder_write_single_float(struct aws_cbor_encoder *encoder, float value);

using namespace pbt;

enum Kind { UINT, NEGINT, FLOAT, SFLOAT, BYTES, TEXT, ARRAY, MAP, TAG, BOOL, NUL, UNDEF, IBYTES, ITEXT, IARRAY, IMAP, BREAK, NKINDS };

static const size_t MAX_DEPTH_CAP = 64;     // consume_next_whole_data_item recurses once per level; deep nesting is another target's job
static const uint64_t MAX_STRING = 70000;   // longest generated string (65536 is the last feasible length head boundary)
static const uint64_t BIG_COUNT_BUDGET = 70000;

// ---------------------------------------------------------------------------------------------------------------
// generator
// ---------------------------------------------------------------------------------------------------------------
static uint64_t dbits(double d) {
    uint64_t b;
    memcpy(&b, &d, 8);
    return b;
}
static double bdouble(uint64_t b) {
    double d;
    memcpy(&d, &b, 8);
    return d;
}
static float bfloat(uint32_t b) {
    float f;
    memcpy(&f, &b, 4);
    return f;
}

static const std::vector<uint64_t> &int_boundaries() {
    static const std::vector<uint64_t> v = [] {
        std::vector<uint64_t> r = {0, 1, 22, 23, 24, 25, 254, 255, 256, 257, 65534, 65535, 65536, 65537,
                                   0xFFFFFFFEull, 0xFFFFFFFFull, 0x100000000ull, 0x100000001ull,
                                   0x7FFFFFFFFFFFFFFEull, 0x7FFFFFFFFFFFFFFFull, 0x8000000000000000ull, 0x8000000000000001ull,
                                   0xFFFFFFFFFFFFFFFEull, 0xFFFFFFFFFFFFFFFFull};
        return r;
    }();
    return v;
}

static const std::vector<uint64_t> &float_table() {
    static const std::vector<uint64_t> v = [] {
        std::vector<double> pos;
        const double P63 = 9223372036854775808.0, P64 = 18446744073709551616.0, P24 = 16777216.0, P53 = 9007199254740992.0;
        const double P32 = 4294967296.0;
        const double fmax = (double)FLT_MAX, fmin = (double)FLT_MIN, fsub = std::ldexp(1.0, -149);
        auto nb = [&](double x) {
            pos.push_back(x);
            pos.push_back(std::nextafter(x, INFINITY));
            pos.push_back(std::nextafter(x, 0.0));
        };
        pos.push_back(0.0);
        pos.push_back(bdouble(1));                    // smallest subnormal double
        pos.push_back(bdouble(0x000FFFFFFFFFFFFFull)); // largest subnormal double
        pos.push_back(DBL_MIN);
        nb(fsub);                                      // smallest float subnormal and its double neighbours
        pos.push_back(std::ldexp(1.0, -150));          // half of it: not a float
        pos.push_back(std::ldexp(3.0, -150));          // 1.5 * 2^-149: not a float
        pos.push_back(std::ldexp(3.0, -149));          // 3 * 2^-149: a float subnormal
        nb(fmin);
        pos.push_back(fmin - fsub);                    // largest float subnormal
        nb(fmax);
        pos.push_back(std::ldexp(1.0, 128) - std::ldexp(1.0, 103)); // FLT_MAX + half ulp: (float) would round to inf
        pos.push_back(std::ldexp(1.0, 128));
        pos.push_back(DBL_MAX);
        for (double d : {P24, P24 - 1, P24 + 1, P24 + 0.5, P24 + 2, P53, P53 - 1, P53 + 2, P53 - 0.5, P32, P32 - 1, P32 + 1, P32 - 0.5})
            pos.push_back(d);
        nb(P63);
        pos.push_back(P63 - std::ldexp(1.0, 39)); // the float just below 2^63
        pos.push_back(std::ldexp(1.0, 62));
        nb(P64);
        for (double d : {1.0, 2.0, 22.0, 23.0, 24.0, 25.0, 255.0, 256.0, 257.0, 65535.0, 65536.0, 65537.0, 0.5, 1.5, 0.1, 1e10, 1e-10,
                         3.14159, 1e300, 65504.0, 1.0 / 3, 1e19, 123456789.0, 1.25e-40})
            pos.push_back(d);
        pos.push_back(std::ldexp(1.0, -24)); // smallest half subnormal
        pos.push_back(INFINITY);
        std::vector<uint64_t> r;
        for (double d : pos) {
            r.push_back(dbits(d));
            r.push_back(dbits(-d));
        }
        for (uint64_t nanb : {0x7FF8000000000000ull, 0xFFF8000000000000ull, 0x7FF0000000000001ull, 0x7FF8000000001234ull,
                              0x7FFFFFFFFFFFFFFFull, 0xFFF0000000000001ull})
            r.push_back(nanb);
        return r;
    }();
    return v;
}

static const std::vector<uint64_t> &sfloat_table() {
    static const std::vector<uint64_t> v = {0x00000000, 0x80000000, 0x00000001, 0x007FFFFF, 0x00800000, 0x7F7FFFFF, 0xFF7FFFFF,
                                            0x7F800000, 0xFF800000, 0x7FC00000, 0xFFC00000, 0x7F800001, 0x3F800000, 0xBF800000,
                                            0x4B800000, 0x5F000000, 0xDF000000, 0x5F800000, 0x3DCCCCCD, 0x41C00000, 0x477FE000};
    return v;
}

// Random payload bits are drawn without shrinking: a 64-bit value shrinks in ~64 steps, every accepted step restarts the
// shrink of the whole call list, and failures that depend on an exact byte total then cost 10^5..10^6 evaluations.
// What shrinks: the number of calls, the call kinds, table indices, bit lengths, string lengths, counts.
static uint64_t rnd_u64() { return *rc::gen::noShrink(rc::gen::resize(100, rc::gen::arbitrary<uint64_t>())); }

static uint64_t gen_u64() {
    switch (weighted({50, 25, 25})) {
    case 0: return one_of_v(int_boundaries());
    case 1: {
        unsigned k = (unsigned)pick(0, 63);
        uint64_t top = 1ull << k;
        return top | (rnd_u64() & (top - 1));
    }
    default: return rnd_u64();
    }
}

static uint64_t gen_float_bits() {
    switch (weighted({55, 13, 10, 12, 10})) {
    case 0: return one_of_v(float_table());
    case 1: return rnd_u64();
    case 2: return dbits((double)bfloat((uint32_t)rnd_u64())); // exactly a float (may be NaN / inf)
    case 3: {                                                    // around integers of every magnitude
        unsigned k = (unsigned)pick(0, 64);
        uint64_t m = k == 64 ? rnd_u64() : ((1ull << k) | (rnd_u64() & ((1ull << k) - 1)));
        double d = (double)m;
        if (chance(25)) d += 0.5;
        if (chance(50)) d = -d;
        return dbits(d);
    }
    default: {
        double d = (double)(int64_t)pick(0, 70000) - (chance(50) ? 66000.0 : 0.0);
        if (chance(20)) d /= 8.0;
        return dbits(d);
    }
    }
}

static uint64_t gen_strlen() {
    switch (weighted({28, 27, 28, 8, 3, 2, 4})) {
    case 0: return one_of({0, 1, 22, 23, 24, 25, 255, 256, 257});
    case 1: return pick(230, 300);
    case 2: return pick(2, 40);
    case 3: return 5000;
    case 4: return pick(4980, 5020);
    case 5: return one_of({65535, 65536});
    default: return pick(301, 1200);
    }
}

static uint64_t gen_count(int mode, bool is_map) {
    if (mode == 0) return gen_u64();
    switch (weighted({78, 9, 9, 3, 1})) {
    case 0: return pick(0, 5);
    case 1: return pick(6, 26);
    case 2: return one_of({254, 255, 256, 257});
    case 3: return pick(27, 300);
    default: return is_map ? 256 : one_of({65535, 65536});
    }
}

static Case gen_case() {
    Case c;
    int mode = (int)weighted({42, 58});
    unsigned profile = (unsigned)weighted({38, 18, 14, 22, 8});
    c.cfg = {(uint64_t)mode, (profile == 4 && chance(80)) ? 3 : pick(0, 3), pick(0, 3), rnd_u64() & 0xFFFFFFFFull, pick(0, 4), profile};
    // profile 0 balanced, 1 container-heavy, 2 string-heavy, 3 number-heavy, 4 almost only container/tag starts (deep nesting)
    static const unsigned W[5][NKINDS] = {
        //  U   N   F  SF  BY  TX  AR  MP  TG  BO NUL UND IBY ITX IAR IMP BRK
        {12, 10, 16, 4, 8, 8, 8, 6, 6, 3, 2, 2, 2, 2, 4, 3, 6},
        {4, 3, 5, 1, 2, 2, 20, 12, 14, 1, 1, 1, 3, 3, 14, 10, 5},
        {3, 2, 3, 1, 30, 30, 4, 3, 3, 1, 1, 1, 5, 5, 2, 2, 6},
        {24, 20, 30, 8, 1, 1, 3, 2, 5, 1, 1, 1, 0, 0, 1, 1, 2},
        {1, 0, 1, 0, 1, 0, 22, 12, 14, 0, 1, 0, 2, 2, 16, 12, 2},
    };
    c.ops = op_list(120, [mode, profile] {
        unsigned tot = 0;
        for (unsigned w : W[profile]) tot += w;
        uint64_t r = pick(0, tot - 1);
        int k = 0;
        while (r >= W[profile][k]) r -= W[profile][k++];
        switch (k) {
        case UINT:
        case NEGINT:
        case TAG: return mkop(k, {gen_u64()});
        case FLOAT: return mkop(k, {gen_float_bits()});
        case SFLOAT: return mkop(k, {chance(60) ? one_of_v(sfloat_table()) : (rnd_u64() & 0xFFFFFFFFull)});
        case BYTES:
        case TEXT: return mkop(k, {gen_strlen(), rnd_u64() & 0xFFFF});
        case ARRAY: return mkop(k, {gen_count(mode, false)});
        case MAP: return mkop(k, {gen_count(mode, true)});
        case BOOL: return mkop(k, {pick(0, 1)});
        default: return mkop(k);
        }
    });
    return c;
}

// ---------------------------------------------------------------------------------------------------------------
// the program actually issued to the encoder
// ---------------------------------------------------------------------------------------------------------------
struct Emit {
    int kind;
    uint64_t v;    // value / bits / count / length
    std::string s; // string content
};

static std::string make_content(uint64_t len, uint64_t seed) {
    std::string s((size_t)len, '\0');
    for (size_t i = 0; i < s.size(); i++) {
        uint64_t x = (seed + 1) * 0x9E3779B97F4A7C15ull + i * 0xBF58476D1CE4E5B9ull;
        x ^= x >> 29;
        unsigned char ch = (unsigned char)(x >> 56);
        if (seed & 1) ch = (unsigned char)(0x20 + ch % 95); // printable text
        s[i] = (char)ch;
    }
    return s;
}

struct ProgInfo {
    size_t max_depth = 0;
    bool indef_in_def = false;
    size_t sentinel_elems = 0;
    bool big_count = false;
};

static Emit from_op(const Op &op, int kind) {
    Emit e{kind, op.arg(0), std::string()};
    switch (kind) {
    case BYTES:
    case TEXT: {
        uint64_t len = op.arg(0) <= MAX_STRING ? op.arg(0) : op.arg(0) % 301;
        e.v = len;
        e.s = make_content(len, op.arg(1));
        break;
    }
    case SFLOAT: e.v &= 0xFFFFFFFFull; break;
    case BOOL: e.v &= 1; break;
    case NUL:
    case UNDEF:
    case IBYTES:
    case ITEXT:
    case IARRAY:
    case IMAP:
    case BREAK: e.v = 0; break;
    default: break;
    }
    return e;
}

static std::vector<Emit> build_program(const Case &c, int mode, size_t maxdepth, unsigned sentinel, ProgInfo &pi) {
    std::vector<Emit> out;
    if (mode == 0) {
        for (auto &op : c.ops) out.push_back(from_op(op, ((op.kind % NKINDS) + NKINDS) % NKINDS));
        return out;
    }
    struct Frame {
        int kind;           // ARRAY, MAP, TAG, IBYTES, ITEXT, IARRAY, IMAP
        uint64_t remaining; // definite containers and tags: items still owed
        uint64_t count;     // indefinite: items so far
    };
    std::vector<Frame> st;
    uint64_t budget = BIG_COUNT_BUDGET;
    auto is_def = [](int k) { return k == ARRAY || k == MAP; };
    std::function<void()> item_done = [&]() {
        while (!st.empty()) {
            Frame &f = st.back();
            if (f.kind == TAG || is_def(f.kind)) {
                if (--f.remaining > 0) return;
                st.pop_back(); // container complete: it is itself an item of its parent
            } else {
                f.count++;
                return;
            }
        }
    };
    auto open = [&](Emit e, uint64_t owed) {
        if (e.kind == IARRAY || e.kind == IMAP)
            for (auto &f : st)
                if (is_def(f.kind)) pi.indef_in_def = true;
        out.push_back(e);
        st.push_back(Frame{e.kind, owed, 0});
        pi.max_depth = std::max(pi.max_depth, st.size());
    };
    auto close_top = [&]() { // emits what is needed to complete the innermost open frame
        Frame &f = st.back();
        if (f.kind == TAG || is_def(f.kind) || (f.kind == IMAP && f.count % 2 == 1)) {
            out.push_back(Emit{NUL, 0, ""});
            item_done();
        } else {
            out.push_back(Emit{BREAK, 0, ""});
            st.pop_back();
            item_done();
        }
    };
    for (auto &op : c.ops) {
        int kind = ((op.kind % NKINDS) + NKINDS) % NKINDS;
        bool in_istr = !st.empty() && (st.back().kind == IBYTES || st.back().kind == ITEXT);
        if (in_istr) { // only definite chunks of the same major type, or the break
            if (kind == BYTES || kind == TEXT) {
                Emit e = from_op(op, st.back().kind == IBYTES ? BYTES : TEXT);
                out.push_back(e);
                st.back().count++;
            } else if (kind == BREAK) {
                out.push_back(Emit{BREAK, 0, ""});
                st.pop_back();
                item_done();
            }
            continue;
        }
        switch (kind) {
        case ARRAY:
        case MAP: {
            if (st.size() >= maxdepth) break;
            uint64_t n = op.arg(0);
            uint64_t items = kind == MAP ? 2 * n : n;
            if (n > 300) {
                if ((kind == ARRAY && n <= 65536 && items <= budget) || (kind == MAP && n <= 256 && items <= budget)) {
                    budget -= items;
                    pi.big_count = true;
                } else {
                    n %= 6;
                    items = kind == MAP ? 2 * n : n;
                }
            } else if (n > 26) {
                if (items <= budget) budget -= items;
                else {
                    n %= 6;
                    items = kind == MAP ? 2 * n : n;
                }
            }
            Emit e{kind, n, ""};
            if (items == 0) {
                out.push_back(e);
                pi.max_depth = std::max(pi.max_depth, st.size() + 1);
                item_done();
            } else
                open(e, items);
            break;
        }
        case TAG:
            if (st.size() >= maxdepth) break;
            open(from_op(op, TAG), 1);
            break;
        case IBYTES:
        case ITEXT:
        case IARRAY:
        case IMAP:
            if (st.size() >= maxdepth) break;
            open(Emit{kind, 0, ""}, 0);
            break;
        case BREAK:
            if (!st.empty() && (st.back().kind == IARRAY || (st.back().kind == IMAP && st.back().count % 2 == 0))) {
                out.push_back(Emit{BREAK, 0, ""});
                st.pop_back();
                item_done();
            }
            break;
        default:
            out.push_back(from_op(op, kind));
            item_done();
            break;
        }
    }
    while (!st.empty()) close_top();
    // sentinel: what must be left over after the last item has been skipped
    switch (sentinel % 5) {
    case 0: out.push_back(Emit{UINT, 0, ""}); break;
    case 1: out.push_back(Emit{BREAK, 0, ""}); break; // a second 0xFF right after an indefinite container must not be eaten
    case 2: out.push_back(Emit{TEXT, 5, "~END~"}); break;
    case 3: out.push_back(Emit{NEGINT, UINT64_MAX, ""}); break;
    default: return out; // the last item ends where the buffer ends
    }
    pi.sentinel_elems = 1;
    return out;
}

static void issue_calls(struct aws_cbor_encoder *enc, const std::vector<Emit> &prog) {
    for (auto &e : prog) {
        switch (e.kind) {
        case UINT: aws_cbor_encoder_write_uint(enc, e.v); break;
        case NEGINT: aws_cbor_encoder_write_negint(enc, e.v); break;
        case FLOAT: aws_cbor_encoder_write_float(enc, bdouble(e.v)); break;
        case SFLOAT: aws_cbor_encoder_write_single_float(enc, bfloat((uint32_t)e.v)); break;
        case BYTES: aws_cbor_encoder_write_bytes(enc, aws_byte_cursor_from_array(e.s.data(), e.s.size())); break;
        case TEXT: aws_cbor_encoder_write_text(enc, aws_byte_cursor_from_array(e.s.data(), e.s.size())); break;
        case ARRAY: aws_cbor_encoder_write_array_start(enc, (size_t)e.v); break;
        case MAP: aws_cbor_encoder_write_map_start(enc, (size_t)e.v); break;
        case TAG: aws_cbor_encoder_write_tag(enc, e.v); break;
        case BOOL: aws_cbor_encoder_write_bool(enc, e.v != 0); break;
        case NUL: aws_cbor_encoder_write_null(enc); break;
        case UNDEF: aws_cbor_encoder_write_undefined(enc); break;
        case IBYTES: aws_cbor_encoder_write_indef_bytes_start(enc); break;
        case ITEXT: aws_cbor_encoder_write_indef_text_start(enc); break;
        case IARRAY: aws_cbor_encoder_write_indef_array_start(enc); break;
        case IMAP: aws_cbor_encoder_write_indef_map_start(enc); break;
        case BREAK: aws_cbor_encoder_write_break(enc); break;
        }
    }
}

// ---------------------------------------------------------------------------------------------------------------
// independent reference reader (RFC 8949 section 3; no libcbor)
// ---------------------------------------------------------------------------------------------------------------
enum RK { R_UINT, R_NEGINT, R_BYTES, R_TEXT, R_ARRAY, R_MAP, R_TAG, R_BOOL, R_NULL, R_UNDEF, R_F16, R_F32, R_F64,
          R_IBYTES, R_ITEXT, R_IARRAY, R_IMAP, R_BREAK, R_SIMPLE };
static const char *rk_name(int k) {
    static const char *n[] = {"uint", "negint", "bytes", "text", "array", "map", "tag", "bool", "null", "undefined", "half",
                              "single", "double", "indef-bytes", "indef-text", "indef-array", "indef-map", "break", "simple"};
    return n[k];
}
struct RElem {
    int kind;
    uint64_t arg;  // argument of the head (value, length, count, tag, simple value, float bits)
    double d;      // floats: numeric value
    size_t off;    // first byte of the head
    size_t head;   // bytes of the head
    size_t end;    // one past the element (head + payload of a definite string)
    bool shortest; // the argument could not have been written with a shorter head
};

static bool ref_parse(const uint8_t *p, size_t n, std::vector<RElem> &out, std::string &err) {
    size_t pos = 0;
    while (pos < n) {
        RElem e{};
        e.off = pos;
        e.shortest = true;
        unsigned ib = p[pos], major = ib >> 5, ai = ib & 31;
        uint64_t arg = ai;
        size_t extra = 0;
        if (ai >= 24 && ai <= 27) {
            extra = (size_t)1 << (ai - 24);
            if (n - pos - 1 < extra) {
                err = fmt("truncated head at offset %zu", pos);
                return false;
            }
            arg = 0;
            for (size_t i = 0; i < extra; i++) arg = (arg << 8) | p[pos + 1 + i];
            static const uint64_t minv[4] = {24, 256, 65536, 0x100000000ull};
            if (major != 7 && arg < minv[ai - 24]) e.shortest = false;
        } else if (ai >= 28 && ai <= 30) {
            err = fmt("reserved additional information %u at offset %zu", ai, pos);
            return false;
        }
        e.head = 1 + extra;
        e.arg = arg;
        e.end = pos + e.head;
        if (ai == 31) {
            switch (major) {
            case 2: e.kind = R_IBYTES; break;
            case 3: e.kind = R_ITEXT; break;
            case 4: e.kind = R_IARRAY; break;
            case 5: e.kind = R_IMAP; break;
            case 7: e.kind = R_BREAK; break;
            default: err = fmt("additional information 31 on major type %u at offset %zu", major, pos); return false;
            }
            e.arg = 0;
        } else {
            switch (major) {
            case 0: e.kind = R_UINT; break;
            case 1: e.kind = R_NEGINT; break;
            case 2:
            case 3:
                e.kind = major == 2 ? R_BYTES : R_TEXT;
                if (arg > n - e.end) {
                    err = fmt("string of %" PRIu64 " bytes at offset %zu runs past the end", arg, pos);
                    return false;
                }
                e.end += (size_t)arg;
                break;
            case 4: e.kind = R_ARRAY; break;
            case 5: e.kind = R_MAP; break;
            case 6: e.kind = R_TAG; break;
            default:
                if (ai == 20 || ai == 21) {
                    e.kind = R_BOOL;
                    e.arg = ai - 20;
                } else if (ai == 22) e.kind = R_NULL;
                else if (ai == 23) e.kind = R_UNDEF;
                else if (ai == 25) e.kind = R_F16;
                else if (ai == 26) {
                    e.kind = R_F32;
                    e.d = (double)bfloat((uint32_t)arg);
                } else if (ai == 27) {
                    e.kind = R_F64;
                    e.d = bdouble(arg);
                } else e.kind = R_SIMPLE;
                break;
            }
        }
        out.push_back(e);
        pos = e.end;
    }
    return true;
}

// nesting: item_end[i] = index one past the whole data item that starts with element i (SIZE_MAX: not computed)
struct Nest {
    const std::vector<RElem> &el;
    size_t limit; // elements [0,limit) must form complete items
    std::vector<size_t> item_end;
    std::string err;
    size_t walk(size_t i, unsigned depth) { // returns index after the item, or SIZE_MAX on malformed input
        if (i >= limit) {
            err = fmt("item expected at element %zu but the sequence ends", i);
            return SIZE_MAX;
        }
        if (depth > 4096) {
            err = "nesting too deep for the reference reader";
            return SIZE_MAX;
        }
        size_t j = i + 1;
        const RElem &e = el[i];
        switch (e.kind) {
        case R_BREAK: err = fmt("break at element %zu does not close anything", i); return SIZE_MAX;
        case R_TAG: j = walk(j, depth + 1); break;
        case R_ARRAY:
        case R_MAP: {
            uint64_t items = e.arg;
            if (e.kind == R_MAP) {
                if (items > UINT64_MAX / 2) {
                    err = "map count overflow";
                    return SIZE_MAX;
                }
                items *= 2;
            }
            if (items > limit - j) {
                err = fmt("container at element %zu announces %" PRIu64 " items, fewer follow", i, items);
                return SIZE_MAX;
            }
            for (uint64_t k = 0; k < items && j != SIZE_MAX; k++) j = walk(j, depth + 1);
            break;
        }
        case R_IARRAY:
        case R_IMAP: {
            uint64_t cnt = 0;
            for (;;) {
                if (j >= limit) {
                    err = fmt("indefinite container at element %zu is not closed", i);
                    return SIZE_MAX;
                }
                if (el[j].kind == R_BREAK) break;
                j = walk(j, depth + 1);
                if (j == SIZE_MAX) return SIZE_MAX;
                cnt++;
            }
            if (e.kind == R_IMAP && cnt % 2) {
                err = fmt("indefinite map at element %zu closed after a key", i);
                return SIZE_MAX;
            }
            j++; // the break
            break;
        }
        case R_IBYTES:
        case R_ITEXT:
            for (;;) {
                if (j >= limit) {
                    err = fmt("indefinite string at element %zu is not closed", i);
                    return SIZE_MAX;
                }
                if (el[j].kind == R_BREAK) break;
                if (el[j].kind != (e.kind == R_IBYTES ? R_BYTES : R_TEXT)) {
                    err = fmt("indefinite string at element %zu holds a %s", i, rk_name(el[j].kind));
                    return SIZE_MAX;
                }
                item_end[j] = j + 1;
                j++;
            }
            j++;
            break;
        default: break;
        }
        if (j != SIZE_MAX) item_end[i] = j;
        return j;
    }
};

// ---------------------------------------------------------------------------------------------------------------
// the expected stored form of a double (independent of the library's casts)
// ---------------------------------------------------------------------------------------------------------------
static bool fits_binary32(uint64_t bits) { // finite values only
    uint64_t e = (bits >> 52) & 0x7FF, m = bits & ((1ull << 52) - 1);
    if (e == 0 && m == 0) return true;
    uint64_t M = e ? (m | (1ull << 52)) : m;
    int E = e ? (int)e - 1075 : -1074;
    int tz = __builtin_ctzll(M);
    M >>= tz;
    E += tz;
    int L = 64 - __builtin_clzll(M);
    int top = E + L - 1;
    return top <= 127 && L <= 24 && E >= -149;
}

enum Form { F_UINT, F_NEGINT, F_B32, F_B64 };
static Form expected_form(double v, uint64_t *intarg) {
    if (std::isnan(v) || std::isinf(v)) return F_B32;
    const double P63 = 9223372036854775808.0;
    if (v >= -P63 && v < P63 && v == std::trunc(v)) {
        if (v >= 0) {
            *intarg = (uint64_t)v;
            return F_UINT;
        }
        *intarg = (uint64_t)(-v) - 1; // -v is in (0, 2^63]: inside uint64_t
        return F_NEGINT;
    }
    return fits_binary32(dbits(v)) ? F_B32 : F_B64;
}

static bool is_width_boundary(uint64_t v) {
    return v == 23 || v == 24 || v == 255 || v == 256 || v == 65535 || v == 65536 || v == 0xFFFFFFFFull || v == 0x100000000ull ||
           v == UINT64_MAX;
}
static bool near_bits(double a, double ref) { // |a| within 2 representable doubles of ref (> 0)
    uint64_t x = dbits(std::fabs(a)), y = dbits(ref);
    return (x > y ? x - y : y - x) <= 2;
}
static bool is_narrowing_boundary(double v) {
    if (std::isnan(v) || std::isinf(v)) return true;
    return near_bits(v, 9223372036854775808.0) || near_bits(v, (double)FLT_MAX) || near_bits(v, (double)FLT_MIN) ||
           near_bits(v, std::ldexp(1.0, -149));
}

static uint64_t mix(uint64_t a, uint64_t b) {
    uint64_t x = a * 0x9E3779B97F4A7C15ull + b * 0xD6E8FEB86659FD93ull + 0x2545F4914F6CDD1Dull;
    x ^= x >> 32;
    x *= 0xD6E8FEB86659FD93ull;
    x ^= x >> 29;
    return x;
}

static enum aws_cbor_type lib_type(const RElem &r) {
    switch (r.kind) {
    case R_UINT: return AWS_CBOR_TYPE_UINT;
    case R_NEGINT: return AWS_CBOR_TYPE_NEGINT;
    case R_BYTES: return AWS_CBOR_TYPE_BYTES;
    case R_TEXT: return AWS_CBOR_TYPE_TEXT;
    case R_ARRAY: return AWS_CBOR_TYPE_ARRAY_START;
    case R_MAP: return AWS_CBOR_TYPE_MAP_START;
    case R_TAG: return AWS_CBOR_TYPE_TAG;
    case R_BOOL: return AWS_CBOR_TYPE_BOOL;
    case R_NULL: return AWS_CBOR_TYPE_NULL;
    case R_UNDEF: return AWS_CBOR_TYPE_UNDEFINED;
    case R_F16:
    case R_F32:
    case R_F64: return AWS_CBOR_TYPE_FLOAT;
    case R_IBYTES: return AWS_CBOR_TYPE_INDEF_BYTES_START;
    case R_ITEXT: return AWS_CBOR_TYPE_INDEF_TEXT_START;
    case R_IARRAY: return AWS_CBOR_TYPE_INDEF_ARRAY_START;
    case R_IMAP: return AWS_CBOR_TYPE_INDEF_MAP_START;
    case R_BREAK: return AWS_CBOR_TYPE_BREAK;
    default: return AWS_CBOR_TYPE_UNKNOWN;
    }
}

static bool same_number(double a, double b) { return (std::isnan(a) && std::isnan(b)) || a == b; }

// ---------------------------------------------------------------------------------------------------------------
static void run(const Case &c, Ctx &ctx) {
    galloc::reset();
    static const size_t DEPTHS[4] = {3, 6, 12, MAX_DEPTH_CAP};
    int mode = (int)(c.c(0) % 2);
    size_t maxdepth = DEPTHS[c.c(1) % 4];
    unsigned flags = (unsigned)c.c(2);
    uint64_t vseed = c.c(3);
    bool from_encoder_buffer = flags & 1, peek_before_skip = flags & 2;

    ProgInfo pi;
    std::vector<Emit> prog = build_program(c, mode, maxdepth, (unsigned)c.c(4), pi);
    PBT_CHECK(pi.max_depth <= MAX_DEPTH_CAP + 1, "harness: nesting %zu beyond the cap", pi.max_depth);
    ctx.tag(mode ? "mode:nested" : "mode:sequence");

    // ---- encode -------------------------------------------------------------------------------------------------
    struct aws_cbor_encoder *enc = aws_cbor_encoder_new(galloc::full());
    PBT_CHECK(enc != nullptr);
    PBT_CHECK(aws_cbor_encoder_get_encoded_data(enc).len == 0, "a new encoder is not empty");
    issue_calls(enc, prog);
    struct aws_byte_cursor encoded = aws_cbor_encoder_get_encoded_data(enc);
    {
        const char *m = nullptr;
        PBT_CHECK(galloc::check_all(&m), "after encoding: %s", m ? m : "");
    }
    const size_t total = encoded.len;
    std::string bytes((const char *)encoded.ptr, total);
    if (ctx.replay && total <= 400) printf("encoded (%zu bytes): %s\n", total, hex(bytes).c_str());

    // ---- reference reader: same sequence, shortest heads, smallest lossless float form -------------------------------
    std::vector<RElem> el;
    std::string perr;
    const uint8_t *B = (const uint8_t *)bytes.data();
    PBT_CHECK(ref_parse(B, total, el, perr), "the reference reader rejects the encoding: %s", perr.c_str());
    PBT_CHECK(el.size() == prog.size(), "the reference reader finds %zu elements, %zu were written", el.size(), prog.size());
    bool boundary = false;
    for (size_t i = 0; i < prog.size(); i++) {
        const Emit &w = prog[i];
        const RElem &r = el[i];
        PBT_CHECK(r.shortest, "element %zu (%s, argument %" PRIu64 ") does not use the shortest head (%zu bytes)", i, rk_name(r.kind),
                  r.arg, r.head);
        auto expect = [&](int kind, uint64_t arg) {
            PBT_CHECK(r.kind == kind && r.arg == arg, "element %zu: written %s %" PRIu64 ", the reference reader sees %s %" PRIu64, i,
                      rk_name(kind), arg, rk_name(r.kind), r.arg);
        };
        switch (w.kind) {
        case UINT: expect(R_UINT, w.v); break;
        case NEGINT: expect(R_NEGINT, w.v); break;
        case TAG: expect(R_TAG, w.v); break;
        case ARRAY: expect(R_ARRAY, w.v); break;
        case MAP: expect(R_MAP, w.v); break;
        case BOOL: expect(R_BOOL, w.v); break;
        case NUL: expect(R_NULL, 22); break;
        case UNDEF: expect(R_UNDEF, 23); break;
        case IBYTES: expect(R_IBYTES, 0); break;
        case ITEXT: expect(R_ITEXT, 0); break;
        case IARRAY: expect(R_IARRAY, 0); break;
        case IMAP: expect(R_IMAP, 0); break;
        case BREAK: expect(R_BREAK, 0); break;
        case BYTES:
        case TEXT:
            expect(w.kind == BYTES ? R_BYTES : R_TEXT, w.s.size());
            PBT_CHECK(memcmp(B + r.off + r.head, w.s.data(), w.s.size()) == 0, "element %zu: string content differs", i);
            if (w.s.size() >= 230 && w.s.size() <= 300) ctx.tag("str_230_300");
            if (w.s.size() >= 4980 && w.s.size() <= 5020) ctx.tag("str_5000");
            if (w.s.size() >= 65535) ctx.tag("str_64k");
            break;
        case SFLOAT: {
            float f = bfloat((uint32_t)w.v);
            PBT_CHECK(r.kind == R_F32, "element %zu: single float written, stored as %s", i, rk_name(r.kind));
            PBT_CHECK(std::isnan(f) ? std::isnan(r.d) : (uint32_t)r.arg == (uint32_t)w.v,
                      "element %zu: single float bits 0x%08x stored as 0x%08x", i, (unsigned)w.v, (unsigned)r.arg);
            ctx.tag("single_float");
            break;
        }
        case FLOAT: {
            double v = bdouble(w.v);
            uint64_t ia = 0;
            Form f = expected_form(v, &ia);
            const char *form = f == F_UINT ? "uint" : f == F_NEGINT ? "negint" : f == F_B32 ? "single" : "double";
            if (v == 0 && std::signbit(v)) {
                // -0.0 == 0 numerically: integer 0 (what the encoder does) and a float -0.0 both lose nothing the property names
                PBT_CHECK((r.kind == R_UINT && r.arg == 0) || (r.kind == R_F32 && r.d == 0), "element %zu: -0.0 stored as %s %" PRIu64, i,
                          rk_name(r.kind), r.arg);
                ctx.tag("float:neg_zero");
                break;
            }
            switch (f) {
            case F_UINT:
            case F_NEGINT:
                PBT_CHECK(r.kind == (f == F_UINT ? R_UINT : R_NEGINT) && r.arg == ia,
                          "element %zu: double %.17g (integral, inside int64) must be stored as %s %" PRIu64 ", found %s %" PRIu64, i, v, form,
                          ia, rk_name(r.kind), r.arg);
                ctx.tag("float:as_int");
                break;
            case F_B32:
                PBT_CHECK(r.kind == R_F32, "element %zu: double %.17g is exactly a binary32 and not an int64: expected single, found %s", i, v,
                          rk_name(r.kind));
                PBT_CHECK(same_number(r.d, v) && (std::isnan(v) || std::signbit(r.d) == std::signbit(v)),
                          "element %zu: double %.17g stored as single %.17g", i, v, r.d);
                ctx.tag(std::isnan(v) ? "float:nan" : std::isinf(v) ? "float:inf" : "float:as_single");
                break;
            default: {
                // An integral value beyond int64 that is still inside the 64-bit integer heads ([2^63, 2^64) or [-2^64, -2^63))
                // may equally be stored as that integer: same nine bytes, nothing lost ("by numeric value").
                const double P63 = 9223372036854775808.0, P64 = 18446744073709551616.0;
                bool big_int = v == std::trunc(v) && ((v >= P63 && v < P64) || (v < -P63 && v >= -P64));
                if (big_int && (r.kind == R_UINT || r.kind == R_NEGINT)) {
                    uint64_t want_arg = v > 0 ? (uint64_t)v : (uint64_t)(-(v + 1.0));
                    PBT_CHECK(r.kind == (v > 0 ? R_UINT : R_NEGINT) && r.arg == want_arg && r.head == 9,
                              "element %zu: double %.17g stored as %s %" PRIu64 " with a %zu-byte head", i, v, rk_name(r.kind), r.arg, r.head);
                    ctx.tag("float:as_64bit_integer_beyond_int64");
                    break;
                }
                PBT_CHECK(r.kind == R_F64 && r.arg == w.v, "element %zu: double %.17g (bits %016" PRIx64 ") must stay a double, found %s %016" PRIx64,
                          i, v, w.v, rk_name(r.kind), r.arg);
                ctx.tag("float:as_double");
                break;
            }
            }
            if (is_narrowing_boundary(v)) {
                boundary = true;
                ctx.tag("float:narrowing_boundary");
                if (near_bits(v, 9223372036854775808.0)) ctx.tag("float:near_2p63");
                if (near_bits(v, (double)FLT_MAX)) ctx.tag("float:near_fltmax");
            }
            if (std::fpclassify(v) == FP_SUBNORMAL) ctx.tag("float:subnormal_double");
            break;
        }
        }
        if ((w.kind == UINT || w.kind == NEGINT || w.kind == TAG || w.kind == ARRAY || w.kind == MAP || w.kind == BYTES || w.kind == TEXT) &&
            is_width_boundary(w.v)) {
            boundary = true;
            ctx.tag("head_width_boundary");
        }
        if (r.kind != R_F32 && r.kind != R_F64 && r.head > 1) ctx.tag(fmt("head_bytes:%zu", r.head));
    }

    // ---- nesting according to the reference reader (mode 1 only: there the program is well-formed by construction) ---------
    Nest nest{el, el.size() - pi.sentinel_elems, std::vector<size_t>(el.size(), SIZE_MAX), ""};
    std::vector<size_t> tops;
    if (mode == 1) {
        for (size_t i = 0; i < nest.limit;) {
            tops.push_back(i);
            i = nest.walk(i, 0);
            PBT_CHECK(i != SIZE_MAX, "the encoding is not well-formed CBOR for an independent reader: %s", nest.err.c_str());
        }
    }

    // ---- decode element by element --------------------------------------------------------------------------------------
    unsigned char *copy = nullptr;
    struct aws_byte_cursor src;
    if (from_encoder_buffer) {
        src = encoded; // the encoder is not touched until the decoders are gone
        ctx.tag("decode:from_encoder_buffer");
    } else {
        copy = (unsigned char *)malloc(total ? total : 1); // exact size: ASan sees any read past the encoding
        memcpy(copy, bytes.data(), total);
        src = aws_byte_cursor_from_array(copy, total);
    }
    struct aws_cbor_decoder *dec = aws_cbor_decoder_new(galloc::full(), src);
    PBT_CHECK(dec != nullptr);
    PBT_CHECK(aws_cbor_decoder_get_remaining_length(dec) == total, "a new decoder reports %zu remaining of %zu",
              aws_cbor_decoder_get_remaining_length(dec), total);
    for (size_t i = 0; i < el.size(); i++) {
        const RElem &r = el[i];
        enum aws_cbor_type want = lib_type(r);
        PBT_CHECK(want != AWS_CBOR_TYPE_UNKNOWN, "element %zu is a %s, which the encoder cannot have written", i, rk_name(r.kind));
        bool typed = !(want == AWS_CBOR_TYPE_NULL || want == AWS_CBOR_TYPE_UNDEFINED || want == AWS_CBOR_TYPE_BREAK ||
                       want >= AWS_CBOR_TYPE_INDEF_BYTES_START);
        unsigned var = (unsigned)(mix(vseed, i) % 8);
        if (var == 5) { // a pop for another type must fail with UNEXPECTED_TYPE and consume nothing
            aws_reset_error();
            int rc;
            if (want == AWS_CBOR_TYPE_UINT) {
                struct aws_byte_cursor t;
                rc = aws_cbor_decoder_pop_next_text_val(dec, &t);
            } else {
                uint64_t t;
                rc = aws_cbor_decoder_pop_next_unsigned_int_val(dec, &t);
            }
            PBT_CHECK(rc == AWS_OP_ERR && aws_last_error() == AWS_ERROR_CBOR_UNEXPECTED_TYPE,
                      "element %zu (%s): pop for another type returned %d / %s", i, rk_name(r.kind), rc, aws_error_name(aws_last_error()));
            ctx.tag("decode:wrong_type_pop");
        }
        if (var != 3 && var != 6) {
            enum aws_cbor_type got = AWS_CBOR_TYPE_UNKNOWN;
            for (int k = 0; k < (var == 4 ? 2 : 1); k++) {
                PBT_CHECK(aws_cbor_decoder_peek_type(dec, &got) == AWS_OP_SUCCESS, "element %zu (%s at offset %zu): peek_type failed: %s", i,
                          rk_name(r.kind), r.off, aws_error_name(aws_last_error()));
                PBT_CHECK(got == want, "element %zu at offset %zu: decoder sees %s, written / reference reader: %s", i, r.off,
                          aws_cbor_type_cstr(got), aws_cbor_type_cstr(want));
            }
        }
        if (!typed || var == 6 || var == 7) {
            PBT_CHECK(aws_cbor_decoder_consume_next_single_element(dec) == AWS_OP_SUCCESS, "element %zu (%s): consume_next_single_element failed: %s",
                      i, rk_name(r.kind), aws_error_name(aws_last_error()));
        } else {
            int rc = AWS_OP_ERR;
            uint64_t u = 0xA5A5A5A5A5A5A5A5ull;
            switch (want) {
            case AWS_CBOR_TYPE_UINT: rc = aws_cbor_decoder_pop_next_unsigned_int_val(dec, &u); break;
            case AWS_CBOR_TYPE_NEGINT: rc = aws_cbor_decoder_pop_next_negative_int_val(dec, &u); break;
            case AWS_CBOR_TYPE_ARRAY_START: rc = aws_cbor_decoder_pop_next_array_start(dec, &u); break;
            case AWS_CBOR_TYPE_MAP_START: rc = aws_cbor_decoder_pop_next_map_start(dec, &u); break;
            case AWS_CBOR_TYPE_TAG: rc = aws_cbor_decoder_pop_next_tag_val(dec, &u); break;
            case AWS_CBOR_TYPE_BOOL: {
                bool b = false;
                rc = aws_cbor_decoder_pop_next_boolean_val(dec, &b);
                u = b ? 1 : 0;
                break;
            }
            case AWS_CBOR_TYPE_FLOAT: {
                double d = 0;
                rc = aws_cbor_decoder_pop_next_float_val(dec, &d);
                PBT_CHECK(rc == AWS_OP_SUCCESS, "element %zu: pop float failed: %s", i, aws_error_name(aws_last_error()));
                PBT_CHECK(same_number(d, r.d), "element %zu: decoder returns %.17g, stored %s is %.17g", i, d, rk_name(r.kind), r.d);
                u = r.arg;
                break;
            }
            case AWS_CBOR_TYPE_BYTES:
            case AWS_CBOR_TYPE_TEXT: {
                struct aws_byte_cursor s = {0, nullptr};
                rc = want == AWS_CBOR_TYPE_BYTES ? aws_cbor_decoder_pop_next_bytes_val(dec, &s) : aws_cbor_decoder_pop_next_text_val(dec, &s);
                PBT_CHECK(rc == AWS_OP_SUCCESS, "element %zu: pop string failed: %s", i, aws_error_name(aws_last_error()));
                PBT_CHECK(s.len == r.arg, "element %zu: string length %zu, written %" PRIu64, i, s.len, r.arg);
                PBT_CHECK(s.len == 0 || s.ptr == src.ptr + r.off + r.head,
                          "element %zu: string cursor does not point at its bytes inside the source (offset %td, expected %zu)", i,
                          s.ptr - src.ptr, r.off + r.head);
                PBT_CHECK(s.len == 0 || memcmp(s.ptr, prog[i].s.data(), s.len) == 0, "element %zu: string content differs from what was written", i);
                u = r.arg;
                break;
            }
            default: break;
            }
            PBT_CHECK(rc == AWS_OP_SUCCESS, "element %zu (%s): typed pop failed: %s", i, rk_name(r.kind), aws_error_name(aws_last_error()));
            PBT_CHECK(u == r.arg, "element %zu (%s): decoder returns %" PRIu64 ", written %" PRIu64, i, rk_name(r.kind), u, r.arg);
        }
        size_t rem = aws_cbor_decoder_get_remaining_length(dec);
        PBT_CHECK(rem == total - r.end, "after element %zu (%s, bytes %zu..%zu of %zu): %zu bytes remain, expected %zu", i, rk_name(r.kind),
                  r.off, r.end, total, rem, total - r.end);
    }
    PBT_CHECK(aws_cbor_decoder_get_remaining_length(dec) == 0, "bytes left over after the last element");
    {
        enum aws_cbor_type t = AWS_CBOR_TYPE_UNKNOWN;
        PBT_CHECK(aws_cbor_decoder_peek_type(dec, &t) == AWS_OP_ERR, "the decoder produced an element (%s) after the end of the encoding",
                  aws_cbor_type_cstr(t));
    }
    aws_cbor_decoder_destroy(dec);

    // ---- skipping whole items (mode 1) -------------------------------------------------------------------------------------
    if (mode == 1 && !tops.empty()) {
        size_t sentinel_bytes = total - (nest.limit ? el[nest.limit - 1].end : 0);
        dec = aws_cbor_decoder_new(galloc::full(), src);
        for (size_t t = 0; t < tops.size(); t++) {
            size_t i = tops[t], j = nest.item_end[i];
            if (peek_before_skip && t % 2 == 0) {
                enum aws_cbor_type got;
                PBT_CHECK(aws_cbor_decoder_peek_type(dec, &got) == AWS_OP_SUCCESS && got == lib_type(el[i]), "peek before skip");
            }
            PBT_CHECK(aws_cbor_decoder_consume_next_whole_data_item(dec) == AWS_OP_SUCCESS,
                      "skipping top-level item %zu (elements %zu..%zu, %s) failed: %s", t, i, j - 1, rk_name(el[i].kind),
                      aws_error_name(aws_last_error()));
            size_t rem = aws_cbor_decoder_get_remaining_length(dec);
            PBT_CHECK(rem == total - el[j - 1].end,
                      "skipping top-level item %zu (%s, elements %zu..%zu, bytes %zu..%zu): %zu bytes remain, the item ends with %zu remaining",
                      t, rk_name(el[i].kind), i, j - 1, el[i].off, el[j - 1].end, rem, total - el[j - 1].end);
        }
        PBT_CHECK(aws_cbor_decoder_get_remaining_length(dec) == sentinel_bytes, "after the last item %zu bytes remain, the sentinel has %zu",
                  aws_cbor_decoder_get_remaining_length(dec), sentinel_bytes);
        if (pi.sentinel_elems) { // and the sentinel is still readable
            enum aws_cbor_type got;
            PBT_CHECK(aws_cbor_decoder_peek_type(dec, &got) == AWS_OP_SUCCESS && got == lib_type(el.back()), "the sentinel is not the next element");
            ctx.tag(el.back().kind == R_BREAK ? "sentinel:break" : "sentinel:item");
        } else
            ctx.tag("sentinel:none");
        aws_cbor_decoder_destroy(dec);

        // nested items: a fresh decoder placed on the first byte of element k
        size_t n = nest.limit, step = n > 240 ? n / 160 : 1, done = 0;
        for (size_t k = 0; k < n; k += (k < 60 || k + 60 >= n) ? 1 : step) {
            if (el[k].kind == R_BREAK || nest.item_end[k] == SIZE_MAX) continue;
            size_t j = nest.item_end[k];
            struct aws_byte_cursor sub = src;
            aws_byte_cursor_advance(&sub, el[k].off);
            struct aws_cbor_decoder *d2 = aws_cbor_decoder_new(galloc::full(), sub);
            if (mix(vseed, k ^ 0x5555) & 1) {
                enum aws_cbor_type got;
                PBT_CHECK(aws_cbor_decoder_peek_type(d2, &got) == AWS_OP_SUCCESS && got == lib_type(el[k]), "peek before nested skip");
            }
            PBT_CHECK(aws_cbor_decoder_consume_next_whole_data_item(d2) == AWS_OP_SUCCESS, "skipping the item at element %zu (%s) failed: %s", k,
                      rk_name(el[k].kind), aws_error_name(aws_last_error()));
            size_t rem = aws_cbor_decoder_get_remaining_length(d2);
            PBT_CHECK(rem == total - el[j - 1].end,
                      "skipping the item at element %zu (%s, elements %zu..%zu, bytes %zu..%zu): %zu bytes remain, expected %zu", k,
                      rk_name(el[k].kind), k, j - 1, el[k].off, el[j - 1].end, rem, total - el[j - 1].end);
            aws_cbor_decoder_destroy(d2);
            if (j - k > 1) done++;
        }
        if (done) ctx.tag("skip:nested_items");
    }
    free(copy);

    // ---- reset + re-encode gives the same bytes ---------------------------------------------------------------------------
    aws_cbor_encoder_reset(enc);
    PBT_CHECK(aws_cbor_encoder_get_encoded_data(enc).len == 0, "reset left %zu bytes", aws_cbor_encoder_get_encoded_data(enc).len);
    issue_calls(enc, prog);
    encoded = aws_cbor_encoder_get_encoded_data(enc);
    PBT_CHECK(encoded.len == total && memcmp(encoded.ptr, bytes.data(), total) == 0, "re-encoding after reset gives different bytes (%zu vs %zu)",
              encoded.len, total);
    aws_cbor_encoder_destroy(enc);
    {
        const char *m = nullptr;
        PBT_CHECK(galloc::check_all(&m), "%s", m ? m : "");
    }

    // ---- classification ---------------------------------------------------------------------------------------------------
    if (total > 256) ctx.tag("buffer_grew");
    if (total > 512) ctx.tag("buffer_grew_twice");
    if (pi.max_depth >= 3) ctx.tag("depth>=3");
    if (pi.max_depth >= 12) ctx.tag("depth>=12");
    if (pi.max_depth >= 32) ctx.tag("depth>=32");
    if (pi.indef_in_def) ctx.tag("indef_in_definite");
    if (pi.big_count) ctx.tag("count>300");
    if (prog.empty()) ctx.tag("empty");
    if ((boundary && total > 256) || (mode == 1 && pi.max_depth >= 3 && pi.indef_in_def)) ctx.nontrivial = true;
}

int main(int argc, char **argv) {
    Spec sp{"C10", "c10_cbor", gen_case, run,
            "generated encoder call lists (<=120 calls); either issued as they are and decoded element by element, or repaired into "
            "well-formed nested items (depth <= 3/6/12/64) + sentinel and additionally skipped item by item; non-trivial = (>=1 "
            "integer/length/count/tag on a head-width boundary or double on a narrowing boundary, and encoding > 256 bytes) or "
            "(nesting >= 3 with an indefinite array/map inside a definite one); distinct by hash of the serialised case"};
    return pbt_main(argc, argv, sp);
}

/* C16 — the x86-64 inline-assembly variant called with COMPILE-TIME CONSTANT operands, compiled by gcc.
 *
 * The asm statements are opaque to the optimiser, so a call with literal arguments is not folded; but the register
 * allocator knows the operand values and may put two operands that hold the same constant into one register.  An
 * in/out operand that is written before another input is read then needs an early-clobber mark ("+&r").  Without it
 * gcc computes aws_add_u64_saturating(1, UINT64_MAX) as 0 (DESIGN 9.2, asm-saturating-add-shares-register).  Neither
 * generated operands (values unknown at compile time) nor a clang build show this, hence this file: every pair from
 * a table of boundary values is a separate call with literal arguments; c16_math.cpp compares the results with 128-bit
 * reference arithmetic.  Built with gcc -O2 (plan option gcc_harness_objects). */
#include <aws/common/common.h>
#include <aws/common/math.h>

#define aws_mul_u64_saturating c16k_mul_u64_saturating
#define aws_mul_u64_checked c16k_mul_u64_checked
#define aws_mul_u32_saturating c16k_mul_u32_saturating
#define aws_mul_u32_checked c16k_mul_u32_checked
#define aws_add_u64_saturating c16k_add_u64_saturating
#define aws_add_u64_checked c16k_add_u64_checked
#define aws_add_u32_saturating c16k_add_u32_saturating
#define aws_add_u32_checked c16k_add_u32_checked
#include <aws/common/math.gcc_x64_asm.inl>

#define V64(X, a)                                                                                                      \
    X(a, 0ULL) X(a, 1ULL) X(a, 2ULL) X(a, 0xFFFFFFFFULL) X(a, 0x100000000ULL) X(a, 0x7FFFFFFFFFFFFFFFULL)              \
    X(a, 0x8000000000000000ULL) X(a, 0xFFFFFFFFFFFFFFFEULL) X(a, 0xFFFFFFFFFFFFFFFFULL)
#define ALL64(X)                                                                                                       \
    V64(X, 0ULL) V64(X, 1ULL) V64(X, 2ULL) V64(X, 0xFFFFFFFFULL) V64(X, 0x100000000ULL) V64(X, 0x7FFFFFFFFFFFFFFFULL)  \
    V64(X, 0x8000000000000000ULL) V64(X, 0xFFFFFFFFFFFFFFFEULL) V64(X, 0xFFFFFFFFFFFFFFFFULL)
#define V32(X, a) X(a, 0U) X(a, 1U) X(a, 2U) X(a, 0xFFFFU) X(a, 0x10000U) X(a, 0x7FFFFFFFU) X(a, 0x80000000U) X(a, 0xFFFFFFFEU) X(a, 0xFFFFFFFFU)
#define ALL32(X)                                                                                                       \
    V32(X, 0U) V32(X, 1U) V32(X, 2U) V32(X, 0xFFFFU) V32(X, 0x10000U) V32(X, 0x7FFFFFFFU) V32(X, 0x80000000U)           \
    V32(X, 0xFFFFFFFEU) V32(X, 0xFFFFFFFFU)

struct c16k_row {
    uint64_t a, b;
    uint64_t add_sat, mul_sat, add_val, mul_val;
    int add_rc, mul_rc;
};

/* One tiny non-inlined function per operation and pair: whether gcc lets two operands share a register depends on the
 * code around the asm statement, and the smallest possible surrounding (a function that only returns the result of one
 * call with two literals) is where it does. */
#define NI __attribute__((noinline)) static
#define DEF64(A, B)                                                                                                    \
    NI uint64_t k64as_##A##_##B(void) { return c16k_add_u64_saturating((A), (B)); }                                    \
    NI uint64_t k64ms_##A##_##B(void) { return c16k_mul_u64_saturating((A), (B)); }                                    \
    NI int k64ac_##A##_##B(uint64_t *r) { return c16k_add_u64_checked((A), (B), r); }                                  \
    NI int k64mc_##A##_##B(uint64_t *r) { return c16k_mul_u64_checked((A), (B), r); }
#define DEF32(A, B)                                                                                                    \
    NI uint32_t k32as_##A##_##B(void) { return c16k_add_u32_saturating((A), (B)); }                                    \
    NI uint32_t k32ms_##A##_##B(void) { return c16k_mul_u32_saturating((A), (B)); }                                    \
    NI int k32ac_##A##_##B(uint32_t *r) { return c16k_add_u32_checked((A), (B), r); }                                  \
    NI int k32mc_##A##_##B(uint32_t *r) { return c16k_mul_u32_checked((A), (B), r); }
ALL64(DEF64)
ALL32(DEF32)

#define ROW64(A, B)                                                                                                    \
    {                                                                                                                  \
        struct c16k_row *r = &out[n++];                                                                                \
        r->a = (A);                                                                                                    \
        r->b = (B);                                                                                                    \
        r->add_val = 0;                                                                                                \
        r->mul_val = 0;                                                                                                \
        r->add_sat = k64as_##A##_##B();                                                                                \
        r->mul_sat = k64ms_##A##_##B();                                                                                \
        r->add_rc = k64ac_##A##_##B(&r->add_val);                                                                      \
        r->mul_rc = k64mc_##A##_##B(&r->mul_val);                                                                      \
    }
#define ROW32(A, B)                                                                                                    \
    {                                                                                                                  \
        struct c16k_row *r = &out[n++];                                                                                \
        uint32_t av = 0, mv = 0;                                                                                       \
        r->a = (A);                                                                                                    \
        r->b = (B);                                                                                                    \
        r->add_sat = k32as_##A##_##B();                                                                                \
        r->mul_sat = k32ms_##A##_##B();                                                                                \
        r->add_rc = k32ac_##A##_##B(&av);                                                                              \
        r->mul_rc = k32mc_##A##_##B(&mv);                                                                              \
        r->add_val = av;                                                                                               \
        r->mul_val = mv;                                                                                               \
    }

/* fills out[0..81) and returns the number of rows */
size_t c16k_table64(struct c16k_row *out) {
    size_t n = 0;
    ALL64(ROW64)
    return n;
}
size_t c16k_table32(struct c16k_row *out) {
    size_t n = 0;
    ALL32(ROW32)
    return n;
}

// C18 (part 1) — linked hash table: iteration list = insertion order, re-put replaces the value and moves the
// entry to the back, find/remove/clear agree with a reference ordered map, destructors run exactly once per
// displaced entry.  Model: std::vector<Entry{id, key*, value*}> in list order.  See DESIGN.md section 5 / C18.
//
// Key objects are individually allocated {id}; equality compares id, so equal-but-pointer-distinct keys exist.
// Destructor callbacks only count (the harness owns the storage until the end of the case), so a double destroy,
// a destroy of a live object, a missing destroy and a hash/equality call on a destroyed key are all observable.
//
// Caller obligations enforced here (never handed to the library):
//  * a value object is put once (fresh object per put) — re-putting a stored value pointer with a value destructor
//    would hand the table a value it has just been told to destroy;
//  * a key pointer that the table has destroyed is never used again;
//  * move_node_to_end_of_list only gets a node taken from this table's iteration list.
#include "pbt.hpp"
#include "galloc.hpp"

#include <aws/common/error.h>
#include <aws/common/linked_hash_table.h>

#include <memory>

using namespace pbt;

struct Key {
    uint32_t id;
    int destroyed = 0; // times the key destructor ran on it
    int expect = 0;    // times the model says it must have run
    bool probe = false;
};
struct Val {
    uint32_t serial;
    int destroyed = 0;
    int expect = 0;
};

static Ctx *g_ctx = nullptr;
static int g_hash_plan = 0;

static uint64_t hash_key(const void *p) {
    const Key *k = (const Key *)p;
    if (k->destroyed && g_ctx) g_ctx->note_fail(fmt("hash function called on a key (id %u) that was already destroyed", k->id));
    switch (g_hash_plan) {
    case 0: return (uint64_t)k->id * 0x9E3779B97F4A7C15ull + 0x1234567;
    case 1: return 7;          // everything collides
    case 2: return k->id % 3;  // clusters, includes 0 (never-zero rule)
    case 3: return 0;
    default: return k->id;     // identity
    }
}
static bool eq_key(const void *a, const void *b) {
    const Key *x = (const Key *)a, *y = (const Key *)b;
    if ((x->destroyed || y->destroyed) && g_ctx)
        g_ctx->note_fail(fmt("equality called on a destroyed key (ids %u/%u)", x->id, y->id));
    return x->id == y->id;
}
static void destroy_key(void *p) { ((Key *)p)->destroyed++; }
static void destroy_val(void *p) { ((Val *)p)->destroyed++; }

enum { PUT, FIND, FIND_MOVE, REMOVE, CLEAR, MOVE_NODE, REINIT, NKINDS };
static const unsigned UNIVERSE[] = {2, 4, 8, 24};
static const size_t INIT_SIZE[] = {0, 1, 2, 5, 16};

static Case gen_case() {
    Case c;
    // cfg: universe, key dtor, value dtor, hash plan, initial size
    c.cfg = {pick(0, 3), pick(0, 1), pick(0, 1), pick(0, 4), pick(0, 4)};
    c.ops = op_list(60, [] {
        switch (weighted({40, 8, 12, 16, 2, 8, 2})) {
        case 0: return mkop(PUT, {pick(0, 23), pick(0, 2)});    // id, key mode (0,1 fresh object; 2 stored pointer again)
        case 1: return mkop(FIND, {pick(0, 23)});
        case 2: return mkop(FIND_MOVE, {pick(0, 23)});
        case 3: return mkop(REMOVE, {pick(0, 23), pick(0, 2)}); // id, mode (2: pass the stored key pointer itself)
        case 4: return mkop(CLEAR);
        case 5: return mkop(MOVE_NODE, {pick(0, 23)});
        default: return mkop(REINIT, {pick(0, 4)});
        }
    });
    return c;
}

struct Entry {
    uint32_t id;
    Key *key;
    Val *val;
};

static void run(const Case &c, Ctx &ctx) {
    galloc::reset();
    g_ctx = &ctx;
    const unsigned U = UNIVERSE[c.c(0) % 4];
    const bool kd = c.c(1) % 2, vd = c.c(2) % 2;
    g_hash_plan = (int)(c.c(3) % 5);
    size_t init_size = INIT_SIZE[c.c(4) % 5];

    std::vector<std::unique_ptr<Key>> keys; // every key object ever handed to the table
    std::vector<std::unique_ptr<Val>> vals;
    std::vector<Entry> model;
    uint32_t serial = 0;
    bool nt = false;

    struct aws_linked_hash_table t;
    auto init = [&](size_t n) {
        int rc = aws_linked_hash_table_init(&t, galloc::full(), hash_key, eq_key, kd ? destroy_key : nullptr,
                                            vd ? destroy_val : nullptr, n);
        PBT_CHECK(rc == AWS_OP_SUCCESS, "init failed");
    };
    init(init_size);

    auto index_of = [&](uint32_t id) -> int {
        for (size_t i = 0; i < model.size(); i++)
            if (model[i].id == id) return (int)i;
        return -1;
    };
    auto displaced_key = [&](Key *k) {
        if (kd) k->expect++;
    };
    auto displaced_val = [&](Val *v) {
        if (vd) v->expect++;
    };
    auto invariants = [&](const char *after) {
        PBT_CHECK(!ctx.failed, "after %s: %s", after, ctx.msg.c_str());
        size_t n = aws_linked_hash_table_get_element_count(&t);
        PBT_CHECK(n == model.size(), "after %s: element count %zu, reference has %zu", after, n, model.size());
        // iteration list, forwards: exactly the reference entries in insertion order
        const struct aws_linked_list *list = aws_linked_hash_table_get_iteration_list(&t);
        PBT_CHECK(list == &t.list);
        size_t i = 0;
        for (const struct aws_linked_list_node *nd = aws_linked_list_begin(list); nd != aws_linked_list_end(list);
             nd = aws_linked_list_next(nd), i++) {
            PBT_CHECK(i < model.size(), "after %s: iteration list is longer than the reference (%zu entries)", after, model.size());
            const struct aws_linked_hash_table_node *ln = AWS_CONTAINER_OF(nd, struct aws_linked_hash_table_node, node);
            PBT_CHECK(ln->key != nullptr && ln->value != nullptr, "after %s: list position %zu has a null key/value", after, i);
            PBT_CHECK(((const Key *)ln->key)->id == model[i].id, "after %s: list position %zu holds id %u, insertion order says %u",
                      after, i, ((const Key *)ln->key)->id, model[i].id);
            PBT_CHECK(ln->value == model[i].val, "after %s: list position %zu (id %u) does not hold the value of the last put (#%u)", after,
                      i, model[i].id, model[i].val->serial);
            PBT_CHECK(ln->key == model[i].key, "after %s: list position %zu (id %u) does not hold the key pointer of the last put", after,
                      i, model[i].id);
            PBT_CHECK(ln->table == &t, "after %s: node at %zu does not point back at its table", after, i);
        }
        PBT_CHECK(i == model.size(), "after %s: iteration list has %zu entries, reference has %zu", after, i, model.size());
        // backwards (prev links)
        i = model.size();
        for (const struct aws_linked_list_node *nd = aws_linked_list_rbegin(list); nd != aws_linked_list_rend(list);
             nd = aws_linked_list_prev(nd)) {
            PBT_CHECK(i > 0, "after %s: backward walk is longer than the reference", after);
            i--;
            const struct aws_linked_hash_table_node *ln = AWS_CONTAINER_OF(nd, struct aws_linked_hash_table_node, node);
            PBT_CHECK(ln->value == model[i].val, "after %s: backward walk differs at %zu", after, i);
        }
        PBT_CHECK(i == 0, "after %s: backward walk is shorter than the reference", after);
        // lookup of every id of the universe (non-moving find)
        for (uint32_t id = 0; id < U; id++) {
            Key probe;
            probe.id = id;
            probe.probe = true;
            void *v = (void *)0x1;
            int rc = aws_linked_hash_table_find(&t, &probe, &v);
            PBT_CHECK(rc == AWS_OP_SUCCESS, "after %s: find(%u) returned an error", after, id);
            int at = index_of(id);
            if (at < 0)
                PBT_CHECK(v == nullptr, "after %s: find(%u) found a value for an absent key", after, id);
            else
                PBT_CHECK(v == model[at].val, "after %s: find(%u) returned %s", after, id, v ? "a different value" : "NULL for a present key");
            PBT_CHECK(probe.destroyed == 0, "after %s: the table destroyed the caller's lookup key", after);
        }
        PBT_CHECK(!ctx.failed, "after %s: %s", after, ctx.msg.c_str());
        // destructor counters
        for (auto &k : keys)
            PBT_CHECK(k->destroyed == k->expect, "after %s: key object of id %u destroyed %d time(s), expected %d", after, k->id,
                      k->destroyed, k->expect);
        for (auto &v : vals)
            PBT_CHECK(v->destroyed == v->expect, "after %s: value #%u destroyed %d time(s), expected %d", after, v->serial,
                      v->destroyed, v->expect);
        const char *m = nullptr;
        PBT_CHECK(galloc::check_all(&m), "%s", m ? m : "");
    };

    invariants("init");
    for (auto &op : c.ops) {
        switch (op.kind % NKINDS) {
        case PUT: {
            uint32_t id = (uint32_t)(op.arg(0) % U);
            int at = index_of(id);
            bool same_ptr = at >= 0 && op.arg(1) % 3 == 2;
            Key *k;
            if (same_ptr)
                k = model[at].key;
            else {
                keys.emplace_back(new Key());
                k = keys.back().get();
                k->id = id;
            }
            vals.emplace_back(new Val());
            Val *v = vals.back().get();
            v->serial = ++serial;
            int rc = aws_linked_hash_table_put(&t, k, v);
            PBT_CHECK(rc == AWS_OP_SUCCESS, "put failed: %s", aws_error_name(aws_last_error()));
            if (at >= 0) {
                displaced_val(model[at].val);
                if (!same_ptr) displaced_key(model[at].key);
                bool was_back = (size_t)at + 1 == model.size();
                if (!was_back && !same_ptr && model.size() >= 2) nt = true;
                ctx.tag(same_ptr ? "reput_same_pointer" : "reput_distinct_pointer");
                if (!was_back) ctx.tag("reput_moves_to_back");
                model.erase(model.begin() + at);
            }
            model.push_back(Entry{id, k, v});
            invariants("put");
            break;
        }
        case FIND:
        case FIND_MOVE: {
            uint32_t id = (uint32_t)(op.arg(0) % U);
            bool move = op.kind % NKINDS == FIND_MOVE;
            Key probe;
            probe.id = id;
            void *v = (void *)0x1;
            int rc = move ? aws_linked_hash_table_find_and_move_to_back(&t, &probe, &v) : aws_linked_hash_table_find(&t, &probe, &v);
            PBT_CHECK(rc == AWS_OP_SUCCESS, "find returned an error");
            int at = index_of(id);
            if (at < 0)
                PBT_CHECK(v == nullptr, "find of absent id %u returned a value", id);
            else {
                PBT_CHECK(v == model[at].val, "find of id %u returned %s", id, v ? "another entry's value" : "NULL");
                if (move) {
                    if ((size_t)at + 1 != model.size()) ctx.tag("find_moves_to_back");
                    Entry e = model[at];
                    model.erase(model.begin() + at);
                    model.push_back(e);
                }
            }
            PBT_CHECK(probe.destroyed == 0, "find destroyed the caller's key");
            invariants(move ? "find_and_move_to_back" : "find");
            break;
        }
        case REMOVE: {
            uint32_t id = (uint32_t)(op.arg(0) % U);
            int at = index_of(id);
            Key probe;
            probe.id = id;
            const void *arg = &probe;
            if (at >= 0 && op.arg(1) % 3 == 2) { // the stored key pointer itself (what the caches do on eviction)
                arg = model[at].key;
                ctx.tag("remove_by_stored_pointer");
            }
            int rc = aws_linked_hash_table_remove(&t, arg);
            PBT_CHECK(rc == AWS_OP_SUCCESS, "remove returned an error");
            if (at >= 0) {
                displaced_key(model[at].key);
                displaced_val(model[at].val);
                if ((size_t)at + 1 != model.size() && at != 0) ctx.tag("remove_middle");
                model.erase(model.begin() + at);
            } else
                ctx.tag("remove_absent");
            PBT_CHECK(probe.destroyed == 0, "remove destroyed the caller's key");
            invariants("remove");
            break;
        }
        case CLEAR: {
            aws_linked_hash_table_clear(&t);
            if (!model.empty()) ctx.tag("clear_nonempty");
            for (auto &e : model) {
                displaced_key(e.key);
                displaced_val(e.val);
            }
            model.clear();
            invariants("clear");
            break;
        }
        case MOVE_NODE: {
            if (model.empty()) break;
            size_t at = op.arg(0) % model.size();
            struct aws_linked_list_node *nd = aws_linked_list_begin(&t.list);
            for (size_t i = 0; i < at; i++) nd = aws_linked_list_next(nd);
            struct aws_linked_hash_table_node *ln = AWS_CONTAINER_OF(nd, struct aws_linked_hash_table_node, node);
            aws_linked_hash_table_move_node_to_end_of_list(&t, ln);
            Entry e = model[at];
            model.erase(model.begin() + (long)at);
            model.push_back(e);
            invariants("move_node_to_end_of_list");
            break;
        }
        default: { // REINIT: clean_up destroys everything exactly once and releases all storage
            aws_linked_hash_table_clean_up(&t);
            for (auto &e : model) {
                displaced_key(e.key);
                displaced_val(e.val);
            }
            model.clear();
            PBT_CHECK(galloc::live_blocks() == 0, "clean_up left %zu allocator blocks", galloc::live_blocks());
            init(INIT_SIZE[op.arg(0) % 5]);
            ctx.tag("clean_up_and_reinit");
            invariants("clean_up+init");
            break;
        }
        }
    }
    size_t left = model.size();
    aws_linked_hash_table_clean_up(&t);
    for (auto &e : model) {
        displaced_key(e.key);
        displaced_val(e.val);
    }
    model.clear();
    PBT_CHECK(!ctx.failed, "%s", ctx.msg.c_str());
    for (auto &k : keys)
        PBT_CHECK(k->destroyed == k->expect, "after clean_up: key object of id %u destroyed %d time(s), expected %d", k->id, k->destroyed,
                  k->expect);
    for (auto &v : vals)
        PBT_CHECK(v->destroyed == v->expect, "after clean_up: value #%u destroyed %d time(s), expected %d", v->serial, v->destroyed,
                  v->expect);
    const char *m = nullptr;
    PBT_CHECK(galloc::check_all(&m), "%s", m ? m : "");
    PBT_CHECK(galloc::live_blocks() == 0, "clean_up left %zu allocator blocks (%zu entries were stored)", galloc::live_blocks(), left);

    ctx.nontrivial = nt;
    ctx.tag(kd ? (vd ? "dtor_both" : "dtor_key_only") : (vd ? "dtor_value_only" : "dtor_none"));
    g_ctx = nullptr;
}

int main(int argc, char **argv) {
    Spec sp{"C18", "c18_lht", gen_case, run,
            "generated op sequences (<=60 ops) over put (fresh equal key object / stored pointer again) / find / "
            "find_and_move_to_back / remove / clear / move_node_to_end / clean_up+init, universes of 2-24 ids, 5 hash plans, "
            "key/value destructors on/off; non-trivial = >=1 re-put, with an equal but pointer-distinct key, of an entry that "
            "was not at the back of a table with >=2 entries; distinct by hash of the serialised case"};
    return pbt_main(argc, argv, sp);
}

// C02 (second target) — the library's own hash / equality pairs.
//  (1) direct check: for every pair of generated keys, the library's equality agrees with the reference
//      equality (same bytes, or same bytes up to ASCII case for the ignore-case pair, same number, same pointer)
//      and equal keys hash equally — wherever the bytes live (4-, 2- and 1-byte alignment take different code
//      paths in lookup3) and whatever their case; the three string-like hashes agree on the same bytes
//      (hash_table.h: "Hash is same as used on the string bytes by aws_hash_c_string");
//  (2) a map model over a table initialised with that pair: put / create / find / remove / remove_element /
//      iterate-with-delete / foreach-with-delete / clear, compared with a reference std::map keyed by the
//      canonical form of the key after every command; lookups always go through a pointer-distinct key object
//      stored at another alignment (and in another case for the ignore-case pair).
// Destruction: aws_string keys are destroyed by the library's own aws_hash_callback_string_destroy (a string
// destroyed twice or not at all shows up in the guarded allocator); other kinds use counting callbacks.
#include "pbt.hpp"
#include "galloc.hpp"

#include <aws/common/byte_buf.h>
#include <aws/common/error.h>
#include <aws/common/hash_table.h>
#include <aws/common/string.h>

#include <memory>

using namespace pbt;

enum { K_STRING, K_CSTR, K_CURSOR, K_CURSOR_IC, K_PTR, K_U64, NKIND };
static const char *KIND_NAME[] = {"aws_string", "c_string", "cursor", "cursor_ignore_case", "pointer", "uint64"};

static const char *const WORDS[] = {
    "",
    "a",
    "Ab",
    "abc",
    "abcd",
    "Hello",
    "Header",
    "content",
    "X-Amz-Id",
    "123456789",
    "abcdefghij",
    "Content-Len",
    "Content-Type",
    "Authorization",
    "accept-encoding!",
    "x-amz-content-sha256",
    "If-Unmodified-Since-XYZ!",
    "abcdefghijklmnopqrstuvwxy",
    "Zz-Top-and-a-rather-long-header-name-0123456789",
    // pairs that differ only in bit 5 of a byte that is NOT an ASCII letter: never equal, also ignoring case
    "@bc",
    "`bc",
    "[x]",
    "{x}",
    "\xc9t\xe9",
    "\xe9t\xe9",
    "A\x01",
    "a!",
};
static const size_t NWORDS = sizeof(WORDS) / sizeof(WORDS[0]);
static const uint64_t NUMS[] = {0,          1,          2,           3,           16,         17,         32,          256,
                                1ull << 32, (1ull << 32) + 1, 1ull << 63, UINT64_MAX, UINT64_MAX - 1, 64, 128, 255};
static const uintptr_t PTRS[] = {0,      0x8,    0x10,        0x18,        0x1000,          0x1008,          0x2000,
                                 0x2001, 0x2002, 0x100000000, 0x100000008, 0x7fff12345678, 0x7fff12345680, 0xffff800000000000,
                                 0x40,   0x80};
static const size_t INIT_SIZES[] = {0, 1, 2, 3, 4, 8, 9, 16, 33, 70};

enum { PUT, CREATE, FIND, REMOVE, REMOVE_ELEM, ITERATE, FOREACH, CLEAR, NOPS };

static Case gen_case() {
    Case c;
    // cfg: kind, initial size, destructors (bit0 key, bit1 value), number of pool keys, then the pool descriptors
    unsigned kind = (unsigned)weighted({20, 18, 18, 24, 8, 12});
    c.cfg = {kind, pick(0, 9), pick(0, 3)};
    size_t npool = pick(4, 20);
    c.cfg.push_back(npool);
    // a small sub-vocabulary per case so that equal keys (other case / other alignment) are frequent
    size_t nw = pick(2, 8);
    std::vector<uint64_t> sub;
    for (size_t i = 0; i < nw; i++) sub.push_back(pick(0, NWORDS - 1));
    for (size_t i = 0; i < npool; i++) {
        c.cfg.push_back(sub[pick(0, nw - 1)]);   // word / number / pointer index
        c.cfg.push_back(weighted({30, 20, 20, 30})); // case mode: as is, lower, upper, toggle by mask
        c.cfg.push_back(pick(0, 0xffff));         // mask
        c.cfg.push_back(pick(0, 7));              // alignment offset from an 8-aligned base
    }
    c.ops = op_list(50, [] {
        switch (weighted({30, 8, 6, 16, 6, 14, 10, 2})) {
        case 0: return mkop(PUT, {pick(0, 19), pick(0, 3)});
        case 1: return mkop(CREATE, {pick(0, 19)});
        case 2: return mkop(FIND, {pick(0, 19)});
        case 3: return mkop(REMOVE, {pick(0, 19), pick(0, 1)});
        case 4: return mkop(REMOVE_ELEM, {pick(0, 19)});
        case 5: {
            std::string s;
            size_t n = pick(1, 8);
            for (size_t i = 0; i < n; i++) s.push_back((char)weighted({40, 30, 30}));
            return mkop(ITERATE, {}, s);
        }
        case 6: {
            std::string s;
            size_t n = pick(1, 8);
            for (size_t i = 0; i < n; i++) s.push_back((char)weighted({45, 50, 3, 2}));
            return mkop(FOREACH, {}, s);
        }
        default: return mkop(CLEAR);
        }
    });
    return c;
}

// ---- key objects ------------------------------------------------------------------
struct Desc {
    size_t idx;
    unsigned cmode, mask, align;
};
struct LKey {
    int kind = 0;
    std::string bytes, canon; // exact bytes; reference identity
    unsigned align = 0;
    std::unique_ptr<char[]> store;
    char *at = nullptr; // bytes placed at the requested alignment, NUL terminated
    struct aws_byte_cursor cur;
    struct aws_string *str = nullptr;
    uint64_t num = 0;
    const void *kp = nullptr; // the pointer handed to the table
    bool lib_destroyed_expected = false;
    int destroyed = 0, expected = 0;
};
struct LVal {
    uint32_t serial = 0;
    int destroyed = 0, expected = 0;
};

static Ctx *g_ctx = nullptr;
static std::map<const void *, LKey *> *g_by_ptr = nullptr;
static std::set<const void *> *g_vals = nullptr;

static void count_key_destroy(void *p) {
    auto it = g_by_ptr->find(p);
    if (it == g_by_ptr->end()) {
        g_ctx->note_fail("key destructor called with a pointer that was never given to the table as a key");
        return;
    }
    it->second->destroyed++;
}
static void count_val_destroy(void *p) {
    if (!p) return;
    if (!g_vals->count(p)) {
        g_ctx->note_fail("value destructor called with a pointer that was never given to the table as a value");
        return;
    }
    ((LVal *)p)->destroyed++;
}
// typed wrappers (the tests cast aws_byte_cursor_eq to the callback type; a wrapper avoids the incompatible call)
static bool cursor_eq(const void *a, const void *b) {
    return aws_byte_cursor_eq((const struct aws_byte_cursor *)a, (const struct aws_byte_cursor *)b);
}
static bool cursor_eq_ic(const void *a, const void *b) {
    return aws_byte_cursor_eq_ignore_case((const struct aws_byte_cursor *)a, (const struct aws_byte_cursor *)b);
}

static std::string ascii_lower(std::string s) {
    for (auto &ch : s)
        if (ch >= 'A' && ch <= 'Z') ch = (char)(ch + 32);
    return s;
}
static std::string apply_case(const std::string &w, unsigned cmode, unsigned mask) {
    std::string s = w;
    for (size_t i = 0; i < s.size(); i++) {
        char &ch = s[i];
        bool up = ch >= 'A' && ch <= 'Z', lo = ch >= 'a' && ch <= 'z';
        if (!up && !lo) continue;
        switch (cmode) {
        case 1: if (up) ch = (char)(ch + 32); break;
        case 2: if (lo) ch = (char)(ch - 32); break;
        case 3: if ((mask >> (i % 16)) & 1) ch = (char)(up ? ch + 32 : ch - 32); break;
        default: break;
        }
    }
    return s;
}
static int align_class(const void *p) { return ((uintptr_t)p & 3) == 0 ? 4 : ((uintptr_t)p & 1) == 0 ? 2 : 1; }

struct ForeachCtx {
    Ctx *ctx;
    const std::string *dec;
    std::map<std::string, std::pair<LKey *, LVal *>> start;
    std::set<std::string> visited;
    std::vector<std::string> deleted;
    size_t calls = 0;
    bool stopped = false, may_stop = false;
};
static int foreach_cb(void *vctx, struct aws_hash_element *e) {
    ForeachCtx &f = *(ForeachCtx *)vctx;
    Ctx &ctx = *f.ctx;
    f.calls++;
    if (f.stopped) {
        ctx.note_fail("foreach: callback invoked again after it asked to stop");
        return 0;
    }
    if (f.calls > f.start.size() + 2) {
        ctx.note_fail("foreach: more callbacks than entries stored");
        return 0;
    }
    auto ki = g_by_ptr->find(e->key);
    if (ki == g_by_ptr->end()) {
        ctx.note_fail("foreach: element key is not a key given to the table");
        return 0;
    }
    const std::string &cn = ki->second->canon;
    auto it = f.start.find(cn);
    PBT_NOTE(ctx, it != f.start.end(), "foreach: visited a key that was not stored at the start");
    if (it == f.start.end()) return 0;
    PBT_NOTE(ctx, f.visited.insert(cn).second, "foreach: a key was visited twice");
    PBT_NOTE(ctx, e->key == it->second.first->kp && e->value == it->second.second, "foreach: wrong key/value pointers");
    int d = f.dec->empty() ? 0 : (unsigned char)(*f.dec)[std::min(f.calls - 1, f.dec->size() - 1)] % 4;
    switch (d) {
    case 0: return AWS_COMMON_HASH_TABLE_ITER_CONTINUE;
    case 1: f.deleted.push_back(cn); return AWS_COMMON_HASH_TABLE_ITER_CONTINUE | AWS_COMMON_HASH_TABLE_ITER_DELETE;
    case 2: f.stopped = true; return 0;
    default: f.may_stop = true; f.deleted.push_back(cn); return AWS_COMMON_HASH_TABLE_ITER_DELETE; // deletes; may or may not go on
    }
}

static void run(const Case &c, Ctx &ctx) {
    galloc::reset();
    g_ctx = &ctx;
    std::map<const void *, LKey *> by_ptr;
    std::set<const void *> valset;
    g_by_ptr = &by_ptr;
    g_vals = &valset;
    struct aws_allocator *A = galloc::full();

    const int kind = (int)(c.c(0) % NKIND);
    const size_t init_size = INIT_SIZES[c.c(1) % 10];
    const bool dk = (c.c(2) & 1) && kind != K_PTR, dv = c.c(2) & 2;
    size_t npool = (size_t)(c.c(3) % 21);
    if (npool < 2) npool = 2;
    ctx.tag(std::string("kind_") + KIND_NAME[kind]);

    std::vector<Desc> desc;
    for (size_t i = 0; i < npool; i++)
        desc.push_back(Desc{(size_t)c.c(4 + 4 * i, i), (unsigned)(c.c(5 + 4 * i) % 4), (unsigned)(c.c(6 + 4 * i) & 0xffff),
                            (unsigned)(c.c(7 + 4 * i) % 8)});

    std::vector<std::unique_ptr<LKey>> keys;
    std::vector<std::unique_ptr<LVal>> vals;
    uint32_t next_serial = 1;

    aws_hash_fn *hash_fn = nullptr;
    aws_hash_callback_eq_fn *eq = nullptr;
    aws_hash_callback_destroy_fn *kdtor = dk ? count_key_destroy : nullptr;
    switch (kind) {
    case K_STRING:
        hash_fn = aws_hash_string;
        eq = aws_hash_callback_string_eq;
        if (dk) kdtor = aws_hash_callback_string_destroy;
        break;
    case K_CSTR: hash_fn = aws_hash_c_string; eq = aws_hash_callback_c_str_eq; break;
    case K_CURSOR: hash_fn = aws_hash_byte_cursor_ptr; eq = cursor_eq; break;
    case K_CURSOR_IC: hash_fn = aws_hash_byte_cursor_ptr_ignore_case; eq = cursor_eq_ic; break;
    case K_PTR: hash_fn = aws_hash_ptr; eq = aws_ptr_eq; break;
    default: hash_fn = aws_hash_uint64_t_by_identity; eq = aws_hash_compare_uint64_t_eq; break;
    }

    // build a key object from a descriptor; `shift` moves the alignment, `recase` changes the case (ignore-case only)
    auto make = [&](const Desc &d, unsigned shift, bool recase) -> LKey * {
        keys.emplace_back(new LKey());
        LKey *k = keys.back().get();
        k->kind = kind;
        if (kind == K_PTR) {
            uintptr_t v = PTRS[d.idx % 16];
            k->kp = (const void *)v;
            k->canon = std::to_string((unsigned long long)v);
        } else if (kind == K_U64) {
            k->num = NUMS[d.idx % 16];
            k->kp = &k->num;
            k->canon = std::to_string((unsigned long long)k->num);
        } else {
            std::string w = WORDS[d.idx % NWORDS];
            k->bytes = apply_case(w, d.cmode, d.mask);
            if (recase && kind == K_CURSOR_IC) k->bytes = apply_case(k->bytes, 3, 0x5a5a ^ d.mask);
            k->canon = kind == K_CURSOR_IC ? ascii_lower(k->bytes) : k->bytes;
            k->align = (d.align + shift) % 8;
            size_t n = k->bytes.size();
            k->store.reset(new char[n + 24]);
            memset(k->store.get(), 0x5c, n + 24);
            char *base = (char *)(((uintptr_t)k->store.get() + 7) & ~(uintptr_t)7);
            k->at = base + k->align;
            memcpy(k->at, k->bytes.data(), n);
            k->at[n] = 0;
            k->cur = aws_byte_cursor_from_array(k->at, n);
            if (kind == K_STRING) {
                k->str = aws_string_new_from_array(A, (const uint8_t *)k->bytes.data(), n);
                k->kp = k->str;
            } else if (kind == K_CSTR) {
                k->kp = k->at;
            } else {
                k->kp = &k->cur;
            }
        }
        if (kind != K_PTR) by_ptr[k->kp] = k;
        else if (!by_ptr.count(k->kp)) by_ptr[k->kp] = k;
        return k;
    };
    auto new_val = [&]() -> LVal * {
        vals.emplace_back(new LVal());
        vals.back()->serial = next_serial++;
        valset.insert(vals.back().get());
        return vals.back().get();
    };

    // ---- (1) direct check over the pool and its probes ------------------------------------------
    std::vector<LKey *> pool, probe;
    for (auto &d : desc) pool.push_back(make(d, 0, false));
    for (size_t i = 0; i < desc.size(); i++) probe.push_back(make(desc[i], 1 + (unsigned)(i % 3), true));
    std::vector<LKey *> all = pool;
    all.insert(all.end(), probe.begin(), probe.end());
    uint64_t equal_pairs = 0, cross_align = 0, cross_case = 0;
    bool string_like = kind == K_STRING || kind == K_CSTR || kind == K_CURSOR || kind == K_CURSOR_IC;
    for (size_t i = 0; i < all.size(); i++) {
        LKey *a = all[i];
        uint64_t ha = hash_fn(a->kp);
        PBT_CHECK(hash_fn(a->kp) == ha, "%s: hash of the same key object differs between two calls", KIND_NAME[kind]);
        if (kind != K_PTR) PBT_CHECK(eq(a->kp, a->kp), "%s: equality is not reflexive", KIND_NAME[kind]);
        if (kind == K_U64) // hash_table.h: "it merely reflects the uint64 value back"
            PBT_CHECK(ha == a->num, "aws_hash_uint64_t_by_identity(%" PRIu64 ") = %" PRIu64, a->num, ha);
        if (string_like && kind != K_CURSOR_IC) {
            // header: aws_hash_string / aws_hash_byte_cursor_ptr hash the bytes as aws_hash_c_string does
            uint64_t hc = aws_hash_c_string(a->at), hb = aws_hash_byte_cursor_ptr(&a->cur);
            PBT_CHECK(hc == hb, "c-string hash %016" PRIx64 " != cursor hash %016" PRIx64 " for the same %zu bytes at alignment %u", hc,
                      hb, a->bytes.size(), a->align);
            PBT_CHECK(ha == hc, "%s hash differs from aws_hash_c_string over the same %zu bytes (alignment %u)", KIND_NAME[kind],
                      a->bytes.size(), a->align);
        }
        for (size_t j = i + 1; j < all.size(); j++) {
            LKey *b = all[j];
            bool ref = a->canon == b->canon;
            bool lib = eq(a->kp, b->kp);
            PBT_CHECK(lib == ref, "%s: equality says %d for keys whose reference equality is %d (lengths %zu/%zu)", KIND_NAME[kind],
                      (int)lib, (int)ref, a->bytes.size(), b->bytes.size());
            PBT_CHECK(eq(b->kp, a->kp) == lib, "%s: equality is not symmetric", KIND_NAME[kind]);
            if (ref) {
                uint64_t hb = hash_fn(b->kp);
                PBT_CHECK(ha == hb,
                          "%s: equal keys hash differently: %016" PRIx64 " vs %016" PRIx64 " (%zu bytes, alignments %u/%u, same case: %d)",
                          KIND_NAME[kind], ha, hb, a->bytes.size(), a->align, b->align, (int)(a->bytes == b->bytes));
                if (a->kp != b->kp) equal_pairs++;
                if (string_like && kind != K_STRING && align_class(a->at) != align_class(b->at)) cross_align++;
                if (a->bytes != b->bytes) cross_case++;
            }
        }
    }
    if (cross_align) ctx.tag("equal_pair_across_alignment_paths");
    if (cross_case) ctx.tag("equal_pair_across_case");

    // ---- (2) the map model -----------------------------------------------------------------------
    struct Ent {
        LKey *k;
        LVal *v;
    };
    std::map<std::string, Ent> model;
    struct aws_hash_table T;
    PBT_CHECK(aws_hash_table_init(&T, A, init_size, hash_fn, eq, kdtor, dv ? count_val_destroy : nullptr) == AWS_OP_SUCCESS, "init failed");
    uint64_t foreign_hits = 0;

    auto key_gone = [&](LKey *k) { // the table ran (or must have run) the key destructor on k
        if (!dk) return;
        if (kind == K_STRING) k->lib_destroyed_expected = true;
        else k->expected++;
    };
    auto val_gone = [&](LVal *v) {
        if (dv && v) v->expected++;
    };
    auto check_state = [&](const char *after) {
        if (ctx.failed) throw Failure{ctx.msg};
        PBT_CHECK(aws_hash_table_is_valid(&T), "after %s: table not valid", after);
        PBT_CHECK(aws_hash_table_get_entry_count(&T) == model.size(), "after %s: table reports %zu entries, reference has %zu", after,
                  aws_hash_table_get_entry_count(&T), model.size());
        for (size_t i = 0; i < probe.size(); i++) {
            struct aws_hash_element *e = (struct aws_hash_element *)0x1;
            PBT_CHECK(aws_hash_table_find(&T, probe[i]->kp, &e) == AWS_OP_SUCCESS);
            auto it = model.find(probe[i]->canon);
            if (it == model.end()) PBT_CHECK(e == nullptr, "after %s: finds a key the reference does not hold", after);
            else {
                PBT_CHECK(e != nullptr, "after %s: %s table does not find a stored key (%zu bytes; stored at alignment %u, looked up at %u)",
                          after, KIND_NAME[kind], probe[i]->bytes.size(), it->second.k->align, probe[i]->align);
                PBT_CHECK(e->key == it->second.k->kp && e->value == it->second.v, "after %s: stored key/value pointers differ from the reference", after);
            }
        }
        std::set<std::string> seen;
        size_t steps = 0;
        for (struct aws_hash_iter it = aws_hash_iter_begin(&T); !aws_hash_iter_done(&it); aws_hash_iter_next(&it)) {
            PBT_CHECK(++steps <= model.size(), "after %s: plain iteration yields more than %zu entries", after, model.size());
            auto ki = by_ptr.find(it.element.key);
            PBT_CHECK(ki != by_ptr.end(), "after %s: iteration yields a key pointer never given to the table", after);
            auto mi = model.find(ki->second->canon);
            PBT_CHECK(mi != model.end() && mi->second.k->kp == it.element.key && mi->second.v == it.element.value,
                      "after %s: iteration yields an entry the reference does not hold", after);
            PBT_CHECK(seen.insert(mi->first).second, "after %s: iteration yields a key twice", after);
        }
        PBT_CHECK(seen.size() == model.size(), "after %s: plain iteration visited %zu of %zu entries", after, seen.size(), model.size());
        for (auto &k : keys) {
            if (kind == K_STRING) {
                if (k->str) {
                    PBT_CHECK(galloc::is_live(k->str) == !k->lib_destroyed_expected, "after %s: an aws_string key was %s", after,
                              k->lib_destroyed_expected ? "not destroyed although its entry was overwritten/removed/cleared"
                                                        : "destroyed although it is still owned by the caller or stored");
                    if (k->lib_destroyed_expected) k->str = nullptr; // verified; the address may be reused from now on
                }
            } else
                PBT_CHECK(k->destroyed == k->expected, "after %s: key destroyed %d times, expected %d", after, k->destroyed, k->expected);
        }
        for (auto &v : vals)
            PBT_CHECK(v->destroyed == v->expected, "after %s: value #%u destroyed %d times, expected %d", after, v->serial, v->destroyed, v->expected);
        const char *m = nullptr;
        PBT_CHECK(galloc::check_all(&m), "%s", m ? m : "");
    };
    uint64_t hits = 0, cross_hits = 0;
    // a hit through a key object other than the stored one; classified further for the tags
    auto differs = [&](LKey *a, LKey *b) {
        hits++;
        if (a == b) return false;
        if (a->bytes != b->bytes || (string_like && kind != K_STRING && align_class(a->at) != align_class(b->at))) cross_hits++;
        return true;
    };

    check_state("init");
    for (auto &op : c.ops) {
        size_t pi = (size_t)(op.arg(0) % npool);
        const char *name = "?";
        switch (op.kind % NOPS) {
        case PUT: {
            name = "put";
            auto it = model.find(pool[pi]->canon);
            bool present = it != model.end();
            LKey *k;
            if (present && op.arg(1) % 4 == 0) k = it->second.k; // the same pointer again
            else k = make(desc[pi], (unsigned)op.arg(1), false);
            LVal *v = new_val();
            if (present) {
                if (it->second.k->kp != k->kp) key_gone(it->second.k);
                val_gone(it->second.v);
                if (differs(it->second.k, k)) foreign_hits++;
            }
            int wc = -1;
            PBT_CHECK(aws_hash_table_put(&T, k->kp, v, &wc) == AWS_OP_SUCCESS, "put failed");
            PBT_CHECK(wc == (present ? 0 : 1), "put: was_created=%d but the key was %s", wc, present ? "present" : "absent");
            model[k->canon] = Ent{k, v};
            break;
        }
        case CREATE: {
            name = "create";
            auto it = model.find(pool[pi]->canon);
            bool present = it != model.end();
            LKey *k = make(desc[pi], 2, false);
            struct aws_hash_element *e = nullptr;
            int wc = -1;
            PBT_CHECK(aws_hash_table_create(&T, k->kp, &e, &wc) == AWS_OP_SUCCESS && e, "create failed");
            PBT_CHECK(wc == (present ? 0 : 1), "create: was_created=%d but the key was %s", wc, present ? "present" : "absent");
            if (present) {
                PBT_CHECK(e->key == it->second.k->kp && e->value == it->second.v, "create of a present key did not return the stored element");
                if (differs(it->second.k, k)) foreign_hits++;
            } else {
                PBT_CHECK(e->key == k->kp && e->value == nullptr, "create of a new key: wrong element");
                LVal *v = new_val();
                e->value = v;
                model[k->canon] = Ent{k, v};
            }
            break;
        }
        case FIND: {
            name = "find";
            struct aws_hash_element *e = nullptr;
            PBT_CHECK(aws_hash_table_find(&T, pool[pi]->kp, &e) == AWS_OP_SUCCESS);
            auto it = model.find(pool[pi]->canon);
            PBT_CHECK((e != nullptr) == (it != model.end()), "find disagrees with the reference");
            if (e && differs(it->second.k, pool[pi])) foreign_hits++;
            break;
        }
        case REMOVE: {
            name = "remove";
            auto it = model.find(pool[pi]->canon);
            bool present = it != model.end();
            bool with_out = op.arg(1) % 2;
            if (present && !with_out) {
                key_gone(it->second.k);
                val_gone(it->second.v);
            }
            if (present && differs(it->second.k, probe[pi])) foreign_hits++;
            struct aws_hash_element out;
            AWS_ZERO_STRUCT(out);
            int wp = -1;
            PBT_CHECK(aws_hash_table_remove(&T, probe[pi]->kp, with_out ? &out : nullptr, &wp) == AWS_OP_SUCCESS);
            PBT_CHECK(wp == (present ? 1 : 0), "remove: was_present=%d but the key was %s", wp, present ? "present" : "absent");
            if (present) {
                if (with_out) PBT_CHECK(out.key == it->second.k->kp && out.value == it->second.v, "remove handed out different pointers than stored");
                model.erase(it);
            }
            break;
        }
        case REMOVE_ELEM: {
            name = "remove_element";
            struct aws_hash_element *e = nullptr;
            PBT_CHECK(aws_hash_table_find(&T, probe[pi]->kp, &e) == AWS_OP_SUCCESS);
            auto it = model.find(probe[pi]->canon);
            PBT_CHECK((e != nullptr) == (it != model.end()), "find disagrees with the reference");
            if (!e) break;
            PBT_CHECK(aws_hash_table_remove_element(&T, e) == AWS_OP_SUCCESS);
            model.erase(it);
            break;
        }
        case ITERATE: {
            name = "iterate";
            std::map<std::string, Ent> start = model;
            std::set<std::string> visited;
            size_t i = 0;
            for (struct aws_hash_iter it = aws_hash_iter_begin(&T); !aws_hash_iter_done(&it); aws_hash_iter_next(&it)) {
                PBT_CHECK(i < start.size(), "iterate: the walk yields more than the %zu entries stored at its start", start.size());
                auto ki = by_ptr.find(it.element.key);
                PBT_CHECK(ki != by_ptr.end(), "iterate: element key is not a key given to the table");
                std::string cn = ki->second->canon;
                auto si = start.find(cn);
                PBT_CHECK(si != start.end() && si->second.k->kp == it.element.key && si->second.v == it.element.value,
                          "iterate: visited an entry that was not stored at the start");
                PBT_CHECK(visited.insert(cn).second, "iterate: a key was visited twice");
                int d = op.b.empty() ? 0 : (unsigned char)op.b[std::min(i, op.b.size() - 1)] % 3;
                i++;
                if (d == 0) continue;
                if (d == 1) {
                    key_gone(si->second.k);
                    val_gone(si->second.v);
                }
                aws_hash_iter_delete(&it, d == 1);
                model.erase(cn);
                ctx.tag("iterate_with_delete");
            }
            PBT_CHECK(visited.size() == start.size(), "iterate: walk visited %zu of %zu stored entries", visited.size(), start.size());
            break;
        }
        case FOREACH: {
            name = "foreach";
            ForeachCtx f;
            f.ctx = &ctx;
            f.dec = &op.b;
            for (auto &kv : model) f.start[kv.first] = {kv.second.k, kv.second.v};
            int rc = aws_hash_table_foreach(&T, foreach_cb, &f);
            if (ctx.failed) throw Failure{ctx.msg};
            PBT_CHECK(rc == AWS_OP_SUCCESS, "foreach returned an error");
            for (auto &d : f.deleted) model.erase(d);
            if (!f.stopped && !f.may_stop) PBT_CHECK(f.visited.size() == f.start.size(), "foreach: full walk visited %zu of %zu entries", f.visited.size(), f.start.size());
            if (!f.deleted.empty()) ctx.tag("foreach_with_delete");
            break;
        }
        default: {
            name = "clear";
            for (auto &kv : model) {
                key_gone(kv.second.k);
                val_gone(kv.second.v);
            }
            aws_hash_table_clear(&T);
            model.clear();
            break;
        }
        }
        check_state(name);
    }
    for (auto &kv : model) {
        key_gone(kv.second.k);
        val_gone(kv.second.v);
    }
    model.clear();
    aws_hash_table_clean_up(&T);
    if (ctx.failed) throw Failure{ctx.msg};
    // everything the table did not own is still the caller's: release it, then the allocator must balance
    for (auto &k : keys) {
        if (kind == K_STRING && k->str) {
            PBT_CHECK(galloc::is_live(k->str) == !k->lib_destroyed_expected, "after clean_up: an aws_string key was %s",
                      k->lib_destroyed_expected ? "not destroyed by the table" : "destroyed although the caller still owns it");
            if (!k->lib_destroyed_expected) aws_string_destroy(k->str);
        } else if (kind != K_STRING)
            PBT_CHECK(k->destroyed == k->expected, "after clean_up: key destroyed %d times, expected %d", k->destroyed, k->expected);
    }
    for (auto &v : vals) PBT_CHECK(v->destroyed == v->expected, "after clean_up: value #%u destroyed %d times, expected %d", v->serial, v->destroyed, v->expected);
    PBT_CHECK(galloc::live_blocks() == 0, "clean_up left %zu blocks allocated", galloc::live_blocks());

    if (cross_hits) ctx.tag("hit_through_other_case_or_alignment");
    if (foreign_hits) ctx.tag("hit_through_pointer_distinct_key");
    if (kind == K_PTR ? hits >= 2 : (equal_pairs && foreign_hits)) ctx.nontrivial = true;
}

int main(int argc, char **argv) {
    Spec sp{"C02", "c02_libhash", gen_case, run,
            "one of the six library hash/equality pairs, 4-20 pool keys drawn from a per-case sub-vocabulary of 27 words (lengths 0-47, "
            "mixed case, 8 alignments) / 16 numbers / 16 pointer values, all-pairs equal=>equal-hash check, then <=50 map commands; "
            "non-trivial = >=1 pointer-distinct equal pair checked for equal hash and >=1 map hit (overwrite/find/remove) through a key "
            "object that is pointer-distinct from the stored one (pointer kind: >=2 hits on stored keys)"};
    return pbt_main(argc, argv, sp);
}

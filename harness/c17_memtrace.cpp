// C17 — memory tracer: reported bytes / count always equal what is live (sequential part).
// Model: slot table address -> requested size.  See DESIGN.md section 5 / C17.
//
// Caller obligations respected by construction (source/allocator.c): aws_mem_acquire(size 0) and
// aws_mem_calloc(num 0 | size 0) are fatal preconditions and never generated; the oldsize passed to
// aws_mem_realloc is always the block's current requested size; out-of-memory is never provoked.
#include "pbt.hpp"
#include <map>
#include "galloc.hpp"

#include <aws/common/allocator.h>
#include <aws/common/error.h>
#include <aws/common/logging.h>

#include <cstdarg>

using namespace pbt;

enum { ACQ = 0, CALLOC = 1, REALLOC = 2, REL = 3, DUMP = 4, QUERY = 5, NKINDS = 6 };
enum { R_GROW = 0, R_SHRINK = 1, R_SAME = 2, R_ZERO = 3, R_ANY = 4, R_FROM_NULL = 5, NMODES = 6 };
static const size_t NS = 12;
static const size_t MAXSZ = 80000;
static const size_t FRAMES[] = {0, 1, 8, 200};

static uint64_t gen_size() {
    switch (weighted({6, 3, 1})) {
    case 0:
        return one_of({1, 2, 3, 7, 8, 9, 15, 16, 17, 24, 31, 32, 33, 63, 64, 65, 100, 127, 128, 129, 255, 256, 257, 1000, 4095, 4096, 4097});
    case 1: return pick(1, 300);
    default: return chance(30) ? one_of({65535, 65536, 65537, 70000}) : pick(1, 20000);
    }
}

static Case gen_case() {
    Case c;
    // cfg: wrapped allocator (0 galloc::full, 1 galloc + in-place realloc, 2 galloc::basic), level, frames index,
    //      logger (0 none = the null logger, 1 recording at TRACE, 2 recording logger filtered at DEBUG)
    c.cfg = {(uint64_t)weighted({25, 35, 40}), (uint64_t)weighted({15, 45, 40}), pick(0, 3), pick(0, 2), pick(0, 79)};
    c.ops = op_list(80, [] {
        switch (weighted({22, 14, 30, 18, 8, 8})) {
        case 0: return mkop(ACQ, {pick(0, 63), gen_size()});
        case 1: return mkop(CALLOC, {pick(0, 63), one_of({1, 1, 2, 3, 7, 16, 50}), one_of({1, 3, 8, 24, 100, 257})});
        case 2: return mkop(REALLOC, {pick(0, 63), (uint64_t)weighted({30, 25, 15, 8, 12, 10}), gen_size()});
        case 3: return mkop(REL, {pick(0, 63)});
        case 4: return mkop(DUMP);
        default: return mkop(QUERY);
        }
    });
    return c;
}

// ---- wrapped allocator variant 1: galloc blocks, realloc keeps the block whenever the new size fits ----
static void *inplace_realloc(struct aws_allocator *a, void *old, size_t oldsize, size_t newsize) {
    size_t real = 0;
    if (old && galloc::is_live(old, &real) && newsize <= real) return old;
    return galloc::g_realloc(a, old, oldsize, newsize);
}
static struct aws_allocator *inplace_alloc() {
    static struct aws_allocator a = {galloc::g_acquire, galloc::g_release, inplace_realloc, galloc::g_calloc, nullptr};
    return &a;
}

// ---- recording logger ------------------------------------------------------------------------------
struct Rec {
    size_t lines = 0;
    bool hdr = false;
    size_t hdr_bytes = 0, hdr_count = 0;
    std::multiset<size_t> alloc_sizes;
    bool wrong_channel = false;
    int min_level = AWS_LL_TRACE;
};
static Rec g_rec;

static int rec_log(struct aws_logger *, enum aws_log_level lvl, aws_log_subject_t subj, const char *format, ...) {
    char buf[8192];
    va_list ap;
    va_start(ap, format);
    vsnprintf(buf, sizeof buf, format, ap);
    va_end(ap);
    g_rec.lines++;
    if (lvl != AWS_LL_TRACE || subj != AWS_LS_COMMON_MEMTRACE) g_rec.wrong_channel = true;
    size_t a = 0, b = 0;
    if (sscanf(buf, "tracer: %zu bytes still allocated in %zu allocations", &a, &b) == 2) {
        g_rec.hdr = true;
        g_rec.hdr_bytes = a;
        g_rec.hdr_count = b;
    } else if (sscanf(buf, "ALLOC %zu bytes", &a) == 1) {
        g_rec.alloc_sizes.insert(a);
    }
    return AWS_OP_SUCCESS;
}
static enum aws_log_level rec_level(struct aws_logger *, aws_log_subject_t) { return (enum aws_log_level)g_rec.min_level; }
static void rec_cleanup(struct aws_logger *) {}
static int rec_set_level(struct aws_logger *, enum aws_log_level) { return AWS_OP_SUCCESS; }
static struct aws_logger_vtable g_rec_vt = {rec_log, rec_level, rec_cleanup, rec_set_level};
static struct aws_logger g_rec_logger = {&g_rec_vt, nullptr, nullptr};

// ---- model -------------------------------------------------------------------------------------------
struct Blk {
    void *p = nullptr;
    size_t size = 0;
    uint32_t serial = 0;
};
static inline unsigned char pat(uint32_t serial, size_t i) { return (unsigned char)(serial * 131u + i * 7u + (i >> 8) * 13u + 1u); }
static void fill(const Blk &b) {
    unsigned char *q = (unsigned char *)b.p;
    for (size_t i = 0; i < b.size; i++) q[i] = pat(b.serial, i);
}
// first index < n at which p differs from the pattern of `serial`, or n
static size_t first_diff(const void *p, uint32_t serial, size_t n) {
    const unsigned char *q = (const unsigned char *)p;
    for (size_t i = 0; i < n; i++)
        if (q[i] != pat(serial, i)) return i;
    return n;
}

// Address space without memory: blocks of 4 GiB and more for the accounting of very large requests.  The tracer never
// touches the payload on acquire / release, so the pages are never faulted in.
#include <sys/mman.h>
static std::map<void *, size_t> g_lazy_live;
static void *lazy_acquire(struct aws_allocator *, size_t size) {
    void *p = mmap(nullptr, size, PROT_READ | PROT_WRITE, MAP_PRIVATE | MAP_ANONYMOUS | MAP_NORESERVE, -1, 0);
    if (p == MAP_FAILED) return nullptr;
    g_lazy_live[p] = size;
    return p;
}
static void lazy_release(struct aws_allocator *, void *p) {
    auto it = g_lazy_live.find(p);
    if (it == g_lazy_live.end()) abort();
    munmap(p, it->second);
    g_lazy_live.erase(it);
}
static struct aws_allocator g_lazy_alloc = {lazy_acquire, lazy_release, nullptr, nullptr, nullptr};

// Sizes at and above 2^32: the byte total is a size_t and has to stay exact.
static void huge_sizes_epilogue(const Case &c, Ctx &ctx, int level) {
    static const size_t HUGE[] = {((size_t)1 << 32) - 1, (size_t)1 << 32, ((size_t)1 << 32) + 4096, ((size_t)1 << 33) + 5, 1000};
    struct aws_allocator *tr = aws_mem_tracer_new(&g_lazy_alloc, nullptr, (enum aws_mem_trace_level)level, 4);
    PBT_CHECK(tr != nullptr, "tracer_new");
    void *blk[5] = {nullptr};
    size_t sum = 0, cnt = 0;
    for (int i = 0; i < 5; i++) {
        size_t n = HUGE[(c.c(4) + (uint64_t)i) % 5];
        blk[i] = aws_mem_acquire(tr, n);
        if (!blk[i]) continue; // address space exhausted: nothing to say
        sum += n;
        cnt++;
        PBT_CHECK(aws_mem_tracer_bytes(tr) == sum && aws_mem_tracer_count(tr) == cnt, "after acquire(%zu): bytes %zu count %zu, live sum %zu in %zu blocks",
                  n, aws_mem_tracer_bytes(tr), aws_mem_tracer_count(tr), sum, cnt);
    }
    for (int i = 0; i < 5; i++) {
        int k = (int)((c.c(4) / 5 + (uint64_t)i * 3) % 5);
        if (!blk[k]) continue;
        size_t n = g_lazy_live[blk[k]];
        aws_mem_release(tr, blk[k]);
        blk[k] = nullptr;
        sum -= n;
        cnt--;
        PBT_CHECK(aws_mem_tracer_bytes(tr) == sum && aws_mem_tracer_count(tr) == cnt, "after release of a %zu-byte block: bytes %zu count %zu, live sum %zu in %zu blocks",
                  n, aws_mem_tracer_bytes(tr), aws_mem_tracer_count(tr), sum, cnt);
    }
    PBT_CHECK(aws_mem_tracer_destroy(tr) == &g_lazy_alloc && g_lazy_live.empty(), "huge-size tracer: destroy / balance");
    ctx.tag("sizes_ge_4GiB");
}

static void run(const Case &c, Ctx &ctx) {
    galloc::reset();
    aws_logger_set(nullptr);
    g_rec = Rec();

    int akind = (int)(c.c(0) % 3);
    struct aws_allocator *wrapped = akind == 0 ? galloc::full() : akind == 1 ? inplace_alloc() : galloc::basic();
    int level = (int)(c.c(1) % 3);
    size_t frames = FRAMES[c.c(2) % 4];
    int logger = (int)(c.c(3) % 3);
    if (logger) {
        g_rec.min_level = logger == 1 ? AWS_LL_TRACE : AWS_LL_DEBUG;
        aws_logger_set(&g_rec_logger);
    }

    struct aws_allocator *tr = aws_mem_tracer_new(wrapped, nullptr, (enum aws_mem_trace_level)level, frames);
    PBT_CHECK(tr != nullptr && tr != wrapped, "aws_mem_tracer_new returned %p", (void *)tr);
    PBT_CHECK(galloc::live_blocks() == 0, "the tracer took %zu blocks from the traced allocator for itself", galloc::live_blocks());

    Blk s[NS];
    uint32_t serial = 0;
    unsigned moved = 0, kept = 0;

    auto nlive = [&] {
        size_t n = 0;
        for (auto &b : s) n += b.p != nullptr;
        return n;
    };
    auto total = [&] {
        size_t n = 0;
        for (auto &b : s)
            if (b.p) n += b.size;
        return n;
    };
    // k-th live / empty slot (k taken modulo their number); -1 if there is none
    auto nth = [&](bool live, uint64_t k) -> int {
        size_t cnt = live ? nlive() : NS - nlive();
        if (!cnt) return -1;
        k %= cnt;
        for (size_t i = 0; i < NS; i++)
            if ((s[i].p != nullptr) == live && k-- == 0) return (int)i;
        return -1;
    };
    auto check = [&](const char *after) {
        size_t eb = level == AWS_MEMTRACE_NONE ? 0 : total();
        size_t ec = level == AWS_MEMTRACE_NONE ? 0 : nlive();
        size_t b = aws_mem_tracer_bytes(tr), n = aws_mem_tracer_count(tr);
        PBT_CHECK(b == eb, "after %s: aws_mem_tracer_bytes = %zu, live blocks sum to %zu (%zu blocks, level %d)", after, b, eb, nlive(), level);
        PBT_CHECK(n == ec, "after %s: aws_mem_tracer_count = %zu, %zu blocks are live (level %d)", after, n, ec, level);
        for (size_t i = 0; i < NS; i++) {
            if (!s[i].p) continue;
            size_t real = 0;
            PBT_CHECK(galloc::is_live(s[i].p, &real) && real >= s[i].size, "after %s: block %zu is not a block of the wrapped allocator", after, i);
            size_t d = first_diff(s[i].p, s[i].serial, s[i].size);
            PBT_CHECK(d == s[i].size, "after %s: contents of block %zu (size %zu) changed at byte %zu", after, i, s[i].size, d);
        }
        const char *m = nullptr;
        PBT_CHECK(galloc::check_all(&m), "after %s: %s", after, m ? m : "");
    };

    check("new");
    for (auto &op : c.ops) {
        switch (op.kind % NKINDS) {
        case ACQ: {
            int i = nth(false, op.arg(0));
            if (i < 0) break;
            size_t n = (size_t)(1 + (op.arg(1, 1) - 1) % MAXSZ);
            void *p = aws_mem_acquire(tr, n);
            PBT_CHECK(p != nullptr, "acquire(%zu) returned NULL", n);
            size_t real = 0;
            PBT_CHECK(galloc::is_live(p, &real) && real == n, "acquire(%zu) did not return a block of the wrapped allocator of that size (%zu)", n, real);
            s[i] = Blk{p, n, ++serial};
            fill(s[i]);
            check("acquire");
            break;
        }
        case CALLOC: {
            int i = nth(false, op.arg(0));
            if (i < 0) break;
            size_t num = (size_t)(1 + (op.arg(1, 1) - 1) % 64), sz = (size_t)(1 + (op.arg(2, 1) - 1) % 512);
            void *p = aws_mem_calloc(tr, num, sz);
            PBT_CHECK(p != nullptr, "calloc(%zu,%zu) returned NULL", num, sz);
            size_t real = 0;
            PBT_CHECK(galloc::is_live(p, &real) && real == num * sz, "calloc(%zu,%zu) returned a block of %zu bytes", num, sz, real);
            for (size_t k = 0; k < num * sz; k++)
                PBT_CHECK(((unsigned char *)p)[k] == 0, "calloc(%zu,%zu): byte %zu is not zero", num, sz, k);
            s[i] = Blk{p, num * sz, ++serial};
            fill(s[i]);
            if (num > 1 && sz > 1) ctx.tag("calloc_num_gt1");
            check("calloc");
            break;
        }
        case REALLOC: {
            int mode = (int)(op.arg(1) % NMODES);
            int i = mode == R_FROM_NULL ? nth(false, op.arg(0)) : nth(true, op.arg(0));
            if (i < 0) i = nth(mode != R_FROM_NULL ? false : true, op.arg(0)); // nothing of the wanted kind: use the other
            if (i < 0) break;
            size_t old = s[i].p ? s[i].size : 0;
            uint64_t a = op.arg(2, 1);
            size_t nsz;
            if (!s[i].p) nsz = mode == R_ZERO ? 0 : (size_t)(1 + (a - 1) % MAXSZ);
            else if (mode == R_GROW) nsz = old + 1 + (size_t)(a % 4 == 0 ? a % 20000 : a % 300);
            else if (mode == R_SHRINK) nsz = old > 1 ? 1 + (size_t)(a % (old - 1)) : old;
            else if (mode == R_SAME) nsz = old;
            else if (mode == R_ZERO) nsz = 0;
            else nsz = (size_t)(1 + (a - 1) % MAXSZ);
            if (nsz > MAXSZ) nsz = MAXSZ;
            void *oldp = s[i].p, *p = s[i].p;
            uint32_t oldserial = s[i].serial;
            int rc = aws_mem_realloc(tr, &p, old, nsz);
            PBT_CHECK(rc == AWS_OP_SUCCESS, "realloc(%zu -> %zu) failed: %s", old, nsz, aws_error_name(aws_last_error()));
            if (nsz == 0) {
                PBT_CHECK(p == nullptr, "realloc to 0 left the pointer %p", p);
                if (oldp) PBT_CHECK(!galloc::is_live(oldp), "realloc to 0 did not hand the block back to the wrapped allocator");
                s[i] = Blk();
                ctx.tag(oldp ? "realloc_to_zero" : "realloc_null_to_zero");
            } else {
                PBT_CHECK(p != nullptr, "realloc(%zu -> %zu) returned NULL", old, nsz);
                size_t real = 0;
                PBT_CHECK(galloc::is_live(p, &real) && real >= nsz, "realloc(%zu -> %zu): result is not a block of the wrapped allocator with room for %zu (%zu)", old, nsz, nsz, real);
                size_t keep = old < nsz ? old : nsz;
                size_t d = first_diff(p, oldserial, keep);
                PBT_CHECK(d == keep, "realloc(%zu -> %zu) lost contents at byte %zu", old, nsz, d);
                if (!oldp) ctx.tag("realloc_from_null");
                else if (p != oldp) {
                    PBT_CHECK(!galloc::is_live(oldp), "realloc moved the block but the old block is still held");
                    moved++;
                } else
                    kept++;
                if (oldp) ctx.tag(nsz > old ? "realloc_grow" : nsz < old ? "realloc_shrink" : "realloc_same");
                if (oldp && p == oldp && nsz != old) ctx.tag("realloc_kept_size_changed");
                s[i] = Blk{p, nsz, ++serial};
                fill(s[i]);
            }
            check("realloc");
            break;
        }
        case REL: {
            int i = nth(true, op.arg(0));
            if (i < 0) {
                aws_mem_release(tr, nullptr); // documented no-op
                check("release(NULL)");
                break;
            }
            void *p = s[i].p;
            s[i] = Blk();
            aws_mem_release(tr, p);
            PBT_CHECK(!galloc::is_live(p), "release did not hand the block back to the wrapped allocator");
            check("release");
            break;
        }
        case DUMP: {
            bool rec = logger != 0;
            size_t l0 = g_rec.lines;
            g_rec.hdr = false;
            g_rec.alloc_sizes.clear();
            aws_mem_tracer_dump(tr);
            if (rec && logger == 1 && level != AWS_MEMTRACE_NONE && nlive() > 0) {
                // "if there are still allocations active, they will be reported to the aws_logger at TRACE level"
                PBT_CHECK(!g_rec.wrong_channel, "dump logged outside TRACE / the memtrace subject");
                PBT_CHECK(g_rec.hdr, "dump with %zu live blocks reported nothing (%zu lines)", nlive(), g_rec.lines - l0);
                PBT_CHECK(g_rec.hdr_bytes == total() && g_rec.hdr_count == nlive(),
                          "dump reports %zu bytes in %zu allocations, live: %zu bytes in %zu", g_rec.hdr_bytes, g_rec.hdr_count, total(), nlive());
                std::multiset<size_t> want;
                for (auto &b : s)
                    if (b.p) want.insert(b.size);
                PBT_CHECK(g_rec.alloc_sizes == want, "dump listed %zu allocations, %zu are live (or sizes differ)", g_rec.alloc_sizes.size(), want.size());
                ctx.tag("dump_reported_live_blocks");
            }
            if (level != AWS_MEMTRACE_NONE && nlive() > 0) ctx.tag("dump_with_live_blocks");
            check("dump");
            break;
        }
        default: {
            size_t b1 = aws_mem_tracer_bytes(tr), n1 = aws_mem_tracer_count(tr);
            size_t b2 = aws_mem_tracer_bytes(tr), n2 = aws_mem_tracer_count(tr);
            PBT_CHECK(b1 == b2 && n1 == n2, "two queries in a row differ: %zu/%zu then %zu/%zu", b1, n1, b2, n2);
            check("query");
            break;
        }
        }
    }

    if (level != AWS_MEMTRACE_NONE && moved && kept) ctx.nontrivial = true;
    if (moved) ctx.tag("realloc_moved");
    if (kept) ctx.tag("realloc_kept");
    ctx.tag(level == 0 ? "level_none" : level == 1 ? "level_bytes" : "level_stacks");
    ctx.tag(akind == 0 ? "alloc_full" : akind == 1 ? "alloc_inplace_realloc" : "alloc_basic");
    if (level == 2) ctx.tag("frames_" + std::to_string(frames));
    if (nlive() >= 6) ctx.tag("ge6_live_at_end");

    // release everything: both figures go back to zero
    for (size_t i = 0; i < NS; i++) {
        if (!s[i].p) continue;
        void *p = s[i].p;
        s[i] = Blk();
        aws_mem_release(tr, p);
        check("final release");
    }
    PBT_CHECK(aws_mem_tracer_bytes(tr) == 0 && aws_mem_tracer_count(tr) == 0, "everything released: bytes %zu count %zu",
              aws_mem_tracer_bytes(tr), aws_mem_tracer_count(tr));
    aws_mem_tracer_dump(tr);
    PBT_CHECK(aws_mem_tracer_bytes(tr) == 0 && aws_mem_tracer_count(tr) == 0, "dump of an empty tracer changed the figures");
    struct aws_allocator *back = aws_mem_tracer_destroy(tr);
    PBT_CHECK(back == wrapped, "aws_mem_tracer_destroy returned %p, the wrapped allocator is %p", (void *)back, (void *)wrapped);
    aws_logger_set(nullptr);
    if (level != AWS_MEMTRACE_NONE && c.c(4) % 8 == 7) huge_sizes_epilogue(c, ctx, level);
    PBT_CHECK(galloc::live_blocks() == 0, "%zu blocks (%zu bytes) of the wrapped allocator still held at the end", galloc::live_blocks(), galloc::live_bytes());
    const char *m = nullptr;
    PBT_CHECK(galloc::check_all(&m), "%s", m ? m : "");
}

int main(int argc, char **argv) {
    Spec sp{"C17", "c17_memtrace", gen_case, run,
            "<=80 commands (acquire, calloc, realloc grow/shrink/same/to 0/from NULL, release, dump, queries) on 12 slots through a "
            "tracer over galloc full / galloc with in-place realloc / galloc basic, level NONE/BYTES/STACKS, frames 0/1/8/200, with and "
            "without a recording logger; bytes, count and every block's pattern re-checked after every command; non-trivial = tracing "
            "level != NONE and >=1 realloc that moved the block and >=1 that kept it"};
    return pbt_main(argc, argv, sp);
}

// C17 — second engine for the "from any number of threads" clause: FREE-RUNNING threads under ThreadSanitizer.
//
// Under the controlled scheduler (c17_memtrace_mt) a preemption happens only at a mutex / atomic / clock operation.  If a
// change removes the lock calls around the tracer's table update, the update runs without any decision point inside it
// and is atomic there: the lost update cannot be seen.  Here 2-4 real threads run generated programs in parallel and the
// sanitizer's happens-before analysis is the oracle for "two threads touch the tracer's bookkeeping without
// synchronisation"; the accounting oracle (bytes / count exact whenever no operation is in flight, zero at the end)
// is checked as well.  Blocks are thread-private except for a hand-over phase separated by joins.
//
// op = {thread, kind, size class, slot}     kinds: ACQ, CALLOC, REALLOC, REL, QUERY, DUMP
#include "pbt.hpp"
#include "galloc.hpp"

#include <aws/common/common.h>

#include <atomic>
#include <memory>
#include <thread>

using namespace pbt;

enum { ACQ = 0, CALLOC = 1, REALLOC = 2, REL = 3, QUERY = 4, DUMP = 5, NKINDS = 6 };
static const int MAXT = 4, SLOTS = 6;
static const size_t SIZES[] = {1, 8, 24, 100, 512, 4000, 70000};

static Case gen_case() {
    Case c;
    // cfg: threads 2..4, level 1..2 (bytes, stacks), stack frames, second phase: every thread releases its neighbour's blocks
    c.cfg = {pick(0, 2), pick(1, 2), pick(1, 8), pick(0, 1)};
    c.ops = op_list(60, [] {
        uint64_t t = pick(0, MAXT - 1);
        switch (weighted({6, 2, 4, 4, 2, 1})) {
        case 0: return mkop(ACQ, {t, pick(0, 6), pick(0, SLOTS - 1)});
        case 1: return mkop(CALLOC, {t, pick(0, 6), pick(0, SLOTS - 1)});
        case 2: return mkop(REALLOC, {t, pick(0, 6), pick(0, SLOTS - 1)});
        case 3: return mkop(REL, {t, 0, pick(0, SLOTS - 1)});
        case 4: return mkop(QUERY, {t});
        default: return mkop(DUMP, {t});
        }
    });
    return c;
}

struct Blk {
    uint8_t *p = nullptr;
    size_t n = 0;
};
struct Th {
    std::vector<Op> prog;
    Blk slot[SLOTS];
    std::string err;
};
static uint8_t pat(const void *p, size_t i) {
    return (uint8_t)(((uintptr_t)p >> 4) * 31 + i * 7 + 1);
}
static void fill(Blk &b, size_t from) {
    for (size_t i = from; i < b.n; i++) b.p[i] = pat(nullptr, i);
}
static bool intact(const Blk &b, size_t upto, size_t *where) {
    for (size_t i = 0; i < upto; i++)
        if (b.p[i] != pat(nullptr, i)) {
            *where = i;
            return false;
        }
    return true;
}

static void run_thread(struct aws_allocator *tr, Th *th) {
    for (auto &op : th->prog) {
        Blk &b = th->slot[op.arg(2) % SLOTS];
        size_t n = SIZES[op.arg(1) % 7];
        size_t w = 0;
        switch (op.kind % NKINDS) {
        case ACQ:
        case CALLOC:
            if (b.p) break;
            b.p = (uint8_t *)(op.kind % NKINDS == ACQ ? aws_mem_acquire(tr, n) : aws_mem_calloc(tr, 1, n));
            b.n = n;
            if (!b.p) {
                th->err = "acquire returned NULL";
                return;
            }
            if (op.kind % NKINDS == CALLOC)
                for (size_t i = 0; i < n; i++)
                    if (b.p[i]) {
                        th->err = fmt("calloc(%zu): byte %zu is not zero", n, i);
                        return;
                    }
            fill(b, 0);
            break;
        case REALLOC: {
            if (!b.p) break;
            void *p = b.p;
            if (aws_mem_realloc(tr, &p, b.n, n) != AWS_OP_SUCCESS || !p) {
                th->err = "realloc failed";
                return;
            }
            size_t keep = std::min(b.n, n);
            b.p = (uint8_t *)p;
            b.n = n;
            if (!intact(b, keep, &w)) {
                th->err = fmt("realloc to %zu lost the old contents at byte %zu", n, w);
                return;
            }
            fill(b, keep);
            break;
        }
        case REL:
            if (!b.p) break;
            if (!intact(b, b.n, &w)) {
                th->err = fmt("block of %zu bytes damaged at byte %zu before its release", b.n, w);
                return;
            }
            aws_mem_release(tr, b.p);
            b = Blk{};
            break;
        case QUERY: {
            // other threads are in flight: only sanity (both figures cover at least this thread's own live blocks)
            size_t mine = 0, cnt = 0;
            for (auto &s : th->slot)
                if (s.p) mine += s.n, cnt++;
            size_t bytes = aws_mem_tracer_bytes(tr), count = aws_mem_tracer_count(tr);
            if (bytes < mine || count < cnt) {
                th->err = fmt("tracer reports %zu bytes / %zu blocks while this thread alone holds %zu bytes in %zu blocks", bytes, count, mine, cnt);
                return;
            }
            break;
        }
        default: aws_mem_tracer_dump(tr); break;
        }
    }
}

static void run(const Case &c, Ctx &ctx) {
    galloc::reset();
    int T = (int)(2 + c.c(0) % 3);
    int level = (int)(1 + (c.c(1) + 1) % 2); // 1 = bytes, 2 = stacks
    size_t frames = (size_t)(1 + c.c(2) % 8);
    bool handover = c.c(3) % 2 == 1;
    struct aws_allocator *tr = aws_mem_tracer_new(galloc::full(), nullptr, (enum aws_mem_trace_level)level, frames);
    PBT_CHECK(tr != nullptr);

    std::vector<std::unique_ptr<Th>> ths;
    for (int i = 0; i < T; i++) ths.emplace_back(new Th);
    for (auto &op : c.ops) ths[(size_t)(op.arg(0) % (uint64_t)T)]->prog.push_back(op);

    auto quiescent = [&](const char *when) {
        size_t eb = 0, ec = 0;
        for (auto &t : ths)
            for (auto &s : t->slot)
                if (s.p) eb += s.n, ec++;
        size_t b = aws_mem_tracer_bytes(tr), n = aws_mem_tracer_count(tr);
        PBT_CHECK(b == eb && n == ec, "%s (all threads joined): tracer reports %zu bytes / %zu blocks, live blocks sum to %zu bytes / %zu blocks", when, b, n,
                  eb, ec);
    };
    {
        std::vector<std::thread> run;
        for (auto &t : ths) run.emplace_back(run_thread, tr, t.get());
        for (auto &r : run) r.join();
    }
    for (auto &t : ths) PBT_CHECK(t->err.empty(), "%s", t->err.c_str());
    quiescent("after the parallel phase");
    if (handover) {
        // every thread releases the blocks its neighbour acquired (ownership handed over through the joins above)
        std::vector<std::thread> run;
        for (int i = 0; i < T; i++)
            run.emplace_back([&, i] {
                Th &other = *ths[(size_t)((i + 1) % T)];
                for (auto &s : other.slot)
                    if (s.p) {
                        aws_mem_release(tr, s.p);
                        s = Blk{};
                    }
            });
        for (auto &r : run) r.join();
        quiescent("after the hand-over phase");
        ctx.tag("handover_release");
    }
    size_t live = 0;
    for (auto &t : ths)
        for (auto &s : t->slot)
            if (s.p) {
                aws_mem_release(tr, s.p);
                s = Blk{};
                live++;
            }
    PBT_CHECK(aws_mem_tracer_bytes(tr) == 0 && aws_mem_tracer_count(tr) == 0, "everything released: tracer reports %zu bytes / %zu blocks",
              aws_mem_tracer_bytes(tr), aws_mem_tracer_count(tr));
    struct aws_allocator *back = aws_mem_tracer_destroy(tr);
    PBT_CHECK(back == galloc::full(), "aws_mem_tracer_destroy did not return the wrapped allocator");
    const char *gm = nullptr;
    PBT_CHECK(galloc::check_all(&gm), "%s", gm ? gm : "");
    PBT_CHECK(galloc::live_blocks() == 0, "%zu blocks (%zu bytes) of the wrapped allocator are still live after destroy", galloc::live_blocks(),
              galloc::live_bytes());

    int busy = 0;
    for (auto &t : ths)
        if (t->prog.size() >= 3) busy++;
    if (busy >= 2) ctx.nontrivial = true;
    ctx.tag(level == 2 ? "level_stacks" : "level_bytes");
    ctx.tag("threads_" + std::to_string(T));
}

int main(int argc, char **argv) {
    Spec sp{"C17", "c17_race", gen_case, run,
            "free-running threads under ThreadSanitizer: 2-4 threads with generated programs of acquire / calloc / realloc / release / query / dump on "
            "thread-private blocks through one tracer (bytes or stacks level), optionally a second phase in which every thread releases its neighbour's "
            "blocks. Oracle: no data race report; contents kept; bytes / count exact whenever all threads are joined and zero at the end; wrapped "
            "allocator balanced. Non-trivial = at least two threads with three or more operations; distinct by hash of the serialised case"};
    return pbt_main(argc, argv, sp);
}

// C19 — date-time: formatting and parsing round-trip and agree with the calendar.
// Reference: proleptic-Gregorian days-from-civil / civil-from-days arithmetic written here (no libc
// calendar call anywhere in the oracle); it is cross-checked at start-up against a naive
// day-by-day calendar walk over 1970..9999.  See DESIGN.md section 5 / C19.
//
// A case is a short list of independent operations:
//   FMT   {t, ms, init_mode, t2, cap_mode, api}
//         init from epoch (millis or seconds.millis double) -> accessors, epoch views, diff, the six
//         (format x full/short) texts versus the reference rendering, and parse-back of five of
//         them with the explicit format, with AUTO_DETECT and (ISO) with the other ISO flag, which
//         the header documents as equivalent.  The sixth (RFC 822 short, a text the library prints
//         but has no defined way to read) is its own sub-check, see KNOWN_ID below.
//   PARSE {t, zigzag(off), fmt_kind, zone_style, lower, frac_kind, sep, mode, api, neg_zero + 2*shape4_no_weekday, rfc822_shape} | fraction digits
//         the harness renders civil time (t + offset) with the offset / designator and expects t.
// cfg[0] bit 0 = "force the rfc822-short parse-back sub-check and do only that" (regress/C19/known-rfc822-short.replay).
//
// Caller obligations respected: strings <= AWS_DATE_TIME_STR_MAX_LEN; AUTO_DETECT never passed to a formatter;
// every RFC 822 input carries a zone (zone-less RFC 822 is "local time, please don't"); the week day is optional
// (source comment and the suite's rfc822_utc_no_dow_parsing), two-digit years are only rendered for 2000..2049 (where "20yy" and the RFC 2822 reading agree).
#include "pbt.hpp"

#include <aws/common/byte_buf.h>
#include <aws/common/common.h>
#include <aws/common/date_time.h>
#include <aws/common/error.h>

#include <cmath>
#include <memory>

using namespace pbt;

static const int64_t MAX_T = 253402300799LL; // 9999-12-31T23:59:59Z
static const char *KNOWN_ID = "datetime-rfc822-short-parse";
static bool g_known_rfc822_short = false; // VERIF_KNOWN lists KNOWN_ID: skip (and count) that sub-check

// ---------------------------------------------------------------- reference calendar
struct Civil {
    int64_t y;
    unsigned mo, d, h, mi, s, wd; // mo 1..12, wd 0 = Sunday
};

static bool is_leap(int64_t y) { return y % 4 == 0 && (y % 100 != 0 || y % 400 == 0); }
static unsigned days_in_month(int64_t y, unsigned m) {
    static const unsigned dm[] = {31, 28, 31, 30, 31, 30, 31, 31, 30, 31, 30, 31};
    return m == 2 && is_leap(y) ? 29 : dm[m - 1];
}
// days since 1970-01-01 of a proleptic Gregorian date (era arithmetic: 400-year cycles of 146097 days)
static int64_t days_from_civil(int64_t y, unsigned m, unsigned d) {
    y -= m <= 2;
    const int64_t era = (y >= 0 ? y : y - 399) / 400;
    const unsigned yoe = (unsigned)(y - era * 400);
    const unsigned doy = (153 * (m > 2 ? m - 3 : m + 9) + 2) / 5 + d - 1;
    const unsigned doe = yoe * 365 + yoe / 4 - yoe / 100 + doy;
    return era * 146097 + (int64_t)doe - 719468;
}
static void civil_from_days(int64_t z, int64_t *y, unsigned *m, unsigned *d) {
    z += 719468;
    const int64_t era = (z >= 0 ? z : z - 146096) / 146097;
    const unsigned doe = (unsigned)(z - era * 146097);
    const unsigned yoe = (doe - doe / 1460 + doe / 36524 - doe / 146096) / 365;
    const unsigned doy = doe - (365 * yoe + yoe / 4 - yoe / 100);
    const unsigned mp = (5 * doy + 2) / 153;
    *d = doy - (153 * mp + 2) / 5 + 1;
    *m = mp < 10 ? mp + 3 : mp - 9;
    *y = (int64_t)yoe + era * 400 + (*m <= 2);
}
static Civil civil_of(int64_t t) {
    int64_t days = t >= 0 ? t / 86400 : -((-t + 86399) / 86400);
    int64_t tod = t - days * 86400;
    Civil c;
    civil_from_days(days, &c.y, &c.mo, &c.d);
    c.h = (unsigned)(tod / 3600);
    c.mi = (unsigned)(tod % 3600 / 60);
    c.s = (unsigned)(tod % 60);
    c.wd = (unsigned)(((days % 7) + 7 + 4) % 7); // 1970-01-01 was a Thursday
    return c;
}
// The two closed formulas above against a naive walk (one day at a time, leap rule only).
static bool reference_self_test() {
    int64_t y = 1970;
    unsigned m = 1, d = 1, wd = 4;
    for (int64_t day = 0; day <= MAX_T / 86400; day++) {
        int64_t yy;
        unsigned mm, dd;
        civil_from_days(day, &yy, &mm, &dd);
        if (yy != y || mm != m || dd != d || days_from_civil(y, m, d) != day || civil_of(day * 86400 + 86399).wd != wd)
            return false;
        wd = (wd + 1) % 7;
        if (++d > days_in_month(y, m)) {
            d = 1;
            if (++m > 12) {
                m = 1;
                y++;
            }
        }
    }
    return y == 10000 && m == 1 && d == 1;
}

static const char *WD[] = {"Sun", "Mon", "Tue", "Wed", "Thu", "Fri", "Sat"};
static const char *MON[] = {"Jan", "Feb", "Mar", "Apr", "May", "Jun", "Jul", "Aug", "Sep", "Oct", "Nov", "Dec"};
enum { K_RFC822 = 0, K_ISO = 1, K_BASIC = 2 };
static const char *KNAME[] = {"RFC822", "ISO_8601", "ISO_8601_BASIC", "AUTO_DETECT"};

static std::string ref_format(const Civil &c, int kind, bool full) {
    switch (kind) {
    case K_RFC822:
        return full ? fmt("%s, %02u %s %04lld %02u:%02u:%02u GMT", WD[c.wd], c.d, MON[c.mo - 1], (long long)c.y, c.h, c.mi, c.s)
                    : fmt("%s, %02u %s %04lld", WD[c.wd], c.d, MON[c.mo - 1], (long long)c.y);
    case K_ISO:
        return full ? fmt("%04lld-%02u-%02uT%02u:%02u:%02uZ", (long long)c.y, c.mo, c.d, c.h, c.mi, c.s)
                    : fmt("%04lld-%02u-%02u", (long long)c.y, c.mo, c.d);
    default:
        return full ? fmt("%04lld%02u%02uT%02u%02u%02uZ", (long long)c.y, c.mo, c.d, c.h, c.mi, c.s)
                    : fmt("%04lld%02u%02u", (long long)c.y, c.mo, c.d);
    }
}

// ---------------------------------------------------------------- generator
enum { OP_FMT = 0, OP_PARSE = 1, NKINDS };

static uint64_t clampT(int64_t t) { return (uint64_t)(t < 0 ? 0 : t > MAX_T ? MAX_T : t); }
static int64_t gen_delta() {
    if (chance(60)) {
        static const int64_t D[] = {-86400, -86399, -3600, -61, -60, -1, 0, 1, 59, 60, 3599, 3600, 86399, 86400};
        return D[pick(0, 13)];
    }
    return (int64_t)pick(0, 2 * 86400) - 86400;
}
static uint64_t gen_instant() {
    static const int YEARS[] = {1970, 1972, 1999, 2000, 2001, 2004, 2038, 2100, 2400, 9999};
    switch (weighted({26, 28, 12, 10, 12, 12})) {
    case 0:
        return pick(0, (uint64_t)MAX_T);
    case 1: { // month boundaries of the listed years, +-1 s ... +-1 day
        int y = YEARS[pick(0, 9)];
        unsigned m = (unsigned)pick(1, 13); // 13 = January of the next year
        int64_t b = (m == 13 ? days_from_civil(y + 1, 1, 1) : days_from_civil(y, m, 1)) * 86400;
        return clampT(b + gen_delta());
    }
    case 2: { // any year (all leap / century-rule cases), biased to the February/March boundary
        int64_t y = (int64_t)pick(1970, 9999);
        if (chance(40)) y = y / 100 * 100 + (y < 2000 ? 100 : 0); // a century year
        unsigned m = chance(50) ? 3 : (unsigned)pick(1, 12);
        return clampT(days_from_civil(y, m, 1) * 86400 + gen_delta());
    }
    case 3: { // the extremes and width boundaries of the representations
        static const int64_t S[] = {0, 1, 59, 60, 3599, 3600, 86399, 86400, MAX_T, MAX_T - 1, MAX_T - 86399, MAX_T - 86400,
                                    2147483647LL, 2147483648LL, 4294967295LL, 4294967296LL,
                                    18446744073LL, 18446744074LL /* last/first second whose nanoseconds (do not) fit 64 bits */,
                                    951782400LL /* 2000-02-29 */, 1033516800LL /* 2002-10-02 */};
        return (uint64_t)S[pick(0, 19)];
    }
    case 4: { // 28/29 February and 1 March, any time of day
        int64_t y = (int64_t)pick(1970, 9999);
        switch (pick(0, 2)) {
        case 0: y = y / 4 * 4; break;                 // divisible by 4 (leap unless century rule)
        case 1: y = y / 100 * 100 + (y < 2000 ? 100 : 0); break;
        default: break;
        }
        if (y < 1970) y = 1972;
        unsigned which = (unsigned)pick(0, 2);
        int64_t day = which == 0 ? days_from_civil(y, 2, 28) : which == 1 ? days_from_civil(y, 3, 1) - 1 : days_from_civil(y, 3, 1);
        return clampT(day * 86400 + (int64_t)pick(0, 86399));
    }
    default: { // any day, boundary time of day
        static const int64_t TOD[] = {0, 1, 59, 60, 3599, 3600, 43199, 43200, 86340, 86399};
        return clampT((int64_t)pick(0, (uint64_t)(MAX_T / 86400)) * 86400 + TOD[pick(0, 9)]);
    }
    }
}

static Op gen_fmt() {
    uint64_t ms = chance(30) ? one_of({0, 1, 499, 500, 999}) : pick(0, 999);
    return mkop(OP_FMT, {gen_instant(), ms, pick(0, 1), chance(50) ? gen_instant() : pick(0, (uint64_t)MAX_T), pick(0, 7), pick(0, 1)});
}
static Op gen_parse() {
    uint64_t t = gen_instant();
    uint64_t kind = pick(0, 2);
    // zone style: 0 +-hhmm, 1 +-hh:mm, 2 Z, 3 UT, 4 UTC, 5 GMT   (1 is ISO only, 3..5 are RFC 822 only)
    static const uint64_t ZR[] = {0, 2, 3, 4, 5}, ZI[] = {0, 1, 2};
    uint64_t zs = kind == K_RFC822 ? ZR[weighted({48, 13, 13, 13, 13})] : ZI[weighted({35, 35, 30})];
    // every draw is mapped so that its smallest value means offset 0 (rapidcheck shrinks the draws, not the case)
    auto unzig = [](uint64_t v) { return v & 1 ? -(int)((v + 1) / 2) : (int)(v / 2); };
    int off;
    switch (weighted({60, 25, 15})) {
    case 0: off = unzig(pick(0, 112)) * 15; break; // quarter hours, -14:00..+14:00
    case 1: off = unzig(pick(0, 1680)); break;     // any minute
    default: {
        static const int B[] = {0, -1, 1, -59, 59, -60, 60, -210, 345, 570, -570, 765, 839, -839, 840, -840};
        off = B[pick(0, 15)];
    }
    }
    uint64_t frac = kind == K_RFC822 ? 0 : weighted({50, 25, 25});
    std::string digits;
    if (frac) {
        size_t n = chance(25) ? 9 : (size_t)pick(1, 9);
        digits = chance(15) ? std::string(n, '9') : bytes(n, n, '0', '9');
    }
    return mkop(OP_PARSE, {t, (uint64_t)(off >= 0 ? 2 * off : -2 * off - 1) /* zigzag: shrinks towards 0 */, kind, zs, pick(0, 1), frac, pick(0, 2), pick(0, 2), pick(0, 1), pick(0, 3), weighted({40, 20, 15, 10, 15})}, digits);
}

static Case gen_case() {
    Case c;
    c.cfg = {0};
    std::function<Op()> genop = [] { return chance(45) ? gen_fmt() : gen_parse(); };
    c.ops = op_list(6, genop);
    if (c.ops.empty()) c.ops.push_back(genop());
    return c;
}

// ---------------------------------------------------------------- library access
struct Parsed {
    int rc = 0, err = 0;
    struct aws_date_time dt;
};
// The text is handed over in an exact-size heap block so that ASan sees any read past its end.
static Parsed lib_parse(const std::string &text, int lib_fmt, bool use_cursor) {
    Parsed p;
    memset(&p.dt, 0xA5, sizeof p.dt);
    size_t n = text.size();
    std::unique_ptr<uint8_t[]> mem(new uint8_t[n ? n : 1]);
    memcpy(mem.get(), text.data(), n);
    aws_reset_error();
    if (use_cursor) {
        struct aws_byte_cursor cur = aws_byte_cursor_from_array(mem.get(), n);
        p.rc = aws_date_time_init_from_str_cursor(&p.dt, &cur, (enum aws_date_format)lib_fmt);
    } else {
        struct aws_byte_buf b = aws_byte_buf_from_array(mem.get(), n);
        p.rc = aws_date_time_init_from_str(&p.dt, &b, (enum aws_date_format)lib_fmt);
    }
    p.err = p.rc == AWS_OP_SUCCESS ? 0 : aws_last_error();
    return p;
}

static void check_fields(const struct aws_date_time &dt, int64_t t, const char *what) {
    Civil c = civil_of(t);
    PBT_CHECK((int64_t)dt.timestamp == t, "%s: timestamp %lld, expected %lld", what, (long long)dt.timestamp, (long long)t);
    unsigned y = aws_date_time_year(&dt, false), mo = (unsigned)aws_date_time_month(&dt, false), d = aws_date_time_month_day(&dt, false),
             h = aws_date_time_hour(&dt, false), mi = aws_date_time_minute(&dt, false), s = aws_date_time_second(&dt, false),
             wd = (unsigned)aws_date_time_day_of_week(&dt, false);
    PBT_CHECK(y == c.y && mo + 1 == c.mo && d == c.d && h == c.h && mi == c.mi && s == c.s && wd == c.wd,
              "%s: t=%lld accessors give %u-%02u-%02u %02u:%02u:%02u weekday %u; calendar says %lld-%02u-%02u %02u:%02u:%02u weekday %u",
              what, (long long)t, y, mo + 1, d, h, mi, s, wd, (long long)c.y, c.mo, c.d, c.h, c.mi, c.s, c.wd);
    PBT_CHECK(!aws_date_time_dst(&dt, false), "%s: UTC view reports daylight saving time", what);
}

static void expect_parse(const std::string &text, int lib_fmt, bool use_cursor, int64_t expect, bool expect_ms0, const char *what) {
    Parsed p = lib_parse(text, lib_fmt, use_cursor);
    PBT_CHECK(p.rc == AWS_OP_SUCCESS, "%s: parsing \"%s\" as %s failed (%s, error %d); expected instant %lld", what, text.c_str(),
              KNAME[lib_fmt], p.err == AWS_ERROR_INVALID_DATE_STR ? "AWS_ERROR_INVALID_DATE_STR" : "other error", p.err, (long long)expect);
    PBT_CHECK((int64_t)p.dt.timestamp == expect, "%s: parsing \"%s\" as %s gave %lld, expected %lld (difference %lld s)", what, text.c_str(),
              KNAME[lib_fmt], (long long)p.dt.timestamp, (long long)expect, (long long)p.dt.timestamp - (long long)expect);
    check_fields(p.dt, expect, what);
    if (expect_ms0)
        PBT_CHECK(p.dt.milliseconds == 0 && aws_date_time_as_millis(&p.dt) == (uint64_t)expect * 1000, "%s: \"%s\": millisecond part %u after parsing",
                  what, text.c_str(), p.dt.milliseconds);
}

static size_t g_prefix_len = 0; // bytes already in the output buffer (byte buffers are appended to): set per operation
static std::string lib_format(const struct aws_date_time &dt, int kind, bool full, bool exact_fit, const std::string &ref) {
    size_t pre = g_prefix_len;
    size_t cap = pre + (exact_fit ? ref.size() + 1 : (size_t)AWS_DATE_TIME_STR_MAX_LEN); // strftime needs room for its terminator
    std::unique_ptr<uint8_t[]> mem(new uint8_t[cap]);
    memset(mem.get(), 0x7e, cap);
    for (size_t i = 0; i < pre; i++) mem[i] = (uint8_t)('a' + i % 26);
    struct aws_byte_buf out = aws_byte_buf_from_empty_array(mem.get(), cap);
    out.len = pre;
    aws_reset_error();
    int rc = full ? aws_date_time_to_utc_time_str(&dt, (enum aws_date_format)kind, &out)
                  : aws_date_time_to_utc_time_short_str(&dt, (enum aws_date_format)kind, &out);
    PBT_CHECK(rc == AWS_OP_SUCCESS, "formatting t=%lld as %s %s into %zu free bytes failed (error %d); reference text \"%s\"", (long long)dt.timestamp,
              KNAME[kind], full ? "full" : "short", cap - pre, aws_last_error(), ref.c_str());
    PBT_CHECK(out.buffer == mem.get() && out.capacity == cap && out.len <= cap && out.len >= pre, "formatter changed the buffer descriptor");
    for (size_t i = 0; i < pre; i++)
        PBT_CHECK(mem[i] == (uint8_t)('a' + i % 26), "formatting into a buffer that already holds %zu bytes overwrote byte %zu of them", pre, i);
    return std::string((const char *)out.buffer + pre, out.len - pre);
}

static void rfc822_short_parse_back(const std::string &text, int64_t t, bool use_cursor) {
    int64_t day_start = t - t % 86400;
    std::string what = std::string("rfc822-short parse-back [") + KNOWN_ID + "]";
    expect_parse(text, AWS_DATE_FORMAT_RFC822, use_cursor, day_start, true, what.c_str());
    expect_parse(text, AWS_DATE_FORMAT_AUTO_DETECT, use_cursor, day_start, true, what.c_str());
}

// ---------------------------------------------------------------- the operations
static void run_fmt(const Op &op, Ctx &ctx, bool only_rfc822_short) {
    int64_t t = (int64_t)(op.arg(0) % (uint64_t)(MAX_T + 1));
    unsigned ms = (unsigned)(op.arg(1) % 1000);
    bool init_secs = op.arg(2) % 2 == 1;
    int64_t t2 = (int64_t)(op.arg(3) % (uint64_t)(MAX_T + 1));
    bool exact_fit = op.arg(4) % 2 == 1, use_cursor = op.arg(5) % 2 == 1;
    static const size_t PRE[] = {0, 0, 7, 31};
    g_prefix_len = PRE[op.arg(4) / 2 % 4]; // the text is appended behind what the buffer already holds
    if (g_prefix_len) ctx.tag("output_buffer_not_empty");
    Civil c = civil_of(t);

    struct aws_date_time dt;
    memset(&dt, 0xA5, sizeof dt);
    if (only_rfc822_short) {
        aws_date_time_init_epoch_millis(&dt, (uint64_t)t * 1000);
        std::string ref = ref_format(c, K_RFC822, false);
        std::string text = lib_format(dt, K_RFC822, false, false, ref);
        PBT_CHECK(text == ref, "RFC822 short text of t=%lld is \"%s\", reference \"%s\"", (long long)t, text.c_str(), ref.c_str());
        ctx.tag("forced_rfc822_short_parse_back");
        rfc822_short_parse_back(text, t, use_cursor);
        return;
    }

    if (init_secs) {
        aws_date_time_init_epoch_secs(&dt, (double)t + ms / 1000.0);
        ctx.tag("init_epoch_secs");
    } else {
        aws_date_time_init_epoch_millis(&dt, (uint64_t)t * 1000 + ms);
    }
    PBT_CHECK(dt.milliseconds == ms, "init from %s: t=%lld ms=%u stored millisecond part %u", init_secs ? "seconds" : "millis", (long long)t, ms,
              dt.milliseconds);
    check_fields(dt, t, init_secs ? "init_epoch_secs" : "init_epoch_millis");

    // epoch views
    uint64_t want_ms = (uint64_t)t * 1000 + ms;
    PBT_CHECK(aws_date_time_as_millis(&dt) == want_ms, "as_millis %llu, expected %llu", (unsigned long long)aws_date_time_as_millis(&dt),
              (unsigned long long)want_ms);
    unsigned __int128 want_ns = (unsigned __int128)want_ms * 1000000u;
    if (want_ns <= (unsigned __int128)UINT64_MAX) {
        PBT_CHECK(aws_date_time_as_nanos(&dt) == (uint64_t)want_ns, "as_nanos %llu, expected %llu (t=%lld ms=%u)",
                  (unsigned long long)aws_date_time_as_nanos(&dt), (unsigned long long)(uint64_t)want_ns, (long long)t, ms);
        PBT_CHECK(aws_date_time_as_nanos(&dt) == aws_date_time_as_millis(&dt) * 1000000u, "nanosecond and millisecond views disagree");
    } else {
        (void)aws_date_time_as_nanos(&dt); // not representable in 64 bits: nothing is promised beyond not crashing
        ctx.tag("nanos_unrepresentable");
    }
    double secs = aws_date_time_as_epoch_secs(&dt);
    // a double near 2.5e11 has a spacing of 2^-15 s, so "equal" means well inside one millisecond
    PBT_CHECK(std::fabs(secs - ((double)t + ms / 1000.0)) <= 2.5e-4 && std::fabs(secs * 1000.0 - (double)want_ms) <= 0.25,
              "as_epoch_secs %.6f disagrees with as_millis %llu", secs, (unsigned long long)want_ms);

    // difference of two instants
    struct aws_date_time other;
    memset(&other, 0xA5, sizeof other);
    aws_date_time_init_epoch_millis(&other, (uint64_t)t2 * 1000 + 999 - ms);
    PBT_CHECK((int64_t)aws_date_time_diff(&dt, &other) == t - t2 && (int64_t)aws_date_time_diff(&other, &dt) == t2 - t,
              "diff(%lld,%lld) = %lld / reverse %lld", (long long)t, (long long)t2, (long long)aws_date_time_diff(&dt, &other),
              (long long)aws_date_time_diff(&other, &dt));

    // the six texts
    std::string text[3][2];
    for (int kind = 0; kind < 3; kind++)
        for (int full = 1; full >= 0; full--) {
            std::string ref = ref_format(c, kind, full);
            text[kind][full] = lib_format(dt, kind, full, exact_fit, ref);
            PBT_CHECK(text[kind][full] == ref, "%s %s text of t=%lld is \"%s\", reference \"%s\"", KNAME[kind], full ? "full" : "short", (long long)t,
                      text[kind][full].c_str(), ref.c_str());
        }
    // parse-back of the five that have a defined reading
    int64_t day_start = t - t % 86400;
    for (int kind = 0; kind < 3; kind++)
        for (int full = 1; full >= 0; full--) {
            if (kind == K_RFC822 && !full) continue;
            int64_t want = full ? t : day_start;
            const char *what = full ? "round trip (full)" : "round trip (date only)";
            expect_parse(text[kind][full], kind, use_cursor, want, true, what);
            expect_parse(text[kind][full], AWS_DATE_FORMAT_AUTO_DETECT, !use_cursor, want, true, what);
            if (kind != K_RFC822) // header: "The parser is lenient regarding ISO_8601 vs ISO_8601_BASIC"
                expect_parse(text[kind][full], kind == K_ISO ? K_BASIC : K_ISO, use_cursor, want, true, "round trip (other ISO flag)");
        }

    // classes
    bool boundary = c.d == 1 || c.d == days_in_month(c.y, c.mo);
    if (boundary && (c.y % 4 == 0 || c.y % 100 == 0)) {
        ctx.nontrivial = true;
        ctx.tag("month_boundary_in_leap_or_century_year");
    }
    if (boundary) ctx.tag("month_boundary_day");
    if (c.mo == 2 && c.d == 29) ctx.tag("leap_day");
    if (c.y % 100 == 0 && c.y % 400 != 0 && ((c.mo == 2 && c.d == 28) || (c.mo == 3 && c.d == 1))) ctx.tag("century_nonleap_feb28_mar1");
    if (c.y % 400 == 0 && c.mo == 2 && c.d == 29) ctx.tag("leap_day_400");
    if (t == 0) ctx.tag("extreme_min");
    if (t == MAX_T) ctx.tag("extreme_max");
    if (c.y == 9999) ctx.tag("year_9999");
    if (t > 2147483647LL) ctx.tag("after_2038");
    if (c.d < 10) ctx.tag("single_digit_day");
    if (exact_fit) ctx.tag("exact_fit_buffer");
    if (ms) ctx.tag("millis_nonzero");

    // the sixth text: printed by the library, no defined reading (DESIGN C19 "D", F10)
    if (g_known_rfc822_short) {
        ctx.tag("excluded_known_rfc822_short");
    } else {
        ctx.tag("rfc822_short_parse_back");
        rfc822_short_parse_back(text[K_RFC822][0], t, use_cursor);
    }
}

static void run_parse(const Op &op, Ctx &ctx) {
    int64_t t = (int64_t)(op.arg(0) % (uint64_t)(MAX_T + 1));
    unsigned zz = (unsigned)(op.arg(1) % 1681);
    int off = zz & 1 ? -(int)((zz + 1) / 2) : (int)(zz / 2); // minutes east of UTC, -840..+840
    int kind = (int)(op.arg(2) % 3);
    int zs = (int)(op.arg(3) % 6);
    bool lower = op.arg(4) % 2 == 1;
    int frac = (int)(op.arg(5) % 3);
    int sep = (int)(op.arg(6) % 3);
    int mode = (int)(op.arg(7) % 3);
    bool use_cursor = op.arg(8) % 2 == 1, neg_zero = op.arg(9) % 2 == 1;
    // RFC 822 shape: 0 "Tue, 15 Oct 2002", 1 no week day ("week day abbr is optional"), 2 two-digit year ("year can be
    // 4 or 2 digits": 20yy), 3 both, 4 day of month without leading zero (RFC 822: 1*2DIGIT)
    int shape = (int)(op.arg(10) % 5);

    // normalise to what the format's grammar has (so that every op is a valid program)
    if (kind == K_RFC822 && zs == 1) zs = 0;       // RFC 822 offsets have no colon
    if (kind != K_RFC822 && zs >= 3) zs = 2;       // ISO 8601 knows Z only
    if (kind == K_RFC822) frac = 0, sep = 0;       // RFC 822 has neither fractions nor a T
    if (zs >= 2) off = 0;
    int64_t L = t + (int64_t)off * 60;             // civil time shown in the text
    if (L < 0 || L > MAX_T) {
        off = -off;
        L = t + (int64_t)off * 60;
    }
    Civil c = civil_of(L);

    std::string zone;
    if (zs <= 1) {
        bool neg = off < 0 || (off == 0 && neg_zero);
        unsigned a = (unsigned)(off < 0 ? -off : off);
        zone = fmt(zs == 1 ? "%c%02u:%02u" : "%c%02u%02u", neg ? '-' : '+', a / 60, a % 60);
    } else {
        static const char *UP[] = {"Z", "UT", "UTC", "GMT"}, *LO[] = {"z", "ut", "utc", "gmt"};
        zone = (lower ? LO : UP)[zs - 2];
    }
    std::string fraction;
    if (frac) {
        for (unsigned char ch : op.b)
            if (fraction.size() < 9) fraction.push_back((char)('0' + ch % 10));
        if (fraction.empty()) fraction = "5";
        fraction.insert(fraction.begin(), frac == 1 ? '.' : ',');
    }
    std::string text;
    const char SEP[] = {'T', 't', ' '};
    if (kind != K_RFC822) shape = 0;
    if ((shape == 2 || shape == 3) && (c.y < 2000 || c.y > 2049)) shape -= 2; // 00..49: 20yy to this parser and by the RFC 2822 pivot alike
    if (kind == K_RFC822) {
        bool wd = shape == 0 || shape == 2 || (shape == 4 && op.arg(9) / 2 % 2 == 0), yy = shape == 2 || shape == 3;
        text = (wd ? std::string(WD[c.wd]) + ", " : std::string()) + fmt(shape == 4 ? "%u" : "%02u", c.d) + " " + MON[c.mo - 1] + " " +
               (yy ? fmt("%02lld", (long long)(c.y - 2000)) : fmt("%04lld", (long long)c.y)) + fmt(" %02u:%02u:%02u ", c.h, c.mi, c.s) + zone;
        if (!wd) ctx.tag("rfc822_no_weekday");
        if (yy) ctx.tag("rfc822_two_digit_year");
        if (shape == 4 && c.d < 10) ctx.tag("rfc822_one_digit_day");
    }
    else if (kind == K_ISO)
        text = fmt("%04lld-%02u-%02u%c%02u:%02u:%02u", (long long)c.y, c.mo, c.d, SEP[sep], c.h, c.mi, c.s) + fraction + zone;
    else
        text = fmt("%04lld%02u%02u%c%02u%02u%02u", (long long)c.y, c.mo, c.d, SEP[sep], c.h, c.mi, c.s) + fraction + zone;

    int lib_fmt = mode == 1 ? (int)AWS_DATE_FORMAT_AUTO_DETECT : kind;
    if (mode == 2 && kind != K_RFC822) lib_fmt = kind == K_ISO ? K_BASIC : K_ISO; // documented as interchangeable
    if (ctx.replay) fprintf(stderr, "parse \"%s\" as %s, expecting %lld\n", text.c_str(), KNAME[lib_fmt], (long long)t);
    // a fraction is below the resolution of the result: only the whole second is asserted then
    expect_parse(text, lib_fmt, use_cursor, t, frac == 0, "parse with offset/designator");

    if (off != 0) {
        ctx.nontrivial = true;
        ctx.tag("offset_nonzero");
        if (off % 15) ctx.tag("offset_not_quarter_hour");
        if (off % 60) ctx.tag("offset_minutes_nonzero");
        ctx.tag(off < 0 ? "offset_west" : "offset_east");
        if (civil_of(t).d != c.d) ctx.tag("offset_crosses_midnight");
        if (civil_of(t).y != c.y) ctx.tag("offset_crosses_year");
    } else if (zs <= 1)
        ctx.tag(neg_zero ? "offset_minus_zero" : "offset_plus_zero");
    ctx.tag(kind == K_RFC822 ? "parse_rfc822" : kind == K_ISO ? "parse_iso_extended" : "parse_iso_basic");
    if (zs == 0) ctx.tag("zone_hhmm");
    if (zs == 1) ctx.tag("zone_hh_colon_mm");
    if (zs >= 2) ctx.tag("zone_" + zone);
    if (frac) ctx.tag(frac == 1 ? "fraction_dot" : "fraction_comma");
    if (frac && fraction.size() == 10) ctx.tag("fraction_9_digits");
    if (kind != K_RFC822) ctx.tag(sep == 0 ? "sep_T" : sep == 1 ? "sep_t" : "sep_space");
    ctx.tag(lib_fmt == (int)AWS_DATE_FORMAT_AUTO_DETECT ? "parse_mode_auto" : lib_fmt == kind ? "parse_mode_explicit" : "parse_mode_other_iso_flag");
}

static void run(const Case &c, Ctx &ctx) {
    bool only_rfc822_short = c.c(0) & 1;
    for (auto &op : c.ops) {
        if (only_rfc822_short) {
            if (op.kind % NKINDS == OP_FMT) run_fmt(op, ctx, true);
            continue;
        }
        if (op.kind % NKINDS == OP_FMT) run_fmt(op, ctx, false);
        else run_parse(op, ctx);
    }
}

int main(int argc, char **argv) {
    // The driver sets TZ: UTC for the main target, a non-UTC POSIX zone for the *_tz_* targets (nothing the property
    // talks about may depend on the process time zone).  Only a stray run without TZ falls back to UTC.
    setenv("TZ", "UTC", 0);
    tzset();
    const char *k = getenv("VERIF_KNOWN");
    if (k) {
        std::string s = std::string(",") + k + ",";
        g_known_rfc822_short = s.find(std::string(",") + KNOWN_ID + ",") != std::string::npos;
    }
    if (!reference_self_test()) {
        fprintf(stderr, "c19_datetime: the reference calendar failed its own cross-check\n");
        return 3;
    }
    Spec sp{"C19", "c19_datetime", gen_case, run,
            "1-6 independent operations per case. FMT: instant (uniform in 1970..9999, month boundaries +-1s..+-1day of listed and arbitrary "
            "years, leap days, century years, extremes, 2^31/2^32 seconds) -> accessors, epoch views, six texts vs. reference, parse-back with "
            "explicit format / AUTO_DETECT / other ISO flag. PARSE: harness-rendered RFC 822 / ISO extended / ISO basic text with offset "
            "-14:00..+14:00 (+-hhmm, ISO also +-hh:mm), Z/UT/UTC/GMT in both cases, RFC 822 also without week day, with a two-digit year (2000..2049) and a one-digit day, ISO fraction .d{1,9} / ,d{1,9}, T/t/space. Non-trivial = an "
            "instant on the first or last day of a month in a year divisible by 4 or 100, or a parse input with a non-zero offset; distinct by "
            "hash of the serialised case"};
    return pbt_main(argc, argv, sp);
}

// C14 (part A, sequential) — logging delivers every accepted line exactly once, whole and in order;
// level filtering; the no-alloc logger and the standard formatter cut a line that does not fit but keep
// it newline-terminated and inside the buffer.  See DESIGN.md section 5 / C14.
#include "pbt.hpp"
#include "galloc.hpp"

#include <aws/common/common.h>
#include <aws/common/date_time.h>
#include <aws/common/log_channel.h>
#include <aws/common/log_formatter.h>
#include <aws/common/log_writer.h>
#include <aws/common/logging.h>
#include <aws/common/string.h>
#include <aws/common/thread.h>

#include <cstdarg>
#include <pthread.h>

using namespace pbt;

enum { LOG = 0, SET_LEVEL = 1, FORMAT_DIRECT = 2, GET_COND = 3 };
enum { PIPELINE_FG = 0, NOALLOC = 1, STANDARD = 2 };

static const char *LEVELS[] = {"NONE", "FATAL", "ERROR", "WARN", "INFO", "DEBUG", "TRACE"};

// log subjects registered by the harness (package slot 21): names of 1 .. 120 bytes, because the prefix budget of
// the formatters depends on the subject name's length
static const size_t SUBJ_LENS[] = {1, 14, 40, 80, 87, 88, 89, 90, 91, 100, 120};
static const int NSUBJ = sizeof SUBJ_LENS / sizeof SUBJ_LENS[0];
static std::string g_subj_names[NSUBJ];
static struct aws_log_subject_info g_subj_infos[NSUBJ];
static struct aws_log_subject_info_list g_subj_list = {g_subj_infos, NSUBJ};
static void register_subjects() {
    for (int i = 0; i < NSUBJ; i++) {
        g_subj_names[i] = std::string(SUBJ_LENS[i], (char)('A' + i));
        g_subj_infos[i].subject_id = AWS_LOG_SUBJECT_BEGIN_RANGE(21) + (aws_log_subject_t)i;
        g_subj_infos[i].subject_name = g_subj_names[i].c_str();
        g_subj_infos[i].subject_description = "harness subject";
    }
    aws_register_log_subject_info_list(&g_subj_list);
}

static Case gen_case() {
    Case c;
    // cfg: logger kind, date format (0 rfc822, 1 iso, 2 iso basic), initial level
    c.cfg = {weighted({5, 3, 2}), pick(0, 2), pick(0, 6)};
    c.ops = op_list(40, [] {
        switch (weighted({10, 3, 4, 1})) {
        case 0: {
            // a: level 1..6, subject kind (0 registered, 1 unregistered), shape, length class / numbers
            uint64_t shape = pick(0, 4);
            uint64_t len;
            switch (weighted({4, 3, 3, 2})) {
            case 0: len = pick(0, 40); break;
            case 1: len = pick(0, 600); break;
            case 2: len = 20000 + pick(0, 160); break; // buffer - 140 .. buffer + 20, around the no-alloc logger's line buffer (measured in run())
            default: len = pick(0, 9000); break;
            }
            return mkop(LOG, {pick(1, 6), weighted({3, 2, 3}) == 2 ? 2 + pick(0, NSUBJ - 1) : pick(0, 1), shape, len, any_u64()});
        }
        case 1: return mkop(SET_LEVEL, {pick(0, 6)});
        case 2: return mkop(FORMAT_DIRECT, {pick(1, 400), pick(1, 6), pick(0, 2), pick(0, 200), pick(0, 1)});
        default: return mkop(GET_COND, {pick(1, 6)});
        }
    });
    return c;
}

// ---- harness log writer ---------------------------------------------------
struct Rec {
    std::vector<std::string> lines;
};
static int writer_write(struct aws_log_writer *w, const struct aws_string *out) {
    ((Rec *)w->impl)->lines.emplace_back((const char *)aws_string_bytes(out), out->len);
    return AWS_OP_SUCCESS;
}
static void writer_clean_up(struct aws_log_writer *) {}
static struct aws_log_writer_vtable writer_vt = {writer_write, writer_clean_up};

static std::string thread_id_repr() {
    pthread_t t = pthread_self();
    unsigned char b[sizeof t];
    memcpy(b, &t, sizeof t);
    std::string s;
    for (size_t i = sizeof t; i-- > 0;) s += fmt("%02x", b[i]);
    return s;
}

static bool digits(const std::string &s, size_t pos, size_t n) {
    if (pos + n > s.size()) return false;
    for (size_t i = 0; i < n; i++)
        if (s[pos + i] < '0' || s[pos + i] > '9') return false;
    return true;
}
// does s look like a timestamp in the given format?
static bool timestamp_ok(const std::string &s, int df) {
    if (df == 1) // 2026-09-26T22:57:55Z
        return s.size() == 20 && digits(s, 0, 4) && s[4] == '-' && digits(s, 5, 2) && s[7] == '-' && digits(s, 8, 2) && s[10] == 'T' &&
               digits(s, 11, 2) && s[13] == ':' && digits(s, 14, 2) && s[16] == ':' && digits(s, 17, 2) && s[19] == 'Z';
    if (df == 2) // 20260926T225755Z
        return s.size() == 16 && digits(s, 0, 8) && s[8] == 'T' && digits(s, 9, 6) && s[15] == 'Z';
    // Sat, 26 Sep 2026 22:57:55 GMT
    static const char *days[] = {"Sun", "Mon", "Tue", "Wed", "Thu", "Fri", "Sat"};
    static const char *mons[] = {"Jan", "Feb", "Mar", "Apr", "May", "Jun", "Jul", "Aug", "Sep", "Oct", "Nov", "Dec"};
    if (s.size() != 29) return false;
    bool d = false, m = false;
    for (auto x : days) d |= s.compare(0, 3, x) == 0;
    for (auto x : mons) m |= s.compare(8, 3, x) == 0;
    return d && m && s[3] == ',' && s[4] == ' ' && digits(s, 5, 2) && s[7] == ' ' && s[11] == ' ' && digits(s, 12, 4) && s[16] == ' ' &&
           digits(s, 17, 2) && s[19] == ':' && digits(s, 20, 2) && s[22] == ':' && digits(s, 23, 2) && s.compare(25, 4, " GMT") == 0;
}

// Checks one delivered line against what was logged.  `cut` = the line may be a truncated prefix.
static void check_line(const std::string &line, int level, const std::string &subject, const std::string &msg, int df,
                       bool may_be_cut, size_t max_len, bool *was_cut) {
    PBT_CHECK(!line.empty() && line.back() == '\n', "line does not end in a newline: [%s]", line.substr(0, 120).c_str());
    PBT_CHECK(line.find('\0') == std::string::npos, "line contains a NUL");
    PBT_CHECK(line.find('\n') == line.size() - 1, "line contains more than one newline");
    std::string body = line.substr(0, line.size() - 1);
    // prefix
    std::string lp = std::string("[") + LEVELS[level] + "] [";
    size_t pos = 0;
    auto expect = [&](const std::string &e, const char *what) -> bool {
        size_t avail = body.size() - pos;
        if (avail < e.size()) {
            PBT_CHECK(may_be_cut && body.compare(pos, avail, e, 0, avail) == 0, "%s: got [%s]", what, body.substr(0, 160).c_str());
            pos = body.size();
            return false; // cut here
        }
        PBT_CHECK(body.compare(pos, e.size(), e) == 0, "%s: expected [%s] in [%s]", what, e.c_str(), body.substr(0, 160).c_str());
        pos += e.size();
        return true;
    };
    bool complete = expect(lp, "level prefix");
    if (complete) {
        size_t close = body.find(']', pos);
        if (close == std::string::npos) {
            PBT_CHECK(may_be_cut, "timestamp not closed in [%s]", body.substr(0, 160).c_str());
            complete = false;
            pos = body.size();
        } else {
            std::string ts = body.substr(pos, close - pos);
            PBT_CHECK(timestamp_ok(ts, df), "timestamp [%s] is not in date format %d", ts.c_str(), df);
            pos = close;
        }
    }
    if (complete) complete = expect("] [" + thread_id_repr() + "] ", "thread id");
    if (complete) complete = expect("[" + subject + "]", "subject");
    if (complete) complete = expect(" - ", "separator");
    if (complete) {
        std::string rest = body.substr(pos);
        if (rest.size() < msg.size()) {
            PBT_CHECK(may_be_cut && msg.compare(0, rest.size(), rest) == 0, "message differs (got %zu bytes, expected %zu): [%s]",
                      rest.size(), msg.size(), rest.substr(0, 100).c_str());
            complete = false;
        } else {
            PBT_CHECK(rest == msg, "message differs: got [%s] expected [%s]", rest.substr(0, 100).c_str(), msg.substr(0, 100).c_str());
        }
    }
    if (!complete) PBT_CHECK(line.size() + 1 >= max_len, "line was cut (%zu bytes) although the buffer (%zu) had room", line.size(), max_len);
    if (was_cut) *was_cut = !complete;
}

struct Msg {
    std::string expect;
};
static std::string make_str(size_t n, uint64_t seed) {
    std::string s(n, 'x');
    for (size_t i = 0; i < n; i++) s[i] = (char)('!' + (seed + i * 7 + (i >> 3)) % 90); // printable, no '%' handling needed for %s
    return s;
}

static int call_format(struct aws_logging_standard_formatting_data *d, ...) {
    va_list ap;
    va_start(ap, d);
    int rc = aws_format_standard_log_line(d, ap);
    va_end(ap);
    return rc;
}

static void run(const Case &c, Ctx &ctx) {
    galloc::reset();
    int kind = (int)(c.c(0) % 3);
    int df = (int)(c.c(1) % 3);
    enum aws_date_format fmts[] = {AWS_DATE_FORMAT_RFC822, AWS_DATE_FORMAT_ISO_8601, AWS_DATE_FORMAT_ISO_8601_BASIC};
    int level = (int)(c.c(2) % 7);
    struct aws_allocator *alloc = galloc::full();

    Rec rec;
    struct aws_log_writer writer = {&writer_vt, alloc, &rec};
    struct aws_log_formatter formatter;
    struct aws_log_channel channel;
    struct aws_logger logger;
    FILE *file = nullptr;
    char *filebuf = nullptr;
    size_t filesz = 0;
    size_t consumed = 0;
    if (kind == PIPELINE_FG) {
        struct aws_log_formatter_standard_options fo = {fmts[df]};
        PBT_CHECK(aws_log_formatter_init_default(&formatter, alloc, &fo) == AWS_OP_SUCCESS);
        PBT_CHECK(aws_log_channel_init_foreground(&channel, alloc, &writer) == AWS_OP_SUCCESS);
        PBT_CHECK(aws_logger_init_from_external(&logger, alloc, &formatter, &channel, &writer, (enum aws_log_level)level) == AWS_OP_SUCCESS);
    } else {
        df = 1; // the no-alloc logger and the standard logger always use ISO 8601
        file = open_memstream(&filebuf, &filesz);
        PBT_CHECK(file != nullptr);
        struct aws_logger_standard_options lo = {(enum aws_log_level)level, nullptr, file};
        if (kind == NOALLOC) PBT_CHECK(aws_logger_init_noalloc(&logger, alloc, &lo) == AWS_OP_SUCCESS);
        // the standard logger: default formatter + background channel (a real thread here) + the library's file writer;
        // lines arrive asynchronously, so they are checked after clean-up, which must flush everything accepted
        else PBT_CHECK(aws_logger_init_standard(&logger, alloc, &lo) == AWS_OP_SUCCESS);
    }
    // The no-alloc logger cuts lines at an "internal constant" (logging.h): measured here, not assumed - the length of the
    // line a 100 000-byte message comes out as is the longest line this logger emits.
    size_t noalloc_max = 0;
    if (kind == NOALLOC) {
        char *pb = nullptr;
        size_t ps = 0;
        FILE *pf = open_memstream(&pb, &ps);
        PBT_CHECK(pf != nullptr);
        struct aws_logger probe;
        struct aws_logger_standard_options po = {AWS_LL_TRACE, nullptr, pf};
        PBT_CHECK(aws_logger_init_noalloc(&probe, alloc, &po) == AWS_OP_SUCCESS);
        std::string big(100000, 'p');
        probe.vtable->log(&probe, AWS_LL_FATAL, AWS_LS_COMMON_GENERAL, "%s", big.c_str());
        aws_logger_clean_up(&probe);
        fflush(pf);
        noalloc_max = ps;
        bool nl = ps > 0 && pb[ps - 1] == '\n';
        fclose(pf);
        free(pb);
        PBT_CHECK(noalloc_max >= 200 && noalloc_max < 100000 && nl, "no-alloc logger: a 100000-byte message came out as %zu bytes%s", noalloc_max,
                  nl ? "" : " without a newline");
    }
    struct Pending {
        int lv;
        std::string sname, msg;
    };
    std::vector<Pending> pending;
    aws_logger_set(&logger);

    size_t expected_lines = 0;
    bool any_cut = false, any_level_change = false, any_filtered = false;
    int logs = 0;
    auto fetch_new_lines = [&]() -> std::vector<std::string> {
        std::vector<std::string> out;
        if (kind == PIPELINE_FG) {
            for (size_t i = consumed; i < rec.lines.size(); i++) out.push_back(rec.lines[i]);
            consumed = rec.lines.size();
        } else {
            fflush(file);
            if (filesz > consumed) {
                // the no-alloc logger writes one line per call; there is exactly one new chunk
                out.emplace_back(filebuf + consumed, filesz - consumed);
                consumed = filesz;
            }
        }
        return out;
    };

    for (auto &op : c.ops) {
        switch (op.kind) {
        case LOG: {
            int lv = (int)(1 + op.arg(0) % 6);
            uint64_t sk = op.arg(1) % (2 + NSUBJ);
            bool registered = sk != 1;
            // unregistered ids: an arbitrary one, or the id just past the end of a registered list
            aws_log_subject_t unreg = (op.arg(4) & 1) ? (aws_log_subject_t)0x7123 : (aws_log_subject_t)(AWS_LOG_SUBJECT_BEGIN_RANGE(21) + NSUBJ);
            aws_log_subject_t subject = sk == 0   ? (aws_log_subject_t)AWS_LS_COMMON_GENERAL
                                        : sk == 1 ? unreg
                                                  : g_subj_infos[sk - 2].subject_id;
            std::string sname = aws_log_subject_name(subject);
            if (!registered) PBT_CHECK(sname == "Unknown", "unregistered subject name [%s]", sname.c_str());
            if (sk >= 2) {
                PBT_CHECK(sname == g_subj_names[sk - 2], "registered subject name not returned");
                if (sname.size() >= 80) ctx.tag("long_subject_name");
            }
            size_t raw = (size_t)(op.arg(3) % 20161);
            size_t len = raw < 20000 ? raw % 9001 : (kind == NOALLOC ? noalloc_max + 1 : 8192) - 140 + (raw - 20000);
            uint64_t seed = op.arg(4);
            std::string msg;
            std::string s = make_str(len, seed);
            logs++;
            switch (op.arg(2) % 5) {
            case 0:
                msg = s;
                AWS_LOGF((enum aws_log_level)lv, subject, "%s", s.c_str());
                break;
            case 1:
                msg = fmt("n=%d z=%zu", (int)(seed >> 7), (size_t)seed);
                AWS_LOGF((enum aws_log_level)lv, subject, "n=%d z=%zu", (int)(seed >> 7), (size_t)seed);
                break;
            case 2: {
                int prec = (int)std::min<size_t>(len, 300);
                msg = s.substr(0, (size_t)prec) + "|" + fmt("%p", (void *)(uintptr_t)(seed | 1));
                AWS_LOGF((enum aws_log_level)lv, subject, "%.*s|%p", prec, s.c_str(), (void *)(uintptr_t)(seed | 1));
                break;
            }
            case 3:
                msg = "100% literal";
                AWS_LOGF((enum aws_log_level)lv, subject, "100%% literal");
                break;
            default:
                msg = "plain message";
                AWS_LOGF((enum aws_log_level)lv, subject, "plain message");
                break;
            }
            bool accepted = level != 0 && lv <= level;
            if (kind == STANDARD) {
                if (accepted) pending.push_back(Pending{lv, sname, msg});
                else any_filtered = true;
                break;
            }
            auto lines = fetch_new_lines();
            if (!accepted) {
                any_filtered = true;
                PBT_CHECK(lines.empty(), "a call at level %s produced output although the active level is %s", LEVELS[lv], LEVELS[level]);
                break;
            }
            PBT_CHECK(lines.size() == 1, "a call at level %s (active %s) produced %zu lines", LEVELS[lv], LEVELS[level], lines.size());
            expected_lines++;
            bool cut = false;
            if (kind == NOALLOC) {
                PBT_CHECK(lines[0].size() <= noalloc_max, "no-alloc line of %zu bytes is longer than the longest line this logger emits (%zu)", lines[0].size(),
                          noalloc_max);
                check_line(lines[0], lv, sname, msg, df, /*may_be_cut=*/true, noalloc_max + 1, &cut);
            } else {
                check_line(lines[0], lv, sname, msg, df, false, 0, &cut);
            }
            any_cut |= cut;
            break;
        }
        case SET_LEVEL: {
            int nl = (int)(op.arg(0) % 7);
            PBT_CHECK(aws_logger_set_log_level(&logger, (enum aws_log_level)nl) == AWS_OP_SUCCESS);
            if (nl != level && logs) any_level_change = true;
            level = nl;
            PBT_CHECK((int)logger.vtable->get_log_level(&logger, AWS_LS_COMMON_GENERAL) == level, "level not applied");
            break;
        }
        case GET_COND: {
            int lv = (int)(1 + op.arg(0) % 6);
            struct aws_logger *l = aws_logger_get_conditional(AWS_LS_COMMON_GENERAL, (enum aws_log_level)lv);
            PBT_CHECK((l != nullptr) == (lv <= level), "aws_logger_get_conditional(level %s) with active %s", LEVELS[lv], LEVELS[level]);
            break;
        }
        case FORMAT_DIRECT: {
            size_t total = (size_t)(1 + op.arg(0) % 400);
            int lv = (int)(1 + op.arg(1) % 6);
            int d2 = (int)(op.arg(2) % 3);
            size_t mlen = (size_t)(op.arg(3) % 201);
            bool with_subject = op.arg(4) % 2 == 0;
            const size_t G = 32;
            std::vector<unsigned char> buf(total + 2 * G, 0x7e);
            std::string s = make_str(mlen, mlen * 131);
            struct aws_logging_standard_formatting_data d;
            AWS_ZERO_STRUCT(d);
            d.log_line_buffer = (char *)buf.data() + G;
            d.total_length = total;
            d.level = (enum aws_log_level)lv;
            d.subject_name = with_subject ? "subj" : nullptr;
            d.format = "%s";
            d.date_format = fmts[d2];
            d.allocator = alloc;
            aws_reset_error();
            int rc = call_format(&d, s.c_str());
            for (size_t i = 0; i < G; i++)
                PBT_CHECK(buf[i] == 0x7e && buf[G + total + i] == 0x7e, "formatter wrote outside its %zu-byte buffer", total);
            if (rc == AWS_OP_SUCCESS) {
                PBT_CHECK(d.amount_written >= 1 && d.amount_written <= total, "amount_written %zu of %zu", d.amount_written, total);
                std::string line((char *)buf.data() + G, d.amount_written);
                PBT_CHECK(line.back() == '\n', "formatted line (buffer %zu) does not end in a newline", total);
                PBT_CHECK(line.find('\0') == std::string::npos, "formatted line (buffer %zu) contains a NUL", total);
                // when the whole line fits it must be exact
                size_t full = 4 + strlen(LEVELS[lv]) + (d2 == 0 ? 29 : d2 == 1 ? 20 : 16) + 3 + 16 + 2 + (with_subject ? 6 : 0) + 3 + mlen + 1;
                if (total > full + 1) {
                    bool cut = false;
                    // subject-less lines have no "[subject]" field: check_line expects one, so only the subject form is compared in full
                    if (with_subject) check_line(line, lv, "subj", s, d2, false, 0, &cut);
                    PBT_CHECK(line.size() == full, "line is %zu bytes, expected %zu", line.size(), full);
                } else {
                    ctx.tag("direct_format_cut");
                    any_cut = true;
                }
            } else {
                PBT_CHECK(aws_last_error() != 0, "formatter failed without raising an error");
                // it must succeed once the buffer can hold the whole line
                PBT_CHECK(total < 64, "formatter failed (%s) although the buffer (%zu) can hold the line", aws_error_name(aws_last_error()), total);
            }
            break;
        }
        }
    }
    aws_logger_set(nullptr);
    aws_logger_clean_up(&logger);
    if (kind == PIPELINE_FG) {
        PBT_CHECK(rec.lines.size() == expected_lines, "writer saw %zu lines, %zu were accepted", rec.lines.size(), expected_lines);
        aws_log_channel_clean_up(&channel);
        aws_log_formatter_clean_up(&formatter);
    } else {
        if (kind == STANDARD) {
            // clean-up has returned: every accepted line is in the file, whole, once, in call order
            fflush(file);
            std::vector<std::string> got;
            size_t start = 0;
            for (size_t i = 0; i < filesz; i++)
                if (filebuf[i] == '\n') {
                    got.emplace_back(filebuf + start, i + 1 - start);
                    start = i + 1;
                }
            PBT_CHECK(start == filesz, "the log file ends with %zu bytes that are not newline-terminated", filesz - start);
            PBT_CHECK(got.size() == pending.size(), "standard logger: %zu lines in the file after clean-up, %zu calls were accepted", got.size(),
                      pending.size());
            for (size_t i = 0; i < got.size(); i++) {
                bool cut = false;
                check_line(got[i], pending[i].lv, pending[i].sname, pending[i].msg, 1, false, 0, &cut);
            }
            ctx.tag("standard_logger_file_writer");
        }
        fclose(file);
        free(filebuf);
    }
    const char *m = nullptr;
    PBT_CHECK(galloc::check_all(&m), "%s", m ? m : "");
    PBT_CHECK(galloc::live_blocks() == 0, "%zu blocks leaked (log line strings must be destroyed once)", galloc::live_blocks());
    if (any_cut) ctx.tag("truncated_line");
    if (any_level_change) ctx.tag("level_change_between_calls");
    if (any_filtered) ctx.tag("filtered_call");
    ctx.tag(kind == NOALLOC ? "noalloc_logger" : kind == STANDARD ? "standard_logger" : "pipeline_foreground");
    ctx.nontrivial = any_cut || (any_level_change && any_filtered);
}

int main(int argc, char **argv) {
    aws_common_library_init(aws_default_allocator()); // registers the log subjects
    register_subjects();
    Spec sp{"C14", "c14_log", gen_case, run,
            "<=40 ops: log calls through AWS_LOGF at each level with 5 format shapes and message lengths 0..9000 (dense around "
            "the no-alloc logger's line buffer, whose size is measured), level changes, conditional-get, direct formatter calls with buffers of "
            "1..400 bytes; pipeline logger (default formatter x 3 date formats, foreground channel, recording writer) or no-alloc "
            "logger into a memory stream; non-trivial = a truncated line, or a level change between calls with a filtered call"};
    return pbt_main(argc, argv, sp);
}

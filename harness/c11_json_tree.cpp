// C11 — JSON value trees survive serialise / parse; duplicate; independent strict RFC 8259 reader.
// See DESIGN.md section 5 / C11.
//
// A case is a pre-order description of one value tree (ops) plus configuration.  The tree is built
// either through the aws_json_value_* constructors or rendered to text by the harness' own printer
// (generated whitespace, \uXXXX escapes incl. surrogate pairs, several number spellings) and parsed.
// Oracle: see run().
#include "pbt.hpp"
#include "galloc.hpp"

#include <aws/common/byte_buf.h>
#include <aws/common/common.h>
#include <aws/common/error.h>
#include <aws/common/json.h>

#include <cctype>
#include <cfloat>
#include <cmath>
#include <sys/resource.h>

using namespace pbt;

enum { V_NULL, V_TRUE, V_FALSE, V_NUM, V_STR, V_ARR, V_OBJ, V_CLOSE, V_KEY, V_CHAIN, NKINDS };
enum { N_RAW, N_DEC15, N_DEC17, N_INT, N_SPECIAL, NNUM };

static const size_t MAX_DEPTH = 8;     // ordinary trees
static const size_t NEST_LIMIT = 1000; // CJSON_NESTING_LIMIT: containers that may be open at once

// ------------------------------------------------------------------ model
struct Node {
    int type = V_NULL;
    double num = 0;
    bool exact15 = false; // the value has <= 15 significant decimal digits: must come back identical
    std::string numtext;  // JSON literal used when the tree is rendered as text
    std::string str;
    std::vector<std::string> keys; // objects: one per kid
    std::vector<Node> kids;
};

// ------------------------------------------------------------------ generator
static std::string gen_string() {
    std::string s;
    size_t pieces = weighted({10, 30, 30, 20, 6, 4});
    static const size_t NP[] = {0, 1, 3, 8, 40, 140};
    size_t n = pieces == 0 ? 0 : pick(1, NP[pieces]);
    for (size_t i = 0; i < n; i++) {
        switch (weighted({30, 14, 12, 8, 8, 8, 4, 3})) {
        case 0: s.push_back((char)pick(0x20, 0x7e)); break;
        case 1: s.push_back((char)pick(1, 0x1f)); break;
        case 2: s.push_back("\"\\/\b\f\n\r\t"[pick(0, 7)]); break;
        case 3: { // 2-byte
            unsigned cp = (unsigned)pick(0x80, 0x7ff);
            s.push_back((char)(0xC0 | (cp >> 6)));
            s.push_back((char)(0x80 | (cp & 63)));
            break;
        }
        case 4: { // 3-byte, not a surrogate
            unsigned cp = (unsigned)one_of({pick(0x800, 0xd7ff), pick(0xe000, 0xffff), 0x800, 0xd7ff, 0xe000, 0xffff, 0x20ac});
            s.push_back((char)(0xE0 | (cp >> 12)));
            s.push_back((char)(0x80 | ((cp >> 6) & 63)));
            s.push_back((char)(0x80 | (cp & 63)));
            break;
        }
        case 5: { // 4-byte
            unsigned cp = (unsigned)one_of({pick(0x10000, 0x10ffff), 0x10000, 0x10ffff, 0x1f600, 0x103ff, 0x10400});
            s.push_back((char)(0xF0 | (cp >> 18)));
            s.push_back((char)(0x80 | ((cp >> 12) & 63)));
            s.push_back((char)(0x80 | ((cp >> 6) & 63)));
            s.push_back((char)(0x80 | (cp & 63)));
            break;
        }
        case 6: s.push_back((char)0x7f); break;
        default: s.push_back((char)pick(0x80, 0xff)); break; // stray byte: not UTF-8, still "bytes 1..255"
        }
    }
    return s;
}

static std::string gen_key() {
    switch (weighted({40, 25, 25, 10})) {
    case 0: return std::string(1, "abcABCxyZ_"[pick(0, 9)]) + (chance(50) ? std::string(1, "abAB01"[pick(0, 5)]) : "");
    case 1: return bytes(0, 3, 'a', 'e');
    case 2: return gen_string();
    default: return "";
    }
}

static const uint64_t POW10[] = {1ull,
                                 10ull,
                                 100ull,
                                 1000ull,
                                 10000ull,
                                 100000ull,
                                 1000000ull,
                                 10000000ull,
                                 100000000ull,
                                 1000000000ull,
                                 10000000000ull,
                                 100000000000ull,
                                 1000000000000ull,
                                 10000000000000ull,
                                 100000000000000ull,
                                 1000000000000000ull,
                                 10000000000000000ull,
                                 100000000000000000ull};

static Op gen_number() {
    switch (weighted({18, 34, 16, 18, 14})) {
    case 0: { // raw bit pattern; exponent field biased to the ends
        uint64_t bits = any_u64();
        switch (weighted({50, 15, 10, 10, 15})) {
        case 1: bits &= 0x800FFFFFFFFFFFFFull; break;                                  // subnormal
        case 2: bits = (bits & 0x800FFFFFFFFFFFFFull) | (pick(1, 60) << 52); break;    // tiny normal
        case 3: bits = (bits & 0x800FFFFFFFFFFFFFull) | (pick(2040, 2046) << 52); break; // huge
        case 4: bits = (bits & 0x800FFFFFFFFFFFFFull) | (pick(1000, 1080) << 52); break; // around 1 .. 2^57
        default: break;
        }
        return mkop(V_NUM, {N_RAW, bits});
    }
    case 1: { // <= 15 significant digits x 10^e
        unsigned nd = (unsigned)pick(1, 15);
        uint64_t m = chance(15) ? POW10[nd] - 1 : pick(nd > 1 ? POW10[nd - 1] : 0, POW10[nd] - 1);
        uint64_t e;
        switch (weighted({35, 35, 10, 10, 10})) {
        case 0: e = 400 - pick(0, nd + 2); break;   // ordinary decimals 0.00x .. x
        case 1: e = pick(400 - 30, 400 + 30); break;
        case 2: e = pick(400 - 340, 400 - 290); break; // towards / below DBL_MIN
        case 3: e = pick(400 + 280, 400 + 308); break; // towards DBL_MAX
        default: e = pick(400 - 340, 400 + 308); break;
        }
        return mkop(V_NUM, {N_DEC15, m, pick(0, 1), e, pick(0, 5)});
    }
    case 2: { // 16-17 digits
        unsigned nd = (unsigned)pick(16, 17);
        uint64_t m = pick(POW10[nd - 1], nd == 17 ? 99999999999999999ull : POW10[nd] - 1);
        uint64_t e = chance(60) ? 400 - pick(0, nd + 2) : pick(400 - 340, 400 + 292);
        return mkop(V_NUM, {N_DEC17, m, pick(0, 1), e, pick(0, 5)});
    }
    case 3: // integers around the interesting powers
        return mkop(V_NUM, {N_INT, pick(0, 15), pick(0, 6), pick(0, 1)});
    default: return mkop(V_NUM, {N_SPECIAL, pick(0, 15), pick(0, 1)});
    }
}

static Op gen_value_op(bool allow_open) {
    switch (weighted({6, 5, 5, 34, 26, allow_open ? 12u : 0u, allow_open ? 12u : 0u})) {
    case 0: return mkop(V_NULL);
    case 1: return mkop(V_TRUE);
    case 2: return mkop(V_FALSE);
    case 3: return gen_number();
    case 4: return mkop(V_STR, {}, gen_string());
    case 5: return mkop(V_ARR);
    default: return mkop(V_OBJ);
    }
}

static Case gen_case() {
    Case c;
    bool deep = chance(2);
    // cfg: 0 build mode (0 API, 1 text), 1 root kind, 2 style seed, 3 prefix length compact, 4 prefix length formatted,
    //      5 unused, 6 API variant bits
    c.cfg = {pick(0, 1), weighted({45, 45, 10}), any_u64(), one_of({0, 0, 1, 7, 255, 256, 257, 1000}), pick(0, 40), 0, pick(0, 7)};
    if (deep) {
        // a chain of containers up to the nesting limit, a few values at the bottom and on the way up
        c.ops.push_back(mkop(V_CHAIN, {one_of({NEST_LIMIT - 1, NEST_LIMIT - 2, NEST_LIMIT - 1, pick(300, NEST_LIMIT - 1), NEST_LIMIT + 5}),
                                       weighted({40, 20, 40})}));
        size_t n = pick(0, 6);
        for (size_t i = 0; i < n; i++) {
            if (chance(30)) c.ops.push_back(mkop(V_CLOSE));
            if (chance(40)) c.ops.push_back(mkop(V_KEY, {}, gen_key()));
            c.ops.push_back(gen_value_op(true));
        }
        return c;
    }
    c.ops = op_list(60, [] {
        switch (weighted({70, 14, 16})) {
        case 0: return gen_value_op(true);
        case 1: return mkop(V_CLOSE);
        default: return mkop(V_KEY, {}, gen_key());
        }
    });
    return c;
}

// ------------------------------------------------------------------ numbers
static std::string dec_text(uint64_t m, bool neg, int e, unsigned form) {
    // JSON literal for (-)m x 10^e in one of several spellings; all denote the same real number
    std::string d = std::to_string(m);
    std::string s = neg ? "-" : "";
    int sci = e + (int)d.size() - 1; // exponent in d.ddd form
    if (m == 0) form = form % 2 ? 0 : 3;
    switch (form % 6) {
    case 1: // d.dddE[+]x
    case 2: {
        s += d[0];
        if (d.size() > 1) s += "." + d.substr(1);
        s += (form % 6 == 1 ? "E" : "e");
        if (sci >= 0 && form % 6 == 1) s += "+";
        s += std::to_string(sci);
        return s;
    }
    case 4:
    case 5: // positional, when short enough
        if (e >= 0 && e <= 8) return s + d + std::string((size_t)e, '0') + (form % 6 == 5 ? ".0" : "");
        if (e < 0 && -e < (int)d.size()) return s + d.substr(0, d.size() + e) + "." + d.substr(d.size() + e);
        if (e < 0 && -e - (int)d.size() <= 8) return s + "0." + std::string((size_t)(-e - (int)d.size()), '0') + d;
        /* fall through */
    case 3: return s + d + (form % 2 ? "e" : "E") + (e < 0 ? "-" : (form % 4 == 3 ? "+" : "")) + (e < 0 ? std::to_string(-e) : std::to_string(e));
    default: return s + d + "e" + std::to_string(e);
    }
}

static bool representable15(double d) {
    char b[40];
    snprintf(b, sizeof b, "%.15g", d);
    return strtod(b, nullptr) == d;
}

static void make_number(const Op &op, Node &n) {
    uint64_t cls = op.arg(0) % NNUM;
    n.type = V_NUM;
    char buf[48];
    switch (cls) {
    case N_DEC15:
    case N_DEC17: {
        uint64_t m = op.arg(1) % (cls == N_DEC15 ? POW10[15] : POW10[17]);
        bool neg = op.arg(2) & 1;
        int e = (int)(op.arg(3) % 720) - 400;
        unsigned form = (unsigned)op.arg(4);
        std::string canon;
        double v;
        for (;;) {
            canon = (neg ? "-" : "") + std::to_string(m) + "e" + std::to_string(e);
            v = strtod(canon.c_str(), nullptr);
            if (std::isfinite(v)) break;
            e -= 7; // "finite" is part of the domain
        }
        n.num = v;
        n.numtext = dec_text(m, neg, e, form);
        uint64_t t = m;
        while (t && t % 10 == 0) t /= 10;
        n.exact15 = t < POW10[15];
        break;
    }
    case N_INT: {
        static const double B[] = {2147483648.0, 9007199254740992.0, 4294967296.0, 1e15, 1e16, 1e17, 1e21, 1e22,
                                   2147483647.0, 9223372036854775808.0, 18446744073709551616.0, 1e9, 999999999999999.0, 1e23, 0.0, 65536.0};
        double v = B[op.arg(1) % 16] + ((double)(op.arg(2) % 7) - 3.0);
        if (op.arg(3) & 1) v = -v;
        n.num = v;
        snprintf(buf, sizeof buf, "%.17g", v);
        n.numtext = buf;
        break;
    }
    case N_SPECIAL: {
        static const double SP[] = {DBL_MAX, DBL_MIN, 4.9406564584124654e-324, 0.0, 0.5, 0.1, 1.0 - 0x1p-52, 1.0 + 0x1p-52,
                                    1.7976931348623155e308, 2.2250738585072009e-308, 1e-320, 123456.789, 1.7976931348623e308, 0.3, 2.5e-5, 1e300};
        double v = SP[op.arg(1) % 16];
        if (op.arg(2) & 1) v = -v;
        n.num = v;
        snprintf(buf, sizeof buf, "%.17g", v);
        n.numtext = buf;
        break;
    }
    default: {
        uint64_t bits = op.arg(1);
        if (((bits >> 52) & 0x7ff) == 0x7ff) bits &= ~(1ull << 62); // finite only
        double v;
        memcpy(&v, &bits, 8);
        n.num = v;
        snprintf(buf, sizeof buf, "%.17g", v);
        n.numtext = buf;
        break;
    }
    }
    if (!n.exact15) n.exact15 = representable15(n.num);
}

// |a-b| <= max(|a|,|b|) * 2^-52, evaluated exactly (x87 extended has the range and the 64-bit significand for it)
static bool within_2p52(double a, double b) {
    long double e = fabsl((long double)a - (long double)b);
    long double m = fmaxl(fabsl((long double)a), fabsl((long double)b));
    return e <= m * 0x1p-52L;
}
// magnitudes where a tolerance computed as max*DBL_EPSILON in double arithmetic would be a rounded subnormal
static bool tiny_class(double a) { return a != 0 && fabs(a) < 0x1p-969; }

struct NumStats {
    bool inexact_seen = false;
};
static bool number_ok(const Node &m, double got, NumStats &ns) {
    if (!std::isfinite(got)) return false;
    if (m.exact15) return got == m.num;
    if (got == m.num) return true;
    ns.inexact_seen = true;
    return within_2p52(m.num, got);
}

// ------------------------------------------------------------------ strings / text rendering
struct Lcg {
    uint64_t s;
    unsigned next(unsigned n) { // deterministic function of the case (style seed), not a source of randomness
        s = s * 6364136223846793005ull + 1442695040888963407ull;
        return (unsigned)((s >> 33) % n);
    }
};

// strict UTF-8 decode of one scalar value at p; 0 = not a well-formed sequence
static size_t utf8_one(const std::string &s, size_t p, unsigned *cp) {
    unsigned char c = (unsigned char)s[p];
    auto cont = [&](size_t i) { return p + i < s.size() && ((unsigned char)s[p + i] & 0xC0) == 0x80; };
    if (c < 0x80) {
        *cp = c;
        return 1;
    }
    if (c >= 0xC2 && c <= 0xDF && cont(1)) {
        *cp = ((c & 0x1F) << 6) | ((unsigned char)s[p + 1] & 63);
        return 2;
    }
    if (c >= 0xE0 && c <= 0xEF && cont(1) && cont(2)) {
        unsigned v = ((c & 0x0F) << 12) | (((unsigned char)s[p + 1] & 63) << 6) | ((unsigned char)s[p + 2] & 63);
        if (v < 0x800 || (v >= 0xD800 && v <= 0xDFFF)) return 0;
        *cp = v;
        return 3;
    }
    if (c >= 0xF0 && c <= 0xF4 && cont(1) && cont(2) && cont(3)) {
        unsigned v = ((c & 0x07) << 18) | (((unsigned char)s[p + 1] & 63) << 12) | (((unsigned char)s[p + 2] & 63) << 6) |
                     ((unsigned char)s[p + 3] & 63);
        if (v < 0x10000 || v > 0x10FFFF) return 0;
        *cp = v;
        return 4;
    }
    return 0;
}
static bool valid_utf8(const std::string &s) {
    for (size_t p = 0; p < s.size();) {
        unsigned cp;
        size_t k = utf8_one(s, p, &cp);
        if (!k) return false;
        p += k;
    }
    return true;
}
static bool needs_escape(const std::string &s) {
    for (unsigned char ch : s)
        if (ch < 0x20 || ch == '"' || ch == '\\') return true;
    return false;
}

static void u4(std::string &o, unsigned v, Lcg &r) {
    char b[8];
    snprintf(b, sizeof b, r.next(2) ? "\\u%04x" : "\\u%04X", v);
    o += b;
}
static void render_string(const std::string &s, std::string &o, Lcg &r, bool *used_pair) {
    o.push_back('"');
    for (size_t p = 0; p < s.size();) {
        unsigned cp = 0;
        size_t k = utf8_one(s, p, &cp);
        if (!k) { // stray byte: only raw
            o.push_back(s[p++]);
            continue;
        }
        bool must = cp < 0x20 || cp == '"' || cp == '\\';
        if (must || r.next(6) == 0) {
            const char *sh = nullptr;
            switch (cp) {
            case '"': sh = "\\\""; break;
            case '\\': sh = "\\\\"; break;
            case '/': sh = "\\/"; break;
            case '\b': sh = "\\b"; break;
            case '\f': sh = "\\f"; break;
            case '\n': sh = "\\n"; break;
            case '\r': sh = "\\r"; break;
            case '\t': sh = "\\t"; break;
            }
            if (sh && r.next(3)) o += sh;
            else if (cp >= 0x10000) {
                unsigned v = cp - 0x10000;
                u4(o, 0xD800 + (v >> 10), r);
                u4(o, 0xDC00 + (v & 0x3FF), r);
                *used_pair = true;
            } else
                u4(o, cp, r);
        } else
            o.append(s, p, k);
        p += k;
    }
    o.push_back('"');
}
static void ws(std::string &o, Lcg &r) {
    if (r.next(3)) return;
    unsigned n = 1 + r.next(3);
    for (unsigned i = 0; i < n; i++) o.push_back(" \t\n\r"[r.next(4)]);
}
static void render(const Node &n, std::string &o, Lcg &r, bool *used_pair) {
    switch (n.type) {
    case V_NULL: o += "null"; break;
    case V_TRUE: o += "true"; break;
    case V_FALSE: o += "false"; break;
    case V_NUM: o += n.numtext; break;
    case V_STR: render_string(n.str, o, r, used_pair); break;
    case V_ARR:
    case V_OBJ:
        o.push_back(n.type == V_ARR ? '[' : '{');
        ws(o, r);
        for (size_t i = 0; i < n.kids.size(); i++) {
            if (i) {
                o.push_back(',');
                ws(o, r);
            }
            if (n.type == V_OBJ) {
                render_string(n.keys[i], o, r, used_pair);
                ws(o, r);
                o.push_back(':');
                ws(o, r);
            }
            render(n.kids[i], o, r, used_pair);
            ws(o, r);
        }
        o.push_back(n.type == V_ARR ? ']' : '}');
        break;
    }
}

// ------------------------------------------------------------------ independent strict RFC 8259 reader
struct Reader {
    const std::string &t;
    size_t p = 0;
    std::string err;
    bool check_utf8;
    size_t depth = 0;
    Reader(const std::string &text, bool cu) : t(text), check_utf8(cu) {}
    bool fail(const char *m) {
        if (err.empty()) err = fmt("%s at offset %zu", m, p);
        return false;
    }
    void skip() {
        while (p < t.size() && (t[p] == ' ' || t[p] == '\t' || t[p] == '\n' || t[p] == '\r')) p++;
    }
    static int hexv(char c) {
        if (c >= '0' && c <= '9') return c - '0';
        if (c >= 'a' && c <= 'f') return c - 'a' + 10;
        if (c >= 'A' && c <= 'F') return c - 'A' + 10;
        return -1;
    }
    bool hex4(unsigned *v) {
        if (p + 4 > t.size()) return fail("short \\u escape");
        unsigned x = 0;
        for (int i = 0; i < 4; i++) {
            int h = hexv(t[p + i]);
            if (h < 0) return fail("bad hex digit");
            x = x * 16 + (unsigned)h;
        }
        p += 4;
        *v = x;
        return true;
    }
    static void put_utf8(std::string &o, unsigned cp) {
        if (cp < 0x80) o.push_back((char)cp);
        else if (cp < 0x800) {
            o.push_back((char)(0xC0 | (cp >> 6)));
            o.push_back((char)(0x80 | (cp & 63)));
        } else if (cp < 0x10000) {
            o.push_back((char)(0xE0 | (cp >> 12)));
            o.push_back((char)(0x80 | ((cp >> 6) & 63)));
            o.push_back((char)(0x80 | (cp & 63)));
        } else {
            o.push_back((char)(0xF0 | (cp >> 18)));
            o.push_back((char)(0x80 | ((cp >> 12) & 63)));
            o.push_back((char)(0x80 | ((cp >> 6) & 63)));
            o.push_back((char)(0x80 | (cp & 63)));
        }
    }
    bool string(std::string &out) {
        if (p >= t.size() || t[p] != '"') return fail("expected string");
        p++;
        for (;;) {
            if (p >= t.size()) return fail("unterminated string");
            unsigned char c = (unsigned char)t[p];
            if (c == '"') {
                p++;
                break;
            }
            if (c < 0x20) return fail("raw control character in string");
            if (c != '\\') {
                out.push_back((char)c);
                p++;
                continue;
            }
            p++;
            if (p >= t.size()) return fail("dangling backslash");
            char e = t[p++];
            switch (e) {
            case '"': out.push_back('"'); break;
            case '\\': out.push_back('\\'); break;
            case '/': out.push_back('/'); break;
            case 'b': out.push_back('\b'); break;
            case 'f': out.push_back('\f'); break;
            case 'n': out.push_back('\n'); break;
            case 'r': out.push_back('\r'); break;
            case 't': out.push_back('\t'); break;
            case 'u': {
                unsigned v;
                if (!hex4(&v)) return false;
                if (v >= 0xDC00 && v <= 0xDFFF) return fail("lone low surrogate");
                if (v >= 0xD800 && v <= 0xDBFF) {
                    if (p + 2 > t.size() || t[p] != '\\' || t[p + 1] != 'u') return fail("high surrogate without its pair");
                    p += 2;
                    unsigned w;
                    if (!hex4(&w)) return false;
                    if (w < 0xDC00 || w > 0xDFFF) return fail("bad low surrogate");
                    v = 0x10000 + ((v - 0xD800) << 10) + (w - 0xDC00);
                }
                if (v == 0) return fail("\\u0000 (no value in the domain contains NUL)");
                put_utf8(out, v);
                break;
            }
            default: return fail("unknown escape");
            }
        }
        if (check_utf8 && !valid_utf8(out)) return fail("string is not well-formed UTF-8");
        return true;
    }
    bool number(Node &n) {
        size_t s = p;
        if (p < t.size() && t[p] == '-') p++;
        if (p >= t.size()) return fail("truncated number");
        if (t[p] == '0') p++;
        else if (t[p] >= '1' && t[p] <= '9')
            while (p < t.size() && isdigit((unsigned char)t[p])) p++;
        else
            return fail("bad number");
        if (p < t.size() && t[p] == '.') {
            p++;
            if (p >= t.size() || !isdigit((unsigned char)t[p])) return fail("no digit after the decimal point");
            while (p < t.size() && isdigit((unsigned char)t[p])) p++;
        }
        if (p < t.size() && (t[p] == 'e' || t[p] == 'E')) {
            p++;
            if (p < t.size() && (t[p] == '+' || t[p] == '-')) p++;
            if (p >= t.size() || !isdigit((unsigned char)t[p])) return fail("no digit in the exponent");
            while (p < t.size() && isdigit((unsigned char)t[p])) p++;
        }
        std::string lit = t.substr(s, p - s);
        n.type = V_NUM;
        n.numtext = lit;
        n.num = strtod(lit.c_str(), nullptr);
        return true;
    }
    bool value(Node &n) {
        skip();
        if (p >= t.size()) return fail("value expected");
        char c = t[p];
        if (c == 'n' && t.compare(p, 4, "null") == 0) {
            p += 4;
            n.type = V_NULL;
            return true;
        }
        if (c == 't' && t.compare(p, 4, "true") == 0) {
            p += 4;
            n.type = V_TRUE;
            return true;
        }
        if (c == 'f' && t.compare(p, 5, "false") == 0) {
            p += 5;
            n.type = V_FALSE;
            return true;
        }
        if (c == '"') {
            n.type = V_STR;
            return string(n.str);
        }
        if (c == '-' || (c >= '0' && c <= '9')) return number(n);
        if (c == '[' || c == '{') {
            bool obj = c == '{';
            n.type = obj ? V_OBJ : V_ARR;
            p++;
            if (++depth > NEST_LIMIT + 8) return fail("nesting");
            skip();
            if (p < t.size() && t[p] == (obj ? '}' : ']')) {
                p++;
                depth--;
                return true;
            }
            for (;;) {
                if (obj) {
                    skip();
                    std::string k;
                    if (!string(k)) return false;
                    n.keys.push_back(k);
                    skip();
                    if (p >= t.size() || t[p] != ':') return fail("expected ':'");
                    p++;
                }
                n.kids.emplace_back();
                if (!value(n.kids.back())) return false;
                skip();
                if (p < t.size() && t[p] == ',') {
                    p++;
                    continue;
                }
                if (p < t.size() && t[p] == (obj ? '}' : ']')) {
                    p++;
                    depth--;
                    return true;
                }
                return fail(obj ? "expected ',' or '}'" : "expected ',' or ']'");
            }
        }
        return fail("unexpected character");
    }
    bool document(Node &n) {
        if (!value(n)) return false;
        skip();
        if (p != t.size()) return fail("trailing characters after the value");
        return true;
    }
};

static std::string show(const std::string &s) {
    std::string o;
    for (unsigned char ch : s.substr(0, 60)) o += (ch >= 0x20 && ch < 0x7f) ? std::string(1, (char)ch) : fmt("\\x%02x", ch);
    return o;
}

// model vs. tree read by the independent reader
__attribute__((noinline)) static void same_node(const Node &m, const Node &g, NumStats &ns, const char *what, const std::string &path) {
    PBT_CHECK(m.type == g.type, "%s: independent reader sees type %d at %s, expected %d", what, g.type, path.c_str(), m.type);
    switch (m.type) {
    case V_NUM:
        PBT_CHECK(number_ok(m, g.num, ns), "%s: number at %s printed as %s reads as %.17g, expected %.17g (%s)", what, path.c_str(),
                  g.numtext.c_str(), g.num, m.num, m.exact15 ? "<=15 digits: identical" : "within 2^-52");
        break;
    case V_STR:
        PBT_CHECK(m.str == g.str, "%s: string at %s reads as \"%s\" (%zu bytes), expected \"%s\" (%zu bytes)", what, path.c_str(),
                  show(g.str).c_str(), g.str.size(), show(m.str).c_str(), m.str.size());
        break;
    case V_ARR:
    case V_OBJ:
        PBT_CHECK(m.kids.size() == g.kids.size(), "%s: %zu members at %s, expected %zu", what, g.kids.size(), path.c_str(), m.kids.size());
        for (size_t i = 0; i < m.kids.size() && m.type == V_OBJ; i++)
            PBT_CHECK(m.keys[i] == g.keys[i], "%s: member %zu of %s has key \"%s\", expected \"%s\"", what, i, path.c_str(),
                      show(g.keys[i]).c_str(), show(m.keys[i]).c_str());
        break;
    default: break;
    }
}
__attribute__((noinline)) static std::string sub_path(const std::string &path, size_t i);
static void same_tree(const Node &m, const Node &g, NumStats &ns, const char *what, const std::string &path) {
    same_node(m, g, ns, what, path);
    for (size_t i = 0; i < m.kids.size(); i++) {
        std::string sp = sub_path(path, i);
        same_tree(m.kids[i], g.kids[i], ns, what, sp);
    }
}

// ------------------------------------------------------------------ library side
struct Member {
    std::string key;
    const struct aws_json_value *v;
};
static int on_member(const struct aws_byte_cursor *key, const struct aws_json_value *value, bool *cont, void *ud) {
    (void)cont;
    ((std::vector<Member> *)ud)->push_back(Member{std::string((const char *)key->ptr, key->len), value});
    return AWS_OP_SUCCESS;
}
static int on_value(size_t idx, const struct aws_json_value *value, bool *cont, void *ud) {
    (void)cont;
    auto *v = (std::vector<Member> *)ud;
    v->push_back(Member{std::to_string(idx), value});
    return AWS_OP_SUCCESS;
}

// structural comparison through the public getters; adopt=true stores the numbers actually held (first parse of harness text).
// The per-node checks live in non-recursive helpers so that the recursive frame stays small (trees nest up to 1000 deep).
__attribute__((noinline)) static void check_node(const struct aws_json_value *v, Node &m, NumStats &ns, const char *what,
                                                 const std::string &path, bool adopt, std::vector<Member> *seen) {
    PBT_CHECK(v != nullptr, "%s: no value at %s", what, path.c_str());
    int nt = (int)aws_json_value_is_null(v) + aws_json_value_is_boolean(v) + aws_json_value_is_number(v) + aws_json_value_is_string(v) +
             aws_json_value_is_array(v) + aws_json_value_is_object(v);
    PBT_CHECK(nt == 1, "%s: value at %s answers %d of the six is_* predicates", what, path.c_str(), nt);
    switch (m.type) {
    case V_NULL: PBT_CHECK(aws_json_value_is_null(v), "%s: %s is not null", what, path.c_str()); break;
    case V_TRUE:
    case V_FALSE: {
        bool b = m.type != V_TRUE;
        PBT_CHECK(aws_json_value_is_boolean(v), "%s: %s is not a boolean", what, path.c_str());
        PBT_CHECK(aws_json_value_get_boolean(v, &b) == AWS_OP_SUCCESS && b == (m.type == V_TRUE), "%s: boolean at %s is %d", what,
                  path.c_str(), (int)b);
        double d;
        PBT_CHECK(aws_json_value_get_number(v, &d) == AWS_OP_ERR, "get_number on a boolean succeeded");
        break;
    }
    case V_NUM: {
        double d = NAN;
        PBT_CHECK(aws_json_value_is_number(v), "%s: %s is not a number (expected %.17g)", what, path.c_str(), m.num);
        PBT_CHECK(aws_json_value_get_number(v, &d) == AWS_OP_SUCCESS, "get_number failed");
        PBT_CHECK(number_ok(m, d, ns), "%s: number at %s is %.17g (%a), expected %.17g (%a) (%s)", what, path.c_str(), d, d, m.num, m.num,
                  m.exact15 ? "<=15 significant digits: identical" : "within one part in 2^52");
        if (adopt) m.num = d;
        struct aws_byte_cursor c;
        PBT_CHECK(aws_json_value_get_string(v, &c) == AWS_OP_ERR, "get_string on a number succeeded");
        break;
    }
    case V_STR: {
        struct aws_byte_cursor c = {0, nullptr};
        PBT_CHECK(aws_json_value_is_string(v), "%s: %s is not a string", what, path.c_str());
        PBT_CHECK(aws_json_value_get_string(v, &c) == AWS_OP_SUCCESS, "get_string failed");
        PBT_CHECK(c.len == m.str.size() && (c.len == 0 || memcmp(c.ptr, m.str.data(), c.len) == 0),
                  "%s: string at %s is \"%s\" (%zu bytes), expected \"%s\" (%zu bytes)", what, path.c_str(),
                  show(std::string((const char *)c.ptr, c.len)).c_str(), c.len, show(m.str).c_str(), m.str.size());
        bool b;
        PBT_CHECK(aws_json_value_get_boolean(v, &b) == AWS_OP_ERR, "get_boolean on a string succeeded");
        break;
    }
    case V_ARR: {
        PBT_CHECK(aws_json_value_is_array(v), "%s: %s is not an array", what, path.c_str());
        PBT_CHECK(aws_json_get_array_size(v) == m.kids.size(), "%s: array at %s has %zu elements, expected %zu", what, path.c_str(),
                  aws_json_get_array_size(v), m.kids.size());
        PBT_CHECK(aws_json_const_iterate_array(v, on_value, seen) == AWS_OP_SUCCESS, "iterate_array failed");
        PBT_CHECK(seen->size() == m.kids.size(), "%s: array iteration at %s visits %zu, expected %zu", what, path.c_str(), seen->size(),
                  m.kids.size());
        bool wide = m.kids.size() <= 64;
        for (size_t i = 0; i < m.kids.size(); i++) {
            PBT_CHECK((*seen)[i].key == std::to_string(i), "array iteration passes index %s for element %zu", (*seen)[i].key.c_str(), i);
            if (wide)
                PBT_CHECK(aws_json_get_array_element(v, i) == (*seen)[i].v, "%s: element %zu of %s differs between index access and iteration",
                          what, i, path.c_str());
        }
        break;
    }
    case V_OBJ: {
        PBT_CHECK(aws_json_value_is_object(v), "%s: %s is not an object", what, path.c_str());
        PBT_CHECK(aws_json_const_iterate_object(v, on_member, seen) == AWS_OP_SUCCESS, "iterate_object failed");
        PBT_CHECK(seen->size() == m.kids.size(), "%s: object at %s has %zu members, expected %zu", what, path.c_str(), seen->size(),
                  m.kids.size());
        for (size_t i = 0; i < m.kids.size(); i++) {
            PBT_CHECK((*seen)[i].key == m.keys[i], "%s: member %zu of %s has key \"%s\", expected \"%s\"", what, i, path.c_str(),
                      show((*seen)[i].key).c_str(), show(m.keys[i]).c_str());
            struct aws_byte_cursor kc = aws_byte_cursor_from_array(m.keys[i].data(), m.keys[i].size());
            PBT_CHECK(aws_json_value_has_key(v, kc), "%s: has_key(\"%s\") false at %s", what, show(m.keys[i]).c_str(), path.c_str());
            PBT_CHECK(aws_json_value_get_from_object(v, kc) == (*seen)[i].v,
                      "%s: get_from_object(\"%s\") at %s is not the member iteration shows", what, show(m.keys[i]).c_str(), path.c_str());
        }
        break;
    }
    }
}
__attribute__((noinline)) static std::string sub_path(const std::string &path, size_t i) {
    return path.size() < 200 ? path + "/" + std::to_string(i) : path;
}
static void walk(const struct aws_json_value *v, Node &m, NumStats &ns, const char *what, const std::string &path, bool adopt) {
    std::vector<Member> seen;
    check_node(v, m, ns, what, path, adopt, &seen);
    for (size_t i = 0; i < m.kids.size(); i++) {
        std::string sp = sub_path(path, i);
        walk(seen[i].v, m.kids[i], ns, what, sp, adopt);
    }
}

static std::string lower_ascii(std::string s) {
    for (auto &ch : s)
        if (ch >= 'A' && ch <= 'Z') ch = (char)(ch - 'A' + 'a');
    return s;
}

struct ApiVariant {
    bool cstr_key, cstr_string;
};
static struct aws_json_value *build_api(const Node &n, const ApiVariant &av) {
    struct aws_allocator *A = galloc::full();
    switch (n.type) {
    case V_NULL: return aws_json_value_new_null(A);
    case V_TRUE: return aws_json_value_new_boolean(A, true);
    case V_FALSE: return aws_json_value_new_boolean(A, false);
    case V_NUM: return aws_json_value_new_number(A, n.num);
    case V_STR:
        return av.cstr_string ? aws_json_value_new_string_from_c_str(A, n.str.c_str())
                              : aws_json_value_new_string(A, aws_byte_cursor_from_array(n.str.data(), n.str.size()));
    case V_ARR: {
        struct aws_json_value *a = aws_json_value_new_array(A);
        PBT_CHECK(a != nullptr);
        for (auto &k : n.kids) {
            struct aws_json_value *c = build_api(k, av);
            PBT_CHECK(c != nullptr, "constructor returned NULL");
            PBT_CHECK(aws_json_value_add_array_element(a, c) == AWS_OP_SUCCESS, "add_array_element failed");
        }
        return a;
    }
    default: {
        struct aws_json_value *o = aws_json_value_new_object(A);
        PBT_CHECK(o != nullptr);
        for (size_t i = 0; i < n.kids.size(); i++) {
            struct aws_json_value *c = build_api(n.kids[i], av);
            PBT_CHECK(c != nullptr, "constructor returned NULL");
            int rc = av.cstr_key ? aws_json_value_add_to_object_c_str(o, n.keys[i].c_str(), c)
                                 : aws_json_value_add_to_object(o, aws_byte_cursor_from_array(n.keys[i].data(), n.keys[i].size()), c);
            PBT_CHECK(rc == AWS_OP_SUCCESS, "add_to_object(\"%s\") failed on a fresh key", show(n.keys[i]).c_str());
        }
        return o;
    }
    }
}

struct TreeInfo {
    size_t depth = 0, nodes = 0, obj_depth = 0;
    bool esc_string = false, nonint = false, bad_utf8 = false, multibyte = false, ctrl = false, big_int = false, subnormal = false,
         digits17 = false, long_string = false, tiny17 = false;
};
static void info(const Node &n, size_t d, TreeInfo &ti, size_t od = 0) { // d = number of containers around n, od = objects among them
    ti.nodes++;
    if (n.type == V_OBJ) od++;
    if (od > ti.obj_depth) ti.obj_depth = od;
    bool container = n.type == V_ARR || n.type == V_OBJ;
    if (d + (container ? 1 : 0) > ti.depth) ti.depth = d + (container ? 1 : 0);
    auto str = [&](const std::string &s) {
        if (needs_escape(s)) ti.esc_string = true;
        if (!valid_utf8(s)) ti.bad_utf8 = true;
        for (unsigned char ch : s) {
            if (ch >= 0x80) ti.multibyte = true;
            if (ch < 0x20) ti.ctrl = true;
        }
        if (s.size() > 120) ti.long_string = true;
    };
    if (n.type == V_STR) str(n.str);
    if (n.type == V_NUM) {
        if (n.num != std::floor(n.num)) ti.nonint = true;
        if (fabs(n.num) > 2147483648.0 && n.num == std::floor(n.num)) ti.big_int = true;
        if (n.num != 0 && fabs(n.num) < DBL_MIN) ti.subnormal = true;
        if (!n.exact15) ti.digits17 = true;
        if (!n.exact15 && tiny_class(n.num)) ti.tiny17 = true;
    }
    for (auto &k : n.keys) str(k);
    for (auto &k : n.kids) info(k, d + 1, ti, od);
}

static std::string serialise(const struct aws_json_value *v, bool formatted, size_t prefix, const char *what) {
    struct aws_byte_buf buf;
    PBT_CHECK(aws_byte_buf_init(&buf, galloc::full(), prefix ? prefix : 0) == AWS_OP_SUCCESS);
    for (size_t i = 0; i < prefix; i++) buf.buffer[i] = (uint8_t)(0x41 + i % 23);
    buf.len = prefix;
    int rc = formatted ? aws_byte_buf_append_json_string_formatted(v, &buf) : aws_byte_buf_append_json_string(v, &buf);
    if (rc != AWS_OP_SUCCESS) {
        aws_byte_buf_clean_up(&buf);
        PBT_CHECK(false, "%s: serialisation failed: %s", what, aws_error_name(aws_last_error()));
    }
    bool ok = buf.len >= prefix;
    for (size_t i = 0; ok && i < prefix; i++) ok = buf.buffer[i] == (uint8_t)(0x41 + i % 23);
    std::string out = ok ? std::string((const char *)buf.buffer + prefix, buf.len - prefix) : std::string();
    aws_byte_buf_clean_up(&buf);
    PBT_CHECK(ok, "%s: appending to a buffer that already held %zu bytes changed those bytes", what, prefix);
    PBT_CHECK(out.find('\0') == std::string::npos, "%s: output contains a NUL byte", what);
    PBT_CHECK(!out.empty(), "%s: empty output", what);
    return out;
}

static void run(const Case &c, Ctx &ctx) {
    // the library's init-time blocks stay registered: no galloc::reset() here
    galloc::S().corrupt = false;
    galloc::S().on_release = nullptr;
    const size_t live0 = galloc::live_blocks();
    struct aws_allocator *A = galloc::full();

    bool text_mode = c.c(0) % 2 == 1;
    unsigned root_kind = (unsigned)(c.c(1) % 3);
    Lcg style{c.c(2) | 1};
    size_t prefix_c = (size_t)(c.c(3) % 1200), prefix_f = (size_t)(c.c(4) % 64);
    ApiVariant av{(c.c(6) & 1) != 0, (c.c(6) & 2) != 0};

    // ---- model tree from the op list (every op list is a valid description)
    Node root;
    std::vector<Node *> stack; // open containers; pointers stay valid: only the innermost container's kids vector grows
    bool have_root = false, root_closed = false;
    std::string pending_key;
    bool have_key = false;
    size_t chain_total = 0;
    auto open_root = [&](int t) {
        root.type = t;
        have_root = true;
        stack.push_back(&root);
    };
    if (root_kind == 0) open_root(V_ARR);
    else if (root_kind == 1) open_root(V_OBJ);
    auto place = [&](Node &&n) -> Node * {
        if (!have_root) {
            root = std::move(n);
            have_root = true;
            if (root.type == V_ARR || root.type == V_OBJ) stack.push_back(&root);
            else root_closed = true;
            return &root;
        }
        if (stack.empty()) return nullptr;
        Node *p = stack.back();
        if (p->type == V_OBJ) {
            std::string k = have_key ? pending_key : "k" + std::to_string(p->kids.size());
            auto clash = [&](const std::string &x) {
                for (auto &e : p->keys)
                    if (lower_ascii(e) == lower_ascii(x)) return true;
                return false;
            };
            for (size_t salt = p->kids.size(); clash(k); salt++) k += "#" + std::to_string(salt);
            p->keys.push_back(k);
        }
        have_key = false;
        p->kids.push_back(std::move(n));
        Node *q = &p->kids.back();
        if (q->type == V_ARR || q->type == V_OBJ) stack.push_back(q);
        return q;
    };
    for (auto &op : c.ops) {
        if (root_closed) break;
        int k = ((op.kind % NKINDS) + NKINDS) % NKINDS;
        switch (k) {
        case V_KEY:
            pending_key.clear();
            for (char ch : op.b)
                if (ch) pending_key.push_back(ch);
            have_key = true;
            break;
        case V_CLOSE:
            if (stack.size() > 1) stack.pop_back();
            break;
        case V_CHAIN: {
            size_t want = (size_t)op.arg(0);
            unsigned pat = (unsigned)(op.arg(1) % 3); // 0 arrays, 1 objects, 2 alternating
            while (want-- && stack.size() < NEST_LIMIT) {
                Node n;
                n.type = pat == 0 ? V_ARR : pat == 1 ? V_OBJ : (stack.size() % 2 ? V_OBJ : V_ARR);
                if (!place(std::move(n))) break;
                chain_total++;
            }
            break;
        }
        case V_ARR:
        case V_OBJ: {
            Node n;
            // at the depth bound a container op yields null: the tree never nests deeper than the bound
            bool at_limit = chain_total ? stack.size() >= NEST_LIMIT : stack.size() >= MAX_DEPTH;
            n.type = at_limit ? (int)V_NULL : k;
            place(std::move(n));
            break;
        }
        case V_NUM: {
            Node n;
            make_number(op, n);
            place(std::move(n));
            break;
        }
        case V_STR: {
            Node n;
            n.type = V_STR;
            for (char ch : op.b)
                if (ch) n.str.push_back(ch);
            place(std::move(n));
            break;
        }
        default: {
            Node n;
            n.type = k; // V_NULL, V_TRUE, V_FALSE
            place(std::move(n));
            break;
        }
        }
    }
    if (!have_root) root.type = V_NULL;

    TreeInfo ti;
    info(root, 0, ti);
    NumStats ns;

    // ---- build T
    struct aws_json_value *T = nullptr, *T1 = nullptr, *T2 = nullptr, *D = nullptr;
    bool used_pair = false;
    try {
        if (text_mode) {
            std::string text;
            ws(text, style);
            render(root, text, style, &used_pair);
            ws(text, style);
            // the harness' own text must be what the independent reader accepts, too (reader self-check)
            {
                Node g;
                Reader rd(text, !ti.bad_utf8);
                PBT_CHECK(rd.document(g), "harness self-check: own text rejected by own reader: %s", rd.err.c_str());
                NumStats tmp;
                same_tree(root, g, tmp, "harness self-check", "");
            }
            T = aws_json_value_new_from_string(A, aws_byte_cursor_from_array(text.data(), text.size()));
            PBT_CHECK(T != nullptr, "valid JSON text (%zu bytes, depth %zu) was not parsed: %s", text.size(), ti.depth, show(text).c_str());
            walk(T, root, ns, "parse of harness text", "", true);
        } else {
            T = build_api(root, av);
            PBT_CHECK(T != nullptr, "constructor returned NULL");
            walk(T, root, ns, "tree built through the API", "", false);
        }

        // ---- serialise both ways
        std::string compact = serialise(T, false, prefix_c, "compact");
        std::string formatted = serialise(T, true, prefix_f, "formatted");
        if (ctx.replay) printf("compact:   %s\nformatted: %s\n", show(compact).c_str(), show(formatted).c_str());

        // ---- independent reader
        for (int f = 0; f < 2; f++) {
            const std::string &txt = f ? formatted : compact;
            const char *what = f ? "formatted output" : "compact output";
            Node g;
            Reader rd(txt, !ti.bad_utf8);
            PBT_CHECK(rd.document(g), "%s is not valid JSON: %s; text: %s", what, rd.err.c_str(), show(txt).c_str());
            same_tree(root, g, ns, what, "");
        }

        // ---- re-parse with the library
        T1 = aws_json_value_new_from_string(A, aws_byte_cursor_from_array(compact.data(), compact.size()));
        PBT_CHECK(T1 != nullptr, "the library does not parse its own compact output: %s", show(compact).c_str());
        walk(T1, root, ns, "re-parse of compact output", "", false);
        T2 = aws_json_value_new_from_string(A, aws_byte_cursor_from_array(formatted.data(), formatted.size()));
        PBT_CHECK(T2 != nullptr, "the library does not parse its own formatted output: %s", show(formatted).c_str());
        walk(T2, root, ns, "re-parse of formatted output", "", false);
        // cJSON_Compare visits every member of an object twice (a in b, then b in a): 2^k leaf visits under k nested
        // objects.  The comparison is made where that is affordable; deeper object chains are compared through the getters only.
        const bool can_compare = ti.obj_depth <= 12;
        if (!can_compare) ctx.tag("compare_skipped_object_chain");
        if (can_compare) {
            PBT_CHECK(aws_json_value_compare(T, T1, true), "compare(original, re-parsed compact) is false");
            PBT_CHECK(aws_json_value_compare(T, T2, true), "compare(original, re-parsed formatted) is false");
            PBT_CHECK(aws_json_value_compare(T1, T, false), "case-insensitive compare(re-parsed, original) is false");
        }

        // ---- duplicate
        D = aws_json_value_duplicate(T);
        PBT_CHECK(D != nullptr, "duplicate returned NULL");
        PBT_CHECK(D != T, "duplicate returned the original");
        if (can_compare)
            PBT_CHECK(aws_json_value_compare(D, T, true) && aws_json_value_compare(T, D, true), "a duplicate does not compare equal to its original");
        {
            // a value of another type is not equivalent
            struct aws_json_value *other = root.type == V_NULL ? aws_json_value_new_boolean(A, true) : aws_json_value_new_null(A);
            bool eq = aws_json_value_compare(T, other, true);
            aws_json_value_destroy(other);
            PBT_CHECK(!eq, "compare() is true for values of different types");
        }
        aws_json_value_destroy(T);
        T = nullptr;
        walk(D, root, ns, "duplicate after destroying the original", "", false);
        std::string again = serialise(D, false, 0, "compact (duplicate)");
        PBT_CHECK(again == compact, "the duplicate serialises differently from the original");
        const char *m = nullptr;
        PBT_CHECK(galloc::check_all(&m), "%s", m ? m : "");
    } catch (...) {
        // release what can be released so that the next case starts clean; the failure is what matters
        aws_json_value_destroy(T);
        aws_json_value_destroy(T1);
        aws_json_value_destroy(T2);
        aws_json_value_destroy(D);
        throw;
    }
    aws_json_value_destroy(D);
    aws_json_value_destroy(T1);
    aws_json_value_destroy(T2);
    const char *m = nullptr;
    PBT_CHECK(galloc::check_all(&m), "%s", m ? m : "");
    PBT_CHECK(galloc::live_blocks() == live0, "allocator balance: %zu blocks live before the case, %zu after destroying every value",
              live0, galloc::live_blocks());

    if (ti.esc_string && ti.nonint && ti.depth >= 2) ctx.nontrivial = true;
    ctx.tag(text_mode ? "built_from_text" : "built_through_api");
    if (ti.esc_string) ctx.tag("string_needing_escape");
    if (ti.ctrl) ctx.tag("control_char");
    if (ti.multibyte) ctx.tag("multibyte");
    if (ti.bad_utf8) ctx.tag("stray_high_byte");
    if (used_pair) ctx.tag("surrogate_pair_escape");
    if (ti.nonint) ctx.tag("non_integer_number");
    if (ti.big_int) ctx.tag("integer_beyond_2p31");
    if (ti.subnormal) ctx.tag("subnormal");
    if (ti.digits17) ctx.tag("number_needing_17_digits");
    if (ti.tiny17) ctx.tag("number_needing_17_digits_below_2p-969");
    if (ns.inexact_seen) ctx.tag("number_changed_within_tolerance");
    if (ti.long_string) ctx.tag("string_over_120_bytes");
    if (ti.depth >= 900) ctx.tag("depth_ge_900");
    if (ti.depth == NEST_LIMIT) ctx.tag("depth_at_limit_1000");
    if (ti.depth >= 5 && ti.depth <= MAX_DEPTH) ctx.tag("depth_5_to_8");
    if (root_kind == 2 && ti.nodes == 1) ctx.tag("scalar_root");
}

int main(int argc, char **argv) {
    // value trees nest up to 1000 containers and the harness' own recursive walkers run under ASan:
    // give the main thread a 1 GiB stack (takes effect at exec)
    if (!getenv("C11_STACK_RAISED")) {
        struct rlimit rl;
        const rlim_t want = (rlim_t)1 << 30;
        if (getrlimit(RLIMIT_STACK, &rl) == 0 && rl.rlim_cur != RLIM_INFINITY && rl.rlim_cur < want &&
            (rl.rlim_max == RLIM_INFINITY || rl.rlim_max >= want)) {
            rl.rlim_cur = want;
            if (setrlimit(RLIMIT_STACK, &rl) == 0) {
                setenv("C11_STACK_RAISED", "1", 1);
                execv("/proc/self/exe", argv);
            }
        }
    }
    aws_common_library_init(galloc::full()); // the JSON module takes its allocator here: every cJSON block goes through galloc
    Spec sp{"C11", "c11_json_tree", gen_case, run,
            "pre-order tree descriptions (<=60 ops, depth<=8; 2% chains of 300..1000 containers): null/bool/number/string/array/object, "
            "keys made case-insensitively unique; numbers: raw bit patterns, <=15-digit decimals x 10^e, 16-17 digit decimals, integers "
            "around 2^31/2^32/2^53/2^63/2^64/1e15..1e23, DBL_MAX/DBL_MIN/subnormal/-0; strings over bytes 1..255 (controls, quote, backslash, "
            "2/3/4-byte UTF-8, stray bytes); built through the API or rendered to text by the harness and parsed; non-trivial = >=1 string "
            "with a byte that needs escaping and >=1 non-integer number and container depth >=2; distinct by hash of the serialised case"};
    return pbt_main(argc, argv, sp);
}

// C08 — thread scheduler delivers each task once, on its own thread, whatever the timing.
// Programs of 1..3 client threads + main run under the controlled scheduler with virtual time.
// See DESIGN.md section 5 / C08 and section 4.
#include "pbt.hpp"
#include "galloc.hpp"
#include "detsched/sched_glue.hpp"

#include <aws/common/clock.h>
#include <aws/common/task_scheduler.h>
#include <aws/common/thread.h>
#include <aws/common/thread_scheduler.h>

#include <pthread.h>

using namespace pbt;

enum { SCHED_NOW = 0, SCHED_FUTURE = 1, CANCEL = 2, SLEEP = 3, REF = 4 };
static const uint64_t DELTAS[] = {1000ull, 5000000ull, 1000000000ull, 3600ull * 1000000000ull, 0}; // 1us 5ms 1s 1h; class 4 = absolute time UINT64_MAX ("never")
static const uint64_t SLEEPS[] = {1000ull, 1000000ull, 10000000ull, 50000000ull};               // <=100ms in total per thread
static const int MAXT = 40;

static Case gen_case() {
    Case c;
    uint64_t nclients = pick(1, 3);
    // cfg: nclients, main releases before(0)/after(1) joining the clients, main sleep class (0 none), chain mask
    c.cfg = {nclients, pick(0, 1), pick(0, 4), chance(30) ? pick(0, 255) : 0, pick(0, 15)};
    c.ops = op_list(30, [=] {
        uint64_t cl = pick(0, nclients - 1);
        switch (weighted({5, 5, 3, 2, 1})) {
        case 0: return mkop(SCHED_NOW, {cl});
        case 1: return mkop(SCHED_FUTURE, {cl, pick(0, 4)});
        case 2: return mkop(CANCEL, {cl, pick(0, 7)});
        case 3: return mkop(SLEEP, {cl, pick(0, 3)});
        default: return mkop(REF, {cl});
        }
    });
    c.ops.push_back(dsg::gen_schedule(600));
    return c;
}

struct TaskRec {
    struct aws_task task;
    int id;
    bool scheduled = false, far = false, cancelled = false, chain = false;
    uint64_t when = 0; // absolute virtual time it may run at (0 = now)
    int invocations = 0;
    enum aws_task_status status;
    int thread = -1;
    uint64_t vtime = 0;
    bool in_release = false;
    int owner = -1;
};

struct World {
    Ctx *ctx;
    const Case *c;
    struct aws_thread_scheduler *sched = nullptr;
    TaskRec tasks[MAXT];
    int ntasks = 0;
    int sched_thread = -1;
    bool in_release[8] = {false};
    int refs = 1;                       // references held by the harness threads
    bool final_release_running = false; // the release call that drops the last reference has been entered
    bool destroyed = false;
    int destroyed_by = -1;
    bool all_done = false;
    bool switch_inside_api = false;
    int cancels = 0, canceled_at_release = 0, runs = 0, chained = 0, never_tasks = 0, chained_from_cancel = 0;
    uint64_t slept[8] = {0};
    int ncl = 1;
};
static World *W;

static int tid() { return ds::self(); }

static void task_fn(struct aws_task *task, void *arg, enum aws_task_status status) {
    TaskRec *t = (TaskRec *)arg;
    World &w = *W;
    Ctx &ctx = *w.ctx;
    (void)task;
    t->invocations++;
    if (t->invocations > 1) ctx.note_fail(fmt("task %d invoked %d times", t->id, t->invocations));
    t->status = status;
    t->thread = tid();
    t->vtime = ds::now_ns();
    int me = tid();
    // the statement does not say which thread delivers the cancellations of the final release (today the releasing
    // thread, after the join; the scheduler thread before it exits would do as well): any release in progress counts
    t->in_release = w.final_release_running;
    if (w.all_done) ctx.note_fail(fmt("task %d invoked after the final release returned", t->id));
    if (status == AWS_TASK_STATUS_RUN_READY) {
        w.runs++;
        if (w.sched_thread < 0) w.sched_thread = me;
        if (me != w.sched_thread) ctx.note_fail(fmt("task %d ran on thread t%d, other tasks ran on t%d", t->id, me, w.sched_thread));
        if (me == 0 || (me >= 2 && me < 2 + w.ncl)) ctx.note_fail(fmt("task %d ran on a client/main thread t%d", t->id, me));
        if (t->vtime < t->when) ctx.note_fail(fmt("task %d ran at %llu before its time %llu", t->id, (unsigned long long)t->vtime, (unsigned long long)t->when));
        if (t->cancelled && t->far) ctx.note_fail(fmt("cancelled far task %d was run", t->id));
        if (t->chain && w.ntasks < MAXT) {
            TaskRec *n = &w.tasks[w.ntasks];
            n->id = w.ntasks++;
            n->scheduled = true;
            n->owner = -2;
            aws_task_init(&n->task, task_fn, n, "chained");
            w.chained++;
            aws_thread_scheduler_schedule_now(w.sched, &n->task);
        }
    } else {
        // cancelled status: either the task was cancelled, or it was still pending when the last reference went away
        if (!t->cancelled) {
            w.canceled_at_release++;
            if (!t->in_release) ctx.note_fail(fmt("task %d got CANCELED on t%d although it was not cancelled and no release was in progress", t->id, me));
        } else if (t->chain && me == 1 && !t->in_release && w.ntasks < MAXT) {
            // a cancellation delivered by the scheduler thread: the callback may use the scheduler again
            // ("tasks may be scheduled ... from any thread"); the scheduler cannot be freed before its thread is joined
            TaskRec *n = &w.tasks[w.ntasks];
            n->id = w.ntasks++;
            n->scheduled = true;
            n->owner = -3;
            aws_task_init(&n->task, task_fn, n, "chained-from-cancel");
            w.chained_from_cancel++;
            aws_thread_scheduler_schedule_now(w.sched, &n->task);
        }
    }
}

static void after_release(World &w, int me) {
    Ctx &ctx = *w.ctx;
    if (!(w.destroyed && w.destroyed_by == me) || w.all_done) return;
    // this was the final release: everything must have happened already
    w.all_done = true;
    for (int i = 0; i < w.ntasks; i++)
        if (w.tasks[i].scheduled && w.tasks[i].invocations != 1)
            ctx.note_fail(fmt("final release returned but task %d was invoked %d times", i, w.tasks[i].invocations));
    auto th = ds::threads();
    if (th.size() > 1) {
        if (!th[1].done) ctx.note_fail("final release returned but the scheduler thread has not exited");
        if (th[1].joins != 1) ctx.note_fail(fmt("scheduler thread joined %d times", th[1].joins));
    }
}

static void do_release(World &w) {
    int me = tid();
    w.in_release[me] = true;
    if (--w.refs == 0) w.final_release_running = true; // (one thread runs at a time: plain counters are exact)
    aws_thread_scheduler_release(w.sched);
    w.in_release[me] = false;
    after_release(w, me);
}

struct ClientArg {
    World *w;
    int idx;
};

static void *client(void *p) {
    ClientArg *ca = (ClientArg *)p;
    World &w = *ca->w;
    int me = tid();
    std::vector<int> my_far;
    for (auto &op : w.c->ops) {
        if (op.kind == dsg::SCHED_OP || (int)(op.arg(0) % (uint64_t)w.ncl) != ca->idx) continue;
        if (w.ctx->failed) break;
        uint64_t sw0 = ds::stats().switches;
        switch (op.kind) {
        case SCHED_NOW:
        case SCHED_FUTURE: {
            if (w.ntasks >= MAXT - 10) break;
            TaskRec *t = &w.tasks[w.ntasks];
            t->id = w.ntasks++;
            t->owner = ca->idx;
            t->scheduled = true;
            t->chain = (w.c->c(3) >> (t->id % 8)) & 1;
            aws_task_init(&t->task, task_fn, t, "c08");
            if (op.kind == SCHED_NOW) {
                aws_thread_scheduler_schedule_now(w.sched, &t->task);
            } else {
                uint64_t now = 0;
                aws_high_res_clock_get_ticks(&now);
                int dc = (int)(op.arg(1) % 5);
                t->when = dc == 4 ? UINT64_MAX : now + DELTAS[dc];
                t->far = dc >= 3;
                if (dc == 4) w.never_tasks++;
                if (t->far) my_far.push_back(t->id);
                aws_thread_scheduler_schedule_future(w.sched, &t->task, t->when);
            }
            break;
        }
        case CANCEL: {
            // only a far task this client scheduled earlier (it cannot have run: virtual time stays below +1h)
            std::vector<int> cand;
            for (int id : my_far)
                if (!w.tasks[id].cancelled) cand.push_back(id);
            if (cand.empty()) break;
            TaskRec *t = &w.tasks[cand[op.arg(1) % cand.size()]];
            t->cancelled = true;
            w.cancels++;
            aws_thread_scheduler_cancel_task(w.sched, &t->task);
            break;
        }
        case SLEEP: {
            uint64_t d = SLEEPS[op.arg(1) % 4];
            if (w.slept[me] + d > 100000000ull) break;
            w.slept[me] += d;
            aws_thread_current_sleep(d);
            break;
        }
        case REF:
            aws_thread_scheduler_acquire(w.sched);
            w.refs++;
            do_release(w);
            break;
        }
        if (ds::stats().switches != sw0 && op.kind != SLEEP) w.switch_inside_api = true;
    }
    do_release(w); // this client's own reference
    return nullptr;
}

static void run(const Case &c, Ctx &ctx) {
    galloc::reset();
    dsg::install();
    World w;
    W = &w;
    w.ctx = &ctx;
    w.c = &c;
    int ncl = (int)(1 + (c.c(0, 1) + 2) % 3);
    w.ncl = ncl;
    galloc::S().on_release = [&](void *p, size_t) {
        if (p == (void *)w.sched && w.sched) {
            w.destroyed = true;
            w.destroyed_by = tid();
        }
    };
    // creation that fails part-way (the OS cannot provide the requested stack): NULL result, nothing left allocated
    if (c.c(4) % 16 == 15) {
        struct aws_thread_options bad = *aws_default_thread_options();
        bad.stack_size = (size_t)1 << 60;
        struct aws_thread_scheduler *s2 = aws_thread_scheduler_new(galloc::full(), &bad);
        if (s2 == nullptr) {
            PBT_CHECK(galloc::live_blocks() == 0, "aws_thread_scheduler_new failed and left %zu blocks (%zu bytes) allocated", galloc::live_blocks(),
                      galloc::live_bytes());
            ctx.tag("creation_failed_cleanly");
        } else {
            aws_thread_scheduler_release(s2); // the platform accepted the stack size after all
        }
    }
    ds::Config cfg = dsg::to_config(dsg::find_schedule(c), 80000);
    cfg.max_virtual_ns = 2 * 3600ull * 1000000000ull; // legitimate programs finish within ~0.3 s of virtual time
    ds::run(cfg, [&] {
        w.sched = aws_thread_scheduler_new(galloc::full(), nullptr);
        if (!w.sched) {
            ctx.note_fail("aws_thread_scheduler_new returned NULL");
            return;
        }
        ClientArg args[3];
        pthread_t th[3];
        for (int i = 0; i < ncl; i++) aws_thread_scheduler_acquire(w.sched), w.refs++;
        for (int i = 0; i < ncl; i++) {
            args[i] = ClientArg{&w, i};
            pthread_create(&th[i], nullptr, client, &args[i]);
        }
        uint64_t ms = c.c(2) % 5;
        if (ms) aws_thread_current_sleep(SLEEPS[ms - 1]);
        bool early = c.c(1) % 2 == 0;
        if (early) do_release(w);
        for (int i = 0; i < ncl; i++) pthread_join(th[i], nullptr);
        if (!early) do_release(w);
    });
    galloc::S().on_release = nullptr;
    if (ctx.failed) return;
    PBT_CHECK(w.destroyed && w.all_done, "the scheduler was never destroyed although every reference was released");
    for (int i = 0; i < w.ntasks; i++) {
        TaskRec &t = w.tasks[i];
        if (!t.scheduled) continue;
        PBT_CHECK(t.invocations == 1, "task %d invoked %d times", i, t.invocations);
        if (t.cancelled && t.far) PBT_CHECK(t.status == AWS_TASK_STATUS_CANCELED, "cancelled task %d not CANCELED", i);
    }
    for (auto &ti : ds::threads())
        if (ti.id != 0) PBT_CHECK(ti.done && (ti.joins == 1 || ti.detached), "thread t%d: done=%d joins=%d", ti.id, ti.done, ti.joins);
    const char *m = nullptr;
    PBT_CHECK(galloc::check_all(&m), "%s", m ? m : "");
    PBT_CHECK(galloc::live_blocks() == 0, "%zu blocks (%zu bytes) leaked", galloc::live_blocks(), galloc::live_bytes());
    if (w.switch_inside_api) ctx.tag("switch_inside_api_call");
    if (w.cancels) ctx.tag("cancel");
    if (w.canceled_at_release) ctx.tag("pending_at_final_release");
    if (w.runs) ctx.tag("some_task_ran");
    if (w.chained) ctx.tag("chained_task");
    if (w.chained_from_cancel) ctx.tag("rescheduled_from_cancel_callback");
    if (w.never_tasks) ctx.tag("task_at_uint64_max");
    if (w.destroyed_by != 0) ctx.tag("destroyed_by_client");
    ctx.nontrivial = w.switch_inside_api && w.ntasks >= 2;
}

int main(int argc, char **argv) {
    Spec sp{"C08", "c08_thread_sched", gen_case, run,
            "1..3 client threads + main, <=30 ops (schedule now/future at +1us/5ms/1s/1h, cancel of own far tasks, sleeps, "
            "extra references, one release per reference) under generated schedules (walk / bounded preemption / PCT) "
            "with a virtual clock; non-trivial = a context switch happened inside a schedule/cancel/release call and >=2 tasks",
            /*isolate=*/true};
    return pbt_main(argc, argv, sp);
}

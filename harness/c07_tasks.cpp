// C07 — task scheduler: every scheduling is answered by exactly one invocation, never early, in time order.
// Model: per-task "open scheduling" table + a well-nested event history (library calls, task-function
// invocations, schedulings) that the C callbacks only *record*; the invariants (a)-(h) of DESIGN.md
// section 5 / C07 are evaluated from that history after every top-level command has returned.
//
// Caller obligations enforced by construction (never handed to the library):
//   * a task is scheduled only while it is not pending (scheduling a pending task twice is a caller error);
//   * aws_task_scheduler_cancel_task is issued only for a task that is pending (model-tracked);
//   * out-of-memory is fatal by design, so the timed_list overflow path (heap push failed) is unreachable.
#include "pbt.hpp"
#include "galloc.hpp"

#include <aws/common/task_scheduler.h>
#include <aws/common/error.h>

#include <memory>
#include <setjmp.h>
#include <signal.h>
#include <sys/time.h>

using namespace pbt;

// ASan keeps every distinct allocation stack in its stack depot; rapidcheck's lazily evaluated generator trees
// produce ever new deep stacks, which made a worker grow by ~15 KB per case (2.5 GB over a thorough run).  Short
// allocation stacks keep the process flat at ~25 MB.  Detection is unaffected (only alloc/free stacks in a report
// are shorter).  Keys given in the ASAN_OPTIONS environment variable still take precedence.
extern "C" const char *__asan_default_options() { return "malloc_context_size=5:quarantine_size_mb=32"; }

static const int MAXT = 16;

// ---- case encoding ----------------------------------------------------------
// cfg[0]            number of tasks - 1 (mod 16)
// top-level commands (executed in order):
enum { T_NOW, T_FUTURE, T_CANCEL, T_RUN, T_HAS, T_CLEAN, T_BURST, NTOP };
//   T_NOW(sel)  T_FUTURE(sel, ts)  T_CANCEL(sel)  T_RUN(now)  T_HAS  T_CLEAN
//   T_BURST(sel, k, ts, dir)   k schedule_future calls on free tasks with times ts, ts+d, ts+2d, ... (d = 0 equal run,
//                              +1 increasing, -1 decreasing, wrapping)
// script steps (never executed at top level; step k of task i = k-th step op whose a[0] % ntasks == i):
enum {
    S_SCHED_NOW = 10,  // (owner, sel)          on RUN: schedule another free task now
    S_SCHED_FUTURE,    // (owner, sel, ts)      on RUN: schedule another free task at ts
    S_SELF_NOW,        // (owner)               on RUN: re-schedule itself now
    S_SELF_FUTURE,     // (owner, ts)           on RUN: re-schedule itself at ts
    S_CANCEL,          // (owner, sel, mode)    on RUN: cancel a pending task (mode 0: prefer one in the current batch,
                       //                       1: prefer one outside the batch, 2: first pending from sel)
    S_ONC_NOW,         // (owner, sel)          on CANCELED, once per case: schedule a free task (self allowed) now
    S_ONC_FUTURE,      // (owner, sel, ts)      on CANCELED, once per case: ... at ts
    S_END
};

static uint64_t gen_ts() {
    switch (weighted({44, 8, 12, 10, 12, 9, 5})) {
    case 0: return pick(0, 6);
    case 1: return 0;
    case 2: return one_of({(1ull << 63) - 1, 1ull << 63, (1ull << 63) + 1});
    case 3: return UINT64_MAX - 1;
    case 4: return UINT64_MAX;
    case 5: return pick(7, 1000);
    default: return any_u64();
    }
}
static uint64_t gen_now() {
    switch (weighted({50, 6, 10, 8, 16, 6, 4})) {
    case 0: return pick(0, 7);
    case 1: return 0;
    case 2: return one_of({(1ull << 63) - 1, 1ull << 63, (1ull << 63) + 1});
    case 3: return UINT64_MAX - 1;
    case 4: return UINT64_MAX;
    case 5: return pick(7, 1000);
    default: return any_u64();
    }
}

static Case gen_case() {
    Case c;
    uint64_t nt = weighted({1, 3}) == 0 ? pick(0, 3) : pick(2, MAXT - 1);
    c.cfg = {nt};
    std::vector<Op> cmds = op_list(50, [] {
        switch (weighted({22, 28, 10, 28, 3, 4, 5})) {
        case 0: return mkop(T_NOW, {pick(0, MAXT - 1)});
        case 1: return mkop(T_FUTURE, {pick(0, MAXT - 1), gen_ts()});
        case 2: return mkop(T_CANCEL, {pick(0, MAXT - 1)});
        case 3: return mkop(T_RUN, {gen_now()});
        case 4: return mkop(T_HAS);
        case 5: return mkop(T_CLEAN);
        default: return mkop(T_BURST, {pick(0, MAXT - 1), pick(2, 12), gen_ts(), pick(0, 2)});
        }
    });
    std::vector<Op> steps = op_list(36, [] {
        uint64_t owner = pick(0, MAXT - 1);
        switch (weighted({16, 20, 10, 12, 30, 6, 6})) {
        case 0: return mkop(S_SCHED_NOW, {owner, pick(0, MAXT - 1)});
        case 1: return mkop(S_SCHED_FUTURE, {owner, pick(0, MAXT - 1), gen_ts()});
        case 2: return mkop(S_SELF_NOW, {owner});
        case 3: return mkop(S_SELF_FUTURE, {owner, gen_ts()});
        case 4: return mkop(S_CANCEL, {owner, pick(0, MAXT - 1), weighted({5, 3, 2})});
        case 5: return mkop(S_ONC_NOW, {owner, pick(0, MAXT - 1)});
        default: return mkop(S_ONC_FUTURE, {owner, pick(0, MAXT - 1), gen_ts()});
        }
    });
    // interleave deterministically (scripts are collected by owner, so the position of a step is irrelevant;
    // keeping both lists in one vector lets rapidcheck drop either kind freely)
    c.ops = cmds;
    c.ops.insert(c.ops.end(), steps.begin(), steps.end());
    return c;
}

// ---- model + history -----------------------------------------------------------
enum CallK { CALL_NOW, CALL_FUTURE, CALL_CANCEL, CALL_RUN, CALL_HAS, CALL_CLEAN };
static const char *CALLN[] = {"schedule_now", "schedule_future", "cancel_task", "run_all", "has_tasks", "clean_up"};
enum EvK { EV_CALL_BEGIN, EV_CALL_END, EV_INV_BEGIN, EV_INV_END, EV_SCHED };

struct Sch { // one scheduling of one task
    int task;
    bool asap;
    uint64_t ts;
    uint64_t seq;      // global scheduling order
    int cmd;           // top-level command during which it was made
    bool reentrant;    // made from inside a task function
    int batch_cmd;     // run_all command whose entry snapshot contains it (-1: none)
    bool closed;       // its invocation has begun
    int close_status;
};
struct Ev {
    int k;
    int call;    // CALL_*: which call
    int task;    // call target / invoked task (-1: unknown pointer)
    int sch;     // CALL_CANCEL: scheduling open for the target at the call; INV: scheduling open at invocation (-1: none)
    int status;  // INV: status passed
    bool ident;  // INV: arg pointer matches the task
    uint64_t v;  // run_all: now
};

struct World;
struct TaskRec {
    struct aws_task task;
    World *w;
    int idx;
    int open; // index of the open scheduling, -1 = not pending
};

struct World {
    struct aws_task_scheduler sched;
    int n = 0;
    TaskRec t[MAXT];
    std::vector<const Op *> run_script[MAXT], onc_script[MAXT];
    std::set<const Op *> used_once;
    std::vector<Sch> schs;
    std::vector<Ev> hist;
    uint64_t seq = 0;
    int cmd = 0;
    int depth = 0;           // task-function nesting depth
    int run_cmd = -1;        // command index of the run_all in progress
    uint64_t inv_count = 0, inv_limit = 0;
    bool halt = false;       // stop executing scripts (divergence or runaway seen; evaluation reports it)
    Ctx *ctx = nullptr;
    // coverage
    bool reentrant_sched = false, cancel_in_batch = false;
};
static World *g_w = nullptr;
static volatile sig_atomic_t g_armed = 0, g_in_fn = 0; // watchdog state, see below

static void task_fn(struct aws_task *task, void *arg, enum aws_task_status status);

static bool in_batch(World &w, int ti) {
    int s = w.t[ti].open;
    return s >= 0 && w.run_cmd >= 0 && w.schs[s].batch_cmd == w.run_cmd;
}

static void do_schedule(World &w, int ti, bool asap, uint64_t ts) {
    int s = (int)w.schs.size();
    w.schs.push_back(Sch{ti, asap, asap ? 0 : ts, w.seq++, w.cmd, w.depth > 0, -1, false, -1});
    w.t[ti].open = s;
    w.hist.push_back(Ev{EV_CALL_BEGIN, asap ? CALL_NOW : CALL_FUTURE, ti, s, 0, true, ts});
    w.hist.push_back(Ev{EV_SCHED, 0, ti, s, 0, true, ts});
    if (asap) aws_task_scheduler_schedule_now(&w.sched, &w.t[ti].task);
    else aws_task_scheduler_schedule_future(&w.sched, &w.t[ti].task, ts);
    w.hist.push_back(Ev{EV_CALL_END, asap ? CALL_NOW : CALL_FUTURE, ti, s, 0, true, ts});
    if (!asap && ts == UINT64_MAX) w.ctx->tag("ts_uint64_max");
}

static void do_cancel(World &w, int ti) {
    int s = w.t[ti].open;
    w.hist.push_back(Ev{EV_CALL_BEGIN, CALL_CANCEL, ti, s, 0, true, 0});
    aws_task_scheduler_cancel_task(&w.sched, &w.t[ti].task);
    w.hist.push_back(Ev{EV_CALL_END, CALL_CANCEL, ti, s, 0, true, 0});
}

// first task at or after sel (cyclically) satisfying pred, -1 if none
template <class P> static int scan(World &w, uint64_t sel, P pred) {
    for (int k = 0; k < w.n; k++) {
        int i = (int)((sel + (uint64_t)k) % (uint64_t)w.n);
        if (pred(i)) return i;
    }
    return -1;
}

static void exec_step(World &w, int owner, const Op &op) {
    switch (op.kind) {
    case S_SCHED_NOW:
    case S_SCHED_FUTURE: {
        int ti = scan(w, op.arg(1), [&](int i) { return i != owner && w.t[i].open < 0; });
        if (ti < 0) return;
        do_schedule(w, ti, op.kind == S_SCHED_NOW, op.arg(2));
        w.reentrant_sched = true;
        w.ctx->tag("reentrant_sched_other");
        return;
    }
    case S_SELF_NOW:
    case S_SELF_FUTURE:
        if (w.t[owner].open >= 0) return;
        do_schedule(w, owner, op.kind == S_SELF_NOW, op.arg(1));
        w.reentrant_sched = true;
        w.ctx->tag(op.kind == S_SELF_NOW ? "self_resched_now" : "self_resched_future");
        return;
    case S_CANCEL: {
        int ti = -1;
        switch (op.arg(2) % 3) {
        case 0: ti = scan(w, op.arg(1), [&](int i) { return in_batch(w, i); }); break;
        case 1: ti = scan(w, op.arg(1), [&](int i) { return w.t[i].open >= 0 && !in_batch(w, i); }); break;
        default: break;
        }
        if (ti < 0) ti = scan(w, op.arg(1), [&](int i) { return w.t[i].open >= 0; });
        if (ti < 0) return; // nothing pending: cancel has no defined meaning, not generated
        const Sch &s = w.schs[w.t[ti].open];
        if (in_batch(w, ti)) {
            w.cancel_in_batch = true;
            w.ctx->tag(s.asap ? "cancel_in_batch_asap" : "cancel_in_batch_timed");
        } else
            w.ctx->tag(s.asap ? "cancel_from_fn_asap_list" : "cancel_from_fn_heap");
        if (ti == owner) w.ctx->tag("cancel_self_after_resched");
        do_cancel(w, ti);
        return;
    }
    case S_ONC_NOW:
    case S_ONC_FUTURE: {
        int ti = scan(w, op.arg(1), [&](int i) { return w.t[i].open < 0; });
        if (ti < 0) return;
        do_schedule(w, ti, op.kind == S_ONC_NOW, op.arg(2));
        w.ctx->tag("sched_from_cancelled_fn");
        return;
    }
    default: return;
    }
}

// The task function: C callback — records, updates the pending table, runs the script; never throws, never judges.
static void task_fn(struct aws_task *task, void *arg, enum aws_task_status status) {
    World &w = *g_w;
    struct InFn {
        InFn() { g_in_fn = g_in_fn + 1; }
        ~InFn() { g_in_fn = g_in_fn - 1; }
    } in_fn;
    int idx = -1;
    for (int i = 0; i < w.n; i++)
        if (&w.t[i].task == task) idx = i;
    if (idx < 0) {
        w.hist.push_back(Ev{EV_INV_BEGIN, 0, -1, -1, (int)status, false, 0});
        w.hist.push_back(Ev{EV_INV_END, 0, -1, -1, (int)status, false, 0});
        w.halt = true;
        return;
    }
    int s = w.t[idx].open;
    w.t[idx].open = -1;
    if (s >= 0) {
        w.schs[s].closed = true;
        w.schs[s].close_status = (int)status;
    } else
        w.halt = true; // invoked while not pending: model and library have diverged
    w.hist.push_back(Ev{EV_INV_BEGIN, 0, idx, s, (int)status, arg == (void *)&w.t[idx], 0});
    if (++w.inv_count > w.inv_limit) w.halt = true;
    w.depth++;
    if (!w.halt) {
        if (status == AWS_TASK_STATUS_RUN_READY) {
            for (const Op *op : w.run_script[idx]) {
                if (w.halt) break;
                exec_step(w, idx, *op);
            }
        } else {
            for (const Op *op : w.onc_script[idx]) {
                if (w.halt) break;
                if (!w.used_once.insert(op).second) continue;
                exec_step(w, idx, *op);
            }
        }
    }
    w.depth--;
    w.hist.push_back(Ev{EV_INV_END, 0, idx, s, (int)status, true, 0});
}

static const char *stname(int st) {
    return st == AWS_TASK_STATUS_RUN_READY ? "RUN" : st == AWS_TASK_STATUS_CANCELED ? "CANCELED" : "?";
}

// ---- CPU-time watchdog around run_all / clean_up -------------------------------------
// clean_up loops "while has_tasks"; a scheduler that fails to hand out a pending task would spin there for
// ever without ever calling back into the harness.  A library call on <=16 tasks needs microseconds, so 1 s of
// *user CPU time* (ITIMER_VIRTUAL: independent of machine load) inside one call is reported as a hang.
// The handler only jumps when no task function is on the stack (harness containers are then quiescent).
static sigjmp_buf g_jmp;
static void arm(long usec) {
    struct itimerval it;
    memset(&it, 0, sizeof it);
    it.it_value.tv_sec = usec / 1000000;
    it.it_value.tv_usec = usec % 1000000;
    setitimer(ITIMER_VIRTUAL, &it, nullptr);
}
static void on_vtalrm(int) {
    if (!g_armed) return;
    if (g_in_fn) { // inside a task function: stop the scripts and look again shortly
        if (g_w) g_w->halt = true;
        arm(50000);
        return;
    }
    g_armed = 0;
    siglongjmp(g_jmp, 1);
}
template <class F> static bool returns_in_time(F f) {
    struct sigaction sa;
    memset(&sa, 0, sizeof sa);
    sa.sa_handler = on_vtalrm;
    sigemptyset(&sa.sa_mask);
    sigaction(SIGVTALRM, &sa, nullptr);
    if (sigsetjmp(g_jmp, 1)) {
        arm(0);
        return false;
    }
    g_in_fn = 0;
    g_armed = 1;
    arm(1000000);
    f();
    g_armed = 0;
    arm(0);
    return true;
}

// ---- evaluation of the history of one top-level command --------------------------
static void evaluate(World &w, int top_call, uint64_t now, size_t open_at_entry) {
    struct Frame {
        int call, target, sch, invocations;
    };
    std::vector<Frame> st;
    std::vector<int> run_order; // schedulings run directly by this command's run_all, in order
    size_t total_inv = 0;
    if (w.ctx->replay && top_call != CALL_HAS) { // trace for a human reading a replay
        int ind = 0;
        fprintf(stderr, "cmd %d: %s", w.cmd, CALLN[top_call]);
        if (top_call == CALL_RUN) fprintf(stderr, "(%" PRIu64 ")", now);
        fprintf(stderr, "\n");
        for (const Ev &e : w.hist) {
            if (e.k == EV_CALL_END || e.k == EV_INV_END) ind--;
            if (e.k == EV_CALL_BEGIN && e.call != CALL_HAS)
                fprintf(stderr, "  %*s-> %s task=%d v=%" PRIu64 "\n", ind * 2, "", CALLN[e.call], e.task, e.v);
            if (e.k == EV_INV_BEGIN)
                fprintf(stderr, "  %*sfn(task %d, %s)%s\n", ind * 2, "", e.task, stname(e.status), e.sch < 0 ? "  [not scheduled]" : "");
            if (e.k == EV_CALL_BEGIN || e.k == EV_INV_BEGIN) ind++;
        }
    }
    for (const Ev &e : w.hist) {
        switch (e.k) {
        case EV_CALL_BEGIN: st.push_back(Frame{e.call, e.task, e.sch, 0}); break;
        case EV_CALL_END: {
            PBT_CHECK(!st.empty() && st.back().call == e.call, "history not well nested");
            Frame f = st.back();
            st.pop_back();
            if (f.call == CALL_CANCEL)
                PBT_CHECK(f.invocations == 1,
                          "(f) cancel_task(task %d) returned after %d invocations of its function (expected exactly one, CANCELED)",
                          f.target, f.invocations);
            break;
        }
        case EV_SCHED: break;
        case EV_INV_END: break;
        case EV_INV_BEGIN: {
            total_inv++;
            PBT_CHECK(e.task >= 0, "a task function was invoked with a task pointer that was never handed to the scheduler");
            PBT_CHECK(e.ident, "task %d invoked with a different arg pointer than it was initialised with", e.task);
            PBT_CHECK(!st.empty(), "task %d invoked outside any scheduler call", e.task);
            Frame &f = st.back();
            PBT_CHECK(e.status == AWS_TASK_STATUS_RUN_READY || e.status == AWS_TASK_STATUS_CANCELED, "status %d", e.status);
            PBT_CHECK(e.sch >= 0,
                      "(a) task %d invoked (%s, inside %s) while it is not scheduled: a second invocation for one scheduling",
                      e.task, stname(e.status), CALLN[f.call]);
            const Sch &s = w.schs[e.sch];
            switch (f.call) {
            case CALL_NOW:
            case CALL_FUTURE:
            case CALL_HAS:
                PBT_CHECK(false, "task %d invoked (%s) from inside %s", e.task, stname(e.status), CALLN[f.call]);
                break;
            case CALL_CANCEL:
                PBT_CHECK(e.task == f.target, "(f) cancel_task(task %d) invoked task %d instead", f.target, e.task);
                PBT_CHECK(e.status == AWS_TASK_STATUS_CANCELED, "(f) cancel_task(task %d) invoked it with status RUN", f.target);
                PBT_CHECK(e.sch == f.sch, "model: cancel closed another scheduling");
                f.invocations++;
                break;
            case CALL_RUN:
                PBT_CHECK(e.status == AWS_TASK_STATUS_RUN_READY, "run_all invoked task %d with CANCELED", e.task);
                if (s.batch_cmd != w.cmd) {
                    if (s.cmd == w.cmd && s.reentrant)
                        PBT_CHECK(false, "(e) task %d was scheduled (%s) from inside run_all(%" PRIu64 ") and was run by that same call",
                                  e.task, s.asap ? "now" : "timed", now);
                    PBT_CHECK(s.asap || s.ts <= now, "(b) task %d with time %" PRIu64 " was run early by run_all(%" PRIu64 ")", e.task, s.ts, now);
                    PBT_CHECK(false, "task %d run by run_all but not pending at its entry", e.task);
                }
                PBT_CHECK(s.asap || s.ts <= now, "(b) task %d with time %" PRIu64 " was run early by run_all(%" PRIu64 ")", e.task, s.ts, now);
                run_order.push_back(e.sch);
                break;
            case CALL_CLEAN:
                PBT_CHECK(e.status == AWS_TASK_STATUS_CANCELED, "(g) clean_up invoked task %d with status RUN", e.task);
                break;
            }
            break;
        }
        }
    }
    PBT_CHECK(st.empty(), "history not well nested at the end of the command");
    PBT_CHECK(!(w.inv_count > w.inv_limit), "runaway: more than %" PRIu64 " invocations inside one command", w.inv_limit);

    switch (top_call) {
    case CALL_NOW:
    case CALL_FUTURE:
    case CALL_HAS: PBT_CHECK(total_inv == 0, "invocations during %s", CALLN[top_call]); break;
    case CALL_CANCEL: PBT_CHECK(total_inv == 1, "(f) top-level cancel caused %zu invocations", total_inv); break;
    case CALL_RUN: {
        // (d) run-now tasks first in scheduling order, then timed tasks in non-decreasing time
        for (size_t i = 1; i < run_order.size(); i++) {
            const Sch &p = w.schs[run_order[i - 1]], &q = w.schs[run_order[i]];
            if (p.asap && q.asap)
                PBT_CHECK(p.seq < q.seq, "(d) run-now task %d (scheduled later) ran before run-now task %d", p.task, q.task);
            else if (!p.asap && q.asap)
                PBT_CHECK(false, "(d) timed task %d (time %" PRIu64 ") ran before run-now task %d", p.task, p.ts, q.task);
            else if (!p.asap && !q.asap)
                PBT_CHECK(p.ts <= q.ts, "(d) timed task %d (time %" PRIu64 ") ran before timed task %d (time %" PRIu64 ")", p.task,
                          p.ts, q.task, q.ts);
        }
        // (c) everything due at entry has been run by this call or was cancelled before its turn
        size_t due = 0;
        for (const Sch &s : w.schs)
            if (s.batch_cmd == w.cmd) {
                due++;
                PBT_CHECK(s.closed, "(c) task %d (%s, time %" PRIu64 ") was pending and due at run_all(%" PRIu64 ") but was not run by it",
                          s.task, s.asap ? "run-now" : "timed", s.ts, now);
            }
        (void)due;
        break;
    }
    case CALL_CLEAN:
        for (const Sch &s : w.schs)
            PBT_CHECK(s.closed, "(g) task %d still pending after clean_up (scheduled %s)", s.task,
                      s.reentrant ? "from a task function" : "at top level");
        PBT_CHECK(total_inv >= open_at_entry, "model");
        break;
    }
}

static void check_query(World &w, const char *after) {
    // (h) has_tasks / next time = model
    bool any = false, any_asap = false;
    uint64_t mn = UINT64_MAX;
    size_t timed = 0;
    for (int i = 0; i < w.n; i++) {
        int s = w.t[i].open;
        if (s < 0) continue;
        any = true;
        if (w.schs[s].asap) any_asap = true;
        else {
            timed++;
            if (w.schs[s].ts < mn) mn = w.schs[s].ts;
        }
    }
    uint64_t expect = !any ? UINT64_MAX : any_asap ? 0 : mn;
    uint64_t got = 0x5a5a5a5a5a5a5a5aull;
    w.hist.clear();
    w.hist.push_back(Ev{EV_CALL_BEGIN, CALL_HAS, -1, -1, 0, true, 0});
    bool has = aws_task_scheduler_has_tasks(&w.sched, &got);
    bool has2 = aws_task_scheduler_has_tasks(&w.sched, NULL);
    w.hist.push_back(Ev{EV_CALL_END, CALL_HAS, -1, -1, 0, true, 0});
    evaluate(w, CALL_HAS, 0, 0);
    PBT_CHECK(has == any, "(h) after %s: has_tasks says %d, %s pending", after, (int)has, any ? "tasks are" : "nothing is");
    PBT_CHECK(has2 == any, "(h) after %s: has_tasks(NULL) says %d, %s pending", after, (int)has2, any ? "tasks are" : "nothing is");
    PBT_CHECK(got == expect, "(h) after %s: next task time %" PRIu64 ", earliest pending is %" PRIu64 "%s", after, got, expect,
              any_asap ? " (a run-now task is pending)" : !any ? " (nothing pending)" : "");
    PBT_CHECK(aws_task_scheduler_is_valid(&w.sched), "after %s: scheduler not valid", after);
    const char *m = nullptr;
    PBT_CHECK(galloc::check_all(&m), "%s", m ? m : "");
    if (timed > 7) w.ctx->tag("heap_grew_gt7_timed");
    if (any && !any_asap && mn == UINT64_MAX) w.ctx->tag("only_uint64_max_pending");
}

static void run(const Case &c, Ctx &ctx) {
    galloc::reset();
    std::unique_ptr<World> wp(new World());
    World &w = *wp;
    g_w = &w;
    w.ctx = &ctx;
    w.n = 1 + (int)(c.c(0) % MAXT);
    for (int i = 0; i < MAXT; i++) {
        w.t[i].w = &w;
        w.t[i].idx = i;
        w.t[i].open = -1;
        aws_task_init(&w.t[i].task, task_fn, &w.t[i], "c07");
    }
    size_t nsteps = 0;
    for (const Op &op : c.ops) {
        if (op.kind >= S_SCHED_NOW && op.kind < S_END) {
            int owner = (int)(op.arg(0) % (uint64_t)w.n);
            if (op.kind == S_ONC_NOW || op.kind == S_ONC_FUTURE) w.onc_script[owner].push_back(&op);
            else w.run_script[owner].push_back(&op);
            nsteps++;
        }
    }
    w.inv_limit = (uint64_t)MAXT * (nsteps + 2) + 64;

    PBT_CHECK(aws_task_scheduler_init(&w.sched, galloc::full()) == AWS_OP_SUCCESS);
    check_query(w, "init");

    auto n_open = [&]() {
        size_t k = 0;
        for (int i = 0; i < w.n; i++) k += w.t[i].open >= 0;
        return k;
    };
    auto begin_cmd = [&]() {
        w.hist.clear();
        w.inv_count = 0;
        w.depth = 0;
    };
    auto clean_up = [&](const char *what) {
        begin_cmd();
        size_t open = n_open();
        if (open) ctx.tag("clean_up_with_pending");
        w.hist.push_back(Ev{EV_CALL_BEGIN, CALL_CLEAN, -1, -1, 0, true, 0});
        PBT_CHECK(returns_in_time([&] { aws_task_scheduler_clean_up(&w.sched); }),
                  "hang: %s did not return within 1 s of CPU time (%zu tasks pending at entry)", what, open);
        w.hist.push_back(Ev{EV_CALL_END, CALL_CLEAN, -1, -1, 0, true, 0});
        evaluate(w, CALL_CLEAN, 0, open);
        size_t inv = 0;
        for (auto &e : w.hist) inv += e.k == EV_INV_BEGIN;
        if (inv > open) ctx.tag("clean_up_ran_tasks_scheduled_during_it");
        PBT_CHECK(galloc::live_blocks() == 0, "after %s: clean_up left %zu blocks allocated", what, galloc::live_blocks());
        const char *m = nullptr;
        PBT_CHECK(galloc::check_all(&m), "%s", m ? m : "");
    };

    for (const Op &op : c.ops) {
        if (op.kind < 0 || op.kind >= NTOP) continue; // script step
        w.cmd++;
        begin_cmd();
        switch (op.kind) {
        case T_NOW:
        case T_FUTURE: {
            int ti = scan(w, op.arg(0), [&](int i) { return w.t[i].open < 0; });
            if (ti < 0) break; // everything pending: scheduling a pending task again is a caller error
            do_schedule(w, ti, op.kind == T_NOW, op.arg(1));
            evaluate(w, op.kind == T_NOW ? CALL_NOW : CALL_FUTURE, 0, 0);
            check_query(w, op.kind == T_NOW ? "schedule_now" : "schedule_future");
            break;
        }
        case T_CANCEL: {
            int ti = scan(w, op.arg(0), [&](int i) { return w.t[i].open >= 0; });
            if (ti < 0) break; // cancel is only defined for a pending task
            ctx.tag(w.schs[w.t[ti].open].asap ? "top_cancel_asap" : "top_cancel_timed");
            do_cancel(w, ti);
            evaluate(w, CALL_CANCEL, 0, 0);
            check_query(w, "cancel_task");
            break;
        }
        case T_RUN: {
            uint64_t now = op.arg(0);
            size_t due = 0, due_timed = 0, not_due = 0;
            std::map<uint64_t, int> ts_count;
            for (int i = 0; i < w.n; i++) {
                int s = w.t[i].open;
                if (s < 0) continue;
                Sch &S = w.schs[s];
                if (S.asap || S.ts <= now) {
                    S.batch_cmd = w.cmd;
                    due++;
                    if (!S.asap) {
                        due_timed++;
                        if (++ts_count[S.ts] == 2) ctx.tag("equal_timestamps_in_batch");
                    }
                } else
                    not_due++;
            }
            if (due && not_due) ctx.tag("run_all_partial");
            if (due_timed && due > due_timed) ctx.tag("batch_mixed_asap_timed");
            if (now == UINT64_MAX) ctx.tag("run_all_uint64_max");
            w.run_cmd = w.cmd;
            w.hist.push_back(Ev{EV_CALL_BEGIN, CALL_RUN, -1, -1, 0, true, now});
            PBT_CHECK(returns_in_time([&] { aws_task_scheduler_run_all(&w.sched, now); }),
                      "hang: run_all(%" PRIu64 ") did not return within 1 s of CPU time", now);
            w.hist.push_back(Ev{EV_CALL_END, CALL_RUN, -1, -1, 0, true, now});
            w.run_cmd = -1;
            evaluate(w, CALL_RUN, now, 0);
            check_query(w, "run_all");
            break;
        }
        case T_BURST: {
            uint64_t k = op.arg(1) % (MAXT + 1), ts = op.arg(2), d = op.arg(3) % 3 == 0 ? 0 : op.arg(3) % 3 == 1 ? 1 : UINT64_MAX;
            for (uint64_t j = 0; j < k; j++) {
                int ti = scan(w, op.arg(0) + j, [&](int i) { return w.t[i].open < 0; });
                if (ti < 0) break;
                do_schedule(w, ti, false, ts + j * d);
            }
            evaluate(w, CALL_FUTURE, 0, 0);
            check_query(w, "schedule_future burst");
            ctx.tag(d == 0 ? "burst_equal" : d == 1 ? "burst_increasing" : "burst_decreasing");
            break;
        }
        case T_HAS: check_query(w, "has_tasks"); break;
        case T_CLEAN:
            clean_up("clean_up");
            PBT_CHECK(aws_task_scheduler_init(&w.sched, galloc::full()) == AWS_OP_SUCCESS);
            check_query(w, "re-init");
            break;
        }
        PBT_CHECK(!ctx.failed, "%s", ctx.msg.c_str());
    }
    w.cmd++;
    clean_up("final clean_up");
    // (a) over the whole case: every scheduling was answered by exactly one invocation
    for (const Sch &s : w.schs) PBT_CHECK(s.closed, "(a) task %d scheduled but never invoked", s.task);

    if (w.reentrant_sched && w.cancel_in_batch) ctx.nontrivial = true;
    g_w = nullptr;
}

int main(int argc, char **argv) {
    Spec sp{"C07", "c07_tasks", gen_case, run,
            "generated programs (<=50 commands over schedule_now/schedule_future(+bursts)/cancel/run_all/has_tasks/clean_up+re-init, <=16 "
            "tasks, <=36 script steps run by the task functions); non-trivial = >=1 schedule issued from inside a running task "
            "and >=1 cancel, issued from inside a running task, of a task already moved into the current run_all batch; "
            "distinct by hash of the serialised case"};
    return pbt_main(argc, argv, sp);
}

#!/usr/bin/env python3
"""Development aid: grows the committed seed corpus of the libFuzzer targets on the CLEAN tree.

    tools/grow_corpus.py <seconds> [target ...]        (default: every fuzz target)

For each target: build it from /repo, run `procs` libFuzzer processes for <seconds> from the committed
seeds + dictionary (known findings excluded as in ./check), then `-merge=1` everything that adds coverage
into a fresh directory and copy what is new into corpus/<target>/ as g-<sha1>.  A crash on the clean tree
stops the script (that is a finding or a false alarm to look at, not corpus material).  The quick tier's
even-numbered workers start from corpus/<target>/, so a grown corpus puts the first seconds of every run
into deep parser states instead of rediscovering them.
"""
import hashlib
import json
import os
import shutil
import subprocess
import sys

ROOT = os.path.dirname(os.path.dirname(os.path.abspath(__file__)))
sys.path.insert(0, ROOT)
sys.path.insert(0, os.path.join(ROOT, "engine"))
import build  # noqa: E402
import targets as T  # noqa: E402

MAX_FILE = 4096
MAX_NEW = 400


def main():
    secs = int(sys.argv[1])
    names = sys.argv[2:] or sorted(n for n, t in T.TARGETS.items() if t.get("kind") == "fuzz")
    known = ",".join(k["id"] for k in json.load(open(os.path.join(ROOT, "known_findings.json")))["findings"] if k.get("status") == "known")
    work = os.path.join(ROOT, ".build", "grow")
    shutil.rmtree(work, ignore_errors=True)
    procs = []
    for n in names:
        t = T.TARGETS[n]
        b = build.build_target(t)
        d = os.path.join(work, n)
        os.makedirs(d + "/c0")
        os.makedirs(d + "/c1")
        os.makedirs(d + "/art")
        env = dict(os.environ, VERIF_KNOWN=known, TZ="UTC", LC_ALL="C",
                   ASAN_OPTIONS="detect_leaks=0:abort_on_error=1:allocator_may_return_null=1:handle_abort=0:malloc_context_size=3:quarantine_size_mb=16")
        env.update(t.get("env", {}))
        seeds = os.path.join(ROOT, "corpus", n)
        dct = os.path.join(ROOT, "corpus", n + ".dict")
        for i in range(2):
            cmd = [b, "-seed=%d" % (11 + i), "-max_total_time=%d" % secs, "-timeout=20", "-rss_limit_mb=3072",
                   "-max_len=%d" % t.get("max_len", 4096), "-artifact_prefix=" + d + "/art/", "-verbosity=0",
                   "-use_value_profile=1", d + "/c%d" % i]
            if os.path.isdir(seeds):
                cmd.append(seeds)
            if os.path.exists(dct):
                cmd.insert(1, "-dict=" + dct)
            procs.append((n, subprocess.Popen(cmd, env=env, stdout=subprocess.DEVNULL, stderr=subprocess.DEVNULL, cwd=d), b, env, t))
    bad = False
    for n, p, b, env, t in procs:
        p.wait()
        arts = [a for a in os.listdir(os.path.join(work, n, "art")) if a.startswith(("crash-", "leak-"))]
        if arts:
            print("%s: artifact on the clean tree: %s" % (n, arts))
            bad = True
    if bad:
        return 1
    for n in names:
        t = T.TARGETS[n]
        b = build.build_target(t)
        d = os.path.join(work, n)
        seeds = os.path.join(ROOT, "corpus", n)
        os.makedirs(seeds, exist_ok=True)
        merged = d + "/merged"
        os.makedirs(merged)
        env = dict(os.environ, VERIF_KNOWN=known, TZ="UTC", LC_ALL="C", ASAN_OPTIONS="detect_leaks=0:allocator_may_return_null=1:handle_abort=0")
        env.update(t.get("env", {}))
        # the committed seeds come first, so only inputs adding coverage beyond them are kept
        subprocess.run([b, "-merge=1", "-use_value_profile=1", "-max_len=%d" % t.get("max_len", 4096), merged, seeds, d + "/c0", d + "/c1"],
                       env=env, stdout=subprocess.DEVNULL, stderr=subprocess.DEVNULL, cwd=d)
        have = {hashlib.sha1(open(os.path.join(seeds, f), "rb").read()).hexdigest() for f in os.listdir(seeds)}
        new = 0
        for f in sorted(os.listdir(merged), key=lambda f: os.path.getsize(os.path.join(merged, f))):
            data = open(os.path.join(merged, f), "rb").read()
            h = hashlib.sha1(data).hexdigest()
            if h in have or len(data) > MAX_FILE or new >= MAX_NEW:
                continue
            open(os.path.join(seeds, "g-" + h[:16]), "wb").write(data)
            new += 1
        print("%s: %d in merged set, %d new seeds added, corpus now %d files" % (n, len(os.listdir(merged)), new, len(os.listdir(seeds))))
    shutil.rmtree(work, ignore_errors=True)
    return 0


if __name__ == "__main__":
    sys.exit(main())

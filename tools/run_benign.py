#!/usr/bin/env python3
"""Negative control: runs the registered checks against property-PRESERVING changes kept under
/verif/benign/<id>/ (written by independent sub-agents from the property text only).  A sound check
stays green on all of them; an alarm here is a false alarm to be corrected in the check.

Each change has patch.diff (against /repo HEAD), notes.md (why the property still holds), and meta.json
({"property": "C08", ...}).  For every change: copy /repo's source+include to a scratch tree
outside /repo and /verif, apply the patch there, run `./check <property> --tier quick` with
VERIF_REPO pointing at the scratch tree (then thorough), record the verdict in
benign/<id>/result.json, remove the scratch tree.  /repo itself is never modified.

    tools/run_benign.py [id ...]      (default: all)
"""
import json
import os
import shutil
import subprocess
import sys
import time

ROOT = os.path.dirname(os.path.dirname(os.path.abspath(__file__)))
REPO = "/repo"


def run(cmd, **kw):
    return subprocess.run(cmd, stdout=subprocess.PIPE, stderr=subprocess.STDOUT, text=True, **kw)


def main():
    ids = sys.argv[1:] or sorted(d for d in os.listdir(os.path.join(ROOT, "benign"))
                                 if os.path.isfile(os.path.join(ROOT, "benign", d, "patch.diff")))
    summary = []
    for sid in ids:
        d = os.path.join(ROOT, "benign", sid)
        meta = json.load(open(os.path.join(d, "meta.json")))
        prop = meta["property"]
        scratch = "/tmp/benign-run-%s-%d" % (sid, os.getpid())
        shutil.rmtree(scratch, ignore_errors=True)
        os.makedirs(scratch)
        run(["rsync", "-a", REPO + "/source", REPO + "/include", scratch + "/"])
        run(["git", "init", "-q"], cwd=scratch)
        r = run(["git", "apply", "--whitespace=nowarn", os.path.join(d, "patch.diff")], cwd=scratch)
        if r.returncode != 0:
            print("%s: patch does not apply: %s" % (sid, r.stdout))
            shutil.rmtree(scratch, ignore_errors=True)
            continue
        res = {"id": sid, "property": prop, "runs": []}
        caught = False
        plan = [(prop, "quick"), (prop, "thorough")]
        if os.environ.get("BENIGN_QUICK_ONLY"):
            plan = [(prop, "quick")]
        if os.environ.get("BENIGN_ALSO"):  # the other properties anchored in the files the patch touches
            plan = [(q, "quick") for q in meta.get("also", [])]
        for cprop, tier in plan:
            env = dict(os.environ, VERIF_REPO=scratch)
            t0 = time.time()
            r = run([os.path.join(ROOT, "check"), cprop, "--tier", tier], cwd=ROOT, env=env)
            viol = [ln for ln in r.stdout.splitlines() if ln.startswith("VIOLATION")]
            why = [ln for ln in r.stdout.splitlines() if ln.startswith("---- ")][:2]
            res["runs"].append({"check": cprop, "tier": tier, "exit": r.returncode, "violations": len(viol), "wall_s": round(time.time() - t0, 1),
                                "first_message": (why[0][:400] if why else "")})
            if r.returncode != 0 or viol:
                caught = True
                break
        res["alarm"] = caught
        if not plan:
            shutil.rmtree(scratch, ignore_errors=True)
            continue
        json.dump(res, open(os.path.join(d, "result-also.json" if os.environ.get("BENIGN_ALSO") else "result.json"), "w"), indent=1)
        shutil.rmtree(scratch, ignore_errors=True)
        for q in {c for c, _ in plan}:
            shutil.rmtree(os.path.join(ROOT, "failures", q), ignore_errors=True)
        summary.append((sid, prop, caught, res["runs"][-1]["tier"], res["runs"][-1]["wall_s"]))
        print("%-40s %s ALARM=%s (%s, %.0fs) %s" % (sid, prop, caught, res["runs"][-1]["tier"], res["runs"][-1]["wall_s"],
                                                      res["runs"][-1]["first_message"][:160]))
    return 0


if __name__ == "__main__":
    sys.exit(main())

#!/bin/bash
# usage: tools/sweep.sh quick|thorough [seed]   — runs every registered check once, one line per check
tier=${1:-quick}; export VERIF_SEED=${2:-1}
cd "$(dirname "$0")/.."
for i in 01 02 03 04 05 06 07 08 09 10 11 12 13 14 15 16 17 18 19 20; do
  s=$(date +%s); out=$(./check C$i --tier $tier 2>&1); rc=$?; e=$(date +%s)
  echo "C$i rc=$rc wall=$((e-s))s $(echo "$out" | grep -E "^C$i " | tail -1)"
  echo "$out" | grep -E "^VIOLATION|^INCONCLUSIVE|BUILD-ERROR" | head -3
done

#!/usr/bin/env python3
"""Writes benign/SUMMARY.md from benign/<id>/{meta,result,result-also}.json."""
import glob
import json
import os

ROOT = os.path.dirname(os.path.dirname(os.path.abspath(__file__)))
rows = []
for d in sorted(glob.glob(os.path.join(ROOT, "benign", "*", ""))):
    m = json.load(open(d + "meta.json"))

    def verdict(fn):
        try:
            r = json.load(open(d + fn))
        except OSError:
            return "-"
        return ", ".join("%s %s: %s" % (x.get("check", r["property"]), x["tier"], "ALARM" if (x["exit"] or x["violations"]) else "green") for x in r["runs"])
    rows.append("| %s | %s | %s | %s | %s |" % (m["id"], m["property"], m["what_changes"].replace("|", "\\|"), verdict("result.json"), verdict("result-also.json")))
with open(os.path.join(ROOT, "benign", "SUMMARY.md"), "w") as f:
    f.write("# Negative control: property-preserving changes (written by independent sub-agents from the property text only)\n\n"
            "A sound check stays green on every one of them (tools/run_benign.py). `own check` = the check of the property the change was written for;\n"
            "`other checks` = the checks of the other properties anchored in a file the patch touches.\n\n"
            "| id | property | what changes | own check | other checks |\n|---|---|---|---|---|\n" + "\n".join(rows) + "\n")
print(len(rows), "rows")

#!/bin/bash
# usage: mk_benign.sh <id> <property> <srcdir> <patch> <notes> "<what changes>"
id=$1; prop=$2; src=$3; patch=$4; notes=$5; what=$6
d=/verif/benign/$id; mkdir -p $d; cp $src/$patch $d/patch.diff; cp $src/$notes $d/notes.md
python3 - "$id" "$prop" "$what" <<'PY'
import json,sys
sid,prop,what=sys.argv[1:4]
json.dump({"id":sid,"property":prop,"what_changes":what,"expectation":"property still holds: every check must stay green",
 "source":"independent sub-agent given only the property text and a scratch worktree"},open('/verif/benign/%s/meta.json'%sid,'w'),indent=1)
PY

#!/usr/bin/env python3
"""Writes seeded/SUMMARY.md from seeded/*/meta.json and result.json."""
import json, os, glob
ROOT = os.path.dirname(os.path.dirname(os.path.abspath(__file__)))
rows = []
for d in sorted(glob.glob(os.path.join(ROOT, "seeded", "*", "meta.json"))):
    m = json.load(open(d))
    rp = os.path.join(os.path.dirname(d), "result.json")
    r = json.load(open(rp)) if os.path.exists(rp) else {}
    c = m.get("confirmed", {})
    conf = "yes" if c.get("suite_passes") and c.get("demo_fails_with_change") and c.get("demo_passes_without_change") else "no" if c else "-"
    last = (r.get("runs") or [{}])[-1]
    rows.append((m["id"], m["property"], m["needs_to_manifest"], conf,
                 ("caught (%s, %ss)" % (last.get("tier"), int(last.get("wall_s", 0)))) if r.get("caught") else ("MISSED" if r else "-"),
                 m.get("history", "")))
with open(os.path.join(ROOT, "seeded", "SUMMARY.md"), "w") as f:
    f.write("# Seeded changes (written by independent sub-agents from the property text only)\n\n")
    f.write("confirmed = applies, compiles, 451/451 tests pass with it, demonstration fails with it and passes without it (tools/confirm_seeded.py).\n")
    f.write("check = result of `./check <property>` on a scratch tree with the change applied (tools/run_seeded.py).\n\n")
    f.write("| id | property | needs, in order to manifest | confirmed | check | history |\n|---|---|---|---|---|---|\n")
    for r in rows:
        f.write("| %s | %s | %s | %s | %s | %s |\n" % r)
    n = len(rows)
    caught = sum(1 for r in rows if r[4].startswith("caught"))
    f.write("\n%d changes, %d caught by the registered checks.\n" % (n, caught))
print("ok", len(rows))
